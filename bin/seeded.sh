#!/bin/bash
# usage: bin/seeded.sh <name> <worktree> <PROP> [budget]
# verifies a seeded change in its worktree (demo fails with the patch, passes without), stores it under /verif/seeded/<name>,
# and runs the property's quick check against a scratch copy of /repo with the patch applied.
set -u
NAME=$1; WT=$2; PROP=$3; BUDGET=${4:-40s}
export GOFLAGS=-mod=mod GOPROXY=off GOSUMDB=off
DST=/verif/seeded/$NAME
mkdir -p $DST
if [ -d "$WT/_seeded" ]; then
  cp $WT/_seeded/patch.diff $DST/ && cp $WT/_seeded/*_test.go $DST/ 2>/dev/null; cp $WT/_seeded/meta.json $DST/agent_meta.json
else
  # re-verification of a stored change in a fresh worktree
  git -C /repo worktree add --detach -f "$WT" HEAD -q || exit 2
fi
cd $WT || exit 2
git checkout -q -- . ; git apply $DST/patch.diff || { echo "patch does not apply"; exit 2; }
cp $DST/*_test.go . 2>/dev/null
go build ./... || { echo "BUILD FAILS with patch"; exit 2; }
W=$(timeout 300 go test ${SEEDED_TEST_FLAGS:-} -vet=off -count=1 -run ZZSeeded . 2>&1 | tail -3 | tr '\n' ' ')
echo "demo WITH patch: $W"
git apply -R $DST/patch.diff
WO=$(timeout 300 go test ${SEEDED_TEST_FLAGS:-} -vet=off -count=1 -run ZZSeeded . 2>&1 | tail -3 | tr '\n' ' ')
echo "demo WITHOUT patch: $WO"
git apply $DST/patch.diff
rm -f zz_seeded_demo_test.go
PASSN=$(go test -json -vet=off -count=1 ./... 2>/dev/null | grep '"Action":"pass"' | grep -c '"Test"')
echo "passing tests with patch (demo removed): $PASSN"
cd /verif
OUT=$(VERIF_BUDGET=$BUDGET ./bin/mutant.sh $DST/patch.diff $PROP 2>&1 | grep "VIOLATION\|rule=\|quick:\|runner:" | cut -c1-400)
echo "$OUT"
python3 - "$DST" "$PROP" "$W" "$WO" "$PASSN" "$OUT" <<'PY'
import sys,json
dst,prop,w,wo,passn,out=sys.argv[1:7]
am=json.load(open(dst+'/agent_meta.json'))
meta={"property":prop,"summary":am.get("summary"),"needs_to_manifest":am.get("needs_to_manifest"),
 "verified":{"demo_with_patch":w,"demo_without_patch":wo,"passing_tests_with_patch":int(passn),"baseline_passing_tests":397},
 "check_run":{"cmd":"VERIF_BUDGET=... bin/mutant.sh seeded/<name>/patch.diff "+prop,"output":out.splitlines()},
 "detected": "VIOLATION" in out}
json.dump(meta,open(dst+'/meta.json','w'),indent=1)
print("detected:",meta["detected"])
PY
