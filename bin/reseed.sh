#!/bin/bash
# usage: bin/reseed.sh <name> <PROP> [budget] — re-runs the property's quick check against a stored seeded change
# (scratch copy of /repo with seeded/<name>/patch.diff applied) and refreshes check_run/detected in its meta.json
set -u
NAME=$1; PROP=$2; BUDGET=${3:-60s}
DST=/verif/seeded/$NAME
cd /verif
OUT=$(VERIF_BUDGET=$BUDGET ./bin/mutant.sh $DST/patch.diff $PROP 2>&1 | grep "VIOLATION\|rule=\|quick:\|runner:" | cut -c1-400)
echo "$OUT"
python3 - "$DST" "$PROP" "$OUT" <<'PY'
import sys,json
dst,prop,out=sys.argv[1:4]
meta=json.load(open(dst+'/meta.json'))
meta["check_run"]={"cmd":"VERIF_BUDGET=... bin/mutant.sh seeded/<name>/patch.diff "+prop,"output":out.splitlines()}
meta["detected"]="VIOLATION" in out
json.dump(meta,open(dst+'/meta.json','w'),indent=1)
print("detected:",meta["detected"])
PY
