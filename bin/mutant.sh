#!/bin/bash
# usage: bin/mutant.sh <patch-file> <PROP> [tier]   — apply a patch to a scratch copy of /repo, run a check against it
set -u
P=$(realpath "$1"); PROP=$2; TIER=${3:-quick}
D=$(mktemp -d /tmp/mut-XXXXXX)
trap 'rm -rf "$D"' EXIT
rsync -a --exclude .git /repo/ "$D/repo/"
( cd "$D/repo" && patch -p1 -s < "$P" ) || { echo "patch failed"; exit 2; }
VERIF_REPO="$D/repo" /verif/bin/check "$PROP" "$TIER"
