#!/bin/bash
# usage: build.sh <outdir> [extra go test -c flags...]
# instruments /repo's current working tree into <outdir>/ov and builds <outdir>/sim.test
set -e
export GOFLAGS=-mod=mod GOPROXY=off GOSUMDB=off GOTOOLCHAIN=local
OUT=$1; shift
REPO=${VERIF_REPO:-/repo}
cd /verif
mkdir -p "$OUT"
go1.26.8 build -o "$OUT/instrument" ./tools/instrument
rm -rf "$OUT/ov"
"$OUT/instrument" -repo "$REPO" -zsimrt /verif/zsimrt -out "$OUT/ov"
go1.26.8 test -c -vet=off -overlay "$OUT/ov/overlay.json" "$@" -o "$OUT/sim.test" ./sim
