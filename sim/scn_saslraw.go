package sim

import (
	"context"
	"encoding/binary"
	"fmt"
	"runtime"
	"time"

	kafka "github.com/segmentio/kafka-go"
	"github.com/segmentio/kafka-go/sasl"
	"github.com/segmentio/kafka-go/sasl/plain"
	"github.com/segmentio/kafka-go/sasl/scram"
)

func init() { Scenarios["saslraw"] = saslrawScenario }

// saslraw (C20): the one response of the Transport/Client stack that is not a
// Kafka frame: after a version-0 SaslHandshake the authentication tokens travel
// as raw [length32][bytes] blobs (protocol.RawExchanger). The broker answers the
// client's first token with a hostile length prefix, some bytes, and then
// closes or stays silent. The call must return, the process must survive, and
// the allocation must stay proportional to the bytes received.

var saslrawDelivered = []int{0, 3, 40}

// SaslRawCases: hostile length value x bytes delivered after it x (close | silent) x mechanism.
func SaslRawCases() int { return (len(hostile32) + 1) * len(saslrawDelivered) * 2 * 2 }

func saslrawScenario(s *Sim, params map[string]string) {
	total := SaslRawCases()
	idx := int((s.T.Run*7919 + s.T.Seed*104729) % uint64(total))
	x := idx
	vi := x % (len(hostile32) + 1)
	x /= len(hostile32) + 1
	nDeliver := saslrawDelivered[x%len(saslrawDelivered)]
	x /= len(saslrawDelivered)
	closeAfter := x%2 == 0
	x /= 2
	useScram := x%2 == 1

	n := NewNet(s)
	n.MinLatency, n.MaxLatency = 300*time.Microsecond, 300*time.Microsecond
	cl := NewCluster(s, n)
	b := cl.AddBroker(1, "")
	b.Versions[17] = [2]int16{0, 0} // SaslHandshake v0 only: raw tokens
	cl.AddTopic("st", 1, func(int) int32 { return 1 })
	mechName := "PLAIN"
	var mech sasl.Mechanism = plain.Mechanism{Username: "alice", Password: "secret"}
	if useScram {
		mechName = "SCRAM-SHA-256"
		m, err := scram.Mechanism(scram.SHA256, "alice", "secret")
		if err != nil {
			s.Fail("SIM", "saslraw-prep", "%v", err)
			return
		}
		mech = m
	}
	var val int64
	if vi < len(hostile32) {
		val = hostile32[vi]
	} else {
		val = int64(nDeliver) + 1 // one more than the broker will ever send
	}
	received := 0
	fired := 0
	cfg := &SASLConfig{Mechanisms: []string{mechName}, Users: map[string]string{"alice": "secret"}, Iters: 4096}
	cfg.RawReply = func(int) ([]byte, bool) {
		fired++
		frame := make([]byte, 4+nDeliver)
		binary.BigEndian.PutUint32(frame, uint32(int32(val)))
		for i := 0; i < nDeliver; i++ {
			frame[4+i] = byte('a' + i%26)
		}
		received += len(frame)
		return frame, closeAfter
	}
	cl.SASL = cfg
	desc := fmt.Sprintf("case %d: %s over SaslHandshake v0, the broker answers the first raw token with length prefix %d followed by %d bytes and then %s",
		idx, mechName, val, nDeliver, map[bool]string{true: "closes", false: "stays silent"}[closeAfter])

	done := false
	var took time.Duration
	var alloc uint64
	var callErr error
	s.Go("case", func() {
		defer func() { done = true }()
		tr := &kafka.Transport{Dial: n.Dialer("saslraw"), ClientID: "saslraw", SASL: mech, DialTimeout: 2 * time.Second, MetadataTTL: 5 * time.Second}
		client := &kafka.Client{Addr: kafka.TCP(b.Addr()), Transport: tr, Timeout: 4 * time.Second}
		var m0, m1 runtime.MemStats
		runtime.ReadMemStats(&m0)
		t0 := s.Now()
		ctx, cancel := context.WithTimeout(context.Background(), 4*time.Second)
		_, callErr = client.Metadata(ctx, &kafka.MetadataRequest{Topics: []string{"st"}})
		cancel()
		took = s.Now() - t0
		runtime.ReadMemStats(&m1)
		alloc = m1.TotalAlloc - m0.TotalAlloc
		tr.CloseIdleConnections()
	})
	s.DoneWhen(func() bool { return done })
	s.AtEnd(func() {
		s.Count("ops")
		s.Count("nontrivial")
		if fired == 0 {
			s.Fail("SIM", "saslraw-not-fired", "%s: no raw token reached the broker", desc)
		}
		if !done {
			s.Fail("C20", "R1-hang", "%s: the call had not returned when the run ended", desc)
		}
		if callErr == nil && len(cfg.Accepted) == 0 {
			s.Fail("C20", "R2-neither-error-nor-message", "%s: the call succeeded although no connection was ever authenticated", desc)
		}
		if took > 4*time.Second+100*time.Millisecond {
			s.Fail("C20", "R1-hang", "%s: the call returned after %v", desc, took)
		}
		// the dial is retried while the call's context lives: every attempt
		// receives the same few bytes
		limit := uint64(64*received) + 1<<20 + uint64(fired)*(256<<10)
		if alloc > limit {
			s.Fail("C20", "R3-allocation", "%s: the call allocated %d bytes for %d bytes received over %d connection attempts (limit %d)", desc, alloc, received, fired, limit)
		}
		// C18: a reply that ends before its announced length (the broker closed)
		// is no acceptance; nothing more may be written on that connection
		if closeAfter && val > int64(nDeliver) {
			for _, cn := range n.Conns() {
				if cn.WritesAfter > 0 {
					s.Fail("C18", "R1-sent-before-authenticated", "%s: the client wrote %d more times on connection c%d after the broker had closed it in the middle of its reply: it went on as if authenticated", desc, cn.WritesAfter, cn.ID)
					break
				}
			}
		}
		s.Stats["saslraw-alloc-kb"] = int(alloc / 1024)
		n.Shutdown()
	})
}
