package sim

import (
	"context"
	"encoding/binary"
	"errors"
	"fmt"
	"io"
	"sort"
	"strings"
	"time"

	kafka "github.com/segmentio/kafka-go"
	rc "verif/sim/refcodec"
)

func init() { Scenarios["group"] = groupScenario }

// ---- consumer protocol (member metadata / assignment) decoding ----

type memberMeta struct {
	Topics   []string
	UserData []byte
}

func decodeMemberMeta(b []byte) (m memberMeta, err error) {
	defer func() {
		if recover() != nil {
			err = errors.New("truncated member metadata")
		}
	}()
	p := 2 // version
	n := int(int32(binary.BigEndian.Uint32(b[p:])))
	p += 4
	for i := 0; i < n; i++ {
		l := int(binary.BigEndian.Uint16(b[p:]))
		p += 2
		m.Topics = append(m.Topics, string(b[p:p+l]))
		p += l
	}
	if p+4 <= len(b) {
		l := int(int32(binary.BigEndian.Uint32(b[p:])))
		p += 4
		if l > 0 {
			m.UserData = b[p : p+l]
		}
	}
	return
}

func decodeAssignment(b []byte) (as map[string][]int32, err error) {
	defer func() {
		if recover() != nil {
			err = errors.New("truncated member assignment")
		}
	}()
	as = map[string][]int32{}
	if len(b) == 0 {
		return
	}
	p := 2
	n := int(int32(binary.BigEndian.Uint32(b[p:])))
	p += 4
	for i := 0; i < n; i++ {
		l := int(binary.BigEndian.Uint16(b[p:]))
		p += 2
		t := string(b[p : p+l])
		p += l
		k := int(int32(binary.BigEndian.Uint32(b[p:])))
		p += 4
		for j := 0; j < k; j++ {
			as[t] = append(as[t], int32(binary.BigEndian.Uint32(b[p:])))
			p += 4
		}
	}
	return
}

// checkGroupAssignment is monitor M-C14: the leader's assignment gives every
// partition of every subscribed topic to exactly one subscriber, evenly.
func checkGroupAssignment(s *Sim, cl *Cluster, g *Group, gr *GenRecord, metas map[string]memberMeta) {
	subs := map[string][]string{} // topic -> subscribing members
	for _, mid := range gr.Members {
		for _, t := range metas[mid].Topics {
			subs[t] = append(subs[t], mid)
		}
	}
	owner := map[string]map[int32]string{}
	load := map[string]map[string]int{}
	for _, mid := range gr.Members {
		as, err := decodeAssignment(gr.Assignments[mid])
		if err != nil {
			s.Fail("C14", "R0-decode", "generation %d: assignment of %s undecodable: %v", gr.Generation, mid, err)
			return
		}
		for t, ps := range as {
			subscribed := false
			for _, st := range metas[mid].Topics {
				if st == t {
					subscribed = true
				}
			}
			if !subscribed && len(ps) > 0 {
				s.Fail("C14", "R1-not-subscribed", "generation %d (%s): member %s got partitions %v of topic %s it does not subscribe to", gr.Generation, gr.Protocol, mid, ps, t)
			}
			for _, p := range ps {
				if owner[t] == nil {
					owner[t] = map[int32]string{}
					load[t] = map[string]int{}
				}
				if o, dup := owner[t][p]; dup {
					s.Fail("C14", "R1-double", "generation %d (%s): %s[%d] assigned to both %s and %s", gr.Generation, gr.Protocol, t, p, o, mid)
				}
				owner[t][p] = mid
				load[t][mid]++
			}
		}
	}
	for t, members := range subs {
		top := cl.Topics[t]
		if top == nil {
			continue
		}
		// The leader reads the topic's partitions after the generation formed
		// and before it syncs: the assignment must cover exactly one of the
		// partition sets the topic had in that window.
		sets := top.SetsSince(gr.At)
		match := false
		for _, ids := range sets {
			if len(ids) != len(owner[t]) {
				continue
			}
			all := true
			for _, id := range ids {
				if _, ok := owner[t][id]; !ok {
					all = false
				}
			}
			match = match || all
		}
		if !match {
			for _, id := range sets[0] {
				if _, ok := owner[t][id]; !ok {
					s.Fail("C14", "R1-unassigned", "generation %d (%s): %s[%d] is assigned to nobody (subscribers %v)", gr.Generation, gr.Protocol, t, id, members)
				}
			}
			var got []int32
			for id := range owner[t] {
				got = append(got, id)
			}
			sort.Slice(got, func(i, j int) bool { return got[i] < got[j] })
			s.Fail("C14", "R1-not-a-partition", "generation %d (%s): topic %s: assigned partitions %v are none of the partition sets the topic had since the generation formed %v", gr.Generation, gr.Protocol, t, got, sets)
		}
		min, max := 1<<30, 0
		for _, m := range members {
			n := load[t][m]
			if n < min {
				min = n
			}
			if n > max {
				max = n
			}
		}
		if max-min > 1 {
			s.Fail("C14", "R2-uneven", "generation %d (%s): topic %s loads differ by %d", gr.Generation, gr.Protocol, t, max-min)
		}
		// R3 (rack-affinity): for every rack, at least min(partitions led in the
		// rack, members in the rack x floor(partitions per member)) of the
		// topic's partitions stay in the rack — measured with the racks the
		// members were configured with, not the ones their metadata carried
		if gr.Protocol == "rack-affinity" && cl.MemberRack != nil && len(top.Hist) == 0 {
			rackOf := map[string]string{}
			known := true
			for _, m := range members {
				r, ok := cl.MemberRack(m)
				known = known && ok
				rackOf[m] = r
			}
			if known && len(members) > 0 {
				per := len(top.Parts) / len(members)
				racks := map[string]bool{}
				for _, m := range members {
					if rackOf[m] != "" {
						racks[rackOf[m]] = true
					}
				}
				for _, rk := range SortedKeys(racks) {
					inRack, led, local := 0, 0, 0
					for _, m := range members {
						if rackOf[m] == rk {
							inRack++
						}
					}
					for _, p := range top.Parts {
						if b := cl.Broker(p.Leader); b != nil && b.Rack == rk {
							led++
							if rackOf[owner[t][p.ID]] == rk {
								local++
							}
						}
					}
					want := inRack * per
					if led < want {
						want = led
					}
					if local < want {
						s.Fail("C14", "R3-rack-affinity", "generation %d: topic %s, rack %q: %d of the %d partitions led in the rack are consumed by its %d members, want at least %d (members' racks %v)", gr.Generation, t, rk, local, led, inRack, want, rackOf)
					}
				}
			}
		}
	}
}

// installAssignmentMonitor checks every assignment a group leader distributes
// through SyncGroup (monitor M-C14).
func installAssignmentMonitor(s *Sim, cl *Cluster) {
	cl.OnStable = func(g *Group, gr *GenRecord) {
		metas := map[string]memberMeta{}
		for _, mid := range gr.Members {
			if m := g.Members[mid]; m != nil {
				for _, p := range m.Protocols {
					if p.Name == gr.Protocol {
						mm, err := decodeMemberMeta(p.Meta)
						if err != nil {
							s.Fail("C04", "R3-member-metadata", "member %s metadata undecodable: %v", mid, err)
						}
						metas[mid] = mm
					}
				}
			}
		}
		checkGroupAssignment(s, cl, g, gr, metas)
	}
}

// ---- scenario ----

type tp struct {
	t string
	p int32
}

type gReader struct {
	k                      int
	clientID               string
	r                      *kafka.Reader
	readMsgAPI             bool // uses ReadMessage (commit inside the call)
	syncCommit             bool
	closed                 bool
	crashed                bool
	appDone                bool
	handed                 map[tp][]int64 // offsets handed to the application, in order
	lastHanded             map[tp]int64
	commitReq              map[tp]int64   // highest offset passed to CommitMessages (or handed by ReadMessage)
	inCall                 bool           // a ReadMessage call is in progress
	failedCalls            int            // ReadMessage calls that failed: each may have dropped (and possibly committed) one message
	resumes                map[tp][]int64 // resume points served by the coordinator to this reader (-1 resolved later)
	resumeLEO              map[tp][]int64
	closeInv, closeRet     int
	closeInvAt, closeRetAt time.Duration
}

type groupState struct {
	s           *Sim
	cl          *Cluster
	g           *Group
	readers     []*gReader
	everHanded  map[tp]map[int64]bool
	seenCommits int
	startFirst  bool
	quiesceAt   time.Duration
	lowest      map[tp]int64
	deferred    []Commit
	censusOK    bool
	closeBound  time.Duration
}

func (st *groupState) readerOfMember(mid string) *gReader {
	for _, r := range st.readers {
		if strings.HasPrefix(mid, r.clientID+"-m") {
			return r
		}
	}
	return nil
}

func (st *groupState) recordHanded(r *gReader, m kafka.Message, viaRead bool) {
	s := st.s
	k := tp{m.Topic, int32(m.Partition)}
	p := st.cl.Part(k.t, k.p)
	if p == nil {
		s.Fail("C03", "R3-unknown-partition", "reader %d was handed a message of %s[%d]", r.k, k.t, k.p)
		return
	}
	// content must be a stored record
	found := false
	for _, rec := range p.Records() {
		if rec.Offset == m.Offset {
			found = string(rec.Value) == string(m.Value)
		}
	}
	if !found {
		s.Fail("C03", "R3-not-stored", "reader %d was handed %s[%d]@%d which is not a stored record (value %q)", r.k, k.t, k.p, m.Offset, trunc(m.Value))
		return
	}
	// R3: continuation of the previous hand-over, or start of a served resume point
	ok := false
	why := ""
	if last, has := r.lastHanded[k]; has && m.Offset == last+1 {
		ok = true
	}
	if !ok {
		rs := r.resumes[k]
		for i := len(rs) - 1; i >= 0 && i >= len(rs)-3; i-- {
			sv := rs[i]
			switch {
			case sv >= 0 && (m.Offset == sv || (sv < p.LogStart && m.Offset == p.LogStart)):
				ok = true
			case sv < 0 && st.startFirst && m.Offset == p.LogStart:
				ok = true
			case sv < 0 && !st.startFirst && m.Offset >= r.resumeLEO[k][i]:
				ok = true // LastOffset resolved somewhere between the OffsetFetch and now
			}
		}
		why = fmt.Sprintf("previous hand-over %v, resume points served %v", r.lastHanded[k], rs)
	}
	if !ok && r.readMsgAPI {
		// ReadMessage commits inside the call and hands the message over
		// afterwards (documented): every call that failed may have dropped one
		// message, so the next hand-over may lie up to `failedCalls` records
		// ahead of a plain continuation / resume point; a re-delivery at or
		// below the last position is never a gap
		slack := int64(r.failedCalls)
		if last, has := r.lastHanded[k]; has && m.Offset <= last+1+slack {
			ok = true
		}
		rs := r.resumes[k]
		for i := len(rs) - 1; i >= 0 && i >= len(rs)-3 && !ok; i-- {
			sv := rs[i]
			if sv < 0 && st.startFirst {
				sv = p.LogStart
			}
			if sv >= 0 && m.Offset >= sv && m.Offset <= sv+slack {
				ok = true
			}
		}
	}
	if !ok {
		s.Fail("C03", "R3-gap", "reader %d was handed %s[%d]@%d which neither continues its previous message nor starts at a committed/start offset the coordinator served (%s)", r.k, k.t, k.p, m.Offset, why)
		return
	}
	r.handed[k] = append(r.handed[k], m.Offset)
	r.lastHanded[k] = m.Offset
	s.Tracef("handed reader%d %s[%d]@%d", r.k, k.t, k.p, m.Offset)
	if st.everHanded[k] == nil {
		st.everHanded[k] = map[int64]bool{}
	}
	st.everHanded[k][m.Offset] = true
	if viaRead {
		if m.Offset > r.commitReq[k] || r.commitReq[k] == 0 {
			r.commitReq[k] = m.Offset
		}
	}
}

// checkCommits is the online monitor for R1/R4 over newly accepted commits.
func (st *groupState) checkCommits() {
	s := st.s
	g := st.g
	for ; st.seenCommits < len(g.Commits); st.seenCommits++ {
		c := g.Commits[st.seenCommits]
		if c.Code != 0 {
			continue
		}
		r := st.readerOfMember(c.Member)
		if r == nil {
			s.Fail("C03", "R1-unknown-member", "commit from unknown member %q", c.Member)
			continue
		}
		k := tp{c.Topic, c.Partition}
		covered := false
		if hi, ok := r.commitReq[k]; ok && c.Offset-1 <= hi {
			covered = true
		}
		if !covered && r.readMsgAPI {
			// the commit may cover the message the in-progress call holds, or
			// messages dropped by earlier failed calls
			hi := int64(-1)
			if l, ok := r.lastHanded[k]; ok {
				hi = l
			}
			for _, sv := range r.resumes[k] {
				if sv < 0 {
					if p := st.cl.Part(k.t, k.p); p != nil {
						if st.startFirst {
							sv = p.LogStart
						} else {
							sv = p.LEO
						}
					}
				}
				if sv-1 > hi {
					hi = sv - 1
				}
			}
			allow := int64(r.failedCalls)
			if r.inCall {
				allow++
			}
			if c.Offset-1 <= hi+allow {
				covered = true
			}
		}
		if !covered {
			s.Fail("C03", "R1-commit-ahead", "coordinator accepted commit %s[%d]=%d from reader %d (member %s, generation %d) but the application only passed offsets up to %v to CommitMessages/ReadMessage", k.t, k.p, c.Offset, r.k, c.Member, c.Generation, r.commitReq[k])
			continue
		}
		// R4: everything below the commit was handed to somebody. For
		// ReadMessage users the message is handed (or counted as dropped by a
		// failed call) only when the call returns, so their commits are
		// re-examined at the end of the run.
		if r.readMsgAPI || st.lostAllowance() > 0 {
			st.deferred = append(st.deferred, c)
		} else {
			st.checkR4(c, r)
		}
	}
}

func (st *groupState) checkR4(c Commit, r *gReader) {
	if !st.startFirst {
		return
	}
	k := tp{c.Topic, c.Partition}
	p := st.cl.Part(k.t, k.p)
	if p == nil {
		st.s.Fail("C03", "R3-unknown-partition", "commit accepted for %s[%d], which does not exist (reader %d, member %s, generation %d)", k.t, k.p, r.k, c.Member, c.Generation)
		return
	}
	missing := 0
	for _, rec := range p.Records() {
		if rec.Offset >= c.Offset {
			break
		}
		if rec.Offset >= st.lowest[k] && !st.everHanded[k][rec.Offset] {
			missing++
		}
	}
	if missing <= st.lostAllowance() {
		return
	}
	for _, rec := range p.Records() {
		if rec.Offset >= c.Offset {
			break
		}
		if rec.Offset < st.lowest[k] {
			continue
		}
		if !st.everHanded[k][rec.Offset] {
			st.s.Fail("C03", "R4-committed-undelivered", "commit %s[%d]=%d accepted (reader %d, member %s, generation %d) although stored record %d was never handed to any application", k.t, k.p, c.Offset, r.k, c.Member, c.Generation, rec.Offset)
			break
		}
	}
}

func groupScenario(s *Sim, params map[string]string) {
	t := s.T
	n := NewNet(s)
	n.MinLatency = time.Duration(t.Range("cfg", 2, 10)) * 100 * time.Microsecond
	n.MaxLatency = n.MinLatency + time.Duration(t.Range("cfg", 0, 3))*time.Millisecond
	cl := NewCluster(s, n)
	nb := t.Range("cfg", 1, 3)
	for i := 1; i <= nb; i++ {
		b := cl.AddBroker(int32(i), "")
		b.Versions[1] = [2]int16{0, Pick(t, "cfg", int16(11), 10, 5, 2)}
		b.Versions[11] = [2]int16{0, Pick(t, "cfg", int16(7), 2, 1)}
		b.Versions[3] = [2]int16{0, Pick(t, "cfg", int16(8), 6, 1)}
	}
	cl.GroupInitialDelay = Pick(t, "cfg", time.Duration(0), 0, 500*time.Millisecond)
	cl.MetaOrder = Pick(t, "cfg", 0, 0, 1, 2, 3) // brokers list partitions in no particular order
	ntop := t.Range("cfg", 1, 2)
	var topics []string
	lo := LayoutOpts{Stream: "layout", Magics: []int8{1}, Codecs: []int8{0, 1, 2}}
	st := &groupState{s: s, cl: cl, everHanded: map[tp]map[int64]bool{}, lowest: map[tp]int64{}}
	for i := 0; i < ntop; i++ {
		name := fmt.Sprintf("g%d", i)
		topics = append(topics, name)
		top := cl.AddTopic(name, t.Range("cfg", 1, 4), func(int) int32 { return int32(1 + t.Intn("cfg", nb)) })
		for _, p := range top.Parts {
			genLog(t, cl, p, lo, 0, t.Range("cfg", 0, 5), fmt.Sprintf("%s-%d-", name, p.ID))
		}
	}
	st.g = cl.group("grp")
	st.startFirst = t.Intn("cfg", 4) != 0
	startOffset := kafka.FirstOffset
	if !st.startFirst {
		startOffset = kafka.LastOffset
	}
	// pre-existing commits for some partitions
	for _, tn := range topics {
		for _, p := range cl.Topics[tn].Parts {
			st.lowest[tp{tn, p.ID}] = 0
			if t.Intn("cfg", 3) == 0 && p.LEO > 0 {
				o := int64(t.Intn("cfg", int(p.LEO)+1))
				if st.g.Offsets[tn] == nil {
					st.g.Offsets[tn] = map[int32]int64{}
				}
				st.g.Offsets[tn][p.ID] = o
				st.lowest[tp{tn, p.ID}] = o
			}
		}
	}

	fmode := t.Intn("cfg", 4)
	if v, ok := params["faults"]; ok {
		fmt.Sscan(v, &fmode)
	}
	groupAPIs := map[int16]bool{8: true, 9: true, 10: true, 11: true, 12: true, 14: true}
	switch fmode {
	case 0, 1:
	case 2:
		cl.F = FaultCfg{ErrorCode: Pick(t, "cfg", 20, 60), APIs: groupAPIs}
	case 3:
		apis := map[int16]bool{1: true, 2: true, 3: true}
		for k := range groupAPIs {
			apis[k] = true
		}
		cl.F = FaultCfg{ErrorCode: 30, CutBeforeApply: 15, CutAfterApply: 15, CutInResponse: 15, Slow: 15, SlowMin: 50 * time.Millisecond, SlowMax: 2 * time.Second, APIs: apis}
	}
	timing := fmode == 3
	st.quiesceAt = time.Duration(t.Range("cfg", 5, 25)) * time.Second
	cl.F.Until = st.quiesceAt

	hb := Pick(t, "cfg", 500*time.Millisecond, time.Second, 3*time.Second)
	defer func() {}()
	session := Pick(t, "cfg", 4*time.Second, 10*time.Second, 30*time.Second)
	rebalance := Pick(t, "cfg", 3*time.Second, 10*time.Second, 30*time.Second)
	commitInterval := Pick(t, "cfg", time.Duration(0), 0, 200*time.Millisecond, time.Second)
	balancers := [][]kafka.GroupBalancer{
		{kafka.RangeGroupBalancer{}}, {kafka.RoundRobinGroupBalancer{}}, {kafka.RackAffinityGroupBalancer{Rack: "r1"}, kafka.RangeGroupBalancer{}},
		{kafka.RangeGroupBalancer{}, kafka.RoundRobinGroupBalancer{}},
	}[t.Intn("cfg", 4)]

	// Close cannot interrupt a join/sync waiting at the coordinator (conn
	// deadlines Timeout+RebalanceTimeout / Timeout+SessionTimeout with the
	// default 5s Timeout), then leaves the group, and fetchers end within
	// MaxWait / ReadBatchTimeout / dial time-out
	st.closeBound = (5*time.Second + rebalance) + (5*time.Second + session) + 10*time.Second + 10*time.Second + 5*time.Second
	mkReader := func(k int) *gReader {
		gr := &gReader{k: k, clientID: fmt.Sprintf("reader%d", k), handed: map[tp][]int64{}, lastHanded: map[tp]int64{}, commitReq: map[tp]int64{},
			resumes: map[tp][]int64{}, resumeLEO: map[tp][]int64{}}
		gr.readMsgAPI = t.Intn("cfg", 3) == 0
		gr.syncCommit = commitInterval == 0
		cfg := kafka.ReaderConfig{
			Brokers:                []string{cl.Brokers[0].Addr()},
			GroupID:                "grp",
			Dialer:                 &kafka.Dialer{DialFunc: n.Dialer(gr.clientID), ClientID: gr.clientID, Timeout: 3 * time.Second},
			MinBytes:               1,
			MaxBytes:               1 << 20,
			MaxWait:                Pick(t, "cfg", 200*time.Millisecond, 2*time.Second),
			QueueCapacity:          Pick(t, "cfg", 1, 5, 100),
			HeartbeatInterval:      hb,
			SessionTimeout:         session,
			RebalanceTimeout:       rebalance,
			JoinGroupBackoff:       Pick(t, "cfg", 200*time.Millisecond, time.Second),
			CommitInterval:         commitInterval,
			StartOffset:            startOffset,
			GroupBalancers:         balancers,
			ReadBackoffMin:         10 * time.Millisecond,
			ReadBackoffMax:         200 * time.Millisecond,
			MaxAttempts:            3,
			WatchPartitionChanges:  t.Intn("cfg", 3) == 0,
			PartitionWatchInterval: time.Second,
		}
		if len(topics) > 1 {
			cfg.GroupTopics = topics
		} else {
			cfg.Topic = topics[0]
		}
		gr.r = kafka.NewReader(cfg)
		return gr
	}

	// monitors
	cl.OnOffsetFetch = func(g *Group, r *Req, topic string, part int32, off int64) {
		cid := clientIDOf(r)
		for _, rd := range st.readers {
			if rd.clientID == cid {
				k := tp{topic, part}
				rd.resumes[k] = append(rd.resumes[k], off)
				leo := int64(0)
				if p := cl.Part(topic, part); p != nil {
					leo = p.LEO
				}
				rd.resumeLEO[k] = append(rd.resumeLEO[k], leo)
			}
		}
	}
	installAssignmentMonitor(s, cl)
	s.OnStep(st.checkCommits)

	expiredCtx := t.Intn("expctx", 3) == 0
	app := func(gr *gReader) {
		s.Go(fmt.Sprintf("app%d", gr.k), func() {
			defer func() { gr.appDone = true; s.Tracef("app%d exits closed=%v crashed=%v", gr.k, gr.closed, gr.crashed) }()
			var pending []kafka.Message
			for !gr.closed && !gr.crashed {
				if s.Failed() {
					return
				}
				ctx, cancel := context.WithTimeout(context.Background(), time.Duration(t.Range("work", 100, 3000))*time.Millisecond)
				if gr.readMsgAPI {
					gr.inCall = true
					m, err := gr.r.ReadMessage(ctx)
					gr.inCall = false
					if err == nil {
						st.recordHanded(gr, m, true)
						s.Count("ops")
					} else {
						gr.failedCalls++
						if errors.Is(err, io.EOF) && gr.closed {
							cancel()
							return
						}
						if errors.Is(err, io.EOF) {
							s.Count("eof-on-open-reader") // connection-level EOF surfaced through runError
						}
					}
				} else {
					expired := false
					if expiredCtx && t.Intn("expctx", 5) == 0 {
						// the application comes back with a context that has
						// already ended (a per-batch deadline that passed while it
						// was busy): the call may hand over a queued message or
						// report the context's error, but must not consume one
						cancel()
						expired = true
						s.Count("fetch-with-ended-context")
					}
					m, err := gr.r.FetchMessage(ctx)
					if expired && err != nil {
						s.Sleep(time.Millisecond)
					}
					if err == nil {
						st.recordHanded(gr, m, false)
						s.Count("ops")
						pending = append(pending, m)
						if t.Intn("work", 3) != 0 {
							// commit what we have (all pending, or only the last)
							msgs := pending
							if t.Intn("work", 2) == 0 {
								msgs = pending[len(pending)-1:]
							}
							for _, pm := range msgs {
								k := tp{pm.Topic, int32(pm.Partition)}
								if pm.Offset > gr.commitReq[k] || gr.commitReq[k] == 0 {
									gr.commitReq[k] = pm.Offset
								}
							}
							cctx, ccancel := context.WithTimeout(context.Background(), time.Duration(t.Range("work", 200, 5000))*time.Millisecond)
							before := len(st.g.Commits)
							cerr := gr.r.CommitMessages(cctx, msgs...)
							ccancel()
							if cerr == nil && gr.syncCommit {
								// R2: the coordinator recorded at least these offsets
								want := map[tp]int64{}
								for _, pm := range msgs {
									k := tp{pm.Topic, int32(pm.Partition)}
									if pm.Offset+1 > want[k] {
										want[k] = pm.Offset + 1
									}
								}
								for k, o := range want {
									ok := false
									for _, c := range st.g.Commits[before:] {
										if c.Code == 0 && c.Topic == k.t && c.Partition == k.p && c.Offset >= o && st.readerOfMember(c.Member) == gr {
											ok = true
										}
									}
									if !ok {
										s.Fail("C03", "R2-sync-commit-not-recorded", "reader %d: synchronous CommitMessages returned nil but the coordinator accepted no commit >= %d for %s[%d] from it during the call", gr.k, o, k.t, k.p)
									}
								}
							}
							if cerr == nil {
								pending = nil
							}
							s.Count("commits")
						}
					} else if errors.Is(err, io.EOF) && gr.closed {
						cancel()
						return
					} else if errors.Is(err, io.EOF) {
						s.Count("eof-on-open-reader")
					}
				}
				cancel()
				if t.Intn("work", 4) == 0 {
					s.Sleep(time.Duration(t.Range("work", 1, 300)) * time.Millisecond)
				} else {
					s.Pause("op")
				}
			}
		})
	}

	nread := t.Range("cfg", 1, 4)
	for k := 0; k < nread; k++ {
		gr := mkReader(k)
		st.readers = append(st.readers, gr)
		delay := time.Duration(0)
		if k > 0 {
			delay = time.Duration(t.Range("work", 0, 8000)) * time.Millisecond
		}
		if delay == 0 {
			app(gr)
		} else {
			g2 := gr
			s.After(delay, fmt.Sprintf("start-app%d", k), func() { app(g2) })
		}
	}
	// membership events before quiescence: close, crash
	nev := t.Range("cfg", 0, 3)
	for i := 0; i < nev; i++ {
		at := time.Duration(t.Range("work", 500, int(st.quiesceAt/time.Millisecond)-1000)) * time.Millisecond
		kind := t.Intn("work", 3)
		who := t.Intn("work", nread)
		s.After(at, "membership", func() {
			gr := st.readers[who]
			if gr.closed || gr.crashed {
				return
			}
			alive := 0
			for _, r := range st.readers {
				if !r.closed && !r.crashed {
					alive++
				}
			}
			if alive <= 1 {
				return
			}
			switch kind {
			case 0, 1:
				gr.closed = true
				s.Count("fault:member-close")
				twice := t.Intn("dblclose", 3) == 0
				again := time.Duration(t.Range("dblclose", 0, 400)) * time.Millisecond
				s.Go(fmt.Sprintf("close%d", gr.k), func() {
					gr.closeInv, gr.closeInvAt = s.Step, s.Now()
					gr.r.Close()
					if gr.closeRet == 0 {
						gr.closeRet, gr.closeRetAt = s.Step, s.Now()
					}
				})
				if twice {
					// a deferred Close and a shutdown handler: the second call
					// arrives while the first is still tearing the reader down;
					// whichever returns first, the reader is shut down by then
					s.Count("reader-closed-twice-concurrently")
					s.Go(fmt.Sprintf("close%d-again", gr.k), func() {
						s.Sleep(again)
						gr.r.Close()
						if gr.closeRet == 0 {
							gr.closeRet, gr.closeRetAt = s.Step, s.Now()
						}
					})
				}
			case 2:
				gr.crashed = true
				n.Blackhole[gr.clientID] = true
				s.Count("fault:member-crash")
			}
		})
	}
	// background producer
	ts := int64(1600000200000)
	nApp := t.Range("cfg", 0, 12)
	for i := 0; i < nApp; i++ {
		at := time.Duration(t.Range("layout", 1, int(st.quiesceAt/time.Millisecond))) * time.Millisecond
		s.After(at, "append", func() {
			tn := topics[t.Intn("layout", len(topics))]
			ps := cl.Topics[tn].Parts
			p := ps[t.Intn("layout", len(ps))]
			k := t.Range("layout", 1, 3)
			b := genBatch(t, lo, p.LEO, k, &ts, fmt.Sprintf("%s-%d-", tn, p.ID))
			cl.AppendPhysical(p, b, k)
		})
	}
	if t.Intn("cfg", 4) == 0 && nb > 1 {
		at := time.Duration(t.Range("fault", 1000, int(st.quiesceAt/time.Millisecond))) * time.Millisecond
		s.After(at, "coordinator-move", func() {
			to := int32(1 + t.Intn("fault", nb))
			cl.MoveCoordinator(st.g, to)
		})
	}

	// end of run: R5 bounded liveness, then close everything
	var finishing, finished bool
	bound := 2*(rebalance+session) + 60*time.Second
	censusDone := false
	s.DoneWhen(func() bool {
		if finished && !censusDone {
			censusDone = true
			s.Go("census", func() {
				// C09.R6: after Close plus the network time-outs nothing is left
				s.Sleep(25 * time.Second)
				if leak := libraryGoroutines(); leak != "" {
					s.Fail("C09", "R6-goroutine-leak", "goroutines with kafka-go frames remain %v after every Reader was closed: %s", 25*time.Second, leak)
				}
				for _, cn := range n.Conns() {
					if strings.HasPrefix(cn.Owner, "reader") && !cn.ClientClosed() {
						s.Fail("C09", "R6-conn-open", "connection c%d opened by %s to %s at %v is still open %v after every Reader was closed", cn.ID, cn.Owner, cn.RemoteAddr(), cn.OpenedAt, 25*time.Second)
					}
				}
				st.censusOK = true
			})
			return false
		}
		if finished {
			return st.censusOK
		}
		if finishing || s.Now() < st.quiesceAt {
			return false
		}
		finishing = true
		s.Go("finisher", func() {
			// heal crashed members' networks so that they can be closed; their
			// applications stay dead (crashed), so they are closed right away
			for _, gr := range st.readers {
				if gr.crashed && !gr.closed {
					delete(n.Blackhole, gr.clientID)
					gr.closed = true
					g2 := gr
					s.Go(fmt.Sprintf("close-crashed%d", gr.k), func() {
						g2.closeInv, g2.closeInvAt = s.Step, s.Now()
						g2.r.Close()
						g2.closeRet, g2.closeRetAt = s.Step, s.Now()
					})
				}
			}
			deadline := s.Now() + bound
			for s.Now() < deadline && !s.Failed() {
				if st.allDelivered() {
					break
				}
				s.Sleep(250 * time.Millisecond)
			}
			if !s.Failed() && !st.allDelivered() && st.startFirst {
				alive := 0
				for _, gr := range st.readers {
					if !gr.closed && !gr.crashed {
						alive++
					}
				}
				if alive > 0 {
					s.Fail("C03", "R5-not-delivered", "%v after the last fault/membership change (bound %v) some stored records were still never handed to any application: %s; %s; goroutines: %s", s.Now()-st.quiesceAt, bound, st.undelivered(), st.missReport(), StuckReport(40))
				}
			}
			for _, gr := range st.readers {
				if !gr.closed {
					gr.closed = true
					gr.closeInv, gr.closeInvAt = s.Step, s.Now()
					gr.r.Close()
					gr.closeRet, gr.closeRetAt = s.Step, s.Now()
				}
			}
			// closes started by membership events must have returned as well
			limit := s.Now() + st.closeBound + 10*time.Second
			for s.Now() < limit {
				all := true
				for _, gr := range st.readers {
					if gr.closeInv != 0 && gr.closeRet == 0 {
						all = false
					}
				}
				if all {
					break
				}
				s.Sleep(500 * time.Millisecond)
			}
			finished = true
		})
		return false
	})
	s.AtEnd(func() {
		st.lifecycleChecks(n, timing)
		st.checkCommits()
		for _, c := range st.deferred {
			if s.Ended != "done" {
				break // a ReadMessage call may still be in progress: no verdict
			}
			if r := st.readerOfMember(c.Member); r != nil {
				// a ReadMessage call still in progress at the end holds one message
				st.checkR4(c, r)
			}
		}
		n.Shutdown()
	})
}

// lostAllowance is the number of records that failed ReadMessage calls may
// have dropped (each failed call at most one), over all ReadMessage users.
func (st *groupState) lostAllowance() int {
	n := 0
	for _, r := range st.readers {
		if r.readMsgAPI {
			n += r.failedCalls
			if r.inCall {
				n++
			}
		}
	}
	return n
}

func (st *groupState) allDelivered() bool {
	u := st.undelivered()
	if u == "" {
		return true
	}
	// records dropped by failed ReadMessage calls are never redelivered once a
	// later commit covered them; one whose commit failed as well (the call
	// returns the commit's error and the message is gone) is redelivered only
	// to a later generation, and a stable group has none
	miss := 0
	for _, tn := range st.cl.TopicNames() {
		for _, p := range st.cl.Topics[tn].Parts {
			k := tp{tn, p.ID}
			committed, ok := st.g.Offsets[tn][p.ID]
			for _, rec := range p.Records() {
				if rec.Offset >= st.lowest[k] && !st.everHanded[k][rec.Offset] {
					if (!ok || rec.Offset >= committed) && st.lostAllowance() == 0 {
						return false // not covered by a commit, no failed ReadMessage call: must still be delivered
					}
					miss++
				}
			}
		}
	}
	return miss <= st.lostAllowance()
}

// missReport: for the diagnosis of R5 — every record never handed, whether a
// commit covers it, and the allowance for failed ReadMessage calls.
func (st *groupState) missReport() string {
	var out []string
	for _, tn := range st.cl.TopicNames() {
		for _, p := range st.cl.Topics[tn].Parts {
			k := tp{tn, p.ID}
			committed, ok := st.g.Offsets[tn][p.ID]
			for _, rec := range p.Records() {
				if rec.Offset >= st.lowest[k] && !st.everHanded[k][rec.Offset] {
					out = append(out, fmt.Sprintf("%s[%d]@%d(committed %d/%v, log end %d)", tn, p.ID, rec.Offset, committed, ok, p.LEO))
				}
			}
		}
	}
	var rd []string
	for _, r := range st.readers {
		rd = append(rd, fmt.Sprintf("reader%d{ReadMessage=%v failedCalls=%d inCall=%v closed=%v crashed=%v}", r.k, r.readMsgAPI, r.failedCalls, r.inCall, r.closed, r.crashed))
	}
	return fmt.Sprintf("missing %v; allowance %d; %v", out, st.lostAllowance(), rd)
}

func (st *groupState) undelivered() string {
	var out []string
	for _, tn := range st.cl.TopicNames() {
		for _, p := range st.cl.Topics[tn].Parts {
			k := tp{tn, p.ID}
			for _, rec := range p.Records() {
				if rec.Offset < st.lowest[k] {
					continue
				}
				if !st.everHanded[k][rec.Offset] {
					out = append(out, fmt.Sprintf("%s[%d]@%d", tn, p.ID, rec.Offset))
					break
				}
			}
		}
	}
	sort.Strings(out)
	return strings.Join(out, " ")
}

var _ = rc.Msg{}

// lifecycleChecks are the C09 rules for Reader.Close evaluated at the end of a
// group run: bounded return, use after close, silence after close, LeaveGroup.
func (st *groupState) lifecycleChecks(n *Net, timing bool) {
	s := st.s
	for _, gr := range st.readers {
		if gr.closeInv != 0 && gr.closeRet == 0 && s.Ended == "steps" && s.Now()-gr.closeInvAt <= st.closeBound {
			// the run used up its step budget while this Close was still within
			// its time bound: not a hang
			s.Count("close-pending-at-step-cap")
			continue
		}
		if gr.closeInv != 0 && gr.closeRet == 0 {
			s.Fail("C09", "R5-reader-close-hung", "reader %d: Close invoked at %v had not returned when the run ended (%s at %v); goroutines: %s", gr.k, gr.closeInvAt, s.Ended, s.Now(), StuckReport(30))
			continue
		}
		if gr.closeRet == 0 {
			continue
		}
		if d := gr.closeRetAt - gr.closeInvAt; d > st.closeBound {
			s.Fail("C09", "R5-reader-close-slow", "reader %d: Close took %v of simulated time (bound %v)", gr.k, d, st.closeBound)
		}
		// R3: use after close: items buffered before Close (messages, error
		// reports) may still be handed out, then io.EOF; never a block
		for _, api := range []string{"FetchMessage", "ReadMessage"} {
			done := false
			for i := 0; i < 300 && !done; i++ {
				ctx, cancel := context.WithTimeout(context.Background(), time.Second)
				var err error
				if api == "FetchMessage" {
					_, err = gr.r.FetchMessage(ctx)
				} else {
					_, err = gr.r.ReadMessage(ctx)
				}
				expired := ctx.Err() != nil
				cancel()
				switch {
				case errors.Is(err, io.EOF):
					done = true
				case expired:
					s.Fail("C09", "R3-use-after-close", "reader %d: %s after Close blocked instead of returning io.EOF", gr.k, api)
					done = true
				}
			}
			if !done {
				s.Fail("C09", "R3-use-after-close", "reader %d: %s after Close never returned io.EOF", gr.k, api)
			}
		}
		// silence after close: nothing from this client arrives later than one
		// network latency after Close returned
		for _, r := range st.cl.Journal {
			if r.API == nil || clientIDOf(r) != gr.clientID {
				continue
			}
			if r.At > gr.closeRetAt+n.MaxLatency+time.Millisecond {
				s.Fail("C09", "R5-request-after-close", "reader %d: %s request arrived at %v, Close had returned at %v", gr.k, r.API.Name, r.At, gr.closeRetAt)
				break
			}
		}
	}
	// LeaveGroup: every member id that was current when its reader closed left
	// the group (only judged without network faults)
	if !timing && st.cl.F.ErrorCode == 0 {
		for _, gr := range st.readers {
			if gr.closeRet == 0 || gr.crashed {
				continue
			}
			for id, m := range st.g.Members {
				_ = m
				if strings.HasPrefix(id, gr.clientID+"-m") {
					s.Fail("C09", "R5-no-leave-group", "reader %d closed (Close returned at %v) but its member id %s is still a member of the group: no LeaveGroup reached the coordinator", gr.k, gr.closeRetAt, id)
				}
			}
		}
	}
}
