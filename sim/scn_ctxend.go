package sim

import (
	"context"
	"errors"
	"fmt"
	"time"

	kafka "github.com/segmentio/kafka-go"
)

func init() { Scenarios["ctxend"] = ctxEndScenario }

// ctxEndScenario (C09, "calls blocked in WriteMessages, FetchMessage,
// CommitMessages or a Transport round trip return promptly with (an error
// wrapping) the context's error when their context ends").
//
// Each run blocks one kind of call on something that cannot end by itself
// before the context does: a broker that never answers one API (the stalled
// connection is only reset a minute later), a destination that swallows
// connection attempts, or a partition without new data; every network
// time-out of the client is set to 30 s or more and the context ends between
// 1 ms and 3 s, by deadline or by an explicit cancel from another goroutine.
// In that configuration the only thing that can end the call is its context,
// so the oracle is exact: the call returns at the very simulated instant the
// context ended, with an error for which errors.Is(err, ctx.Err()) holds.
func ctxEndScenario(s *Sim, params map[string]string) {
	t := s.T
	n := NewNet(s)
	n.MinLatency = time.Duration(t.Range("cfg", 0, 10)) * 100 * time.Microsecond
	n.MaxLatency = n.MinLatency + time.Duration(t.Range("cfg", 0, 10))*100*time.Microsecond
	cl := NewCluster(s, n)
	nb := t.Range("cfg", 1, 3)
	for i := 1; i <= nb; i++ {
		cl.AddBroker(int32(i), "")
	}
	cl.AddTopic("ce", 2, func(int) int32 { return int32(1 + t.Intn("cfg", nb)) })
	for pi := int32(0); pi < 2; pi++ {
		genLog(t, cl, cl.Part("ce", pi), LayoutOpts{Magics: []int8{2}, Codecs: []int8{0}, Stream: "layout"}, 0, t.Range("layout", 1, 3), fmt.Sprintf("ce%d-", pi))
	}
	kind := Pick(t, "cfg", "client-stall", "client-stall", "client-dial", "fetch-idle", "fetch-idle-group", "commit-stall", "write-stall", "write-dial")
	if v, ok := params["kind"]; ok {
		kind = v
	}
	addr := cl.Brokers[0].Addr()
	const long = 30 * time.Second
	logf := kafka.LoggerFunc(func(string, ...interface{}) {})

	type call struct {
		what     string
		ctxEnd   time.Duration // instant the context ends (set when known)
		cancelBy string
		ret      time.Duration
		err      error
		done     bool
		ctxErr   error
	}
	var calls []*call
	// mkctx returns a context that ends after d, by deadline or by cancel from another goroutine
	mkctx := func(c *call) (context.Context, func()) {
		d := time.Duration(t.Range("work", 1, 3000)) * time.Millisecond
		if t.Intn("work", 2) == 0 {
			c.cancelBy = "deadline"
			c.ctxEnd = s.Now() + d
			return context.WithTimeout(context.Background(), d)
		}
		c.cancelBy = "cancel"
		ctx, cancel := context.WithCancel(context.Background())
		s.Go("canceller", func() {
			s.Sleep(d)
			c.ctxEnd = s.Now()
			cancel()
		})
		return ctx, cancel
	}
	finish := func(c *call, ctx context.Context, err error) {
		c.ret, c.err, c.done, c.ctxErr = s.Now(), err, true, ctx.Err()
		s.Count("ops")
	}
	stall := func(keys ...int16) {
		apis := map[int16]bool{}
		for _, k := range keys {
			apis[k] = true
		}
		cl.F = FaultCfg{Stall: 1000, StallReset: 60 * time.Second, APIs: apis}
	}
	var cleanup []func()

	switch kind {
	case "client-stall", "client-dial":
		tr := &kafka.Transport{Dial: n.Dialer("ce-client"), ClientID: "ce", DialTimeout: long, MetadataTTL: long, IdleTimeout: long}
		client := &kafka.Client{Addr: kafka.TCP(addr), Transport: tr, Timeout: long}
		api := t.Intn("cfg", 6)
		if kind == "client-stall" && api < 5 {
			stall([]int16{2, 0, 1, 9, 8}[api])
		}
		if kind == "client-dial" && api == 5 {
			api = 0
		}
		warm := kind == "client-stall" || t.Intn("cfg", 2) == 0
		na := t.Range("cfg", 1, 4)
		s.Go("warmup", func() {
			if warm {
				// connections and metadata exist before anything blocks
				ctx, cancel := context.WithTimeout(context.Background(), 5*time.Second)
				client.Metadata(ctx, &kafka.MetadataRequest{Topics: []string{"ce"}})
				cancel()
			}
			if api == 5 {
				// CreateTopics is answered; the metadata refresh the transport
				// forces right after it is not
				stall(3)
			}
			if kind == "client-dial" {
				for _, b := range cl.Brokers {
					n.DialFault[b.Addr()] = "blackhole"
				}
				tr.CloseIdleConnections()
			}
			for a := 0; a < na; a++ {
				c := &call{}
				calls = append(calls, c)
				s.Go(fmt.Sprintf("c%d", a), func() {
					s.Sleep(time.Duration(t.Range("work", 0, 200)) * time.Millisecond)
					ctx, cancel := mkctx(c)
					defer cancel()
					var err error
					switch api {
					case 0:
						c.what = "Client.ListOffsets"
						_, err = client.ListOffsets(ctx, &kafka.ListOffsetsRequest{Topics: map[string][]kafka.OffsetRequest{"ce": {kafka.FirstOffsetOf(0), kafka.LastOffsetOf(1)}}})
					case 1:
						c.what = "Client.Produce"
						_, err = client.Produce(ctx, &kafka.ProduceRequest{Topic: "ce", Partition: t.Intn("work", 2), RequiredAcks: kafka.RequireAll, Records: kafka.NewRecordReader(kafka.Record{Value: kafka.NewBytes([]byte("v"))})})
					case 2:
						c.what = "Client.Fetch"
						_, err = client.Fetch(ctx, &kafka.FetchRequest{Topic: "ce", Partition: t.Intn("work", 2), Offset: 0, MinBytes: 1, MaxBytes: 1 << 20, MaxWait: time.Second})
					case 3:
						c.what = "Client.OffsetFetch"
						_, err = client.OffsetFetch(ctx, &kafka.OffsetFetchRequest{GroupID: "ceg", Topics: map[string][]int{"ce": {0, 1}}})
					case 5:
						c.what = "Client.CreateTopics (waiting for the metadata refresh that follows)"
						_, err = client.CreateTopics(ctx, &kafka.CreateTopicsRequest{Topics: []kafka.TopicConfig{{Topic: fmt.Sprintf("created-%d", a), NumPartitions: 1, ReplicationFactor: 1}}})
					default:
						c.what = "Client.OffsetCommit"
						_, err = client.OffsetCommit(ctx, &kafka.OffsetCommitRequest{GroupID: "ceg", GenerationID: -1, Topics: map[string][]kafka.OffsetCommit{"ce": {{Partition: 0, Offset: 1}}}})
					}
					finish(c, ctx, err)
				})
			}
		})
		cleanup = append(cleanup, tr.CloseIdleConnections)

	case "fetch-idle", "fetch-idle-group", "commit-stall":
		cfg := kafka.ReaderConfig{Brokers: []string{addr}, Topic: "ce", MinBytes: 1, MaxBytes: 1 << 20, MaxWait: Pick(t, "cfg", 200*time.Millisecond, 2*time.Second),
			Dialer: &kafka.Dialer{DialFunc: n.Dialer("ce-reader"), ClientID: "ce", Timeout: long}, Logger: logf, ErrorLogger: logf, ReadBackoffMin: 50 * time.Millisecond, ReadBackoffMax: time.Second}
		if kind != "fetch-idle" {
			cfg.GroupID = "ce-group"
			cfg.HeartbeatInterval = 500 * time.Millisecond
			cfg.SessionTimeout = long
			cfg.RebalanceTimeout = long
			cfg.CommitInterval = 0 // synchronous commits
		} else {
			cfg.Partition = t.Intn("cfg", 2)
		}
		rd := kafka.NewReader(cfg)
		s.Go("consumer", func() {
			defer rd.Close()
			// drain what is there: afterwards FetchMessage can only wait
			var last kafka.Message
			got := 0
			for {
				ctx, cancel := context.WithTimeout(context.Background(), 8*time.Second)
				m, err := rd.FetchMessage(ctx)
				cancel()
				if err != nil {
					break
				}
				last = m
				got++
			}
			if kind == "commit-stall" {
				if got == 0 {
					s.Count("nothing-to-commit")
					return
				}
				stall(8)
				c := &call{what: "Reader.CommitMessages (synchronous)"}
				calls = append(calls, c)
				ctx, cancel := mkctx(c)
				err := rd.CommitMessages(ctx, last)
				finish(c, ctx, err)
				cancel()
				return
			}
			for i := 0; i < t.Range("work", 1, 3); i++ {
				c := &call{what: "Reader.FetchMessage"}
				if t.Intn("work", 3) == 0 && kind == "fetch-idle-group" {
					c.what = "Reader.ReadMessage"
				}
				calls = append(calls, c)
				ctx, cancel := mkctx(c)
				var err error
				if c.what == "Reader.ReadMessage" {
					_, err = rd.ReadMessage(ctx)
				} else {
					_, err = rd.FetchMessage(ctx)
				}
				finish(c, ctx, err)
				cancel()
			}
		})

	case "write-stall", "write-dial":
		tr := &kafka.Transport{Dial: n.Dialer("ce-writer"), ClientID: "ce", DialTimeout: long, MetadataTTL: long, IdleTimeout: long}
		w := &kafka.Writer{Addr: kafka.TCP(addr), Topic: "ce", Transport: tr, Balancer: &kafka.RoundRobin{}, BatchSize: Pick(t, "cfg", 1, 10), BatchTimeout: Pick(t, "cfg", time.Millisecond, 50*time.Millisecond),
			MaxAttempts: 1, WriteTimeout: long, ReadTimeout: long, RequiredAcks: kafka.RequireAll, Logger: logf, ErrorLogger: logf}
		if kind == "write-stall" {
			stall(0)
		}
		na := t.Range("cfg", 1, 3)
		s.Go("warmup", func() {
			if kind == "write-dial" {
				// metadata is known, the partition leaders then stop accepting connections
				ctx, cancel := context.WithTimeout(context.Background(), 5*time.Second)
				(&kafka.Client{Addr: kafka.TCP(addr), Transport: tr}).Metadata(ctx, &kafka.MetadataRequest{Topics: []string{"ce"}})
				cancel()
				for _, b := range cl.Brokers {
					n.DialFault[b.Addr()] = "blackhole"
				}
				tr.CloseIdleConnections()
			}
			for a := 0; a < na; a++ {
				c := &call{what: "Writer.WriteMessages"}
				calls = append(calls, c)
				s.Go(fmt.Sprintf("w%d", a), func() {
					s.Sleep(time.Duration(t.Range("work", 0, 100)) * time.Millisecond)
					ctx, cancel := mkctx(c)
					err := w.WriteMessages(ctx, kafka.Message{Value: []byte("v1")}, kafka.Message{Value: []byte("v2")})
					finish(c, ctx, err)
					cancel()
				})
			}
		})
		// closing a writer whose batches can never complete would wait for the
		// write time-out: leave it to the end of the bubble
		_ = w
	}

	s.DoneWhen(func() bool { return s.Actors() == 0 })
	s.AtEnd(func() {
		for _, c := range calls {
			if c.what == "" {
				continue
			}
			desc := fmt.Sprintf("%s blocked on %s, context ended by %s at %v", c.what, kind, c.cancelBy, c.ctxEnd)
			if !c.done {
				if s.Ended == "done" {
					s.Fail("SIM", "ctxend-bookkeeping", "%s: call neither returned nor is running", desc)
				} else {
					s.Fail("C09", "R4-call-hung", "%s: the call had not returned when the run ended (%s at %v)", desc, s.Ended, s.Now())
				}
				continue
			}
			if c.ret < c.ctxEnd {
				if c.err == nil {
					s.Count("completed-before-context-ended")
					continue
				}
				s.Fail("C09", "R4-early-error", "%s: the call failed with %v at %v, before its context ended, although nothing else could end it (all network time-outs are %v)", desc, c.err, c.ret, long)
				continue
			}
			if c.ret > c.ctxEnd {
				s.Fail("C09", "R4-ctx-late", "%s: the call returned %v later, at %v (error %v)", desc, c.ret-c.ctxEnd, c.ret, c.err)
				continue
			}
			if c.err == nil {
				s.Count("completed-at-the-instant-the-context-ended")
				continue
			}
			if c.ctxErr == nil || !errors.Is(c.err, c.ctxErr) {
				s.Fail("C09", "R4-ctx-error", "%s: the call returned %q, which does not wrap the context's error %v", desc, c.err.Error(), c.ctxErr)
				continue
			}
			s.Count("returned-with-context-error-at-the-instant")
		}
		for _, f := range cleanup {
			f()
		}
		n.Shutdown()
	})
}
