package sim

import (
	"bytes"
	"context"
	"errors"
	"fmt"
	"io"
	"sort"
	"strings"
	"time"

	kafka "github.com/segmentio/kafka-go"
	rc "verif/sim/refcodec"
)

func init() { Scenarios["writer"] = writerScenario }

// wmsg is one submitted message and everything observed about it.
type wmsg struct {
	id      string
	actor   int
	call    int
	idx     int
	seq     int // per-actor submission sequence number
	topic   string
	key     []byte
	value   []byte
	headers []kafka.Header
	tms     int64 // timestamp in ms, 0 = unset
	chosen  int   // partition chosen by the balancer (-1: Balance never called)
	nChosen int
	comps   int   // Completion calls
	compErr error // error of the (last) Completion call
	c       *wcall
}

type wcall struct {
	actor, call  int
	msgs         []*wmsg
	invoke, ret  int
	retAt        time.Duration
	err          error
	returned     bool
	cancelled    bool          // the actor's context was cancelled / expired
	expectReject string        // "" | "toolarge" | "topic"
	deadline     time.Duration // simulated instant at which the call's context ends (0 = none)
	afterClose   bool          // invoked after Writer.Close had returned
}

type recBalancer struct {
	inner kafka.Balancer
	st    *writerState
}

func (r *recBalancer) Balance(msg kafka.Message, partitions ...int) int {
	p := r.inner.Balance(msg, partitions...)
	st := r.st
	found := false
	for _, q := range partitions {
		if q == p {
			found = true
		}
	}
	if !found {
		st.s.Fail("C13", "R0-offered", "%T returned partition %d which is not among the offered %v", r.inner, p, partitions)
	}
	// the Writer offers the topic's partition ids: 0..n-1, each once
	for i, q := range partitions {
		if q != i {
			st.s.Fail("C13", "R0-offered-list", "the Writer offered the balancer a partition list of %d entries whose entry %d is %d (topic %q)", len(partitions), i, q, msg.Topic)
			break
		}
	}
	topic := msg.Topic
	if topic == "" && st.w != nil {
		topic = st.w.Topic
	}
	if top := st.cl.Topics[topic]; top != nil && len(partitions) != len(top.Parts) && !st.partsChanged {
		st.s.Fail("C13", "R0-offered-list", "the Writer offered the balancer %d partitions for topic %q, which has %d", len(partitions), topic, len(top.Parts))
	}
	if want, name := refBalance(r.inner, msg.Key, len(partitions)); want >= 0 && p != want && found {
		st.s.Fail("C13", "R1-reference-hash", "%s: key %x over %d partitions: got %d, the reference client picks %d", name, msg.Key, len(partitions), p, want)
	}
	if m := st.byID[msgID(msg.Value)]; m != nil {
		m.chosen = p
		m.nChosen++
	}
	return p
}

func msgID(v []byte) string {
	if i := bytes.IndexByte(v, '|'); i > 0 {
		return string(v[:i])
	}
	return ""
}

type writerState struct {
	s                               *Sim
	cl                              *Cluster
	w                               *kafka.Writer
	tr                              *kafka.Transport
	byID                            map[string]*wmsg
	calls                           []*wcall
	batchSize                       int
	batchBytes                      int64
	async                           bool
	acks                            kafka.RequiredAcks
	writeTimeout                    time.Duration
	timingFaults                    bool
	closeInvoked                    int
	closeReturned                   int
	closeInvokedAt, closeReturnedAt time.Duration
	raceClose                       bool
	ownsTransport                   bool          // built by NewWriter: Close is responsible for the Transport too
	stallMax                        time.Duration // goroutines may be descheduled for up to this long (0: never)
	partsChanged                    bool          // the scenario changed a topic's partition count during the run
	seenReq                         int
	// per (topic,partition): applied request indexes in log order
}

func headerEq(a []kafka.Header, b []rc.Header) bool {
	if len(a) != len(b) {
		return false
	}
	for i := range a {
		if a[i].Key != b[i].Key || !bytes.Equal(a[i].Value, b[i].Value) {
			return false
		}
	}
	return true
}

// checkProduce is the online monitor run for every new journal entry:
// C01.R3 (no stray record), C08.R1-R3 (limits), C05 equality.
func (st *writerState) checkNewRequests() {
	s := st.s
	for ; st.seenReq < len(st.cl.Journal); st.seenReq++ {
		r := st.cl.Journal[st.seenReq]
		if !r.Handled && !r.Conn.ServerDead() {
			return // still queued behind an earlier request of its connection
		}
		if r.API == nil || r.Hdr.APIKey != 0 || !r.Handled || r.Fault == "cut-before-apply" {
			continue
		}
		if st.closeReturned > 0 && r.Step > st.closeReturned {
			s.Fail("C09", "R2-after-close", "produce request #%d arrived at step %d after Writer.Close returned at step %d", r.Idx, r.Step, st.closeReturned)
		}
		if want := int16(st.acks); r.Body.I16("acks") != want {
			s.Fail("C04", "R3-acks", "produce request carries acks=%d, writer configured %d", r.Body.I16("acks"), want)
		}
		if len(r.Produced) != 1 {
			s.Fail("C08", "R3-single-partition", "produce request #%d carries %d topic-partitions", r.Idx, len(r.Produced))
			continue
		}
		pb := r.Produced[0]
		n := 0
		var payload, sized int64
		for _, bt := range pb.Batches {
			if bt.Magic == 2 && st.w.Compression != 0 && int8(st.w.Compression) != bt.Codec {
				s.Fail("C05", "R1-codec", "batch codec %d, writer compression %d", bt.Codec, st.w.Compression)
			}
			for _, rec := range bt.Records {
				n++
				m := st.byID[msgID(rec.Value)]
				if m == nil {
					s.Fail("C01", "R3-stray", "produce #%d to %s[%d] carries a record (value %q) that was never submitted", r.Idx, pb.Topic, pb.Partition, trunc(rec.Value))
					continue
				}
				payload += int64(len(m.key) + len(m.value))
				sized += refMsgSize(m)
				if m.topic != pb.Topic {
					s.Fail("C01", "R3-topic", "message %s submitted to topic %s produced to %s", m.id, m.topic, pb.Topic)
				}
				if m.chosen != int(pb.Partition) {
					s.Fail("C01", "R3-partition", "message %s: balancer chose partition %d, produced to %d", m.id, m.chosen, pb.Partition)
				}
				if !bytes.Equal(rec.Value, m.value) || !bytes.Equal(rec.Key, m.key) || (rec.Key == nil) != (m.key == nil) {
					s.Fail("C05", "R1-keyvalue", "message %s: produced key/value differ from submitted (key %q/%q nil=%v/%v)", m.id, trunc(rec.Key), trunc(m.key), rec.Key == nil, m.key == nil)
				}
				if bt.Magic == 2 && !headerEq(m.headers, rec.Headers) {
					s.Fail("C05", "R1-headers", "message %s: produced headers differ from submitted", m.id)
				}
				if bt.Magic >= 1 && m.tms != 0 && rec.Timestamp != m.tms {
					s.Fail("C05", "R1-timestamp", "message %s: produced timestamp %d, submitted %d ms", m.id, rec.Timestamp, m.tms)
				}
				if m.c.expectReject != "" {
					s.Fail("C08", "R4-rejected-sent", "message %s of a call that must be rejected (%s) was produced", m.id, m.c.expectReject)
				}
			}
		}
		if n > st.batchSize {
			s.Fail("C08", "R1-batchsize", "produce #%d carries %d messages, BatchSize %d", r.Idx, n, st.batchSize)
		}
		if payload > st.batchBytes {
			s.Fail("C08", "R2-batchbytes", "produce #%d carries %d payload bytes, BatchBytes %d", r.Idx, payload, st.batchBytes)
		}
		if sized > st.batchBytes && n > 1 {
			s.Fail("C08", "R2-batchbytes-sized", "produce #%d carries %d message bytes (22+key+value+headers each) in %d messages, BatchBytes %d", r.Idx, sized, n, st.batchBytes)
		}
	}
}

func varintLen(i int64) int {
	u := uint64((i << 1) ^ (i >> 63))
	n := 1
	for u >= 0x80 {
		u >>= 7
		n++
	}
	return n
}

// refMsgSize is the documented size measure of a message: the v1 message
// framing (crc, magic, attributes, timestamp, key and value length prefixes)
// plus key, value and var-encoded headers.
func refMsgSize(m *wmsg) int64 {
	n := 4 + 1 + 1 + 8 + 4 + len(m.key) + 4 + len(m.value)
	n += varintLen(int64(len(m.headers)))
	for _, h := range m.headers {
		n += varintLen(int64(len(h.Key))) + len(h.Key) + varintLen(int64(len(h.Value))) + len(h.Value)
	}
	return int64(n)
}

func trunc(b []byte) string {
	if len(b) > 24 {
		return string(b[:24]) + "..."
	}
	return string(b)
}

func reqIDs(r *Req) []string {
	var ids []string
	for _, pb := range r.Produced {
		for _, bt := range pb.Batches {
			for _, rec := range bt.Records {
				ids = append(ids, msgID(rec.Value))
			}
		}
	}
	return ids
}

// cleanSuccess: the request was applied, answered without error, the answer
// reached the client completely, and no fault touched the exchange.
func cleanSuccess(r *Req) bool {
	return r.Fault == "" && r.Applied && r.RespFull && len(r.Produced) == 1 && r.Produced[0].Err == 0 && r.Produced[0].Applied
}

func (st *writerState) finalChecks() {
	s := st.s
	st.checkNewRequests()
	// index: message id -> produce requests containing it, in arrival order
	reqsOf := map[string][]*Req{}
	identity := map[int]string{}
	for _, r := range st.cl.Journal {
		if r.API == nil || r.Hdr.APIKey != 0 {
			continue
		}
		ids := reqIDs(r)
		identity[r.Idx] = strings.Join(ids, ",")
		for _, id := range ids {
			reqsOf[id] = append(reqsOf[id], r)
		}
	}
	acked := func(m *wmsg, before int) (bool, string) {
		for _, r := range reqsOf[m.id] {
			pb := r.Produced[0]
			if pb.Applied && pb.Err == 0 && r.RespFull && (before <= 0 || r.RespFullStep <= before) &&
				pb.Topic == m.topic && int(pb.Partition) == m.chosen {
				return true, ""
			}
		}
		return false, fmt.Sprintf("%d produce requests carried it; none was applied, acknowledged without error and fully delivered", len(reqsOf[m.id]))
	}
	lastClean := func(m *wmsg) bool {
		rs := reqsOf[m.id]
		return len(rs) > 0 && cleanSuccess(rs[len(rs)-1])
	}

	for _, c := range st.calls {
		if !c.returned {
			if s.Ended == "done" || !st.timingFaults {
				s.Fail("C09", "R4-call-hung", "WriteMessages call a%d/c%d never returned (run ended: %s at %v)", c.actor, c.call, s.Ended, s.Now())
			}
			continue
		}
		var werrs kafka.WriteErrors
		isW := errors.As(c.err, &werrs)
		if c.afterClose && !errors.Is(c.err, io.ErrClosedPipe) && c.expectReject == "" {
			s.Fail("C09", "R3-write-after-close", "WriteMessages invoked after Close returned gave %v, want io.ErrClosedPipe", c.err)
		}
		// (a goroutine that may lose the CPU for a moment between any two steps
		// is late by as much, a few times over)
		if c.cancelled && c.deadline > 0 && c.retAt > c.deadline+time.Millisecond+4*st.stallMax {
			s.Fail("C09", "R4-ctx-late", "WriteMessages a%d/c%d returned the context error at %v, %v after its context ended (%v)", c.actor, c.call, c.retAt, c.retAt-c.deadline, c.deadline)
		}
		if c.deadline > 0 && c.returned && c.err == nil && !st.async && c.retAt > c.deadline+time.Millisecond+4*st.stallMax {
			// returned success after the deadline: allowed (the batch completed), nothing to check
		}
		switch {
		case c.expectReject != "":
			if c.err == nil || isW {
				s.Fail("C08", "R4-not-rejected", "call a%d/c%d (%s) returned %v, want a rejection", c.actor, c.call, c.expectReject, c.err)
			}
			if errors.Is(c.err, io.ErrClosedPipe) && st.closeInvoked != 0 && c.ret >= st.closeInvoked {
				break // the writer was closed: that check comes first
			}
			if c.expectReject == "toolarge" && !errors.Is(c.err, kafka.MessageSizeTooLarge) {
				s.Fail("C08", "R4-wrong-error", "call a%d/c%d with an oversized message returned %v", c.actor, c.call, c.err)
			}
		case st.async:
			if c.err != nil && !errors.Is(c.err, io.ErrClosedPipe) && !c.cancelled {
				// metadata errors are legitimate in async mode too
			}
		case c.err == nil:
			for _, m := range c.msgs {
				if ok, why := acked(m, c.ret); !ok {
					s.Fail("C01", "R1-nil-without-ack", "WriteMessages a%d/c%d returned nil at step %d but message %s was not acknowledged: %s", c.actor, c.call, c.ret, m.id, why)
				}
			}
		case isW:
			if len(werrs) != len(c.msgs) {
				s.Fail("C01", "R2-len", "WriteErrors has %d entries for %d messages", len(werrs), len(c.msgs))
				break
			}
			for i, m := range c.msgs {
				if werrs[i] == nil {
					if ok, why := acked(m, c.ret); !ok {
						s.Fail("C01", "R2-nil-entry-without-ack", "WriteErrors[%d] of a%d/c%d is nil but message %s was not acknowledged: %s", i, c.actor, c.call, m.id, why)
					}
				} else if !st.timingFaults && lastClean(m) {
					s.Fail("C01", "R2-error-entry-but-acked", "WriteErrors[%d] of a%d/c%d is %v but the last produce request carrying %s was a clean success", i, c.actor, c.call, werrs[i], m.id)
				}
				if m.comps == 1 && !sameErr(m.compErr, werrs[i]) {
					s.Fail("C01", "R4-completion-mismatch", "message %s: Completion got %v, WriteErrors[%d] is %v", m.id, m.compErr, i, werrs[i])
				}
			}
		}
		// accepted?
		accepted := c.expectReject == "" && (c.err == nil || isW || c.cancelled)
		if !accepted && c.err != nil {
			// validation / metadata / closed errors: nothing of the call may have been sent
			for _, m := range c.msgs {
				if len(reqsOf[m.id]) > 0 && !c.cancelled {
					s.Fail("C08", "R4-failed-call-sent", "call a%d/c%d returned %v but message %s was produced", c.actor, c.call, c.err, m.id)
				}
			}
		}
		if c.err == nil || isW {
			for _, m := range c.msgs {
				if m.comps != 1 {
					s.Fail("C01", "R4-completion-count", "message %s (a%d/c%d, result %v) was passed to Completion %d times", m.id, c.actor, c.call, c.err, m.comps)
				} else if c.err == nil && !st.async && m.compErr != nil {
					s.Fail("C01", "R4-completion-mismatch", "message %s: call returned nil, Completion got %v", m.id, m.compErr)
				} else if st.async {
					if m.compErr == nil {
						if ok, why := acked(m, 0); !ok {
							s.Fail("C01", "R1-async-nil-without-ack", "Completion(nil) for %s but not acknowledged: %s", m.id, why)
						}
					} else if !st.timingFaults && lastClean(m) {
						s.Fail("C01", "R2-async-error-but-acked", "Completion(%v) for %s but its last produce request was a clean success", m.compErr, m.id)
					}
				}
			}
		} else {
			for _, m := range c.msgs {
				if m.comps > 1 {
					s.Fail("C01", "R4-completion-count", "message %s was passed to Completion %d times", m.id, m.comps)
				}
				if c.cancelled && m.nChosen > 0 && len(reqsOf[m.id]) > 0 && m.comps != 1 {
					s.Fail("C01", "R4-completion-count", "message %s of a cancelled call was produced but passed to Completion %d times", m.id, m.comps)
				}
			}
		}
	}

	// R5: one batch identity per message; no copy after a clean success
	for id, rs := range reqsOf {
		first := identity[rs[0].Idx]
		clean := false
		for _, r := range rs {
			if identity[r.Idx] != first {
				s.Fail("C01", "R5-identity", "message %s was sent in two different batches: [%s] and [%s]", id, first, identity[r.Idx])
				break
			}
			if clean {
				s.Fail("C01", "R5-dup-after-ack", "message %s was produced again (request #%d) after request was cleanly acknowledged", id, r.Idx)
				break
			}
			if cleanSuccess(r) && !st.timingFaults {
				clean = true
			}
		}
	}

	// C07: per partition, per actor order
	for _, tn := range st.cl.TopicNames() {
		for _, p := range st.cl.Topics[tn].Parts {
			// applied requests in log order
			var order []int
			seen := map[int]bool{}
			for _, sb := range p.Batches {
				if sb.ReqIdx >= 0 && !seen[sb.ReqIdx] {
					seen[sb.ReqIdx] = true
					order = append(order, sb.ReqIdx)
				}
			}
			type span struct{ min, max int }
			maxSoFar := map[int]int{}    // actor -> max seq in earlier, different batches
			maxIdent := map[int]string{} // actor -> identity that set it
			for _, ri := range order {
				r := st.cl.Journal[ri]
				spans := map[int]*span{}
				last := map[int]int{}
				for _, id := range reqIDs(r) {
					m := st.byID[id]
					if m == nil {
						continue
					}
					if l, ok := last[m.actor]; ok && m.seq < l {
						s.Fail("C07", "R1-intra-batch", "%s[%d] request #%d: actor %d messages out of submission order inside the batch (seq %d after %d)", tn, p.ID, ri, m.actor, m.seq, l)
					}
					last[m.actor] = m.seq
					sp := spans[m.actor]
					if sp == nil {
						sp = &span{m.seq, m.seq}
						spans[m.actor] = sp
					}
					if m.seq < sp.min {
						sp.min = m.seq
					}
					if m.seq > sp.max {
						sp.max = m.seq
					}
				}
				var actors []int
				for a := range spans {
					actors = append(actors, a)
				}
				sort.Ints(actors)
				for _, a := range actors {
					sp := spans[a]
					if mx, ok := maxSoFar[a]; ok && maxIdent[a] != identity[ri] && sp.min <= mx {
						s.Fail("C07", "R2-cross-batch", "%s[%d]: request #%d (batch [%s]) appended actor %d seq %d after an earlier batch [%s] had appended seq %d", tn, p.ID, ri, identity[ri], a, sp.min, maxIdent[a], mx)
					}
					if mx, ok := maxSoFar[a]; !ok || sp.max > mx {
						maxSoFar[a] = sp.max
						maxIdent[a] = identity[ri]
					}
				}
			}
		}
	}
}

func sameErr(a, b error) bool {
	if a == nil || b == nil {
		return a == nil && b == nil
	}
	return a == b || a.Error() == b.Error()
}

func writerScenario(s *Sim, params map[string]string) {
	t := s.T
	n := NewNet(s)
	n.MinLatency = time.Duration(t.Range("cfg", 0, 2)) * time.Millisecond
	n.MaxLatency = n.MinLatency + time.Duration(t.Range("cfg", 0, 8))*time.Millisecond
	cl := NewCluster(s, n)
	cl.ExpectClientID = "sim-writer"
	nb := t.Range("cfg", 1, 4)
	prodCeil := Pick(t, "cfg", int16(8), 7, 5, 3, 2, 1)
	metaCeil := Pick(t, "cfg", int16(8), 6, 4, 1)
	for i := 1; i <= nb; i++ {
		b := cl.AddBroker(int32(i), "")
		b.Versions[0] = [2]int16{0, prodCeil}
		b.Versions[3] = [2]int16{0, metaCeil}
		if t.Intn("cfg", 4) == 0 { // heterogeneous ceilings
			b.Versions[0] = [2]int16{0, Pick(t, "cfg", int16(8), 7, 3, 2)}
		}
	}
	ntop := t.Range("cfg", 1, 2)
	var topics []string
	for i := 0; i < ntop; i++ {
		name := fmt.Sprintf("t%d", i)
		topics = append(topics, name)
		nparts := t.Range("cfg", 1, 4)
		if params["focus"] == "order" {
			nparts = t.Range("cfg", 1, 2)
		} else if i == ntop-1 && t.Intn("cfg", 8) == 0 {
			// a wide topic (the Writer keeps a process-wide cache of partition
			// lists that grows in steps of 128)
			nparts = t.Range("cfg", 129, 300)
		}
		cl.AddTopic(name, nparts, func(int) int32 { return int32(1 + t.Intn("cfg", nb)) })
	}

	st := &writerState{s: s, cl: cl, byID: map[string]*wmsg{}}
	if t.Intn("throttle", 4) == 0 {
		// responses report a quota throttle (informational: they were served)
		cl.ThrottleMs, cl.ThrottleEvery = int32(Pick(t, "throttle", 1, 50, 700)), Pick(t, "throttle", 1, 2, 5)
	}
	st.raceClose = params["close"] == "race"
	if st.raceClose && t.Intn("cfg", 2) == 0 {
		// goroutines may lose the CPU for a moment between any two steps
		s.EnableStalls(Pick(t, "cfg", 30, 150), 2*time.Millisecond)
		st.stallMax = 2 * time.Millisecond
	}
	// faults
	fmode := t.Intn("cfg", 6)
	if v, ok := params["faults"]; ok {
		fmt.Sscan(v, &fmode)
	}
	switch fmode {
	case 0, 1: // fault free
	case 2: // error codes only (exact attribution rules apply)
		cl.F = FaultCfg{ErrorCode: Pick(t, "cfg", 50, 150, 400), APIs: map[int16]bool{0: true}}
	case 3: // lost acks and cuts
		cl.F = FaultCfg{CutAfterApply: Pick(t, "cfg", 30, 100, 250), CutBeforeApply: Pick(t, "cfg", 0, 50), CutInResponse: Pick(t, "cfg", 0, 50, 150), APIs: map[int16]bool{0: true, 3: true}}
		st.timingFaults = true
	case 4: // slow / stall
		cl.F = FaultCfg{Slow: Pick(t, "cfg", 50, 200), Stall: Pick(t, "cfg", 0, 30), SlowMin: 100 * time.Millisecond, SlowMax: 2 * time.Second, APIs: map[int16]bool{0: true, 3: true}}
		st.timingFaults = true
	case 5: // everything
		cl.F = FaultCfg{CutAfterApply: 60, CutBeforeApply: 40, CutInResponse: 40, Slow: 60, Stall: 10, ErrorCode: 100, SlowMin: 50 * time.Millisecond, SlowMax: 1500 * time.Millisecond, APIs: map[int16]bool{0: true, 3: true}}
		st.timingFaults = true
	}
	moves := 0
	if fmode >= 3 && nb > 1 {
		moves = t.Range("cfg", 0, 3)
	}

	focus := params["focus"]
	st.batchSize = Pick(t, "cfg", 1, 2, 3, 5, 10, 100)
	if focus == "order" {
		st.batchSize = Pick(t, "cfg", 2, 2, 3, 4)
	}
	st.batchBytes = int64(Pick(t, "cfg", 1048576, 1048576, 400, 150, 2000))
	if focus == "limits" {
		st.batchSize = Pick(t, "cfg", 1, 2, 3, 4, 5, 7)
		st.batchBytes = int64(Pick(t, "cfg", 120, 150, 200, 333, 400, 1000, 1048576))
	}
	st.async = t.Intn("cfg", 4) == 0
	if focus == "order" {
		// one submitter can only have several batches of a partition in flight
		// when its calls do not wait for each other
		st.async = t.Intn("cfg", 4) != 0
	}
	st.acks = Pick(t, "cfg", kafka.RequireOne, kafka.RequireAll)
	st.writeTimeout = Pick(t, "cfg", 10*time.Second, time.Second, 400*time.Millisecond)
	tr := &kafka.Transport{Dial: n.Dialer("writer"), ClientID: "sim-writer", MetadataTTL: Pick(t, "cfg", 6*time.Second, time.Second, 200*time.Millisecond),
		DialTimeout: 3 * time.Second, IdleTimeout: Pick(t, "cfg", 30*time.Second, 500*time.Millisecond)}
	multiTopic := ntop > 1 || t.Intn("cfg", 3) == 0
	w := &kafka.Writer{
		Addr:            kafka.TCP(cl.Brokers[0].Addr()),
		Transport:       tr,
		BatchSize:       st.batchSize,
		BatchBytes:      st.batchBytes,
		BatchTimeout:    Pick(t, "cfg", time.Millisecond, 10*time.Millisecond, 50*time.Millisecond, time.Second),
		Logger:          kafka.LoggerFunc(func(string, ...interface{}) {}),
		MaxAttempts:     Pick(t, "cfg", 1, 2, 3, 4, 10),
		RequiredAcks:    st.acks,
		Async:           st.async,
		Compression:     kafka.Compression(t.Intn("cfg", 5)),
		WriteTimeout:    st.writeTimeout,
		ReadTimeout:     Pick(t, "cfg", 10*time.Second, time.Second),
		WriteBackoffMin: Pick(t, "cfg", 100*time.Millisecond, 10*time.Millisecond),
		WriteBackoffMax: Pick(t, "cfg", time.Second, 200*time.Millisecond),
	}
	if t.Intn("neww", 4) == 0 {
		// the pre-0.4 constructor: the Writer owns a Transport of its own, which
		// Close also shuts down. (Its dial function resolves and dials with the
		// net package: pointed at the simulated network afterwards.)
		w2 := kafka.NewWriter(kafka.WriterConfig{
			Brokers: []string{cl.Brokers[0].Addr()}, Dialer: &kafka.Dialer{ClientID: "sim-writer", Timeout: 3 * time.Second},
			MaxAttempts: w.MaxAttempts, BatchSize: w.BatchSize, BatchBytes: int(w.BatchBytes), BatchTimeout: w.BatchTimeout,
			ReadTimeout: w.ReadTimeout, WriteTimeout: w.WriteTimeout, RequiredAcks: int(w.RequiredAcks), Async: w.Async, Logger: w.Logger,
			IdleConnTimeout: tr.IdleTimeout, RebalanceInterval: tr.MetadataTTL,
		})
		w2.Compression, w2.WriteBackoffMin, w2.WriteBackoffMax = w.Compression, w.WriteBackoffMin, w.WriteBackoffMax
		tr2 := w2.Transport.(*kafka.Transport)
		tr2.Dial, tr2.DialTimeout = n.Dialer("writer"), tr.DialTimeout
		w, tr = w2, tr2
		st.ownsTransport = true
		s.Count("writer-from-NewWriter")
	}
	if st.timingFaults && !st.raceClose && t.Intn("wstall", 3) == 0 { // (the second user would outlive a Close that races with the actors)
		// Full socket buffers: for a while the broker does not read from one of
		// the Transport's connections, writes to it block until their deadline.
		// A second user of the same Transport, with a longer time-out, keeps
		// the connections' deadlines from being the Writer's own.
		aux := &kafka.Client{Addr: kafka.TCP(cl.Brokers[0].Addr()), Transport: tr, Timeout: 10 * time.Second}
		auxStop := false
		s.Go("aux", func() {
			for i := 0; i < 8 && !auxStop && !s.Failed(); i++ {
				tn := topics[t.Intn("wstall", len(topics))]
				ctx, cancel := context.WithTimeout(context.Background(), 10*time.Second)
				req := map[string][]kafka.OffsetRequest{}
				for pi := range cl.Topics[tn].Parts {
					req[tn] = append(req[tn], kafka.LastOffsetOf(pi))
				}
				aux.ListOffsets(ctx, &kafka.ListOffsetsRequest{Topics: req})
				cancel()
				s.Sleep(time.Duration(t.Range("wstall", 20, 600)) * time.Millisecond)
			}
		})
		for k := 0; k < t.Range("wstall", 1, 3); k++ {
			at := time.Duration(t.Range("wstall", 50, 4000)) * time.Millisecond
			dur := time.Duration(t.Range("wstall", 100, 3000)) * time.Millisecond
			s.After(at, "write-stall", func() {
				var open []*Conn
				for _, c := range n.Conns() {
					if c.Owner == "writer" && !c.ClientClosed() && !c.ServerDead() {
						open = append(open, c)
					}
				}
				if len(open) == 0 {
					return
				}
				c := open[t.Intn("wstall", len(open))]
				c.SetWriteStall(true)
				s.Count("fault:write-stall")
				s.After(dur, "write-stall-ends", func() { c.SetWriteStall(false) })
			})
		}
		s.After(6*time.Second, "aux-stop", func() { auxStop = true })
	}
	for _, b := range cl.Brokers {
		if b.Versions[0][1] < prodCeil {
			prodCeil = b.Versions[0][1]
		}
	}
	if prodCeil < 3 && w.Compression == kafka.Zstd {
		w.Compression = kafka.Gzip // zstd requires record batches v2
	}
	if !multiTopic {
		w.Topic = topics[0]
	}
	var inner kafka.Balancer
	switch t.Intn("cfg", 7) {
	case 0:
		inner = &kafka.RoundRobin{ChunkSize: t.Range("cfg", 0, 3)}
	case 1:
		inner = &kafka.Hash{}
	case 2:
		inner = kafka.CRC32Balancer{Consistent: t.Intn("cfg", 2) == 0}
	case 3:
		inner = kafka.Murmur2Balancer{Consistent: t.Intn("cfg", 2) == 0}
	case 4:
		inner = &kafka.LeastBytes{}
	case 5:
		inner = &kafka.ReferenceHash{}
	case 6:
		inner = &kafka.RoundRobin{}
	}
	w.Balancer = &recBalancer{inner: inner, st: st}
	// an application whose Completion callback takes its time (logging,
	// alerting on failures): the partition's sender waits for it
	compDelay := time.Duration(0)
	if t.Intn("slowcomp", 4) == 0 && !st.raceClose {
		compDelay = time.Duration(t.Range("slowcomp", 20, 600)) * time.Millisecond
	}
	compCalls := 0
	w.Completion = func(msgs []kafka.Message, err error) {
		compCalls++
		if compDelay > 0 && (err != nil || compCalls%3 == 0) {
			s.Count("slow-completion")
			s.Sleep(compDelay)
		}
		for _, km := range msgs {
			if m := st.byID[msgID(km.Value)]; m != nil {
				m.comps++
				m.compErr = err
				if st.closeReturned > 0 {
					s.Fail("C09", "R2-completion-after-close", "Completion for %s ran after Writer.Close returned", m.id)
				}
			} else {
				s.Fail("C01", "R4-completion-stray", "Completion received a message that was never submitted: %q", trunc(km.Value))
			}
		}
	}
	st.w, st.tr = w, tr
	s.OnStep(st.checkNewRequests)

	// leader moves
	for i := 0; i < moves; i++ {
		at := time.Duration(t.Range("fault", 1, 3000)) * time.Millisecond
		s.After(at, "leader-move", func() {
			tn := topics[t.Intn("fault", len(topics))]
			ps := cl.Topics[tn].Parts
			p := ps[t.Intn("fault", len(ps))]
			to := int32(1 + t.Intn("fault", nb))
			if to != p.Leader {
				cl.MoveLeader(p, to)
			}
		})
	}

	// a topic drops out of the metadata for a while (brokers restarting with
	// stale metadata) and comes back: what was queued for it meanwhile fails
	// or is sent, in submission order either way
	if t.Intn("blip", 4) == 0 {
		for i := 0; i < t.Range("blip", 1, 3); i++ {
			at := time.Duration(t.Range("blip", 50, 3000)) * time.Millisecond
			dur := time.Duration(t.Range("blip", 30, 1500)) * time.Millisecond
			tn := topics[t.Intn("blip", len(topics))]
			s.After(at, "topic-hidden", func() { cl.Topics[tn].Hidden = true; s.Count("fault:topic-missing-from-metadata") })
			s.After(at+dur, "topic-back", func() { cl.Topics[tn].Hidden = false })
		}
	}

	// a partition is without a leader for a while (election in progress: the
	// metadata lists it with leader -1 and LEADER_NOT_AVAILABLE) while the
	// other partitions of its topic carry on
	if t.Intn("elect", 4) == 0 {
		for i := 0; i < t.Range("elect", 1, 2); i++ {
			at := time.Duration(t.Range("elect", 20, 3000)) * time.Millisecond
			dur := time.Duration(t.Range("elect", 50, 2000)) * time.Millisecond
			tn := topics[t.Intn("elect", len(topics))]
			pi := t.Intn("elect", len(cl.Topics[tn].Parts))
			to := int32(1 + t.Intn("elect", nb))
			s.After(at, "leader-election", func() {
				p := cl.Topics[tn].Parts[pi]
				if p.Leader < 0 {
					return
				}
				cl.DeposeLeader(p)
				s.Count("fault:leader-election")
				s.After(dur, "leader-elected", func() {
					p.Err = 0
					cl.MoveLeader(p, to)
				})
			})
		}
	}

	nact := t.Range("cfg", 1, 4)
	keys := [][]byte{nil, {}, []byte("k1"), []byte("key-two"), []byte("\xff\x80k3"), []byte("kkkk")}
	for a := 0; a < nact; a++ {
		a := a
		ncalls := t.Range("work", 1, 6)
		if focus == "order" {
			ncalls = t.Range("work", 4, 14)
		}
		s.Go(fmt.Sprintf("w%d", a), func() {
			seq := 0
			for ci := 0; ci < ncalls; ci++ {
				k := t.Range("work", 1, 5)
				if t.Intn("work", 12) == 0 {
					k = t.Range("work", 13, 40) // a call of many messages spread over the partitions
				}
				if focus == "limits" {
					k = t.Range("work", 1, 9)
				}
				if focus == "order" {
					k = t.Range("work", 1, st.batchSize)
				}
				c := &wcall{actor: a, call: ci}
				msgs := make([]kafka.Message, k)
				reject := ""
				if t.Intn("work", 12) == 0 || (focus == "limits" && t.Intn("work", 4) == 0) {
					reject = Pick(t, "work", "toolarge", "topic")
				}
				rejectAt := t.Intn("work", k)
				for j := 0; j < k; j++ {
					m := &wmsg{id: fmt.Sprintf("a%dc%di%d", a, ci, j), actor: a, call: ci, idx: j, seq: seq, chosen: -1, c: c}
					seq++
					m.topic = topics[t.Intn("work", len(topics))]
					if !multiTopic {
						m.topic = topics[0]
					}
					m.key = keys[t.Intn("work", len(keys))]
					pad := Pick(t, "work", 0, 0, 5, 40, 100)
					if st.batchBytes < 1000 {
						// sizes around the limit, but each message must fit on its own
						maxPad := int(st.batchBytes) - 22 - len(m.id) - 1 - len(m.key) - 8
						if pad > maxPad {
							pad = maxPad
						}
						if t.Intn("work", 4) == 0 {
							pad = maxPad - t.Intn("work", 3) // exactly at / just below the limit
						}
						if pad < 0 {
							pad = 0
						}
						if focus == "limits" {
							// sums that hit the limit exactly, one under, one over
							base := 22 + len(m.key) + len(m.id) + 1 + 1
							bb := int(st.batchBytes)
							switch t.Intn("work", 8) {
							case 0:
								pad = bb - base
							case 1:
								pad = bb/2 - base
							case 2:
								pad = bb/2 + 1 - base
							case 3:
								pad = bb/3 - base
							case 4:
								pad = bb - bb/2 - base
							case 5:
								pad = bb/2 - 1 - base
							}
							if pad < 0 {
								pad = 0
							}
						}
					}
					m.value = append([]byte(m.id+"|"), bytes.Repeat([]byte{'x'}, pad)...)
					if t.Intn("work", 3) == 0 && st.batchBytes >= 1000 {
						m.headers = []kafka.Header{{Key: "h", Value: []byte("v")}, {Key: "", Value: nil}}[:t.Range("work", 1, 2)]
					}
					if t.Intn("work", 2) == 0 {
						m.tms = 1600000000000 + int64(t.Intn("work", 1000000))
					}
					km := kafka.Message{Key: m.key, Value: m.value, Headers: m.headers}
					if m.tms != 0 {
						km.Time = time.UnixMilli(m.tms).Add(time.Duration(t.Intn("work", 1000)) * time.Microsecond)
					}
					if multiTopic {
						km.Topic = m.topic
					}
					if reject == "toolarge" && j == rejectAt {
						over := int(st.batchBytes)
						if focus == "limits" && t.Intn("work", 2) == 0 {
							// exactly one byte over the limit
							over = int(st.batchBytes) + 1 - (22 + len(m.key) + len(m.id) + 1 + 1)
							if over < 0 {
								over = int(st.batchBytes)
							}
						}
						m.value = append([]byte(m.id+"|"), bytes.Repeat([]byte{'y'}, over)...)
						m.headers = nil
						km.Value, km.Headers = m.value, nil
					}
					if reject == "topic" && j == rejectAt {
						if multiTopic {
							km.Topic = "" // neither writer nor message topic
						} else {
							km.Topic = topics[0] // both set
						}
					}
					st.byID[m.id] = m
					c.msgs = append(c.msgs, m)
					msgs[j] = km
				}
				c.expectReject = reject
				ctx := context.Background()
				var cancel context.CancelFunc
				if t.Intn("work", 8) == 0 || (st.raceClose && t.Intn("work", 3) == 0) {
					d := time.Duration(t.Range("work", 1, 400)) * time.Millisecond
					ctx, cancel = context.WithTimeout(ctx, d)
					c.deadline = s.Now() + d
				}
				st.calls = append(st.calls, c)
				c.invoke = s.Step
				c.afterClose = st.closeReturned > 0
				err := w.WriteMessages(ctx, msgs...)
				c.ret, c.retAt, c.err, c.returned = s.Step, s.Now(), err, true
				if cancel != nil {
					if ctx.Err() != nil && err != nil && errors.Is(err, ctx.Err()) {
						c.cancelled = true
					}
					cancel()
				}
				if t.Intn("work", 3) == 0 {
					if focus == "order" {
						// submissions timed around the batch timer: before, at and just after its expiry
						s.Sleep(w.BatchTimeout + time.Duration(t.Range("work", -2, 2))*time.Millisecond/2)
					} else {
						s.Sleep(time.Duration(t.Range("work", 0, 100)) * time.Millisecond)
					}
				} else {
					s.Pause("op")
				}
			}
		})
	}
	closing := false
	closed := false
	census := false
	doClose := func() {
		st.closeInvoked, st.closeInvokedAt = s.Step, s.Now()
		w.Close()
		st.closeReturned, st.closeReturnedAt = s.Step, s.Now()
		if !st.ownsTransport { // (a Writer from NewWriter shuts its own Transport down)
			tr.CloseIdleConnections()
		}
		closed = true
	}
	if st.raceClose {
		closing = true
		at := time.Duration(t.Range("work", 0, 3000)) * time.Millisecond
		if t.Intn("work", 2) == 0 {
			// ... or right when a batch timer is due: batches opened by the
			// first writes expire a whole number of BatchTimeouts after the start
			at = time.Duration(t.Range("work", 1, 3))*w.BatchTimeout + time.Duration(t.Intn("work", 3000))*time.Microsecond
		}
		s.After(at, "close-writer", func() { s.Go("closer", doClose) })
	}
	s.DoneWhen(func() bool {
		if s.Actors() > 0 {
			return false
		}
		if !closing {
			closing = true
			s.Go("closer", doClose)
			return false
		}
		if closed && !census {
			census = true
			// R6: after Close plus the network time-outs nothing the Writer or its
			// Transport started is left running
			s.Go("census", func() {
				s.Sleep(tr.DialTimeout + tr.IdleTimeout + st.writeTimeout + 5*time.Second)
				if leak := libraryGoroutines(); leak != "" {
					s.Fail("C09", "R6-goroutine-leak", "goroutines with kafka-go frames remain %v after Writer.Close and Transport.CloseIdleConnections: %s", s.Now()-st.closeReturnedAt, leak)
				}
			})
			return false
		}
		return closed
	})
	s.AtEnd(func() {
		if s.Ended != "done" {
			s.Count("ended:" + s.Ended)
			if st.closeInvoked != 0 && st.closeReturned == 0 {
				s.Fail("C09", "R1-close-hung", "Writer.Close invoked at %v had not returned when the run ended (%s at %v); goroutines: %s", st.closeInvokedAt, s.Ended, s.Now(), StuckReport(30))
			}
		}
		st.finalChecks()
		n.Shutdown()
	})
}
