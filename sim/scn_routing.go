package sim

import (
	"context"
	"fmt"
	"sort"
	"strings"
	"time"

	kafka "github.com/segmentio/kafka-go"
	"github.com/segmentio/kafka-go/protocol"
	rc "verif/sim/refcodec"
)

func init() { Scenarios["routing"] = routingScenario }

// snapshot is one metadata response delivered to the client.
type snapshot struct {
	at         time.Duration
	leaders    map[string]map[int32]int32
	controller int32
	brokers    map[int32]bool
	topics     map[string]int // partition counts
}

func routingScenario(s *Sim, params map[string]string) {
	t := s.T
	n := NewNet(s)
	n.MinLatency = time.Duration(t.Range("cfg", 1, 10)) * 100 * time.Microsecond
	n.MaxLatency = n.MinLatency + time.Duration(t.Range("cfg", 0, 30))*100*time.Microsecond
	cl := NewCluster(s, n)
	cl.LibRange = func(api int16) (int16, int16) {
		k := protocol.ApiKey(api)
		return k.MinVersion(), k.MaxVersion()
	}
	nb := t.Range("cfg", 2, 5)
	hetero := t.Intn("cfg", 3) != 0
	// drawTable gives a broker a version table of its own (stream: cfg at
	// set-up, fault when a broker comes back after an upgrade)
	var drawTable func(b *Broker, stream string)
	for i := 1; i <= nb; i++ {
		b := cl.AddBroker(int32(i), "")
		if hetero {
			drawTable = func(b *Broker, st string) {
				for _, api := range []int16{0, 1, 2, 3, 8, 9, 10, 11, 12, 13, 14, 19, 20, 22} {
					a := rc.Lookup(api)
					lo, hi := a.MinVersion, a.MaxVersion
					if t.Intn(st, 3) == 0 {
						hi = int16(t.Range(st, int(lo), int(hi)))
					}
					if t.Intn(st, 4) == 0 {
						lo = int16(t.Range(st, int(lo), int(hi)))
					}
					b.Versions[api] = [2]int16{lo, hi}
				}
				b.Versions[18] = [2]int16{0, int16(t.Range(st, 0, 3))}
				b.Versions[3] = [2]int16{int16(t.Range(st, 0, 1)), int16(t.Range(st, 1, 8))}
			}
		}
		if hetero {
			// heterogeneous tables: every routed api gets its own [min,max] per broker
			for _, api := range []int16{0, 1, 2, 3, 8, 9, 10, 11, 12, 13, 14, 19, 20, 22} {
				a := rc.Lookup(api)
				lo, hi := a.MinVersion, a.MaxVersion
				if t.Intn("cfg", 3) == 0 {
					hi = int16(t.Range("cfg", int(lo), int(hi)))
				}
				if t.Intn("cfg", 4) == 0 {
					lo = int16(t.Range("cfg", int(lo), int(hi)))
				}
				// keep the ranges the model itself cannot serve out: fetch < 4 has no
				// v2 records, listoffsets 0 has a different shape (supported), fine
				b.Versions[api] = [2]int16{lo, hi}
			}
			// ApiVersions must overlap with what clients send first (v0)
			b.Versions[18] = [2]int16{0, int16(t.Range("cfg", 0, 3))}
			b.Versions[3] = [2]int16{int16(t.Range("cfg", 0, 1)), int16(t.Range("cfg", 1, 8))}
		}
	}
	ntop := t.Range("cfg", 1, 4)
	var topics []string
	for i := 0; i < ntop; i++ {
		name := fmt.Sprintf("rt%d", i)
		topics = append(topics, name)
		top := cl.AddTopic(name, t.Range("cfg", 1, 5), func(int) int32 { return int32(1 + t.Intn("cfg", nb)) })
		for _, p := range top.Parts {
			magic := int8(2)
			for k := 0; k < 3; k++ {
				off := p.LEO
				cl.AppendPhysical(p, rc.Batch{Magic: magic, BaseOffset: off, ProducerID: -1, ProducerEpoch: -1, BaseSequence: -1, FirstTimestamp: 1600000000000 + off, MaxTimestamp: 1600000000000 + off,
					Records: []rc.Record{{Offset: off, Timestamp: 1600000000000 + off, Value: []byte(fmt.Sprintf("%s/%d/%d|", name, p.ID, off))}}}, 1)
			}
		}
	}
	switch t.Intn("cfg", 4) {
	case 0:
		// coordinator lookups that fail (coordinator loading / not available)
		cl.F = FaultCfg{ErrorCode: Pick(t, "cfg", 50, 200), APIs: map[int16]bool{10: true}}
	case 1:
		// a metadata request that is never answered (at most two per run):
		// the refresh gives up after MetadataTTL and the next one follows
		cl.F = FaultCfg{Stall: Pick(t, "cfg", 100, 300), APIs: map[int16]bool{3: true}, StallReset: 30 * time.Second, Max: 2}
	}
	ngrp := t.Range("cfg", 1, 4)
	for gi := 0; gi < ngrp; gi++ {
		cl.group(fmt.Sprintf("rg%d", gi))
	}
	ttl := Pick(t, "cfg", 200*time.Millisecond, time.Second, 6*time.Second)
	tr := &kafka.Transport{Dial: n.Dialer("router"), ClientID: "router", MetadataTTL: ttl, DialTimeout: 2 * time.Second, IdleTimeout: 30 * time.Second}
	// bootstrap: one address, or several (the control connection then fails
	// over to the next address when a broker goes away)
	boot := []string{cl.Brokers[0].Addr()}
	if t.Intn("cfg", 2) == 0 {
		boot = nil
		for _, b := range cl.Brokers {
			boot = append(boot, b.Addr())
		}
		for i := len(boot) - 1; i > 0; i-- {
			j := t.Intn("cfg", i+1)
			boot[i], boot[j] = boot[j], boot[i]
		}
		boot = boot[:t.Range("cfg", 2, len(boot))]
	}
	client := &kafka.Client{Addr: kafka.TCP(boot...), Transport: tr, Timeout: 5 * time.Second}

	restarts := false          // some broker has been restarted in this run
	var downAt []time.Duration // for each broker outage: the instant it began and the instant it ended (pairs)
	elections := false         // some partition has been without a leader in this run
	// metadata snapshots delivered to the client (from the journal, at the end)
	var moves []time.Duration
	var lastEvent time.Duration // last instant the cluster changed
	var resets []time.Duration  // Transport.CloseIdleConnections calls
	if t.Intn("closeidle", 3) == 0 {
		// the application lets go of the Transport's connections in the middle
		// of the run (documented as allowing further use): the next request
		// starts over with the bootstrap address and fresh metadata
		for i := 0; i < t.Range("closeidle", 1, 2); i++ {
			at := time.Duration(t.Range("closeidle", 200, 8000)) * time.Millisecond
			s.After(at, "close-idle", func() {
				s.Go("close-idle", func() {
					resets = append(resets, s.Now())
					tr.CloseIdleConnections()
					resets = append(resets, s.Now())
					lastEvent = s.Now()
					s.Count("transport-CloseIdleConnections-mid-run")
				})
			})
		}
	}
	readdressed := 0
	nmoves := t.Range("cfg", 0, 5)
	endAt := time.Duration(t.Range("cfg", 2, 12)) * time.Second
	for i := 0; i < nmoves; i++ {
		at := time.Duration(t.Range("fault", 100, int(endAt/time.Millisecond))) * time.Millisecond
		kind := t.Intn("fault", 8)
		s.After(at, "cluster-change", func() {
			moves = append(moves, s.Now())
			lastEvent = s.Now()
			switch kind {
			case 7:
				// a broker comes back under another address (a rescheduled pod):
				// same node id, new host name or new port, no absence in between
				b := cl.Broker(int32(1 + t.Intn("fault", nb)))
				isBoot := false
				for _, a := range boot {
					isBoot = isBoot || a == b.Addr()
				}
				if !b.Up || nb < 2 || isBoot {
					break // (bootstrap addresses are what stays put: a client that loses all of them cannot find the cluster again)
				}
				readdressed++
				if t.Intn("fault", 2) == 0 {
					cl.MoveBrokerAddr(b, fmt.Sprintf("%s-r%d", strings.SplitN(b.Host, "-r", 2)[0], readdressed), b.Port)
				} else {
					cl.MoveBrokerAddr(b, b.Host, b.Port+int32(readdressed))
				}
				downAt = append(downAt, s.Now(), s.Now()) // (its connections were reset: the metadata connection may be among them)
			case 6:
				// a leader election in progress: for a while the partition has no
				// leader (metadata: leader -1, LEADER_NOT_AVAILABLE, the in-sync
				// replicas still listed, in no particular order); nothing
				// designates a broker for it until a leader is elected
				tn := topics[t.Intn("fault", len(topics))]
				ps := cl.Topics[tn].Parts
				p := ps[t.Intn("fault", len(ps))]
				if p.Leader < 0 {
					break
				}
				if len(p.ISR) > 1 && t.Intn("fault", 2) == 0 {
					p.ISR = append(append([]int32(nil), p.ISR[1:]...), p.ISR[0])
				}
				cl.DeposeLeader(p)
				elections = true
				s.Count("fault:leader-election")
				dur := time.Duration(t.Range("fault", 50, 3000)) * time.Millisecond
				s.After(dur, "leader-elected", func() {
					to := int32(1 + t.Intn("fault", nb))
					if !cl.Broker(to).Up {
						for _, b := range cl.Brokers {
							if b.Up {
								to = b.ID
							}
						}
					}
					p.Err = 0
					cl.MoveLeader(p, to)
					lastEvent = s.Now()
				})
			case 4, 5:
				// a broker is restarted in place (same id and address) and comes
				// back speaking a different set of versions: a rolling upgrade
				b := cl.Broker(int32(1 + t.Intn("fault", nb)))
				if !b.Up {
					break
				}
				restarts = true
				cl.SetBrokerUp(b, false)
				down := time.Duration(t.Range("fault", 20, 600)) * time.Millisecond
				downAt = append(downAt, s.Now(), s.Now()+down)
				s.After(down, "broker-back", func() {
					if drawTable != nil {
						drawTable(b, "fault")
					}
					cl.SetBrokerUp(b, true)
					lastEvent = s.Now()
				})
			case 0, 1:
				tn := topics[t.Intn("fault", len(topics))]
				ps := cl.Topics[tn].Parts
				p := ps[t.Intn("fault", len(ps))]
				to := int32(1 + t.Intn("fault", nb))
				if to != p.Leader && cl.Broker(to).Up {
					cl.MoveLeader(p, to)
				}
			case 2:
				g := cl.group(fmt.Sprintf("rg%d", t.Intn("fault", ngrp)))
				to := int32(1 + t.Intn("fault", nb))
				if cl.Broker(to).Up {
					cl.MoveCoordinator(g, to)
				}
			case 3:
				to := int32(1 + t.Intn("fault", nb))
				if cl.Broker(to).Up && cl.Controller != to {
					cl.Controller = to
					s.Count("fault:controller-move")
				}
			}
		})
	}

	created := 0
	var quietUntil time.Duration
	nact := t.Range("cfg", 1, 4)
	for a := 0; a < nact; a++ {
		a := a
		s.Go(fmt.Sprintf("r%d", a), func() {
			for s.Now() < endAt && !s.Failed() {
				if d := quietUntil - s.Now(); d > 0 {
					s.Sleep(d) // a period in which nobody uses the transport
					continue
				}
				if t.Intn("work", 25) == 0 {
					// everybody goes quiet for a few metadata TTLs
					quietUntil = s.Now() + time.Duration(t.Range("work", 2, 6))*ttl
					s.Count("quiet-period")
					continue
				}
				ctx, cancel := context.WithTimeout(context.Background(), 3*time.Second)
				tn := topics[t.Intn("work", len(topics))]
				np := len(cl.Topics[tn].Parts)
				part := t.Intn("work", np)
				switch t.Intn("work", 9) {
				case 0:
					client.Produce(ctx, &kafka.ProduceRequest{Topic: tn, Partition: part, RequiredAcks: kafka.RequireOne, Records: kafka.NewRecordReader(kafka.Record{Value: kafka.NewBytes([]byte("routed|"))})})
				case 1:
					res, err := client.Fetch(ctx, &kafka.FetchRequest{Topic: tn, Partition: part, Offset: 0, MinBytes: 1, MaxBytes: 1 << 20, MaxWait: 50 * time.Millisecond})
					if err == nil && res.Records != nil {
						for {
							r, err := res.Records.ReadRecord()
							if err != nil {
								break
							}
							if r.Key != nil {
								r.Key.Close()
							}
							if r.Value != nil {
								r.Value.Close()
							}
						}
					}
				case 2:
					// multi-partition, multi-leader list offsets
					req := map[string][]kafka.OffsetRequest{}
					for _, x := range topics {
						for pi := range cl.Topics[x].Parts {
							if t.Intn("work", 2) == 0 {
								req[x] = append(req[x], kafka.LastOffsetOf(pi))
							}
						}
					}
					if len(req) == 0 {
						req[tn] = []kafka.OffsetRequest{kafka.FirstOffsetOf(part)}
					}
					// (a pooled connection that an earlier outage broke and that has
					// not been used since costs the first request that takes it)
					stale := false
					for _, cn := range n.Conns() {
						if cn.Owner == "router" && cn.ServerDead() && !cn.ClientClosed() {
							stale = true
						}
					}
					lres, lerr := client.ListOffsets(ctx, &kafka.ListOffsetsRequest{Topics: req})
					// once the cluster has been left alone for a few refresh periods
					// every partition is reachable again
					settled := s.Now()-lastEvent > 3*ttl+3*time.Second && cl.F.ErrorCode == 0 && cl.F.Stall == 0 && !stale
					if stale {
						s.Count("call-with-a-stale-pooled-connection")
					}
					for x := range req {
						for _, pp := range cl.Topics[x].Parts {
							if ld := cl.Broker(pp.Leader); ld == nil || ld.Versions[2][1] < int16(protocol.ApiKey(2).MinVersion()) || ld.Versions[2][0] > int16(protocol.ApiKey(2).MaxVersion()) {
								settled = false // (a leader with no ListOffsets version in common: its answers are failures by construction)
							}
						}
					}
					if settled {
						if lerr != nil {
							s.Fail("C12", "R5-unreachable", "Client.ListOffsets failed with %v although nothing has happened in the cluster since %v (now %v, MetadataTTL %v)", lerr, lastEvent, s.Now(), ttl)
						} else {
							for tn2, pos := range lres.Topics {
								for _, po := range pos {
									ld := cl.Broker(cl.Part(tn2, int32(po.Partition)).Leader)
									if ld != nil && ld.Versions[2][1] < int16(protocol.ApiKey(2).MinVersion()) {
										continue // (no ListOffsets version in common with that leader)
									}
									if po.Error != nil {
										s.Fail("C12", "R5-unreachable", "Client.ListOffsets: %s[%d] reports %v although nothing has happened in the cluster since %v (now %v, MetadataTTL %v; leader %d at %s)", tn2, po.Partition, po.Error, lastEvent, s.Now(), ttl, cl.Part(tn2, int32(po.Partition)).Leader, cl.Broker(cl.Part(tn2, int32(po.Partition)).Leader).Addr())
									}
								}
							}
						}
					}
				case 3:
					gid := fmt.Sprintf("rg%d", t.Intn("work", ngrp))
					client.OffsetFetch(ctx, &kafka.OffsetFetchRequest{GroupID: gid, Topics: map[string][]int{tn: {part}}})
				case 4:
					gid := fmt.Sprintf("rg%d", t.Intn("work", ngrp))
					client.OffsetCommit(ctx, &kafka.OffsetCommitRequest{GroupID: gid, GenerationID: -1, Topics: map[string][]kafka.OffsetCommit{tn: {{Partition: part, Offset: 1}}}})
				case 5:
					gid := fmt.Sprintf("rg%d", t.Intn("work", ngrp))
					client.Heartbeat(ctx, &kafka.HeartbeatRequest{GroupID: gid, GenerationID: 1, MemberID: "nobody"})
				case 6:
					created++
					client.CreateTopics(ctx, &kafka.CreateTopicsRequest{Topics: []kafka.TopicConfig{{Topic: fmt.Sprintf("new%d-%d", a, created), NumPartitions: 1, ReplicationFactor: 1}}})
				case 7:
					// R4: topic-filtered metadata equals the projection of a snapshot
					res, err := client.Metadata(ctx, &kafka.MetadataRequest{Topics: []string{tn}})
					if err == nil {
						for _, tp := range res.Topics {
							if tp.Name != tn {
								s.Fail("C12", "R4-metadata-filter", "Client.Metadata(%s) returned topic %s", tn, tp.Name)
							}
							// C19: once the cluster has been left alone for a few
							// refresh periods the cache shows its current leaders
							settled := s.Now()-lastEvent > 3*ttl+2*time.Second && cl.F.ErrorCode == 0
							for _, jr := range cl.Journal {
								if jr.Hdr.APIKey == 3 && jr.Fault == "stall" && jr.At > s.Now()-(3*ttl+2*time.Second) {
									settled = false
								}
							}
							if settled && tp.Error == nil {
								for _, pp := range tp.Partitions {
									if cur := cl.Part(tn, int32(pp.ID)); cur != nil && cur.Leader >= 0 && int32(pp.Leader.ID) != cur.Leader {
										s.Fail("C19", "R4-metadata-stale", "Client.Metadata(%s) reports leader %d for partition %d; the leader has been %d since %v and nothing has happened in the cluster since %v (now %v, MetadataTTL %v)", tn, pp.Leader.ID, pp.ID, cur.Leader, cur.LeaderSince, lastEvent, s.Now(), ttl)
									}
								}
							}
							if tp.Error == nil && len(tp.Partitions) != np {
								s.Fail("C12", "R4-metadata-filter", "Client.Metadata(%s) returned %d partitions, the topic has had %d since creation", tn, len(tp.Partitions), np)
							}
							for _, pp := range tp.Partitions {
								// the leader reported must be a leader this partition has had
								// (while a broker is being restarted it is not in the broker
								// list of the metadata response: the library then has no
								// broker to report for its partitions)
								// (nor while the partition is electing a leader: leader -1)
								if (pp.Leader.ID < 1 || pp.Leader.ID > nb) && !restarts && !elections {
									s.Fail("C12", "R4-metadata-filter", "Client.Metadata(%s) reports leader %d for partition %d", tn, pp.Leader.ID, pp.ID)
								}
							}
						}
						if len(res.Topics) != 1 {
							s.Fail("C12", "R4-metadata-filter", "Client.Metadata(%s) returned %d topics", tn, len(res.Topics))
						}
					}
				case 8:
					// (an application that uses its own name as group id and as transactional id)
					client.InitProducerID(ctx, &kafka.InitProducerIDRequest{TransactionalID: fmt.Sprintf("rg%d", t.Intn("work", ngrp)), TransactionTimeoutMs: 1000})
				}
				cancel()
				s.Count("ops")
				if t.Intn("work", 3) == 0 {
					s.Sleep(time.Duration(t.Range("work", 1, 400)) * time.Millisecond)
				} else {
					s.Pause("op")
				}
			}
		})
	}
	closed, closing := false, false
	s.DoneWhen(func() bool {
		if s.Actors() > 0 {
			return false
		}
		if !closing {
			closing = true
			s.Go("closer", func() { tr.CloseIdleConnections(); closed = true })
			return false
		}
		return closed
	})
	s.AtEnd(func() {
		routingResets = resets
		routingOracle(s, cl, ttl, n.MaxLatency, moves, downAt)
		n.Shutdown()
	})
}

// routingResets: the instants at which the run called
// Transport.CloseIdleConnections (the Transport then starts over without
// metadata: until it has some again, it falls back to its bootstrap address)
var routingResets []time.Duration

func routingOracle(s *Sim, cl *Cluster, ttl, maxLat time.Duration, moves, downAt []time.Duration) {
	lastReset := func(at time.Duration) time.Duration {
		lr := time.Duration(-1)
		for _, x := range routingResets {
			if x <= at && x > lr {
				lr = x
			}
		}
		return lr
	}
	// snapshots, in delivery order
	var snaps []snapshot
	coord := map[string][]struct {
		at   time.Duration
		node int32
	}{}
	coordErrAt := map[string][]time.Duration{} // FindCoordinator answers carrying an error
	for _, r := range cl.Journal {
		if r.API == nil || !r.RespFull || r.Resp == nil {
			continue
		}
		switch r.Hdr.APIKey {
		case 3:
			sn := snapshot{at: r.RespFullAt, leaders: map[string]map[int32]int32{}, controller: r.Resp.I32("controller_id"), brokers: map[int32]bool{}, topics: map[string]int{}}
			if r.Hdr.APIVersion < 1 {
				sn.controller = -1
			}
			for _, b := range r.Resp.Arr("brokers") {
				sn.brokers[b.I32("node_id")] = true
			}
			for _, t := range r.Resp.Arr("topics") {
				m := map[int32]int32{}
				for _, p := range t.Arr("partitions") {
					m[p.I32("partition_index")] = p.I32("leader_id")
				}
				sn.leaders[t.Str("name")] = m
				sn.topics[t.Str("name")] = len(m)
			}
			snaps = append(snaps, sn)
		case 10:
			// (group ids and transactional ids are separate namespaces)
			ck := r.Body.Str("key")
			if r.Body.I8("key_type") == 1 {
				ck = "txn:" + ck
			}
			cks := []string{ck}
			if r.Hdr.APIVersion == 0 {
				// version 0 has no key type: a broker that old has no
				// transaction coordinators, and a client that asks it on behalf
				// of a transactional id is answered as for a group
				cks = []string{ck, "txn:" + ck}
			}
			for _, ck := range cks {
				if r.Resp.I16("error_code") != 0 {
					coordErrAt[ck] = append(coordErrAt[ck], r.RespFullAt)
				}
				if r.Resp.I16("error_code") == 0 {
					k := ck
					coord[k] = append(coord[k], struct {
						at   time.Duration
						node int32
					}{r.RespFullAt, r.Resp.I32("node_id")})
				}
			}
		}
	}
	// window of snapshots a request arriving at t may have been routed with
	window := func(at time.Duration) []snapshot {
		lo := at - ttl - 6*maxLat - 20*time.Millisecond
		var out []snapshot
		last := -1
		for i, sn := range snaps {
			if sn.at > at {
				break
			}
			if sn.at >= lo {
				out = append(out, sn)
			} else {
				last = i
			}
		}
		if last >= 0 {
			out = append(out, snaps[last]) // the newest one before the window is still current at its start
		}
		return out
	}
	for _, r := range cl.Journal {
		if r.API == nil || r.DecodeErr != nil {
			continue
		}
		k := r.Hdr.APIKey
		b := cl.Broker(r.Broker)
		// R2: highest mutually supported version
		lib := protocol.ApiKey(k)
		lmin, lmax := lib.MinVersion(), lib.MaxVersion()
		br := r.BrokerRange
		lo, hi := lmin, lmax
		if br[0] > lo {
			lo = br[0]
		}
		if br[1] < hi {
			hi = br[1]
		}
		if k != 18 && lo <= hi && r.Hdr.APIVersion != hi {
			s.Fail("C12", "R2-version", "%s request to broker %d sent at v%d: library supports [%d,%d], broker advertised [%d,%d], highest common version is v%d", r.API.Name, b.ID, r.Hdr.APIVersion, lmin, lmax, br[0], br[1], hi)
		}
		// R1/R3: destination. (After a mid-run Transport.CloseIdleConnections
		// the requests that were under way keep the connection pool they had
		// taken alive, with its own metadata history and refresh cadence, next
		// to the new one: the journal cannot tell which pool routed a request,
		// so the destination rules stop at the first such call; the rules on
		// results (R5-unreachable, R4-metadata-stale) go on.)
		if len(routingResets) > 0 && r.At >= routingResets[0] {
			continue
		}
		// (A request at a version the broker does not serve — no version in
		// common — is answered by a closed connection; a queue of such requests
		// routed before the first metadata arrived drains one dial at a time
		// and reaches the bootstrap broker long after: their destination says
		// nothing.)
		if r.Note == "unsupported-version" {
			continue
		}
		var want func(sn snapshot) (int32, bool)
		var leaderOf func() *Partition
		what := ""
		switch k {
		case 0:
			td := r.Body.Arr("topic_data")
			if len(td) != 1 || len(td[0].Arr("partition_data")) != 1 {
				continue
			}
			tn, pi := td[0].Str("name"), td[0].Arr("partition_data")[0].I32("index")
			what = fmt.Sprintf("leader of %s[%d]", tn, pi)
			want = func(sn snapshot) (int32, bool) { l, ok := sn.leaders[tn][pi]; return l, ok }
			leaderOf = func() *Partition { return cl.Part(tn, pi) }
		case 1:
			ts := r.Body.Arr("topics")
			if len(ts) != 1 || len(ts[0].Arr("partitions")) != 1 {
				continue
			}
			tn, pi := ts[0].Str("topic"), ts[0].Arr("partitions")[0].I32("partition")
			what = fmt.Sprintf("leader of %s[%d]", tn, pi)
			want = func(sn snapshot) (int32, bool) { l, ok := sn.leaders[tn][pi]; return l, ok }
			leaderOf = func() *Partition { return cl.Part(tn, pi) }
		case 2:
			ts := r.Body.Arr("topics")
			if len(ts) != 1 || len(ts[0].Arr("partitions")) != 1 {
				s.Fail("C12", "R1-listoffsets-not-split", "ListOffsets request #%d to broker %d carries %d topics (must be split per partition)", r.Idx, b.ID, len(ts))
				continue
			}
			tn, pi := ts[0].Str("name"), ts[0].Arr("partitions")[0].I32("partition_index")
			what = fmt.Sprintf("leader of %s[%d]", tn, pi)
			want = func(sn snapshot) (int32, bool) { l, ok := sn.leaders[tn][pi]; return l, ok }
			leaderOf = func() *Partition { return cl.Part(tn, pi) }
		case 19, 20:
			what = "controller"
			want = func(sn snapshot) (int32, bool) { return sn.controller, sn.controller >= 0 }
		case 8, 9, 11, 12, 13, 14, 22:
			gid := r.Body.Str("group_id")
			if k == 22 {
				if r.Body["transactional_id"] == nil {
					continue
				}
				gid = "txn:" + r.Body.Str("transactional_id")
			}
			// the coordinator named by a FindCoordinator answer delivered before
			ok := false
			any := false
			for _, c := range coord[gid] {
				if c.at <= r.At {
					any = true
					if c.node == b.ID {
						ok = true
					}
				}
			}
			if !any && len(coordErrAt[gid]) > 0 {
				s.Fail("C12", "R1-sent-without-coordinator", "%s request for group %s was sent to broker %d although every FindCoordinator answer delivered before it (at %v) carried an error", r.API.Name, gid, b.ID, coordErrAt[gid])
			}
			if any && !ok {
				s.Fail("C12", "R1-wrong-broker", "%s request for group %s arrived at broker %d at %v, which no FindCoordinator answer delivered before had named (answers: %v)", r.API.Name, gid, b.ID, r.At, coord[gid])
			}
			continue
		default:
			continue
		}
		// R3: once a leader has been in place for longer than the metadata TTL
		// plus a round trip (and the cluster answered metadata without faults),
		// requests for its partition must reach it
		if leaderOf != nil {
			// (a client that has never received any metadata has nothing that
			// designates a broker: it falls back to its bootstrap address)
			// (nor one whose request was routed, then dialled and handshaken,
			// just before the first metadata arrived)
			hadMetadata := false
			for _, sn := range snaps {
				if sn.at >= lastReset(r.At) && sn.at <= r.At-6*maxLat-20*time.Millisecond {
					hadMetadata = true
				}
			}
			// (a broker going down in that period may have taken the
			// connection the metadata is refreshed over with it: the refresh is
			// then late by a dial, a back-off and possibly a dial time-out)
			disturbed := false
			if p := leaderOf(); p != nil {
				for i := 0; i+1 < len(downAt); i += 2 {
					// the outage [from, to] (and one TTL after it, for the
					// reconnect) overlaps the period in question
					if from, to := downAt[i], downAt[i+1]+ttl; from <= r.At && to >= p.LeaderSince-ttl {
						disturbed = true
					}
				}
			}
			// (each metadata request that is never answered costs its time-out
			// and the refresh after it)
			var extra time.Duration
			if p := leaderOf(); p != nil {
				for _, jr := range cl.Journal {
					if jr.Hdr.APIKey == 3 && jr.Fault == "stall" && jr.At >= p.LeaderSince-2*ttl-time.Second && jr.At <= r.At {
						extra += 2*ttl + time.Second
					}
				}
			}
			if p := leaderOf(); p != nil && p.Leader != b.ID && hadMetadata && !disturbed && r.At-p.LeaderSince > ttl+12*maxLat+100*time.Millisecond+extra && cl.F.ErrorCode == 0 {
				s.Fail("C12", "R3-stale-leader", "%s request #%d arrived at broker %d at %v, but broker %d has been %s since %v: more than MetadataTTL (%v) plus a round trip ago", r.API.Name, r.Idx, b.ID, r.At, p.Leader, what, p.LeaderSince, ttl)
			}
		}
		w := window(r.At)
		if len(w) == 0 {
			continue
		}
		sinceReset := false
		for _, sn := range snaps {
			if sn.at >= lastReset(r.At) && sn.at <= r.At-6*maxLat-20*time.Millisecond {
				sinceReset = true
			}
		}
		if !sinceReset {
			// the request may have been routed (then dialled, handshaken and
			// sent) before the client had received any metadata at all: it
			// falls back to a bootstrap address
			continue
		}
		ok := false
		var seen []int32
		for _, sn := range w {
			if l, has := want(sn); has {
				seen = append(seen, l)
				if l == b.ID {
					ok = true
				}
			} else {
				// a snapshot that does not know the partition (a topic created
				// a moment ago) designates nobody: a request routed with it goes
				// over the connection to the cluster, whichever broker that is
				ok = true
			}
		}
		if len(seen) > 0 && !ok {
			sort.Slice(seen, func(i, j int) bool { return seen[i] < seen[j] })
			s.Fail("C12", "R1-wrong-broker", "%s request #%d arrived at broker %d at %v, but every metadata snapshot delivered in the %v before (MetadataTTL %v) designates %v as %s", r.API.Name, r.Idx, b.ID, r.At, ttl+6*maxLat+20*time.Millisecond, ttl, seen, what)
		}
	}
}
