package sim

import (
	"encoding/hex"
	"fmt"
	"hash"
	"strings"

	"github.com/anishathalye/porcupine"
	kafka "github.com/segmentio/kafka-go"
)

func init() { Scenarios["balancers"] = balancersScenario }

// ---------------------------------------------------------------------------
// reference implementations, written from the descriptions of the reference
// clients (Sarama hash partitioners, librdkafka consistent partitioner, Java
// default partitioner), sharing no code with balancer.go or the standard
// library hashes it uses.

func refFNV1a(key []byte) uint32 {
	h := uint32(2166136261)
	for _, b := range key {
		h ^= uint32(b)
		h *= 16777619
	}
	return h
}

// Sarama NewHashPartitioner: int32(hash) % n, negated when negative.
func refSaramaHash(key []byte, n int) int {
	p := int32(refFNV1a(key)) % int32(n)
	if p < 0 {
		p = -p
	}
	return int(p)
}

// Sarama NewReferenceHashPartitioner: (int32(hash) & 0x7fffffff) % n.
func refSaramaReferenceHash(key []byte, n int) int {
	return int((int32(refFNV1a(key)) & 0x7fffffff) % int32(n))
}

// bit-at-a-time CRC-32 (IEEE 802.3, reflected, as used by librdkafka's rd_crc32)
func refCRC32(data []byte) uint32 {
	crc := ^uint32(0)
	for _, b := range data {
		crc ^= uint32(b)
		for i := 0; i < 8; i++ {
			if crc&1 != 0 {
				crc = crc>>1 ^ 0xEDB88320
			} else {
				crc >>= 1
			}
		}
	}
	return ^crc
}

// org.apache.kafka.common.utils.Utils.murmur2, transcribed with Java's int
// arithmetic (int32 with wrap-around, >>> as unsigned shift).
func refJavaMurmur2(data []byte) int32 {
	length := int32(len(data))
	seed := int32(-1756908916) // 0x9747b28c
	const m = int32(0x5bd1e995)
	const r = 24
	ushr := func(x int32, n uint) int32 { return int32(uint32(x) >> n) }
	h := seed ^ length
	length4 := length / 4
	for i := int32(0); i < length4; i++ {
		i4 := i * 4
		k := (int32(data[i4+0]) & 0xff) + ((int32(data[i4+1]) & 0xff) << 8) + ((int32(data[i4+2]) & 0xff) << 16) + ((int32(data[i4+3]) & 0xff) << 24)
		k *= m
		k ^= ushr(k, r)
		k *= m
		h *= m
		h ^= k
	}
	base := length &^ 3
	switch length % 4 {
	case 3:
		h ^= (int32(data[base+2]) & 0xff) << 16
		fallthrough
	case 2:
		h ^= (int32(data[base+1]) & 0xff) << 8
		fallthrough
	case 1:
		h ^= int32(data[base]) & 0xff
		h *= m
	}
	h ^= ushr(h, 13)
	h *= m
	h ^= ushr(h, 15)
	return h
}

// Java: Utils.toPositive(murmur2(key)) % numPartitions
func refJavaPartition(key []byte, n int) int {
	return int((refJavaMurmur2(key) & 0x7fffffff) % int32(n))
}

// refBalance returns the partition the reference client would pick, or -1
// when the reference picks any partition (random / round-robin rules).
func refBalance(b kafka.Balancer, key []byte, n int) (int, string) {
	switch x := b.(type) {
	case *kafka.Hash:
		if key == nil {
			return -1, "Hash"
		}
		return refSaramaHash(key, n), "Hash (Sarama FNV-1a)"
	case *kafka.ReferenceHash:
		if key == nil {
			return -1, "ReferenceHash"
		}
		return refSaramaReferenceHash(key, n), "ReferenceHash (Sarama reference FNV-1a)"
	case kafka.CRC32Balancer:
		if len(key) == 0 && !x.Consistent {
			return -1, "CRC32Balancer"
		}
		return int(refCRC32(key) % uint32(n)), "CRC32Balancer (librdkafka consistent)"
	case kafka.Murmur2Balancer:
		if key == nil && !x.Consistent {
			return -1, "Murmur2Balancer"
		}
		return refJavaPartition(key, n), "Murmur2Balancer (Java default partitioner)"
	}
	return -1, ""
}

// pausingFNV is a hash.Hash32 whose Write yields to the scheduler half-way:
// a Balancer that shares it between goroutines without holding its lock for
// the whole Reset/Write/Sum32 sequence mixes two keys.
type pausingFNV struct {
	s *Sim
	h uint32
}

func (p *pausingFNV) Reset() { p.h = 2166136261 }
func (p *pausingFNV) Write(b []byte) (int, error) {
	for i, c := range b {
		if i == len(b)/2 {
			p.s.Pause("hasher")
		}
		p.h ^= uint32(c)
		p.h *= 16777619
	}
	return len(b), nil
}
func (p *pausingFNV) Sum32() uint32       { return p.h }
func (p *pausingFNV) Sum(b []byte) []byte { return b }
func (p *pausingFNV) Size() int           { return 4 }
func (p *pausingFNV) BlockSize() int      { return 1 }

var _ hash.Hash32 = (*pausingFNV)(nil)

func contiguous(n int) []int {
	ps := make([]int, n)
	for i := range ps {
		ps[i] = i
	}
	return ps
}

// boundaryKeys hash to the boundary values of the three hash functions
// (0, 0x7fffffff, 0x80000000, 0x80000001, 0xffffffff): the sign handling of
// the partitioners differs exactly there. Found by exhaustive search over
// 4- and 5-byte keys; refSelfTest re-checks them against the references.
var boundaryKeys = map[string]uint32{
	"fnv:060080d655": 0x80000000, "fnv:2600810c46": 0x80000000, "fnv:3c002f1833": 0xffffffff, "fnv:2ea06dcf": 0x7fffffff,
	"fnv:cc2431c4": 0, "fnv:f534177a": 0x80000001,
	"crc32:4e85ec36": 0x80000000, "crc32:2c70caa4": 0x7fffffff, "crc32:0f839ded": 0x80000001, "crc32:9d0ad96d": 0, "crc32:ffffffff": 0xffffffff,
	"murmur2:a7d6506c": 0x80000000, "murmur2:027d5343": 0x7fffffff, "murmur2:3334f6a5": 0x80000001, "murmur2:a5d4305c": 0xffffffff, "murmur2:e3871844": 0,
}

var boundaryList [][]byte

func init() {
	for _, k := range SortedKeys(boundaryKeys) {
		i := strings.IndexByte(k, ':')
		key, _ := hex.DecodeString(k[i+1:])
		var got uint32
		switch k[:i] {
		case "fnv":
			got = refFNV1a(key)
		case "crc32":
			got = refCRC32(key)
		default:
			got = uint32(refJavaMurmur2(key))
		}
		if got != boundaryKeys[k] {
			panic(fmt.Sprintf("boundary key %s: reference hash %08x, expected %08x", k, got, boundaryKeys[k]))
		}
		boundaryList = append(boundaryList, key)
	}
}

func genKey(t *Tape) []byte {
	switch t.Intn("work", 12) {
	case 0:
		return nil
	case 1:
		return []byte{}
	case 2:
		return boundaryList[t.Intn("work", len(boundaryList))]
	}
	l := Pick(t, "work", 1, 2, 3, 4, 5, 6, 7, 8, 9, 15, 16, 17, 31, 64, 255)
	k := make([]byte, l)
	for i := range k {
		switch t.Intn("work", 4) {
		case 0:
			k[i] = byte(0x80 + t.Intn("work", 128)) // high bit set
		case 1:
			k[i] = 0xff
		default:
			k[i] = byte(t.Intn("work", 256))
		}
	}
	return k
}

type balIn struct {
	n    int
	size uint64
}

type lbState struct {
	n int
	c [8]uint64
}

func balancersScenario(s *Sim, params map[string]string) {
	t := s.T
	mode := Pick(t, "cfg", "pure", "rr", "rr", "lb", "lb", "hash-shared")
	if v, ok := params["mode"]; ok {
		mode = v
	}
	var ops []porcupine.Operation
	ev := int64(0)
	stamp := func() int64 { ev++; return ev }
	var model porcupine.Model
	var after func()

	switch mode {
	case "pure":
		// (b) reference hashes: input generation, not simulation
		for i := 0; i < 300; i++ {
			key := genKey(t)
			n := Pick(t, "work", 1, 2, 3, 4, 5, 6, 7, 8, 12, 16, 31, 32, 50, 100, 997, 1000)
			var b kafka.Balancer
			switch t.Intn("work", 6) {
			case 0:
				b = &kafka.Hash{}
			case 1:
				b = &kafka.ReferenceHash{}
			case 2:
				b = kafka.CRC32Balancer{Consistent: true}
			case 3:
				b = kafka.CRC32Balancer{}
			case 4:
				b = kafka.Murmur2Balancer{Consistent: true}
			default:
				b = kafka.Murmur2Balancer{}
			}
			got := b.Balance(kafka.Message{Key: key, Value: []byte("v")}, contiguous(n)...)
			want, name := refBalance(b, key, n)
			s.Count("hash-cases")
			if got < 0 || got >= n {
				s.Fail("C13", "R0-offered", "%s returned partition %d for key %x (nil=%v) with %d partitions offered", name, got, key, key == nil, n)
			} else if want >= 0 && got != want {
				s.Fail("C13", "R1-reference-hash", "%s: key %x (nil=%v), %d partitions: got %d, the reference client picks %d", name, key, key == nil, n, got, want)
			} else if want >= 0 {
				// purity: same answer again
				if again := b.Balance(kafka.Message{Key: key, Value: []byte("other value")}, contiguous(n)...); again != got {
					s.Fail("C13", "R1-pure", "%s: key %x gave %d then %d", name, key, got, again)
				}
			}
		}
		s.DoneWhen(func() bool { return true })
		return

	case "rr":
		chunk := Pick(t, "cfg", 0, 1, 1, 2, 3, 5)
		rr := &kafka.RoundRobin{ChunkSize: chunk}
		eff := chunk
		if eff < 1 {
			eff = 1
		}
		nfix := Pick(t, "cfg", 1, 2, 3, 4, 5, 7)
		vary := t.Intn("cfg", 3) == 0
		nact := t.Range("cfg", 1, 6)
		for a := 0; a < nact; a++ {
			a := a
			k := t.Range("work", 1, 7)
			s.Go(fmt.Sprintf("b%d", a), func() {
				for i := 0; i < k; i++ {
					n := nfix
					if vary {
						n = Pick(t, "work", 1, 2, 3, 5)
					}
					call := stamp()
					got := rr.Balance(kafka.Message{Value: []byte("x")}, contiguous(n)...)
					ops = append(ops, porcupine.Operation{ClientId: a, Input: balIn{n: n}, Call: call, Output: got, Return: stamp()})
					s.Count("ops")
					if t.Intn("work", 3) == 0 {
						s.Pause("op")
					}
				}
			})
		}
		model = porcupine.Model{
			Init: func() interface{} { return 0 },
			Step: func(st, in, out interface{}) (bool, interface{}) {
				c := st.(int)
				return out.(int) == (c/eff)%in.(balIn).n, c + 1
			},
		}
		after = func() {
			// quiescent continuation: the counter has advanced by exactly the number of calls
			total := len(ops)
			for i := 0; i < 2*eff*nfix; i++ {
				got := rr.Balance(kafka.Message{}, contiguous(nfix)...)
				if want := ((total + i) / eff) % nfix; got != want {
					s.Fail("C13", "R2-roundrobin-sequence", "RoundRobin{ChunkSize:%d} after %d concurrent calls: sequential call %d over %d partitions returned %d, the cycle requires %d", chunk, total, i, nfix, got, want)
					return
				}
			}
		}

	case "lb":
		lb := &kafka.LeastBytes{}
		n := Pick(t, "cfg", 1, 2, 3, 4, 6, 8)
		nact := t.Range("cfg", 1, 6)
		for a := 0; a < nact; a++ {
			a := a
			k := t.Range("work", 1, 7)
			s.Go(fmt.Sprintf("b%d", a), func() {
				for i := 0; i < k; i++ {
					kl, vl := Pick(t, "work", 0, 0, 1, 3, 10), Pick(t, "work", 0, 1, 2, 5, 100, 1000)
					msg := kafka.Message{Key: make([]byte, kl), Value: make([]byte, vl)}
					call := stamp()
					got := lb.Balance(msg, contiguous(n)...)
					ops = append(ops, porcupine.Operation{ClientId: a, Input: balIn{n: n, size: uint64(kl + vl)}, Call: call, Output: got, Return: stamp()})
					s.Count("ops")
					if t.Intn("work", 3) == 0 {
						s.Pause("op")
					}
				}
			})
		}
		model = porcupine.Model{
			Init: func() interface{} { return lbState{n: n} },
			Step: func(st, in, out interface{}) (bool, interface{}) {
				x := st.(lbState)
				p := out.(int)
				if p < 0 || p >= x.n {
					return false, x
				}
				for i := 0; i < x.n; i++ {
					if x.c[i] < x.c[p] {
						return false, x
					}
				}
				x.c[p] += in.(balIn).size
				return true, x
			},
		}

	case "hash-shared":
		// one Hash / ReferenceHash with a caller-supplied hasher shared by several goroutines
		ph := &pausingFNV{s: s}
		var b kafka.Balancer
		if t.Intn("cfg", 2) == 0 {
			b = &kafka.Hash{Hasher: ph}
		} else {
			b = &kafka.ReferenceHash{Hasher: ph}
		}
		nact := t.Range("cfg", 2, 5)
		for a := 0; a < nact; a++ {
			a := a
			k := t.Range("work", 1, 5)
			s.Go(fmt.Sprintf("h%d", a), func() {
				for i := 0; i < k; i++ {
					key := genKey(t)
					if len(key) < 2 {
						key = []byte(fmt.Sprintf("key-%d-%d", a, i))
					}
					n := Pick(t, "work", 2, 3, 5, 16, 100, 997)
					got := b.Balance(kafka.Message{Key: key}, contiguous(n)...)
					want, name := refBalance(b, key, n)
					s.Count("ops")
					if got != want {
						s.Fail("C13", "R1-shared-hasher", "%s with a shared Hasher, %d concurrent callers: key %x over %d partitions gave %d, reference %d", name, nact, key, n, got, want)
					}
				}
			})
		}
		s.DoneWhen(func() bool { return s.Actors() == 0 })
		return
	}

	s.DoneWhen(func() bool { return s.Actors() == 0 })
	s.AtEnd(func() {
		if s.Ended != "done" {
			return
		}
		for _, op := range ops {
			in := op.Input.(balIn)
			if p := op.Output.(int); p < 0 || p >= in.n {
				s.Fail("C13", "R0-offered", "%s balancer returned %d with partitions 0..%d offered", mode, p, in.n-1)
				return
			}
		}
		switch porcupine.CheckOperations(model, ops) {
		case false:
			s.Fail("C13", "R2-not-linearizable-"+mode, "the %d concurrent Balance calls have no sequential explanation (%s): %v", len(ops), mode, briefOps(ops))
		default:
			s.Count("linearizable-histories")
		}
		if after != nil && !s.Failed() {
			after()
		}
	})
}

func briefOps(ops []porcupine.Operation) string {
	out := ""
	for i, op := range ops {
		if i >= 30 {
			out += " ..."
			break
		}
		in := op.Input.(balIn)
		out += fmt.Sprintf(" c%d[%d-%d](n=%d,size=%d)->%d", op.ClientId, op.Call, op.Return, in.n, in.size, op.Output)
	}
	return out
}
