package sim

import (
	"github.com/segmentio/kafka-go/protocol"
	"github.com/segmentio/kafka-go/protocol/addoffsetstotxn"
	"github.com/segmentio/kafka-go/protocol/addpartitionstotxn"
	"github.com/segmentio/kafka-go/protocol/alterclientquotas"
	"github.com/segmentio/kafka-go/protocol/alterconfigs"
	"github.com/segmentio/kafka-go/protocol/alterpartitionreassignments"
	"github.com/segmentio/kafka-go/protocol/alteruserscramcredentials"
	"github.com/segmentio/kafka-go/protocol/apiversions"
	"github.com/segmentio/kafka-go/protocol/createacls"
	"github.com/segmentio/kafka-go/protocol/createpartitions"
	"github.com/segmentio/kafka-go/protocol/createtopics"
	"github.com/segmentio/kafka-go/protocol/deleteacls"
	"github.com/segmentio/kafka-go/protocol/deletegroups"
	"github.com/segmentio/kafka-go/protocol/deletetopics"
	"github.com/segmentio/kafka-go/protocol/describeacls"
	"github.com/segmentio/kafka-go/protocol/describeclientquotas"
	"github.com/segmentio/kafka-go/protocol/describeconfigs"
	"github.com/segmentio/kafka-go/protocol/describegroups"
	"github.com/segmentio/kafka-go/protocol/describeuserscramcredentials"
	"github.com/segmentio/kafka-go/protocol/electleaders"
	"github.com/segmentio/kafka-go/protocol/endtxn"
	"github.com/segmentio/kafka-go/protocol/fetch"
	"github.com/segmentio/kafka-go/protocol/findcoordinator"
	"github.com/segmentio/kafka-go/protocol/heartbeat"
	"github.com/segmentio/kafka-go/protocol/incrementalalterconfigs"
	"github.com/segmentio/kafka-go/protocol/initproducerid"
	"github.com/segmentio/kafka-go/protocol/joingroup"
	"github.com/segmentio/kafka-go/protocol/leavegroup"
	"github.com/segmentio/kafka-go/protocol/listgroups"
	"github.com/segmentio/kafka-go/protocol/listoffsets"
	"github.com/segmentio/kafka-go/protocol/listpartitionreassignments"
	"github.com/segmentio/kafka-go/protocol/metadata"
	"github.com/segmentio/kafka-go/protocol/offsetcommit"
	"github.com/segmentio/kafka-go/protocol/offsetdelete"
	"github.com/segmentio/kafka-go/protocol/offsetfetch"
	"github.com/segmentio/kafka-go/protocol/produce"
	"github.com/segmentio/kafka-go/protocol/saslauthenticate"
	"github.com/segmentio/kafka-go/protocol/saslhandshake"
	"github.com/segmentio/kafka-go/protocol/syncgroup"
	"github.com/segmentio/kafka-go/protocol/txnoffsetcommit"
)

type fieldPair struct {
	req func() protocol.Message
}

// fieldAPIs lists the kafka-go message types exercised by the fields scenario
// (every API that the reference codec implements as well).
func fieldAPIs() []fieldPair {
	return []fieldPair{
		{func() protocol.Message { return &produce.Request{} }},
		{func() protocol.Message { return &fetch.Request{} }},
		{func() protocol.Message { return &listoffsets.Request{} }},
		{func() protocol.Message { return &metadata.Request{} }},
		{func() protocol.Message { return &offsetcommit.Request{} }},
		{func() protocol.Message { return &offsetfetch.Request{} }},
		{func() protocol.Message { return &findcoordinator.Request{} }},
		{func() protocol.Message { return &joingroup.Request{} }},
		{func() protocol.Message { return &heartbeat.Request{} }},
		{func() protocol.Message { return &leavegroup.Request{} }},
		{func() protocol.Message { return &syncgroup.Request{} }},
		{func() protocol.Message { return &describegroups.Request{} }},
		{func() protocol.Message { return &listgroups.Request{} }},
		{func() protocol.Message { return &saslhandshake.Request{} }},
		{func() protocol.Message { return &apiversions.Request{} }},
		{func() protocol.Message { return &createtopics.Request{} }},
		{func() protocol.Message { return &deletetopics.Request{} }},
		{func() protocol.Message { return &initproducerid.Request{} }},
		{func() protocol.Message { return &saslauthenticate.Request{} }},
		{func() protocol.Message { return &createpartitions.Request{} }},
		{func() protocol.Message { return &deletegroups.Request{} }},
		{func() protocol.Message { return &offsetdelete.Request{} }},
		{func() protocol.Message { return &addpartitionstotxn.Request{} }},
		{func() protocol.Message { return &addoffsetstotxn.Request{} }},
		{func() protocol.Message { return &endtxn.Request{} }},
		{func() protocol.Message { return &txnoffsetcommit.Request{} }},
		{func() protocol.Message { return &describeacls.Request{} }},
		{func() protocol.Message { return &createacls.Request{} }},
		{func() protocol.Message { return &deleteacls.Request{} }},
		{func() protocol.Message { return &describeconfigs.Request{} }},
		{func() protocol.Message { return &alterconfigs.Request{} }},
		{func() protocol.Message { return &electleaders.Request{} }},
		{func() protocol.Message { return &incrementalalterconfigs.Request{} }},
		{func() protocol.Message { return &alterpartitionreassignments.Request{} }},
		{func() protocol.Message { return &listpartitionreassignments.Request{} }},
		{func() protocol.Message { return &describeclientquotas.Request{} }},
		{func() protocol.Message { return &alterclientquotas.Request{} }},
		{func() protocol.Message { return &describeuserscramcredentials.Request{} }},
		{func() protocol.Message { return &alteruserscramcredentials.Request{} }},
	}
}

// fixupRequest keeps generated requests inside what the exchange machinery
// needs: a produce request must expect a response.
func fixupRequest(m protocol.Message) {
	if p, ok := m.(*produce.Request); ok && p.Acks == 0 {
		p.Acks = -1
	}
}
