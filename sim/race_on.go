//go:build race

package sim

import (
	"runtime"
	"unsafe"
)

// RaceBuild reports whether the binary was built with the race detector.
const RaceBuild = true

// ioSync mirrors internal/poll: under the race detector every Write on a file
// descriptor is a release and every Read an acquire on one process-wide
// variable, so that causality carried by I/O is not reported as a race. The
// simulated connections give the detector exactly that edge.
var ioSync uint64

func raceAcquire(p *uint64)      { runtime.RaceAcquire(unsafe.Pointer(p)) }
func raceReleaseMerge(p *uint64) { runtime.RaceReleaseMerge(unsafe.Pointer(p)) }
