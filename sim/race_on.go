//go:build race

package sim

import (
	"runtime"
	"time"
	"unsafe"
)

// RaceBuild reports whether the binary was built with the race detector.
const RaceBuild = true

// ioSync mirrors internal/poll: under the race detector every Write on a file
// descriptor is a release and every Read an acquire on one process-wide
// variable, so that causality carried by I/O is not reported as a race. The
// simulated connections give the detector exactly that edge.
var ioSync uint64

func raceAcquire(p *uint64)      { runtime.RaceAcquire(unsafe.Pointer(p)) }
func raceReleaseMerge(p *uint64) { runtime.RaceReleaseMerge(unsafe.Pointer(p)) }

// quietTimer creates a timer whose creation is not a release: the runtime
// models a timer as "created happens-before fired" and collects what fired
// timers carry in a per-P context that every goroutine started or woken by a
// later timer inherits (context deadlines!). The driver's clock contains
// everybody's history (synctest.Wait acquires it), so its wake-up timers
// would order everything that happens after them.
func init() {
	// time.NewTimer consults a lazily initialised GODEBUG setting (sync.Once):
	// have that done before any timer is created with synchronisation ignored
	time.NewTimer(time.Hour).Stop()
}

func quietTimer(d time.Duration) *time.Timer {
	runtime.RaceDisable()
	t := time.NewTimer(d)
	runtime.RaceEnable()
	return t
}
