package sim

import (
	"bytes"
	"context"
	"encoding/binary"
	"errors"
	"fmt"
	ksnappy "github.com/segmentio/kafka-go/compress/snappy"
	"io"
	"runtime"
	"runtime/debug"
	"time"

	kafka "github.com/segmentio/kafka-go"
	rc "verif/sim/refcodec"
)

func init() { Scenarios["records"] = recordsScenario }

// recordsScenario (C05).
//
// Consume side: partitions are pre-loaded with generated physical layouts
// (formats 0/1/2, every codec, v1 wrappers with relative inner offsets,
// compaction holes, headers, control batches). Several goroutines fetch from
// them concurrently through Client.Fetch (Transport) and through
// Conn.ReadBatch. The oracle is the independent decoder run over the very
// bytes the broker model put into each response: the library must hand out
// the same records (offset, key, value, headers, millisecond timestamp; nil
// versus empty), Client.Fetch must hide control batches, and the key/value
// bytes of records held back while other responses are decoded (pooled pages
// being recycled) must still be intact when finally read. A fault flips one
// byte inside the checksummed part of one batch of a response: no record of
// that batch may surface.
//
// Produce side: Conn.WriteMessages / WriteCompressedMessages (legacy writer)
// and Client.Produce; the strict decoder of the broker model accepts the
// request or reports it (always on), here the decoded records are compared
// with what was submitted.
type heldRec struct {
	rec   kafka.Record // a copy: ReadRecord reuses the struct it returns, the Bytes values stay valid
	want  rc.Record
	magic int8
	ctx   string
}

type fetchCapture struct {
	recs    []byte // records field of the response as the broker built it
	ver     int16
	corrupt int // index of the top-level entry that was corrupted (-1 none)
	errCode int16
}

func splitTop(b []byte) (entries [][2]int) {
	off := 0
	for off+12 <= len(b) {
		sz := int(int32(binary.BigEndian.Uint32(b[off+8:])))
		if sz < 0 || off+12+sz > len(b) {
			break
		}
		entries = append(entries, [2]int{off, off + 12 + sz})
		off += 12 + sz
	}
	return
}

func controlBatch(base int64, ts int64, t *Tape, st string) rc.Batch {
	key := []byte{0, 0, 0, byte(t.Intn(st, 2))} // version 0, type 0 abort / 1 commit
	val := []byte{0, 0, 0, 0, 0, 1}             // version 0, coordinator epoch 1
	return rc.Batch{Magic: 2, Codec: 0, Transactional: true, Control: true, BaseOffset: base, LastOffsetDelta: 0, FirstTimestamp: ts, MaxTimestamp: ts,
		ProducerID: 4000, ProducerEpoch: 1, BaseSequence: -1, Records: []rc.Record{{Offset: base, Timestamp: ts, Key: key, Value: val}}}
}

func recordsScenario(s *Sim, params map[string]string) {
	t := s.T
	// pooled pages and codec objects must not leak from one run into the
	// next (single-run replay): empty the sync.Pools, hold the collector off
	runtime.GC()
	runtime.GC()
	oldGC := debug.SetGCPercent(-1)
	s.AtEnd(func() { debug.SetGCPercent(oldGC) })
	n := NewNet(s)
	n.MinLatency = time.Duration(t.Range("cfg", 0, 3)) * 100 * time.Microsecond
	n.MaxLatency = n.MinLatency + time.Duration(t.Range("cfg", 0, 10))*100*time.Microsecond
	cl := NewCluster(s, n)
	nb := t.Range("cfg", 1, 2)
	fetchCeil := Pick(t, "cfg", int16(11), 11, 10, 7, 5, 4, 3, 2)
	prodCeil := Pick(t, "cfg", int16(8), 7, 5, 3, 2)
	for i := 1; i <= nb; i++ {
		b := cl.AddBroker(int32(i), "")
		b.Versions[1] = [2]int16{0, fetchCeil}
		b.Versions[0] = [2]int16{0, prodCeil}
	}
	const topic = "rt"
	cl.AddTopic(topic, 4, func(int) int32 { return int32(1 + t.Intn("cfg", nb)) })
	// partitions 0,1: Client.Fetch; 2: Conn.ReadBatch; 3: produce target
	allCodecs := []int8{0, 1, 2, 3, 4}
	magicSets := [][]int8{{2}, {2}, {1}, {0}, {0, 1, 2}, {1, 2}}
	ms := magicSets[t.Intn("cfg", len(magicSets))]
	if fetchCeil < 5 {
		// Conn only speaks fetch v2, v5 and v10: below v5 it gets down-converted
		// message sets, which cannot represent header-only batches or headers
		ms = [][]int8{{1}, {0}, {0, 1}}[t.Intn("cfg", 3)]
	}
	logAppend, farFuture := t.Intn("attrs", 3) == 0, t.Intn("attrs", 3) == 0
	relGaps := t.Intn("cfg", 3) == 0 // v1 wrappers whose relative inner offsets have compaction gaps
	for pi := int32(0); pi < 3; pi++ {
		p := cl.Part(topic, pi)
		// (header-only batches and batches without their tail: what log compaction leaves behind)
		o := LayoutOpts{Magics: ms, Codecs: allCodecs, Holes: true, EmptyBatch: true, MissingTail: true, Headers: true, Stream: "layout", LogAppend: logAppend, FarFuture: farFuture}
		p.LogStart = int64(t.Intn("layout", 50))
		p.LEO = p.LogStart
		ts := int64(1600000000000)
		nBatches := t.Range("layout", 1, 14)
		for i := 0; i < nBatches; i++ {
			if pi < 2 && fetchCeil >= 4 && containsI8(ms, 2) && t.Intn("layout", 5) == 0 {
				cl.AppendPhysical(p, controlBatch(p.LEO, ts, t, "layout"), 1)
				continue
			}
			k := t.Range("layout", 1, 6)
			b := genBatch(t, o, p.LEO, k, &ts, fmt.Sprintf("p%d-", pi))
			if b.Magic == 0 && b.Codec != 0 && pi < 2 {
				// the property quantifies over uncompressed format 0 only; the
				// Conn path (partition 2) is also given compressed format-0
				// wrappers, which C02 covers and which cost nothing here
				b.Codec = 0
				b.BaseOffset = b.Records[0].Offset
			}
			if b.Magic == 1 && b.Codec != 0 && !relGaps && len(b.Records) != k {
				// keep v1 wrappers dense unless this run explores gaps
				b = genBatch(t, LayoutOpts{Magics: []int8{1}, Codecs: []int8{b.Codec}, Stream: "layout"}, p.LEO, k, &ts, fmt.Sprintf("p%d-", pi))
			}
			if b.Magic == 0 && b.Codec == 0 && len(b.Records) > 1 {
				// uncompressed legacy messages are one top-level entry each
				for _, r := range b.Records {
					one := b
					one.Records = []rc.Record{r}
					one.BaseOffset = r.Offset
					cl.AppendPhysical(p, one, 1)
				}
				continue
			}
			if b.Magic == 1 && b.Codec == 0 && len(b.Records) > 1 {
				for _, r := range b.Records {
					one := b
					one.Records = []rc.Record{r}
					one.BaseOffset = r.Offset
					one.MaxTimestamp = r.Timestamp
					cl.AppendPhysical(p, one, 1)
				}
				continue
			}
			cl.AppendPhysical(p, b, k)
		}
	}

	// capture of fetch responses, keyed by the partition_max_bytes tag of the request
	captures := map[int32]*fetchCapture{}
	corruptTags := map[int32]bool{}
	nextTag := int32(20000)
	newTag := func(corrupt bool) int32 {
		// tags are spaced: Conn adds a small constant to the max bytes it is given
		nextTag += 1000
		if corrupt {
			corruptTags[nextTag/1000] = true
		}
		return nextTag
	}
	cl.MutateFrame = func(r *Req, frame []byte) []byte {
		if r.Hdr.APIKey != 1 || r.Resp == nil {
			return frame
		}
		var tag int32
		for _, tp := range r.Body.Arr("topics") {
			for _, p := range tp.Arr("partitions") {
				tag = p.I32("partition_max_bytes") / 1000
			}
		}
		cp := &fetchCapture{ver: r.Hdr.APIVersion, corrupt: -1}
		for _, tp := range r.Resp.Arr("responses") {
			for _, p := range tp.Arr("partitions") {
				cp.recs, _ = p["records"].([]byte)
				cp.errCode = p.I16("error_code")
			}
		}
		captures[tag] = cp
		if !corruptTags[tag] || len(cp.recs) == 0 {
			return frame
		}
		at := bytes.Index(frame, cp.recs)
		ents := splitTop(cp.recs)
		if at < 0 || len(ents) == 0 {
			return frame
		}
		j := t.Intn("fault", len(ents))
		e := ents[j]
		lo := e[0] + 16 // legacy: magic byte onwards is covered by the message CRC
		if cp.recs[e[0]+16] == 2 {
			lo = e[0] + 21 // v2: attributes onwards is covered by the batch CRC
		}
		if lo >= e[1] {
			return frame
		}
		pos := lo + t.Intn("fault", e[1]-lo)
		out := append([]byte(nil), frame...)
		out[at+pos] ^= byte(1 << t.Intn("fault", 8))
		cp.corrupt = j
		s.Count("fault:checksum-corruption")
		return out
	}

	expectOf := func(cp *fetchCapture) (all []rc.Batch, perEntry [][]rc.Record) {
		bs, _ := rc.DecodeRecordSet(cp.recs, rc.DecodeOpts{Strict: false})
		return bs, nil
	}
	msOf := func(tm time.Time) int64 { return tm.UnixMilli() }
	readAllBytes := func(b kafka.Bytes) ([]byte, bool) {
		if b == nil {
			return nil, true
		}
		v, err := io.ReadAll(b)
		b.Close()
		if err != nil {
			return v, false
		}
		if v == nil {
			v = []byte{}
		}
		return v, true
	}
	var held []*heldRec
	verifyHeld := func(h *heldRec) {
		k, ok1 := readAllBytes(h.rec.Key)
		v, ok2 := readAllBytes(h.rec.Value)
		if !ok1 || !ok2 {
			s.Fail("C05", "R4-retained-bytes", "%s: reading the key/value of the record at offset %d failed", h.ctx, h.want.Offset)
			return
		}
		if !bytes.Equal(k, h.want.Key) || !bytes.Equal(v, h.want.Value) {
			s.Fail("C05", "R2-fetch-keyvalue", "%s: record at offset %d: key %q value %q, the broker sent key %q value %q", h.ctx, h.want.Offset, trunc(k), trunc(v), trunc(h.want.Key), trunc(h.want.Value))
			return
		}
		if (k == nil) != (h.want.Key == nil) || (v == nil) != (h.want.Value == nil) {
			s.Fail("C05", "R2-fetch-null-vs-empty", "%s: record at offset %d: key nil=%v value nil=%v, the broker sent key nil=%v value nil=%v", h.ctx, h.want.Offset, k == nil, v == nil, h.want.Key == nil, h.want.Value == nil)
		}
	}

	client := &kafka.Client{Addr: kafka.TCP(cl.Brokers[0].Addr()), Timeout: 5 * time.Second,
		Transport: &kafka.Transport{Dial: n.Dialer("records-client"), ClientID: "sim-records", DialTimeout: 3 * time.Second, MetadataTTL: 30 * time.Second}}
	corruption := t.Intn("cfg", 3) == 0

	// ---- Client.Fetch actors
	nf := t.Range("cfg", 1, 3)
	for a := 0; a < nf; a++ {
		a := a
		s.Go(fmt.Sprintf("cf%d", a), func() {
			for i := 0; i < t.Range("work", 2, 6) && !s.Failed(); i++ {
				pi := int32(t.Intn("work", 2))
				p := cl.Part(topic, pi)
				off := p.LogStart + int64(t.Intn("work", int(p.LEO-p.LogStart)+1))
				tag := newTag(corruption && t.Intn("work", 2) == 0)
				ctx, cancel := context.WithTimeout(context.Background(), 5*time.Second)
				res, err := client.Fetch(ctx, &kafka.FetchRequest{Topic: topic, Partition: int(pi), Offset: off, MinBytes: 1, MaxBytes: int64(tag), MaxWait: 50 * time.Millisecond})
				cancel()
				s.Count("ops")
				cp := captures[tag/1000]
				what := fmt.Sprintf("Client.Fetch(%s[%d]@%d, fetch v%d)", topic, pi, off, fetchCeil)
				if cp == nil {
					if err == nil {
						s.Fail("SIM", "records-capture", "%s succeeded but no response was captured", what)
					}
					continue
				}
				bs, _ := expectOf(cp)
				ents := splitTop(cp.recs)
				// expected record list, with the index of the entry each belongs to
				type exp struct {
					r     rc.Record
					entry int
					magic int8
				}
				var want []exp
				for bi, b := range bs {
					if b.Control {
						continue
					}
					for _, r := range b.Records {
						want = append(want, exp{r, bi, b.Magic})
					}
				}
				if cp.corrupt >= 0 {
					// expectation from the uncorrupted bytes: everything before the corrupted entry
					what += fmt.Sprintf(" [one byte flipped inside top-level entry %d of %d]", cp.corrupt, len(ents))
				}
				if err != nil {
					if cp.corrupt < 0 && cp.errCode == 0 {
						s.Fail("C05", "R2-fetch-error", "%s failed with %v on a well-formed response (%d bytes of records)", what, err, len(cp.recs))
					}
					continue
				}
				if res.Error != nil && cp.errCode == 0 && cp.corrupt < 0 {
					s.Fail("C05", "R2-fetch-error", "%s reported %v, the broker sent no error", what, res.Error)
					continue
				}
				hold := t.Intn("work", 9) // records whose bytes are read only after later activity
				idx := 0
				for {
					rec, rerr := res.Records.ReadRecord()
					if rerr != nil {
						if !errors.Is(rerr, io.EOF) && cp.corrupt < 0 {
							s.Fail("C05", "R2-fetch-error", "%s: ReadRecord failed with %v after %d of %d records of a well-formed response", what, rerr, idx, len(want))
						}
						break
					}
					if idx >= len(want) {
						s.Fail("C05", "R2-fetch-extra", "%s: record at offset %d returned beyond the %d records the broker sent (control batches must stay hidden)", what, rec.Offset, len(want))
						break
					}
					w := want[idx]
					if cp.corrupt >= 0 && w.entry >= cp.corrupt {
						if w.entry == cp.corrupt {
							s.Fail("C05", "R3-corrupt-batch-surfaced", "%s: the record at offset %d was returned although it belongs to the batch whose checksum does not match", what, rec.Offset)
							return
						}
					}
					if rec.Offset != w.r.Offset {
						s.Fail("C05", "R2-fetch-offset", "%s: record #%d has offset %d, the broker sent offset %d (format %d); stored layout: %s", what, idx, rec.Offset, w.r.Offset, w.magic, briefBatches(bs))
						return
					}
					if w.magic >= 1 && msOf(rec.Time) != w.r.Timestamp {
						s.Fail("C05", "R2-fetch-timestamp", "%s: record at offset %d has timestamp %d ms, the broker sent %d", what, rec.Offset, msOf(rec.Time), w.r.Timestamp)
						return
					}
					if len(rec.Headers) != len(w.r.Headers) {
						s.Fail("C05", "R2-fetch-headers", "%s: record at offset %d has %d headers, the broker sent %d", what, rec.Offset, len(rec.Headers), len(w.r.Headers))
						return
					}
					for hi := range rec.Headers {
						if rec.Headers[hi].Key != w.r.Headers[hi].Key || !bytes.Equal(rec.Headers[hi].Value, w.r.Headers[hi].Value) {
							s.Fail("C05", "R2-fetch-headers", "%s: record at offset %d header %d differs", what, rec.Offset, hi)
							return
						}
					}
					h := &heldRec{rec: *rec, want: w.r, magic: w.magic, ctx: what}
					if hold > 0 {
						hold--
						held = append(held, h)
						s.Count("records-held")
					} else {
						verifyHeld(h)
					}
					idx++
					s.Count("records-checked")
					if t.Intn("work", 6) == 0 {
						s.Pause("rec")
					}
				}
				if cp.corrupt < 0 && idx < len(want) && !s.Failed() {
					s.Fail("C05", "R2-fetch-missing", "%s: %d records returned, the broker sent %d (first missing offset %d, format %d); layout: %s", what, idx, len(want), want[idx].r.Offset, want[idx].magic, briefBatches(bs))
					return
				}
				// release some of the records held so far, after this later decode
				for len(held) > 0 && t.Intn("work", 3) != 0 {
					h := held[0]
					held = held[1:]
					verifyHeld(h)
				}
			}
		})
	}

	// ---- Conn.ReadBatch actors (partition 2: no control batches, no corruption)
	nc := t.Range("cfg", 0, 2)
	for a := 0; a < nc; a++ {
		a := a
		s.Go(fmt.Sprintf("cr%d", a), func() {
			p := cl.Part(topic, 2)
			d := &kafka.Dialer{DialFunc: n.Dialer(fmt.Sprintf("records-conn%d", a)), ClientID: "sim-records", Timeout: 3 * time.Second}
			ctx, cancel := context.WithTimeout(context.Background(), 5*time.Second)
			conn, err := d.DialLeader(ctx, "tcp", cl.Brokers[0].Addr(), topic, 2)
			cancel()
			if err != nil {
				s.Fail("C05", "R2-conn-dial", "DialLeader failed: %v", err)
				return
			}
			defer conn.Close()
			for i := 0; i < t.Range("work", 1, 4) && !s.Failed(); i++ {
				if p.LEO == p.LogStart {
					return
				}
				off := p.LogStart + int64(t.Intn("work", int(p.LEO-p.LogStart)))
				if _, err := conn.Seek(off, kafka.SeekAbsolute); err != nil {
					s.Fail("C05", "R2-conn-seek", "Seek(%d) in [%d,%d): %v", off, p.LogStart, p.LEO, err)
					return
				}
				tag := newTag(false)
				conn.SetDeadline(time.Now().Add(5 * time.Second))
				batch := conn.ReadBatch(1, int(tag))
				what := fmt.Sprintf("Conn.ReadBatch(%s[2]@%d, fetch<=v%d)", topic, off, fetchCeil)
				var got []kafka.Message
				var rerr error
				for {
					m, err := batch.ReadMessage()
					if err != nil {
						rerr = err
						break
					}
					got = append(got, m)
				}
				cerr := batch.Close()
				s.Count("ops")
				cp := captures[tag/1000]
				if cp == nil {
					s.Fail("SIM", "records-capture", "%s: no response captured (%v)", what, rerr)
					return
				}
				bs, _ := expectOf(cp)
				var want []rc.Record
				var magics []int8
				for _, b := range bs {
					for _, r := range b.Records {
						if r.Offset >= off {
							want = append(want, r)
							magics = append(magics, b.Magic)
						}
					}
				}
				if len(want) == 0 && errors.Is(rerr, kafka.RequestTimedOut) {
					// nothing at or after the offset in this response: the legacy API
					// reports the end of an empty batch as "timed out" once the fetch
					// deadline has passed
					s.Count("empty-batch-timed-out")
					continue
				}
				if !errors.Is(rerr, io.EOF) || cerr != nil {
					s.Fail("C05", "R2-conn-error", "%s: reading a well-formed response ended with %v / Close %v after %d of %d messages", what, rerr, cerr, len(got), len(want))
					return
				}
				if len(got) != len(want) {
					s.Fail("C05", "R2-conn-count", "%s: %d messages delivered, the response holds %d records at or after the offset; layout: %s", what, len(got), len(want), briefBatches(bs))
					return
				}
				for j, m := range got {
					w := want[j]
					if m.Offset != w.Offset || !bytes.Equal(m.Key, w.Key) || !bytes.Equal(m.Value, w.Value) {
						s.Fail("C05", "R2-conn-record", "%s: message #%d is offset %d key %q value %q, the broker sent offset %d key %q value %q; layout: %s", what, j, m.Offset, trunc(m.Key), trunc(m.Value), w.Offset, trunc(w.Key), trunc(w.Value), briefBatches(bs))
						return
					}
					if magics[j] >= 1 && m.Time.UnixMilli() != w.Timestamp {
						s.Fail("C05", "R2-conn-timestamp", "%s: message at offset %d has timestamp %d ms, the broker sent %d", what, m.Offset, m.Time.UnixMilli(), w.Timestamp)
						return
					}
					if len(m.Headers) != len(w.Headers) {
						s.Fail("C05", "R2-conn-headers", "%s: message at offset %d has %d headers, the broker sent %d", what, m.Offset, len(m.Headers), len(w.Headers))
						return
					}
					for hi := range m.Headers {
						if m.Headers[hi].Key != w.Headers[hi].Key || !bytes.Equal(m.Headers[hi].Value, w.Headers[hi].Value) {
							s.Fail("C05", "R2-conn-headers", "%s: message at offset %d header %d differs", what, m.Offset, hi)
							return
						}
					}
					s.Count("records-checked")
				}
			}
		})
	}

	// ---- producers (partition 3)
	np := t.Range("cfg", 0, 2)
	// pooled scratch buffers under contention: several producers, each on a
	// connection of its own, send compressed requests larger than the
	// connections' write buffers at the same time
	contend := t.Intn("cfg", 5) == 0
	if contend {
		np = 3
	}
	keys := [][]byte{nil, {}, []byte("k"), []byte("key-\x00\xff")}
	vals := [][]byte{nil, {}, []byte("v"), bytes.Repeat([]byte("value "), 40)}
	for a := 0; a < np; a++ {
		a := a
		viaClient := t.Intn("cfg", 2) == 0
		if contend {
			viaClient = a == 2 && t.Intn("cfg", 2) == 0
		}
		s.Go(fmt.Sprintf("pr%d", a), func() {
			owner := fmt.Sprintf("records-prod%d", a)
			var conn *kafka.Conn
			pclient := &kafka.Client{Addr: kafka.TCP(cl.Brokers[0].Addr()), Timeout: 5 * time.Second,
				Transport: &kafka.Transport{Dial: n.Dialer(owner), ClientID: "sim-records", DialTimeout: 3 * time.Second, MetadataTTL: 30 * time.Second}}
			defer pclient.Transport.(*kafka.Transport).CloseIdleConnections()
			if !viaClient {
				d := &kafka.Dialer{DialFunc: n.Dialer(owner), ClientID: "sim-records", Timeout: 3 * time.Second}
				ctx, cancel := context.WithTimeout(context.Background(), 5*time.Second)
				c, err := d.DialLeader(ctx, "tcp", cl.Brokers[0].Addr(), topic, 3)
				cancel()
				if err != nil {
					s.Fail("C05", "R1-conn-dial", "DialLeader failed: %v", err)
					return
				}
				conn = c
				defer conn.Close()
			}
			for i := 0; i < t.Range("work", 1, 4) && !s.Failed(); i++ {
				k := t.Range("work", 1, 5)
				big := t.Intn("work", 6) == 0
				if contend {
					big = false
					k = t.Range("work", 60, 300)
				}
				if big {
					// a request of several 64 KiB pages: size, checksum and
					// count placeholders are patched across page boundaries
					k = t.Range("work", 600, 2500)
				}
				type sub struct {
					key, val []byte
					hdr      []kafka.Header
					tms      int64
				}
				var subs []sub
				codec := t.Intn("work", 5)
				if contend && codec == 0 {
					codec = 1 + t.Intn("work", 3)
				}
				if prodCeil < 3 && codec == 4 {
					codec = 1
				}
				// raw snappy blocks (what librdkafka and sarama emit) instead of
				// the xerial framing: one block per batch whatever its size
				unframed := codec == 2 && !viaClient && t.Intn("unframed", 2) == 0
				for j := 0; j < k; j++ {
					sb := sub{key: keys[t.Intn("work", len(keys))], val: vals[t.Intn("work", len(vals))]}
					if unframed && j == k/2 && t.Intn("unframed", 2) == 0 {
						sb.val = bytes.Repeat([]byte("u"), t.Range("unframed", 200000, 600000))
					}
					if big && j == 0 {
						// shifts every later field against the page grid
						sb.val = bytes.Repeat([]byte("p"), t.Range("work", 1, 70000))
					}
					if contend {
						// values no codec shrinks much
						sb.val = make([]byte, 40+t.Intn("work", 60))
						x := uint64(t.Intn("work", 1<<30)) + 1
						for i := range sb.val {
							x ^= x << 13
							x ^= x >> 7
							x ^= x << 17
							sb.val[i] = byte(x)
						}
					}
					if sb.val != nil && len(sb.val) > 0 {
						sb.val = append([]byte(fmt.Sprintf("a%di%dj%d|", a, i, j)), sb.val...)
					}
					if t.Intn("work", 3) == 0 && prodCeil >= 3 {
						sb.hdr = []kafka.Header{{Key: "h", Value: []byte("1")}, {Key: "", Value: nil}, {Key: "e", Value: []byte{}}}[:t.Range("work", 1, 3)]
					}
					sb.tms = 1700000000000 + int64(t.Intn("work", 1<<20))
					subs = append(subs, sb)
				}
				before := len(cl.Journal)
				var err error
				what := ""
				if viaClient {
					recs := make([]kafka.Record, len(subs))
					for j, sb := range subs {
						recs[j] = kafka.Record{Time: time.UnixMilli(sb.tms).Add(time.Duration(t.Intn("work", 1000)) * time.Microsecond), Headers: sb.hdr}
						// (a third of the calls hand over keys and values as a plain
						// Bytes implementation: Read, Close and Len, nothing else)
						plain := t.Intn("work", 3) == 0
						mk := func(b []byte) kafka.Bytes {
							if plain {
								return &plainBytes{b: b}
							}
							return kafka.NewBytes(b)
						}
						if sb.key != nil {
							recs[j].Key = mk(sb.key)
						}
						if sb.val != nil {
							recs[j].Value = mk(sb.val)
						}
					}
					ctx, cancel := context.WithTimeout(context.Background(), 5*time.Second)
					var res *kafka.ProduceResponse
					res, err = pclient.Produce(ctx, &kafka.ProduceRequest{Topic: topic, Partition: 3, RequiredAcks: kafka.RequireAll, Compression: kafka.Compression(codec), Records: kafka.NewRecordReader(recs...)})
					cancel()
					if err == nil && res.Error != nil {
						err = res.Error
					}
					what = fmt.Sprintf("Client.Produce(codec %d, produce<=v%d)", codec, prodCeil)
				} else {
					msgs := make([]kafka.Message, len(subs))
					for j, sb := range subs {
						msgs[j] = kafka.Message{Key: sb.key, Value: sb.val, Headers: sb.hdr, Time: time.UnixMilli(sb.tms).Add(time.Duration(t.Intn("work", 1000)) * time.Microsecond)}
					}
					conn.SetDeadline(time.Now().Add(5 * time.Second))
					if codec == 0 {
						_, err = conn.WriteMessages(msgs...)
					} else {
						var cdc kafka.CompressionCodec = kafka.Compression(codec).Codec()
						if unframed {
							cdc = &ksnappy.Codec{Framing: ksnappy.Unframed}
							s.Count("unframed-snappy-produce")
						}
						_, err = conn.WriteCompressedMessages(cdc, msgs...)
					}
					what = fmt.Sprintf("Conn.WriteCompressedMessages(codec %d unframed=%v, produce<=v%d)", codec, unframed, prodCeil)
				}
				s.Count("ops")
				if err != nil {
					s.Fail("C05", "R1-produce-error", "%s failed on a healthy broker: %v", what, err)
					return
				}
				// the produce request this call sent
				var pr *Req
				for _, r := range cl.Journal[before:] {
					if r.API != nil && r.Hdr.APIKey == 0 && r.Handled && r.Conn.Owner == owner {
						pr = r
					}
				}
				if pr == nil || len(pr.Produced) != 1 {
					s.Fail("SIM", "records-produce-journal", "%s: produce request not found in the journal", what)
					return
				}
				var got []rc.Record
				var magic int8
				for _, bt := range pr.Produced[0].Batches {
					magic = bt.Magic
					if bt.Codec != int8(codec) {
						s.Fail("C05", "R1-codec", "%s: batch carries codec %d", what, bt.Codec)
					}
					got = append(got, bt.Records...)
				}
				if len(got) != len(subs) {
					s.Fail("C05", "R1-count", "%s: %d records on the wire for %d submitted", what, len(got), len(subs))
					return
				}
				for j, sb := range subs {
					g := got[j]
					if !bytes.Equal(g.Key, sb.key) || !bytes.Equal(g.Value, sb.val) {
						s.Fail("C05", "R1-keyvalue", "%s: record #%d key %q value %q on the wire, submitted key %q value %q", what, j, trunc(g.Key), trunc(g.Value), trunc(sb.key), trunc(sb.val))
						return
					}
					if (g.Key == nil) != (sb.key == nil) || (g.Value == nil) != (sb.val == nil) {
						s.Fail("C05", "R1-null-vs-empty", "%s (format %d): record #%d on the wire has key null=%v value null=%v, submitted key nil=%v value nil=%v", what, magic, j, g.Key == nil, g.Value == nil, sb.key == nil, sb.val == nil)
						return
					}
					if magic >= 1 && g.Timestamp != sb.tms {
						s.Fail("C05", "R1-timestamp", "%s: record #%d timestamp %d on the wire, submitted %d ms", what, j, g.Timestamp, sb.tms)
						return
					}
					if magic == 2 {
						if len(g.Headers) != len(sb.hdr) {
							s.Fail("C05", "R1-headers", "%s: record #%d has %d headers on the wire, %d submitted", what, j, len(g.Headers), len(sb.hdr))
							return
						}
						for hi := range g.Headers {
							if g.Headers[hi].Key != sb.hdr[hi].Key || !bytes.Equal(g.Headers[hi].Value, sb.hdr[hi].Value) {
								s.Fail("C05", "R1-headers", "%s: record #%d header %d differs", what, j, hi)
								return
							}
						}
					}
					s.Count("records-produced-checked")
				}
			}
		})
	}

	s.DoneWhen(func() bool { return s.Actors() == 0 })
	s.AtEnd(func() {
		if s.Ended == "done" {
			for _, h := range held {
				if s.Failed() {
					break
				}
				verifyHeld(h)
			}
		}
		if tr, ok := client.Transport.(*kafka.Transport); ok {
			tr.CloseIdleConnections()
		}
		n.Shutdown()
	})
}

func containsI8(xs []int8, v int8) bool {
	for _, x := range xs {
		if x == v {
			return true
		}
	}
	return false
}

func briefBatches(bs []rc.Batch) string {
	out := ""
	for i, b := range bs {
		if i >= 12 {
			out += " ..."
			break
		}
		out += fmt.Sprintf(" {magic %d codec %d base %d", b.Magic, b.Codec, b.BaseOffset)
		if b.Control {
			out += " control"
		}
		if b.Magic == 1 && b.Codec != 0 {
			out += fmt.Sprintf(" relative=%v", b.RelativeInner)
		}
		out += " offsets"
		for _, r := range b.Records {
			out += fmt.Sprintf(" %d", r.Offset)
		}
		out += "}"
	}
	return out
}

// plainBytes is the smallest kafka.Bytes: no WriteTo, no ReadAt, no Seek.
type plainBytes struct {
	b   []byte
	off int
}

func (p *plainBytes) Read(q []byte) (int, error) {
	if p.off >= len(p.b) {
		return 0, io.EOF
	}
	// short reads, as a streaming source gives them
	n := len(q)
	if n > 7 {
		n = 7
	}
	n = copy(q[:n], p.b[p.off:])
	p.off += n
	return n, nil
}
func (p *plainBytes) Close() error { return nil }
func (p *plainBytes) Len() int     { return len(p.b) - p.off }
