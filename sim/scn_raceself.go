package sim

import (
	"context"
	"time"
)

func init() { Scenarios["raceself"] = raceSelfScenario }

var raceSelfX int

// raceSelfScenario is the sensitivity self-test of the race flavour: two
// goroutines write one variable, separated by simulated time and by network
// activity of the first one, with nothing ordering them. The detector must
// report it (as a race inside the harness).
func raceSelfScenario(s *Sim, params map[string]string) {
	n := NewNet(s)
	n.MinLatency, n.MaxLatency = time.Millisecond, time.Millisecond
	cl := NewCluster(s, n)
	b := cl.AddBroker(1, "")
	cl.F = FaultCfg{Stall: 1000, StallReset: 5 * time.Second}
	s.Go("a", func() {
		c, err := n.DialOwner(context.Background(), "tcp", b.Addr(), "self")
		if err != nil {
			return
		}
		raceSelfX = 1
		c.Write([]byte{0, 0, 0, 14, 0, 3, 0, 0, 0, 0, 0, 1, 255, 255, 0, 0, 0, 0})
		c.SetReadDeadline(time.Now().Add(300 * time.Millisecond))
		buf := make([]byte, 16)
		c.Read(buf)
		c.Close()
	})
	s.Go("b", func() {
		time.Sleep(150 * time.Millisecond)
		raceSelfX = 2
	})
	s.DoneWhen(func() bool { return s.Actors() == 0 })
	s.AtEnd(func() { n.Shutdown() })
}
