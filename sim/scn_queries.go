package sim

import (
	"context"
	"errors"
	"fmt"
	"github.com/segmentio/kafka-go/protocol"
	"net"
	"sort"
	"time"

	kafka "github.com/segmentio/kafka-go"
	rc "verif/sim/refcodec"
)

func init() { Scenarios["queries"] = queriesScenario }

// queriesScenario (C19): a random but static cluster state; offset and
// metadata queries through Conn and Client must report exactly that state,
// and a failure injected for one partition must stay on that partition.
func queriesScenario(s *Sim, params map[string]string) {
	t := s.T
	n := NewNet(s)
	n.MinLatency = time.Duration(t.Range("cfg", 1, 10)) * 100 * time.Microsecond
	n.MaxLatency = n.MinLatency + time.Duration(t.Range("cfg", 0, 20))*100*time.Microsecond
	cl := NewCluster(s, n)
	nb := t.Range("cfg", 1, 4)
	for i := 1; i <= nb; i++ {
		b := cl.AddBroker(int32(i), Pick(t, "cfg", "", "r1", "r2"))
		b.Versions[2] = [2]int16{0, Pick(t, "cfg", int16(5), 4, 1)}
		b.Versions[3] = [2]int16{0, Pick(t, "cfg", int16(8), 6, 5, 1)}
		b.Versions[9] = [2]int16{0, Pick(t, "cfg", int16(5), 2, 1)}
		b.Versions[8] = [2]int16{0, Pick(t, "cfg", int16(7), 5, 2)}
		b.Versions[1] = [2]int16{0, Pick(t, "cfg", int16(11), 5, 2)}
	}
	const base = int64(1600000000000)
	ntop := t.Range("cfg", 1, 4)
	var topics []string
	for i := 0; i < ntop; i++ {
		name := fmt.Sprintf("q%d", i)
		topics = append(topics, name)
		top := cl.AddTopic(name, t.Range("cfg", 1, 5), func(int) int32 { return int32(1 + t.Intn("cfg", nb)) })
		for _, p := range top.Parts {
			start := int64(Pick(t, "cfg", 0, 0, 5, 1000, 1<<33))
			p.LogStart, p.LEO = start, start
			nrec := t.Range("cfg", 0, 12)
			ts := base + int64(t.Intn("cfg", 1000))
			for k := 0; k < nrec; k++ {
				off := p.LEO
				ts += int64(t.Range("cfg", 1, 50))
				magic := int8(2)
				if cl.Brokers[0].Versions[1][1] < 4 {
					magic = 1
				}
				cl.AppendPhysical(p, rc.Batch{Magic: magic, BaseOffset: off, ProducerID: -1, ProducerEpoch: -1, BaseSequence: -1, FirstTimestamp: ts, MaxTimestamp: ts,
					Records: []rc.Record{{Offset: off, Timestamp: ts, Value: []byte(fmt.Sprintf("%s/%d/%d|", name, p.ID, off))}}}, 1)
			}
		}
	}
	// open transactions: the tail of some partitions is not stable yet
	for _, tn := range topics {
		for _, p := range cl.Topics[tn].Parts {
			if n := p.LEO - p.LogStart; n > 0 && t.Intn("txn", 3) == 0 {
				p.OpenTxn = 1 + int64(t.Intn("txn", int(n)))
			}
		}
	}
	listOffsetsVer := func(p *Partition) int16 {
		// the version the leader's ListOffsets exchange is negotiated at
		v := cl.Broker(p.Leader).Versions[2][1]
		if lib := protocol.ApiKey(2).MaxVersion(); lib < v {
			v = lib
		}
		return v
	}
	ngrp := t.Range("cfg", 1, 3)
	for gi := 0; gi < ngrp; gi++ {
		g := cl.group(fmt.Sprintf("qg%d", gi))
		for _, tn := range topics {
			for _, p := range cl.Topics[tn].Parts {
				if t.Intn("cfg", 2) == 0 {
					if g.Offsets[tn] == nil {
						g.Offsets[tn] = map[int32]int64{}
					}
					g.Offsets[tn][p.ID] = p.LogStart + int64(t.Intn("cfg", int(p.LEO-p.LogStart)+1))
				}
			}
		}
	}
	// per-partition faults
	failCode := map[tp]int16{}
	if t.Intn("cfg", 2) == 0 {
		for _, tn := range topics {
			for _, p := range cl.Topics[tn].Parts {
				if t.Intn("cfg", 5) == 0 {
					failCode[tp{tn, p.ID}] = Pick(t, "cfg", ErrNotLeaderForPartition, ErrLeaderNotAvailable, ErrUnknownTopicOrPartition, ErrTopicAuthorizationFailed)
				}
			}
		}
	}
	// some of those partitions fail only one kind of look-up (as a log in an
	// old message format fails look-ups by time): 0 every kind, 1 only
	// look-ups by time, 2 only the first offset, 3 only the last offset
	failOnly := map[tp]int{}
	for _, tn := range topics {
		for _, p := range cl.Topics[tn].Parts {
			if _, ok := failCode[tp{tn, p.ID}]; ok {
				failOnly[tp{tn, p.ID}] = t.Intn("cfg", 4)
			}
		}
	}
	lookupFails := func(k tp, ts int64) int16 {
		code := failCode[k]
		if code == 0 {
			return 0
		}
		switch failOnly[k] {
		case 1:
			if ts < 0 {
				return 0
			}
		case 2:
			if ts != kafka.FirstOffset {
				return 0
			}
		case 3:
			if ts != kafka.LastOffset {
				return 0
			}
		}
		return code
	}
	cl.ListOffsetsErr = func(topic string, part int32, ts int64) int16 { return lookupFails(tp{topic, part}, ts) }
	cl.CommitErr = func(g *Group, topic string, part int32) int16 { return failCode[tp{topic, part}] }
	downBroker := int32(0)
	if nb > 1 && t.Intn("cfg", 4) == 0 {
		downBroker = int32(2 + t.Intn("cfg", nb-1))
	}

	tr := &kafka.Transport{Dial: n.Dialer("queries"), ClientID: "queries", MetadataTTL: 30 * time.Second, DialTimeout: time.Second}
	client := &kafka.Client{Addr: kafka.TCP(cl.Brokers[0].Addr()), Transport: tr, Timeout: 5 * time.Second}
	// per-request addresses: the Client's own default address names a host
	// nobody listens on and every request says where it wants to go (the
	// request's address takes precedence)
	var reqAddr net.Addr
	if t.Intn("reqaddr", 4) == 0 {
		reqAddr = kafka.TCP(cl.Brokers[0].Addr())
		client.Addr = kafka.TCP("elsewhere:9092")
	}
	bad := func(rule, f string, a ...any) { s.Fail("C19", rule, f, a...) }

	leaderDown := func(p *Partition) bool { return p.Leader == downBroker }
	nact := t.Range("cfg", 1, 3)
	for a := 0; a < nact; a++ {
		a := a
		s.Go(fmt.Sprintf("q%d", a), func() {
			if downBroker != 0 {
				// take the broker down after the client has learnt the layout
				ctx, cancel := context.WithTimeout(context.Background(), 3*time.Second)
				client.Metadata(ctx, &kafka.MetadataRequest{Addr: reqAddr})
				cancel()
				if cl.Broker(downBroker).Up {
					cl.SetBrokerUp(cl.Broker(downBroker), false)
				}
			}
			nops := t.Range("work", 3, 14)
			for i := 0; i < nops && !s.Failed(); i++ {
				ctx, cancel := context.WithTimeout(context.Background(), 4*time.Second)
				tn := topics[t.Intn("work", len(topics))]
				ps := cl.Topics[tn].Parts
				p := ps[t.Intn("work", len(ps))]
				op := t.Intn("work", 7)
				if reqAddr != nil && op == 2 {
					op = 0 // (ConsumerOffsets has no address of its own)
				}
				switch op {
				case 0: // Client.ListOffsets over many topics / partitions / leaders / timestamps
					req := map[string][]kafka.OffsetRequest{}
					type q struct {
						p  *Partition
						ts int64
					}
					var qs []q
					for _, x := range topics {
						for _, pp := range cl.Topics[x].Parts {
							if t.Intn("work", 2) == 0 {
								continue
							}
							// one to three look-ups of distinct kinds for the partition
							kinds := []int{t.Intn("work", 3)}
							if t.Intn("work", 3) == 0 {
								kinds = [][]int{{0, 1}, {1, 0}, {0, 2}, {2, 1}, {0, 1, 2}, {2, 1, 0}}[t.Intn("work", 6)]
							}
							for _, kind := range kinds {
								switch kind {
								case 0:
									req[x] = append(req[x], kafka.FirstOffsetOf(int(pp.ID)))
									qs = append(qs, q{pp, kafka.FirstOffset})
								case 1:
									req[x] = append(req[x], kafka.LastOffsetOf(int(pp.ID)))
									qs = append(qs, q{pp, kafka.LastOffset})
								case 2:
									recs := pp.Records()
									tsq := base + int64(t.Intn("work", 2000))
									if len(recs) > 0 && t.Intn("work", 2) == 0 {
										tsq = recs[t.Intn("work", len(recs))].Timestamp
									}
									req[x] = append(req[x], kafka.TimeOffsetOf(int(pp.ID), time.UnixMilli(tsq)))
									qs = append(qs, q{pp, tsq})
								}
							}
						}
					}
					if len(qs) == 0 {
						break
					}
					// (half of the calls read committed: the last offset of a
					// partition with an open transaction is its last stable offset)
					iso := kafka.IsolationLevel(t.Intn("work", 2))
					res, err := client.ListOffsets(ctx, &kafka.ListOffsetsRequest{Addr: reqAddr, Topics: req, IsolationLevel: iso})
					if err != nil {
						// a total failure is only legitimate if every queried leader is unreachable / failing
						all := true
						for _, x := range qs {
							if !leaderDown(x.p) {
								all = false
							}
						}
						if !all && downBroker == 0 {
							bad("R2-total-failure", "Client.ListOffsets failed as a whole (%v) although no leader is unreachable", err)
						}
						break
					}
					for _, x := range qs {
						var got *kafka.PartitionOffsets
						for i := range res.Topics[x.p.Topic] {
							if res.Topics[x.p.Topic][i].Partition == int(x.p.ID) {
								got = &res.Topics[x.p.Topic][i]
							}
						}
						if got == nil {
							bad("R1-missing-partition", "Client.ListOffsets: no entry for %s[%d]", x.p.Topic, x.p.ID)
							continue
						}
						// a partition's entry carries an error when any of its
						// look-ups failed
						var code int16
						for _, y := range qs {
							if y.p == x.p {
								if c := lookupFails(tp{y.p.Topic, y.p.ID}, y.ts); c != 0 {
									code = c
								}
							}
						}
						switch {
						case leaderDown(x.p):
							if got.Error == nil {
								bad("R2-error-not-reported", "Client.ListOffsets: %s[%d] has an unreachable leader but the entry carries no error (first=%d last=%d)", x.p.Topic, x.p.ID, got.FirstOffset, got.LastOffset)
							}
						case code != 0:
							if !errors.Is(got.Error, kafka.Error(code)) {
								bad("R2-error-not-reported", "Client.ListOffsets: %s[%d] answered error %d, entry carries %v", x.p.Topic, x.p.ID, code, got.Error)
							}
						default:
							if got.Error != nil {
								bad("R2-error-leaked", "Client.ListOffsets: healthy partition %s[%d] carries error %v", x.p.Topic, x.p.ID, got.Error)
								break
							}
							switch x.ts {
							case kafka.FirstOffset:
								if got.FirstOffset != x.p.LogStart {
									bad("R1-list-offsets", "Client.ListOffsets: %s[%d] first offset %d, log start %d", x.p.Topic, x.p.ID, got.FirstOffset, x.p.LogStart)
								}
							case kafka.LastOffset:
								wantLast := x.p.LEO
								if iso == kafka.ReadCommitted && x.p.OpenTxn > 0 && listOffsetsVer(x.p) >= 2 {
									wantLast = x.p.LEO - x.p.OpenTxn
								}
								if got.LastOffset != wantLast {
									bad("R1-list-offsets", "Client.ListOffsets (isolation level %d): %s[%d] last offset %d, want %d (log end %d, open transaction over the last %d offsets)", iso, x.p.Topic, x.p.ID, got.LastOffset, wantLast, x.p.LEO, x.p.OpenTxn)
								}
							default:
								want, _ := x.p.OffsetForTime(x.ts)
								tm, ok := got.Offsets[want]
								if !ok {
									bad("R1-list-offsets", "Client.ListOffsets: %s[%d] timestamp %d: offsets %v lack the expected offset %d", x.p.Topic, x.p.ID, x.ts, got.Offsets, want)
								} else if want >= 0 && tm.UnixMilli() != x.ts {
									bad("R1-list-offsets-timestamp", "Client.ListOffsets: %s[%d] offset %d reported for time %d, requested %d", x.p.Topic, x.p.ID, want, tm.UnixMilli(), x.ts)
								}
							}
						}
					}
				case 1: // OffsetFetch over several topics with different partition subsets
					gi := t.Intn("work", ngrp)
					g := cl.group(fmt.Sprintf("qg%d", gi))
					req := map[string][]int{}
					if t.Intn("work", 3) == 0 {
						for _, pp := range ps {
							req[tn] = append(req[tn], int(pp.ID))
						}
					} else {
						for _, x := range topics {
							var sub []int
							for _, pp := range cl.Topics[x].Parts {
								if t.Intn("work", 2) == 0 {
									sub = append(sub, int(pp.ID))
								}
							}
							// listing order is the caller's business
							if len(sub) > 1 && t.Intn("work", 2) == 0 {
								sub[0], sub[len(sub)-1] = sub[len(sub)-1], sub[0]
							}
							if len(sub) > 0 {
								req[x] = sub
							}
						}
						if len(req) == 0 {
							req[tn] = []int{int(p.ID)}
						}
					}
					res, err := client.OffsetFetch(ctx, &kafka.OffsetFetchRequest{Addr: reqAddr, GroupID: g.ID, Topics: req})
					if err != nil || res.Error != nil {
						break
					}
					for x, parts := range req {
						if len(res.Topics[x]) != len(parts) {
							bad("R1-offset-fetch", "Client.OffsetFetch(%s, %v): %d partitions returned for %s, %d asked", g.ID, req, len(res.Topics[x]), x, len(parts))
						}
						asked := map[int]bool{}
						for _, pi := range parts {
							asked[pi] = true
						}
						for _, po := range res.Topics[x] {
							if !asked[po.Partition] {
								bad("R1-offset-fetch", "Client.OffsetFetch(%s, %v) reports %s[%d], which was not asked for", g.ID, req, x, po.Partition)
								continue
							}
							delete(asked, po.Partition)
							want := int64(-1)
							if o, ok := g.Offsets[x][int32(po.Partition)]; ok {
								want = o
							}
							if po.Error == nil && po.CommittedOffset != want {
								bad("R1-offset-fetch", "Client.OffsetFetch(%s, %v) %s[%d] returned %d, committed %d", g.ID, req, x, po.Partition, po.CommittedOffset, want)
							}
						}
						for pi := range asked {
							bad("R1-offset-fetch", "Client.OffsetFetch(%s, %v): no entry for %s[%d]", g.ID, req, x, pi)
						}
					}
					for x := range res.Topics {
						if _, ok := req[x]; !ok && len(res.Topics[x]) > 0 {
							bad("R1-offset-fetch", "Client.OffsetFetch(%s, %v) reports topic %s, which was not asked for", g.ID, req, x)
						}
					}
				case 2: // ConsumerOffsets
					gi := t.Intn("work", ngrp)
					g := cl.group(fmt.Sprintf("qg%d", gi))
					res, err := client.ConsumerOffsets(ctx, kafka.TopicAndGroup{Topic: tn, GroupId: g.ID})
					if err != nil {
						break
					}
					for _, pp := range ps {
						want := int64(-1)
						if o, ok := g.Offsets[tn][pp.ID]; ok {
							want = o
						}
						if got, ok := res[int(pp.ID)]; !ok || got != want {
							bad("R1-consumer-offsets", "Client.ConsumerOffsets(%s,%s)[%d] = %d (present %v), committed %d", g.ID, tn, pp.ID, got, ok, want)
						}
					}
				case 3: // OffsetCommit over several topics and partition subsets, with per-partition failures
					gid := fmt.Sprintf("qc%d-%d", a, t.Intn("work", 3))
					creq := map[string][]kafka.OffsetCommit{}
					want := map[tp]int64{}
					for _, x := range topics {
						if x != tn && t.Intn("work", 2) == 0 {
							continue
						}
						for _, pp := range cl.Topics[x].Parts {
							if x != tn && t.Intn("work", 2) == 0 {
								continue
							}
							o := int64(t.Intn("work", 100))
							creq[x] = append(creq[x], kafka.OffsetCommit{Partition: int(pp.ID), Offset: o, Metadata: fmt.Sprintf("m-%s-%d", x, pp.ID)})
							want[tp{x, pp.ID}] = o
						}
					}
					res, err := client.OffsetCommit(ctx, &kafka.OffsetCommitRequest{Addr: reqAddr, GroupID: gid, GenerationID: -1, Topics: creq})
					if err != nil {
						break
					}
					g := cl.group(gid)
					for x, commits := range creq {
						seen := map[int]bool{}
						for _, pc := range res.Topics[x] {
							k := tp{x, int32(pc.Partition)}
							if _, asked := want[k]; !asked {
								bad("R1-offset-commit", "Client.OffsetCommit reports %s[%d], which was not part of the request", x, pc.Partition)
								continue
							}
							seen[pc.Partition] = true
							code := failCode[k]
							if code != 0 {
								if !errors.Is(pc.Error, kafka.Error(code)) {
									bad("R2-error-not-reported", "Client.OffsetCommit %s[%d] answered error %d, entry carries %v", x, pc.Partition, code, pc.Error)
								}
							} else {
								if pc.Error != nil {
									bad("R2-error-leaked", "Client.OffsetCommit: healthy partition %s[%d] carries error %v", x, pc.Partition, pc.Error)
								} else if g.Offsets[x][int32(pc.Partition)] != want[k] {
									bad("R1-offset-commit", "Client.OffsetCommit %s[%d]: reported success, coordinator holds %d, committed %d", x, pc.Partition, g.Offsets[x][int32(pc.Partition)], want[k])
								}
							}
						}
						if len(seen) != len(commits) {
							bad("R1-offset-commit", "Client.OffsetCommit: %d partition results for the %d commits of %s", len(seen), len(commits), x)
						}
					}
				case 4: // Metadata: leaders, replicas, isr, partition lists
					res, err := client.Metadata(ctx, &kafka.MetadataRequest{Addr: reqAddr, Topics: []string{tn}})
					if err != nil {
						break
					}
					if len(res.Topics) != 1 || res.Topics[0].Name != tn {
						bad("R1-metadata", "Client.Metadata(%s) returned %d topics", tn, len(res.Topics))
						break
					}
					if len(res.Topics[0].Partitions) != len(ps) {
						bad("R1-metadata", "Client.Metadata(%s): %d partitions, topic has %d", tn, len(res.Topics[0].Partitions), len(ps))
						break
					}
					for _, mp := range res.Topics[0].Partitions {
						pp := cl.Part(tn, int32(mp.ID))
						if pp == nil {
							bad("R1-metadata", "Client.Metadata(%s): unknown partition %d", tn, mp.ID)
							continue
						}
						if int32(mp.Leader.ID) != pp.Leader && !(downBroker != 0) {
							bad("R1-metadata", "Client.Metadata(%s)[%d]: leader %d, model %d", tn, mp.ID, mp.Leader.ID, pp.Leader)
						}
						var reps []int32
						for _, b := range mp.Replicas {
							reps = append(reps, int32(b.ID))
						}
						if fmt.Sprint(reps) != fmt.Sprint(pp.Replicas) && downBroker == 0 {
							bad("R1-metadata", "Client.Metadata(%s)[%d]: replicas %v, model %v", tn, mp.ID, reps, pp.Replicas)
						}
					}
				case 5: // Conn offsets and Seek
					if leaderDown(p) {
						break
					}
					d := &kafka.Dialer{DialFunc: n.Dialer("queries-conn"), ClientID: "queries", Timeout: 2 * time.Second}
					conn, err := d.DialLeader(ctx, "tcp", cl.Brokers[0].Addr(), tn, int(p.ID))
					if err != nil {
						break
					}
					conn.SetDeadline(time.Now().Add(3 * time.Second))
					// (ReadOffsets asks for the first and the last offset)
					code := lookupFails(tp{tn, p.ID}, kafka.FirstOffset)
					if c := lookupFails(tp{tn, p.ID}, kafka.LastOffset); c != 0 {
						code = c
					}
					timeFails := lookupFails(tp{tn, p.ID}, 0) != 0
					first, last, err := conn.ReadOffsets()
					switch {
					case code != 0:
						if err == nil {
							bad("R2-error-not-reported", "Conn.ReadOffsets %s[%d] answered error %d, returned (%d,%d) without error", tn, p.ID, code, first, last)
						}
					case err == nil && (first != p.LogStart || last != p.LEO):
						bad("R1-conn-offsets", "Conn.ReadOffsets %s[%d] = (%d,%d), log is [%d,%d)", tn, p.ID, first, last, p.LogStart, p.LEO)
					}
					if code == 0 && err == nil {
						recs := p.Records()
						if len(recs) > 0 && !timeFails {
							r := recs[t.Intn("work", len(recs))]
							got, err := conn.ReadOffset(time.UnixMilli(r.Timestamp))
							want, _ := p.OffsetForTime(r.Timestamp)
							if err == nil && got != want {
								bad("R1-conn-offsets", "Conn.ReadOffset(%d) on %s[%d] = %d, model %d", r.Timestamp, tn, p.ID, got, want)
							}
						}
						// R3: Seek in every whence mode
						span := p.LEO - p.LogStart
						off := int64(t.Range("work", -2, int(span)+2))
						whence := Pick(t, "work", kafka.SeekStart, kafka.SeekAbsolute, kafka.SeekEnd, kafka.SeekCurrent)
						dont := t.Intn("work", 3) == 0
						cur, _ := conn.Offset()
						arg := off
						var target int64
						switch whence {
						case kafka.SeekStart:
							target = p.LogStart + off
						case kafka.SeekAbsolute:
							arg = p.LogStart + off
							target = arg
						case kafka.SeekEnd:
							target = p.LEO - off
						case kafka.SeekCurrent:
							target = cur + off
						}
						if whence == kafka.SeekAbsolute && arg < 0 {
							// negative absolute offsets are the FirstOffset/LastOffset placeholders
							conn.Close()
							cancel()
							continue
						}
						if whence == kafka.SeekCurrent {
							// the connection's current position in absolute terms
							co, cw := conn.Offset()
							switch cw {
							case kafka.SeekStart:
								cur = p.LogStart + co
							case kafka.SeekEnd:
								cur = p.LEO - co
							default:
								cur = co
							}
							target = cur + off
						}
						w := whence
						if dont {
							w |= kafka.SeekDontCheck
						}
						got, err := conn.Seek(arg, w)
						inRange := target >= p.LogStart && target <= p.LEO
						// DontCheck skips the bound check for absolute seeks, and for relative
						// ones when the current position is a concrete offset
						_, cw0 := conn.Offset()
						checked := !(dont && (whence == kafka.SeekAbsolute || (whence == kafka.SeekCurrent && cw0 == kafka.SeekAbsolute)))
						switch {
						case checked && !inRange:
							if !errors.Is(err, kafka.OffsetOutOfRange) && !(whence == kafka.SeekAbsolute && arg == cur) {
								bad("R3-seek", "Conn.Seek(%d, whence %d, dontcheck %v) on %s[%d] (log [%d,%d], current %d): target %d is out of range, got (%d, %v)", arg, whence, dont, tn, p.ID, p.LogStart, p.LEO, cur, target, got, err)
							}
						case err == nil && got != target:
							bad("R3-seek", "Conn.Seek(%d, whence %d, dontcheck %v) on %s[%d] (log [%d,%d], current %d) returned %d, reference position %d", arg, whence, dont, tn, p.ID, p.LogStart, p.LEO, cur, got, target)
						case err == nil:
							if now, _ := conn.Offset(); now != target {
								bad("R3-seek", "Conn.Seek left the connection at %d, reference position %d", now, target)
							}
						case checked && inRange && err != nil:
							bad("R3-seek", "Conn.Seek(%d, whence %d) on %s[%d]: in-range target %d rejected with %v", arg, whence, tn, p.ID, target, err)
						}
					}
					conn.Close()
				case 6: // Conn.ReadPartitions
					d := &kafka.Dialer{DialFunc: n.Dialer("queries-conn"), ClientID: "queries", Timeout: 2 * time.Second}
					conn, err := d.DialContext(ctx, "tcp", cl.Brokers[0].Addr())
					if err != nil {
						break
					}
					conn.SetDeadline(time.Now().Add(3 * time.Second))
					got, err := conn.ReadPartitions(tn)
					if err == nil {
						sort.Slice(got, func(i, j int) bool { return got[i].ID < got[j].ID })
						if len(got) != len(ps) {
							bad("R1-read-partitions", "Conn.ReadPartitions(%s): %d partitions, topic has %d", tn, len(got), len(ps))
						}
						for i := range got {
							if i < len(ps) && (got[i].Topic != tn || got[i].ID != int(ps[i].ID) || (int32(got[i].Leader.ID) != ps[i].Leader && downBroker == 0)) {
								bad("R1-read-partitions", "Conn.ReadPartitions(%s)[%d]: topic %s id %d leader %d, model leader %d", tn, i, got[i].Topic, got[i].ID, got[i].Leader.ID, ps[i].Leader)
							}
						}
					}
					conn.Close()
				}
				cancel()
				s.Count("ops")
				s.Pause("op")
			}
		})
	}
	closed, closing := false, false
	s.DoneWhen(func() bool {
		if s.Actors() > 0 {
			return false
		}
		if !closing {
			closing = true
			s.Go("closer", func() { tr.CloseIdleConnections(); closed = true })
			return false
		}
		return closed
	})
	s.AtEnd(func() {
		if reqAddr != nil {
			s.Count("client-with-per-request-addresses")
			if k := n.Dialed["elsewhere:9092"]; k > 0 {
				bad("R6-request-addr", "every request named %v as its address, yet the client dialled its own default address elsewhere:9092 %d times", reqAddr, k)
			}
		}
		n.Shutdown()
	})
}
