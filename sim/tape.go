package sim

import (
	"encoding/json"
	"hash/fnv"
	"sort"
)

// Tape is the single source of every decision of a run. Each named stream is
// an independent splitmix64 generator keyed by (seed, run, stream name); every
// draw is recorded. In replay mode the recorded values are fed back; past the
// end of a recorded stream every draw is 0, and 0 is always the plain choice
// (no fault, no pre-emption, first candidate, sorted order, minimum latency).
type Tape struct {
	Seed    uint64
	Run     uint64
	streams map[string]*stream
	replay  map[string][]uint32 // non-nil: replay mode
	Draws   int
}

type stream struct {
	state uint64
	rec   []uint32
	pos   int
}

func NewTape(seed, run uint64) *Tape {
	return &Tape{Seed: seed, Run: run, streams: map[string]*stream{}}
}

// NewReplayTape replays recorded streams.
func NewReplayTape(seed, run uint64, rec map[string][]uint32) *Tape {
	t := NewTape(seed, run)
	t.replay = rec
	if t.replay == nil {
		t.replay = map[string][]uint32{}
	}
	return t
}

func splitmix(x *uint64) uint64 {
	*x += 0x9e3779b97f4a7c15
	z := *x
	z = (z ^ (z >> 30)) * 0xbf58476d1ce4e5b9
	z = (z ^ (z >> 27)) * 0x94d049bb133111eb
	return z ^ (z >> 31)
}

func (t *Tape) stream(name string) *stream {
	s, ok := t.streams[name]
	if !ok {
		h := fnv.New64a()
		h.Write([]byte(name))
		st := t.Seed*0x9e3779b97f4a7c15 ^ (t.Run+1)*0xd1342543de82ef95 ^ h.Sum64()
		splitmix(&st)
		s = &stream{state: st}
		t.streams[name] = s
	}
	return s
}

// Intn returns a value in [0,n).
func (t *Tape) Intn(name string, n int) int {
	if n <= 1 {
		return 0
	}
	s := t.stream(name)
	t.Draws++
	var v uint32
	if t.replay != nil {
		r := t.replay[name]
		if s.pos < len(r) {
			v = r[s.pos] % uint32(n)
		}
	} else {
		v = uint32(splitmix(&s.state) % uint64(n))
	}
	s.pos++
	s.rec = append(s.rec, v)
	return int(v)
}

// Chance returns true with probability num/den. Draw 0 (the replay default)
// is false.
func (t *Tape) Chance(name string, num, den int) bool {
	if num <= 0 {
		return false
	}
	return t.Intn(name, den) >= den-num
}

// Pick returns one of the values.
func Pick[T any](t *Tape, name string, vals ...T) T {
	return vals[t.Intn(name, len(vals))]
}

// Range returns a value in [lo,hi].
func (t *Tape) Range(name string, lo, hi int) int {
	if hi <= lo {
		return lo
	}
	return lo + t.Intn(name, hi-lo+1)
}

// Bytes returns n pseudo-random bytes (a single draw seeds them, so that the
// tape stays short).
func (t *Tape) Bytes(name string, n int) []byte {
	x := uint64(t.Intn(name, 1<<30)) + 1
	b := make([]byte, n)
	for i := range b {
		if i%8 == 0 {
			splitmix(&x)
		}
		b[i] = byte(x >> (8 * uint(i%8)))
	}
	return b
}

// Recorded returns the draws made so far, per stream.
func (t *Tape) Recorded() map[string][]uint32 {
	m := map[string][]uint32{}
	for k, s := range t.streams {
		m[k] = append([]uint32(nil), s.rec...)
	}
	return m
}

// StreamNames returns the stream names, sorted.
func (t *Tape) StreamNames() []string {
	var ns []string
	for k := range t.streams {
		ns = append(ns, k)
	}
	sort.Strings(ns)
	return ns
}

// ReplayFile is what a VIOLATION line points to.
type ReplayFile struct {
	Property  string              `json:"property"`
	Scenario  string              `json:"scenario"`
	Rule      string              `json:"rule"`
	Message   string              `json:"message"`
	Seed      uint64              `json:"seed"`
	Run       uint64              `json:"run"`
	Params    map[string]string   `json:"params,omitempty"`
	Tape      map[string][]uint32 `json:"tape"`
	Step      int                 `json:"step"`
	Digest    string              `json:"trace_digest"`
	Minimised bool                `json:"minimised"`
	Config    json.RawMessage     `json:"config,omitempty"`
	Ops       []string            `json:"ops,omitempty"`
	Faults    []string            `json:"faults,omitempty"`
	Trace     []string            `json:"trace_tail,omitempty"`
}

// SortedKeys returns the keys of a string-keyed map in sorted order.
func SortedKeys[V any](m map[string]V) []string {
	ks := make([]string, 0, len(m))
	for k := range m {
		ks = append(ks, k)
	}
	sort.Strings(ks)
	return ks
}
