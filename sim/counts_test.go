package sim

import (
	"fmt"
	"testing"
)

// TestCounts prints the sizes of the enumerated case spaces (used by the runner).
func TestCounts(t *testing.T) {
	fmt.Printf("COUNT kinds=%d cutresp=%d lenfuzz=%d connerr=%d saslraw=%d sizecut=%d stallclose=%d\n", len(WireKinds), CutCases(), LenCases(), ConnErrCases(), SaslRawCases(), SizeCutCases(), StallCloseCases())
}
