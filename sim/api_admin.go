package sim

import (
	"bytes"
	"crypto/hmac"
	"crypto/sha256"
	"crypto/sha512"
	"encoding/base64"
	"fmt"
	"hash"
	"strconv"
	"strings"

	"github.com/xdg-go/pbkdf2"
	"github.com/xdg-go/stringprep"
	rc "verif/sim/refcodec"
)

// ---------------------------------------------------------------------------
// topics / producer ids

func (c *Cluster) createTopics(b *Broker, r *Req) rc.Msg {
	var res []rc.Msg
	for _, t := range r.Body.Arr("topics") {
		name := t.Str("name")
		code := ErrNone
		switch {
		case b.ID != c.Controller:
			code = ErrNotController
		case c.Topics[name] != nil:
			code = ErrTopicAlreadyExists
		case t.I32("num_partitions") <= 0 && len(t.Arr("assignments")) == 0:
			code = ErrInvalidPartitions
		case r.Fault == "error-code":
			code = ErrRequestTimedOut
		}
		if code == ErrNone && !r.Body.Bool("validate_only") {
			n := int(t.I32("num_partitions"))
			if n <= 0 {
				n = len(t.Arr("assignments"))
			}
			i := 0
			c.AddTopic(name, n, func(int) int32 { i++; return c.Brokers[(i-1)%len(c.Brokers)].ID })
			r.Applied = true
		}
		res = append(res, rc.Msg{"name": name, "error_code": code, "error_message": nil, "num_partitions": t.I32("num_partitions"),
			"replication_factor": t.I16("replication_factor"), "configs": []rc.Msg{}})
	}
	return rc.Msg{"throttle_time_ms": int32(0), "topics": res}
}

func (c *Cluster) deleteTopics(b *Broker, r *Req) rc.Msg {
	var res []rc.Msg
	for _, x := range r.Body.Prims("topic_names") {
		name := x.(string)
		code := ErrNone
		switch {
		case b.ID != c.Controller:
			code = ErrNotController
		case c.Topics[name] == nil:
			code = ErrUnknownTopicOrPartition
		}
		if code == ErrNone {
			delete(c.Topics, name)
			r.Applied = true
		}
		res = append(res, rc.Msg{"name": name, "error_code": code, "error_message": nil})
	}
	return rc.Msg{"throttle_time_ms": int32(0), "responses": res}
}

func (c *Cluster) initProducerID(b *Broker, r *Req) rc.Msg {
	c.nextPID++
	r.Applied = true
	return rc.Msg{"throttle_time_ms": int32(0), "error_code": ErrNone, "producer_id": int64(1000 + c.nextPID), "producer_epoch": int16(0)}
}

// ---------------------------------------------------------------------------
// SASL reference server (PLAIN by hand; SCRAM per RFC 5802 by hand, using only
// PBKDF2 and SASLprep helpers)

// SASLConfig enables SASL on every broker of the cluster.
type SASLConfig struct {
	Mechanisms []string          // enabled mechanisms
	Users      map[string]string // user -> password
	Iters      int
	// fault injection: at which step the exchange is sabotaged
	// "" none, "handshake-error", "bad-server-first", "bad-server-final", "close-after-handshake",
	// "close-mid", "auth-error"
	Sabotage string
	// AuthErrorCode: the error code of a rejected SaslAuthenticate ("auth-error"
	// sabotage); 0 means SASL_AUTHENTICATION_FAILED (58)
	AuthErrorCode int16
	// RawReply, when set, replaces the broker's answer to a raw (handshake v0)
	// token: the bytes to deliver, and whether the broker closes afterwards.
	RawReply func(tokLen int) (frame []byte, closeAfter bool)
	// observations
	Accepted []string // connection ids ("c<N>") that were authenticated
	Rejected []string
}

type scramConv struct {
	mech            string
	hg              func() hash.Hash
	step            int
	user            string
	clientFirstBare string
	serverFirst     string
	nonce           string
	salt            []byte
	ok              bool
}

func scramHash(mech string) func() hash.Hash {
	if mech == "SCRAM-SHA-512" {
		return sha512.New
	}
	return sha256.New
}

func (c *Cluster) saslHandshake(b *Broker, cn *Conn, st *connState, r *Req) rc.Msg {
	cfg := c.SASL
	mech := r.Body.Str("mechanism")
	var enabled []any
	ok := false
	if cfg != nil {
		for _, m := range cfg.Mechanisms {
			enabled = append(enabled, m)
			if m == mech {
				ok = true
			}
		}
	}
	r.Applied = true
	if cfg == nil {
		return rc.Msg{"error_code": ErrIllegalSASLState, "mechanisms": []any{}}
	}
	if cfg.Sabotage == "handshake-error" || !ok {
		c.S.Count("fault:sasl-unsupported-mechanism")
		return rc.Msg{"error_code": ErrUnsupportedSASLMechanism, "mechanisms": enabled}
	}
	st.saslMech = mech
	if r.Hdr.APIVersion == 0 {
		st.saslRaw = true
	}
	if strings.HasPrefix(mech, "SCRAM") {
		st.saslConv = &scramConv{mech: mech, hg: scramHash(mech)}
	}
	if cfg.Sabotage == "close-after-handshake" {
		c.S.Count("fault:sasl-close")
		c.S.After(0, fmt.Sprintf("c%d:sasl-close", cn.ID), func() { cn.ServerClose() })
	}
	return rc.Msg{"error_code": ErrNone, "mechanisms": enabled}
}

// saslStep processes one client token; it returns the server token, whether
// the exchange is complete, and an error text when authentication failed.
func (c *Cluster) saslStep(cn *Conn, st *connState, tok []byte) (out []byte, done bool, fail string) {
	cfg := c.SASL
	switch {
	case st.saslMech == "PLAIN":
		parts := bytes.Split(tok, []byte{0})
		if len(parts) != 3 {
			return nil, true, "malformed PLAIN token"
		}
		user, pass := string(parts[1]), string(parts[2])
		if want, ok := cfg.Users[user]; !ok || want != pass {
			return nil, true, "invalid credentials"
		}
		return []byte{}, true, ""
	case strings.HasPrefix(st.saslMech, "SCRAM"):
		sc := st.saslConv.(*scramConv)
		sc.step++
		switch sc.step {
		case 1:
			msg := string(tok)
			if !strings.HasPrefix(msg, "n,,") {
				return nil, true, "unsupported gs2 header"
			}
			sc.clientFirstBare = msg[3:]
			var cnonce string
			for _, f := range strings.Split(sc.clientFirstBare, ",") {
				if strings.HasPrefix(f, "n=") {
					sc.user = strings.ReplaceAll(strings.ReplaceAll(f[2:], "=2C", ","), "=3D", "=")
				}
				if strings.HasPrefix(f, "r=") {
					cnonce = f[2:]
				}
			}
			if cnonce == "" {
				return nil, true, "no client nonce"
			}
			sc.salt = []byte(fmt.Sprintf("salt-%s-%d", sc.user, cn.ID))
			sc.nonce = cnonce + fmt.Sprintf("srv%08x", c.S.T.Intn("net", 1<<30))
			iters := cfg.Iters
			if iters == 0 {
				iters = 4096
			}
			sc.serverFirst = fmt.Sprintf("r=%s,s=%s,i=%d", sc.nonce, base64.StdEncoding.EncodeToString(sc.salt), iters)
			if cfg.Sabotage == "bad-server-first" {
				c.S.Count("fault:sasl-bad-server-first")
				return []byte("r=wrongnonce,s=" + base64.StdEncoding.EncodeToString(sc.salt) + ",i=4096"), false, ""
			}
			return []byte(sc.serverFirst), false, ""
		case 2:
			msg := string(tok)
			i := strings.LastIndex(msg, ",p=")
			if i < 0 {
				return nil, true, "no proof"
			}
			withoutProof, proofB64 := msg[:i], msg[i+3:]
			proof, err := base64.StdEncoding.DecodeString(proofB64)
			if err != nil {
				return nil, true, "bad proof encoding"
			}
			if !strings.Contains(withoutProof, "r="+sc.nonce) {
				return nil, true, "nonce mismatch"
			}
			// the client sends the SASLprep-ed user name (RFC 5802): stored names
			// are compared in their prepared form
			pass, known := "", false
			for name, pw := range cfg.Users {
				if prep, err := stringprep.SASLprep.Prepare(name); err == nil && prep == sc.user {
					pass, known = pw, true
				}
			}
			if !known {
				return nil, true, "unknown user"
			}
			norm, err := stringprep.SASLprep.Prepare(pass)
			if err != nil {
				return nil, true, "password not SASLprep-able"
			}
			iters := cfg.Iters
			if iters == 0 {
				iters = 4096
			}
			hg := sc.hg
			salted := pbkdf2.Key([]byte(norm), sc.salt, iters, hg().Size(), hg)
			mac := func(key, data []byte) []byte { h := hmac.New(hg, key); h.Write(data); return h.Sum(nil) }
			clientKey := mac(salted, []byte("Client Key"))
			hh := hg()
			hh.Write(clientKey)
			storedKey := hh.Sum(nil)
			serverKey := mac(salted, []byte("Server Key"))
			authMsg := sc.clientFirstBare + "," + sc.serverFirst + "," + withoutProof
			sig := mac(storedKey, []byte(authMsg))
			if len(proof) != len(sig) {
				return nil, true, "bad proof length"
			}
			ck := make([]byte, len(sig))
			for k := range sig {
				ck[k] = proof[k] ^ sig[k]
			}
			h2 := hg()
			h2.Write(ck)
			if !hmac.Equal(h2.Sum(nil), storedKey) {
				return nil, true, "invalid proof"
			}
			sc.ok = true
			final := "v=" + base64.StdEncoding.EncodeToString(mac(serverKey, []byte(authMsg)))
			if cfg.Sabotage == "bad-server-final" {
				c.S.Count("fault:sasl-bad-server-final")
				final = "v=" + base64.StdEncoding.EncodeToString([]byte("not the server signature........"))
			}
			return []byte(final), true, ""
		}
		return nil, true, "unexpected SCRAM step"
	}
	return nil, true, "no mechanism negotiated"
}

func (c *Cluster) saslAuthenticate(b *Broker, cn *Conn, st *connState, r *Req) rc.Msg {
	r.Applied = true
	if c.SASL == nil || st.saslMech == "" || st.saslRaw {
		return rc.Msg{"error_code": ErrIllegalSASLState, "error_message": "handshake required", "auth_bytes": []byte{}, "session_lifetime_ms": int64(0)}
	}
	if c.SASL.Sabotage == "close-mid" {
		c.S.Count("fault:sasl-close")
		c.S.After(0, fmt.Sprintf("c%d:sasl-close", cn.ID), func() { cn.ServerClose() })
	}
	if c.SASL.Sabotage == "auth-error" {
		c.S.Count("fault:sasl-auth-error")
		c.SASL.Rejected = append(c.SASL.Rejected, "c"+strconv.Itoa(cn.ID))
		c.S.After(c.N.latency()*3, fmt.Sprintf("c%d:sasl-close", cn.ID), func() { cn.ServerClose() })
		code := ErrSASLAuthenticationFailed
		if c.SASL.AuthErrorCode != 0 {
			code = c.SASL.AuthErrorCode
		}
		return rc.Msg{"error_code": code, "error_message": "injected", "auth_bytes": []byte{}, "session_lifetime_ms": int64(0)}
	}
	out, done, fail := c.saslStep(cn, st, r.Body.Bytes("auth_bytes"))
	if fail != "" {
		c.SASL.Rejected = append(c.SASL.Rejected, "c"+strconv.Itoa(cn.ID))
		c.S.After(c.N.latency()*3, fmt.Sprintf("c%d:sasl-close", cn.ID), func() { cn.ServerClose() })
		return rc.Msg{"error_code": ErrSASLAuthenticationFailed, "error_message": fail, "auth_bytes": []byte{}, "session_lifetime_ms": int64(0)}
	}
	if done && c.SASL.Sabotage != "bad-server-final" {
		st.authed = true
		c.SASL.Accepted = append(c.SASL.Accepted, "c"+strconv.Itoa(cn.ID))
	}
	if out == nil {
		out = []byte{}
	}
	return rc.Msg{"error_code": ErrNone, "error_message": nil, "auth_bytes": out, "session_lifetime_ms": int64(0)}
}

// saslRawToken handles the raw (pre-KIP-152) token exchange after a v0 handshake.
func (c *Cluster) saslRawToken(b *Broker, cn *Conn, st *connState, tok []byte) {
	r := &Req{Idx: len(c.Journal), Step: c.S.Step, At: c.S.Now(), Broker: b.ID, Conn: cn, Frame: tok, RespAt: -1, Handled: true, Note: "raw-sasl-token"}
	c.Journal = append(c.Journal, r)
	if c.SASL.Sabotage == "close-mid" {
		c.S.Count("fault:sasl-close")
		cn.ServerClose()
		return
	}
	if c.SASL.RawReply != nil {
		// a hostile broker: the scenario supplies the raw bytes of the reply
		// and what happens to the connection afterwards
		c.S.Count("fault:sasl-raw-hostile-length")
		frame, closeAfter := c.SASL.RawReply(len(tok))
		c.S.After(c.N.latency(), fmt.Sprintf("c%d:sasl-token", cn.ID), func() { cn.Deliver(frame) })
		if closeAfter {
			c.S.After(2*c.N.latency(), fmt.Sprintf("c%d:sasl-close", cn.ID), func() { cn.ServerClose() })
		}
		return
	}
	out, done, fail := c.saslStep(cn, st, tok)
	if fail != "" || c.SASL.Sabotage == "auth-error" {
		// a failed raw exchange closes the connection
		c.SASL.Rejected = append(c.SASL.Rejected, "c"+strconv.Itoa(cn.ID))
		c.S.After(c.N.latency(), fmt.Sprintf("c%d:sasl-close", cn.ID), func() { cn.ServerClose() })
		return
	}
	if done && c.SASL.Sabotage != "bad-server-final" {
		st.authed = true
		c.SASL.Accepted = append(c.SASL.Accepted, "c"+strconv.Itoa(cn.ID))
	}
	frame := make([]byte, 4+len(out))
	frame[0], frame[1], frame[2], frame[3] = byte(len(out)>>24), byte(len(out)>>16), byte(len(out)>>8), byte(len(out))
	copy(frame[4:], out)
	c.S.After(c.N.latency(), fmt.Sprintf("c%d:sasl-token", cn.ID), func() { cn.Deliver(frame) })
}
