package sim

// Smoke scenario: kernel self-test only (not an oracle). The broker side uses
// kafka-go's own protocol package, so it says nothing about the codec; it
// exists to exercise scheduler, network, clock and determinism with the real
// Writer and Transport.

import (
	"bytes"
	"context"
	"encoding/binary"
	"fmt"
	"time"

	kafka "github.com/segmentio/kafka-go"
	"github.com/segmentio/kafka-go/protocol"
	"github.com/segmentio/kafka-go/protocol/apiversions"
	"github.com/segmentio/kafka-go/protocol/metadata"
	"github.com/segmentio/kafka-go/protocol/produce"
)

var Scenarios = map[string]ScenarioFunc{}

func init() { Scenarios["smoke"] = smokeScenario }

type smokeBroker struct {
	s       *Sim
	n       *Net
	offsets map[int32]int64
	applied int
}

func (b *smokeBroker) OnClientClose(c *Conn) {}

func (b *smokeBroker) OnData(c *Conn) {
	for {
		buf := c.ClientBytes()
		if len(buf) < 4 {
			return
		}
		sz := int(binary.BigEndian.Uint32(buf))
		if len(buf) < 4+sz {
			return
		}
		frame := append([]byte(nil), buf[:4+sz]...)
		c.Consume(4 + sz)
		ver, corr, _, msg, err := protocol.ReadRequest(bytes.NewReader(frame))
		if err != nil {
			b.s.Fail("SMOKE", "decode", "%v", err)
			return
		}
		var resp protocol.Message
		switch m := msg.(type) {
		case *apiversions.Request:
			resp = &apiversions.Response{ApiKeys: []apiversions.ApiKeyResponse{
				{ApiKey: 0, MinVersion: 0, MaxVersion: 7}, {ApiKey: 3, MinVersion: 0, MaxVersion: 8}, {ApiKey: 18, MinVersion: 0, MaxVersion: 2}}}
		case *metadata.Request:
			r := &metadata.Response{Brokers: []metadata.ResponseBroker{{NodeID: 1, Host: "b1", Port: 9092}}, ControllerID: 1}
			t := metadata.ResponseTopic{Name: "t"}
			for p := int32(0); p < 3; p++ {
				t.Partitions = append(t.Partitions, metadata.ResponsePartition{PartitionIndex: p, LeaderID: 1, ReplicaNodes: []int32{1}, IsrNodes: []int32{1}})
			}
			r.Topics = []metadata.ResponseTopic{t}
			resp = r
		case *produce.Request:
			r := &produce.Response{}
			for _, t := range m.Topics {
				rt := produce.ResponseTopic{Topic: t.Topic}
				for _, p := range t.Partitions {
					n := 0
					for {
						rec, err := p.RecordSet.Records.ReadRecord()
						if err != nil {
							break
						}
						_ = rec
						n++
					}
					base := b.offsets[p.Partition]
					b.offsets[p.Partition] += int64(n)
					b.applied += n
					rt.Partitions = append(rt.Partitions, produce.ResponsePartition{Partition: p.Partition, BaseOffset: base})
				}
				r.Topics = append(r.Topics, rt)
			}
			resp = r
		default:
			b.s.Fail("SMOKE", "api", "unexpected %T", msg)
			return
		}
		var out bytes.Buffer
		if err := protocol.WriteResponse(&out, ver, corr, resp); err != nil {
			b.s.Fail("SMOKE", "encode", "%v", err)
			return
		}
		data := out.Bytes()
		b.s.After(b.n.latency(), fmt.Sprintf("c%d:resp", c.ID), func() { c.Deliver(data) })
	}
}

func smokeScenario(s *Sim, params map[string]string) {
	n := NewNet(s)
	n.MinLatency, n.MaxLatency = time.Millisecond, 5*time.Millisecond
	br := &smokeBroker{s: s, n: n, offsets: map[int32]int64{}}
	n.Listen("b1:9092", br)
	tr := &kafka.Transport{Dial: n.Dial, ClientID: "sim", MetadataTTL: 5 * time.Second}
	w := &kafka.Writer{Addr: kafka.TCP("b1:9092"), Topic: "t", Transport: tr, BatchSize: s.T.Range("cfg", 1, 5),
		BatchTimeout: time.Duration(s.T.Range("cfg", 1, 50)) * time.Millisecond, Balancer: &kafka.RoundRobin{}, RequiredAcks: kafka.RequireOne}
	acked := 0
	nact := s.T.Range("cfg", 1, 4)
	for a := 0; a < nact; a++ {
		a := a
		s.Go(fmt.Sprintf("w%d", a), func() {
			for i := 0; i < 5; i++ {
				k := s.T.Range("work", 1, 3)
				msgs := make([]kafka.Message, k)
				for j := range msgs {
					msgs[j] = kafka.Message{Value: []byte(fmt.Sprintf("a%d-%d-%d", a, i, j))}
				}
				if err := w.WriteMessages(context.Background(), msgs...); err != nil {
					s.Fail("SMOKE", "write", "%v", err)
					return
				}
				acked += k
				s.Pause("op")
			}
		})
	}
	closed := false
	s.DoneWhen(func() bool {
		if s.Actors() > 0 {
			return false
		}
		if !closed {
			closed = true
			s.Go("closer", func() {
				w.Close()
				tr.CloseIdleConnections()
			})
			return false
		}
		return true
	})
	s.AtEnd(func() {
		if acked != br.applied {
			s.Fail("SMOKE", "count", "acked %d applied %d", acked, br.applied)
		}
		n.Shutdown()
	})
}
