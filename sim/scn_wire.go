package sim

import (
	"context"
	"encoding/binary"
	"errors"
	"fmt"
	"io"
	"runtime"
	"strings"
	"time"

	kafka "github.com/segmentio/kafka-go"
	rc "verif/sim/refcodec"
)

// The wire scenarios drive one client call per run against a small static
// cluster and damage exactly one response:
//
//	cutresp (C17): deliver exactly k bytes of the response, then EOF or RST,
//	               for every k in [0, len]
//	lenfuzz (C20): overwrite one length / count field of the response with a
//	               hostile value, for every field and every value of a fixed set

func init() {
	Scenarios["cutresp"] = cutrespScenario
	Scenarios["lenfuzz"] = lenfuzzScenario
	Scenarios["sizecut"] = sizecutScenario
}

type wireEnv struct {
	s      *Sim
	cl     *Cluster
	n      *Net
	b      *Broker
	client *kafka.Client
	tr     *kafka.Transport
	conn   *kafka.Conn
	ctx    context.Context
	gen    int32
	member string
}

// wireKind is one call kind of the corpus.
type wireKind struct {
	name  string
	path  string          // "conn" | "transport"
	api   int16           // api key of the exchange whose response is damaged
	nth   int             // damage the nth (0-based) response of that api seen after arming
	vers  map[int16]int16 // version ceilings for this kind
	magic int8            // stored record format
	codec int8
	pad   int                              // extra bytes in every stored value
	prep  func(e *wireEnv) error           // un-damaged preparation (join before sync ...)
	call  func(e *wireEnv) (string, error) // the call; returns "" or a description of a wrong value
}

const wireBase = int64(1600000000000)

// wirePad: padding of the stored values in the current run's log
var wirePad int

func wireCluster(s *Sim, k *wireKind) *wireEnv {
	wirePad = k.pad
	n := NewNet(s)
	n.MinLatency, n.MaxLatency = 200*time.Microsecond, 200*time.Microsecond
	cl := NewCluster(s, n)
	b := cl.AddBroker(1, "rack-a")
	for api, v := range k.vers {
		b.Versions[api] = [2]int16{0, v}
	}
	top := cl.AddTopic("wt", 2, func(int) int32 { return 1 })
	cl.AddTopic("wother", 1, func(int) int32 { return 1 })
	magic := k.magic
	for _, p := range top.Parts {
		p.LogStart, p.LEO = 3, 3
		for i := 0; i < 3; i++ {
			off := p.LEO
			nrec := 2
			b := rc.Batch{Magic: magic, Codec: k.codec, BaseOffset: off, LastOffsetDelta: int32(nrec - 1), ProducerID: -1, ProducerEpoch: -1, BaseSequence: -1,
				FirstTimestamp: wireBase + off, MaxTimestamp: wireBase + off + 1}
			for j := 0; j < nrec; j++ {
				r := rc.Record{Offset: off + int64(j), Timestamp: wireBase + off + int64(j), Key: []byte("k"), Value: []byte(fmt.Sprintf("wt/%d/%d|%s", p.ID, off+int64(j), "payload-payload") + strings.Repeat("x", k.pad))}
				if magic == 2 && j == 0 {
					r.Headers = []rc.Header{{Key: "h", Value: []byte("v")}}
				}
				if magic == 0 {
					r.Timestamp = -1
				}
				b.Records = append(b.Records, r)
			}
			if magic < 2 && k.codec != 0 {
				b.BaseOffset = off + int64(nrec-1)
				b.RelativeInner = magic == 1
			}
			cl.AppendPhysical(p, b, nrec)
		}
	}
	g := cl.group("wgrp")
	g.Offsets["wt"] = map[int32]int64{0: 4, 1: 5}
	e := &wireEnv{s: s, cl: cl, n: n, b: b}
	e.tr = &kafka.Transport{Dial: n.Dialer("wire"), ClientID: "wire", DialTimeout: 2 * time.Second, MetadataTTL: 30 * time.Second}
	e.client = &kafka.Client{Addr: kafka.TCP(b.Addr()), Transport: e.tr, Timeout: 3 * time.Second}
	return e
}

func checkRecords(what string, part int32, from int64, next func() (int64, []byte, error)) (string, error) {
	exp := from
	for {
		off, val, err := next()
		if err != nil {
			if errors.Is(err, io.EOF) {
				return "", nil
			}
			return "", err
		}
		if off < 3 || off >= 9 {
			return fmt.Sprintf("%s returned offset %d outside the log [3,9)", what, off), nil
		}
		want := fmt.Sprintf("wt/%d/%d|payload-payload", part, off) + strings.Repeat("x", wirePad)
		if string(val) != want {
			return fmt.Sprintf("%s returned offset %d with value %q (stored %q)", what, off, trunc(val), want), nil
		}
		if off >= from {
			if off != exp {
				return fmt.Sprintf("%s returned offset %d, expected %d", what, off, exp), nil
			}
			exp++
		}
	}
}

func joinPrep(e *wireEnv) error {
	for i := 0; i < 3; i++ {
		res, err := e.client.JoinGroup(e.ctx, &kafka.JoinGroupRequest{GroupID: "wgrp", SessionTimeout: 10 * time.Second, RebalanceTimeout: 5 * time.Second, MemberID: e.member,
			ProtocolType: "consumer", Protocols: []kafka.GroupProtocol{{Name: "range", Metadata: kafka.GroupProtocolSubscription{Topics: []string{"wt"}}}}})
		if err != nil {
			return err
		}
		e.member = res.MemberID
		if res.Error == nil {
			e.gen = int32(res.GenerationID)
			return nil
		}
		if !errors.Is(res.Error, kafka.MemberIDRequired) {
			return res.Error
		}
	}
	return errors.New("join did not complete")
}

func syncPrep(e *wireEnv) error {
	if err := joinPrep(e); err != nil {
		return err
	}
	res, err := e.client.SyncGroup(e.ctx, &kafka.SyncGroupRequest{GroupID: "wgrp", GenerationID: int(e.gen), MemberID: e.member, ProtocolType: "consumer", ProtocolName: "range",
		Assignments: []kafka.SyncGroupRequestAssignment{{MemberID: e.member, Assignment: kafka.GroupProtocolAssignment{AssignedPartitions: map[string][]int{"wt": {0, 1}}}}}})
	if err != nil {
		return err
	}
	return res.Error
}

func vers(kv ...int16) map[int16]int16 {
	m := map[int16]int16{}
	for i := 0; i+1 < len(kv); i += 2 {
		m[kv[i]] = kv[i+1]
	}
	return m
}

func connFetchKind(name string, fetchCeil int16, magic, codec int8) wireKind {
	return connFetchKindPad(name, fetchCeil, magic, codec, 0)
}

// connFetchKindPad: the stored values are padded to pad more bytes (values of
// more than 64 KiB take their own path through the reader).
func connFetchKindPad(name string, fetchCeil int16, magic, codec int8, pad int) wireKind {
	return wireKind{name: name, path: "conn", api: 1, vers: vers(1, fetchCeil), magic: magic, codec: codec, pad: pad,
		call: func(e *wireEnv) (string, error) {
			if _, err := e.conn.Seek(4, kafka.SeekAbsolute|kafka.SeekDontCheck); err != nil {
				return "", err
			}
			b := e.conn.ReadBatch(1, 1<<20)
			wrong, err := checkRecords("Conn.ReadBatch", 0, 4, func() (int64, []byte, error) {
				m, err := b.ReadMessage()
				return m.Offset, m.Value, err
			})
			cerr := b.Close()
			if err == nil {
				err = cerr
			}
			return wrong, err
		}}
}

func clientFetchKind(name string, fetchCeil int16, magic, codec int8) wireKind {
	return wireKind{name: name, path: "transport", api: 1, vers: vers(1, fetchCeil), magic: magic, codec: codec,
		call: func(e *wireEnv) (string, error) {
			res, err := e.client.Fetch(e.ctx, &kafka.FetchRequest{Topic: "wt", Partition: 1, Offset: 4, MinBytes: 1, MaxBytes: 1 << 20, MaxWait: 100 * time.Millisecond})
			if err != nil {
				return "", err
			}
			if res.Error != nil {
				return "", res.Error
			}
			if res.HighWatermark != 9 {
				return fmt.Sprintf("Client.Fetch returned high watermark %d (log end 9)", res.HighWatermark), nil
			}
			return checkRecords("Client.Fetch", 1, 4, func() (int64, []byte, error) {
				r, err := res.Records.ReadRecord()
				if err != nil {
					return 0, nil, err
				}
				var v []byte
				if r.Value != nil {
					v, err = io.ReadAll(r.Value)
					r.Value.Close()
				}
				if r.Key != nil {
					r.Key.Close()
				}
				return r.Offset, v, err
			})
		}}
}

// WireKinds is the response corpus: every response type the library reads
// through Conn (its fixed versions) and through Transport (low / high ends of
// the negotiable range, flexible and non-flexible).
var WireKinds = buildWireKinds()

func buildWireKinds() []wireKind {
	var ks []wireKind
	add := func(k wireKind) {
		if k.magic == 0 && k.name != "conn-fetch-v2-magic0" {
			k.magic = 2
		}
		ks = append(ks, k)
	}
	// ---- Conn path
	add(wireKind{name: "conn-apiversions", path: "conn", api: 18, call: func(e *wireEnv) (string, error) {
		vs, err := e.conn.ApiVersions()
		if err == nil && len(vs) != len(e.b.Versions) {
			return fmt.Sprintf("Conn.ApiVersions returned %d entries, broker advertises %d", len(vs), len(e.b.Versions)), nil
		}
		return "", err
	}})
	for _, mv := range []int16{1, 8} {
		mv := mv
		add(wireKind{name: fmt.Sprintf("conn-readpartitions-meta<=v%d", mv), path: "conn", api: 3, vers: vers(3, mv), call: func(e *wireEnv) (string, error) {
			ps, err := e.conn.ReadPartitions("wt")
			if err == nil && (len(ps) != 2 || ps[0].Topic != "wt" || ps[0].Leader.ID != 1) {
				return fmt.Sprintf("Conn.ReadPartitions(wt) returned %d partitions / wrong content", len(ps)), nil
			}
			return "", err
		}})
	}
	add(wireKind{name: "conn-brokers", path: "conn", api: 3, call: func(e *wireEnv) (string, error) {
		bs, err := e.conn.Brokers()
		if err == nil && (len(bs) != 1 || bs[0].Host != "b1" || bs[0].Port != 9092) {
			return "Conn.Brokers returned wrong broker list", nil
		}
		return "", err
	}})
	add(wireKind{name: "conn-readoffsets", path: "conn", api: 2, call: func(e *wireEnv) (string, error) {
		first, last, err := e.conn.ReadOffsets()
		if err == nil && (first != 3 || last != 9) {
			return fmt.Sprintf("Conn.ReadOffsets returned (%d,%d), log is [3,9)", first, last), nil
		}
		return "", err
	}})
	for _, pv := range []int16{2, 3, 8} {
		pv := pv
		add(wireKind{name: fmt.Sprintf("conn-produce<=v%d", pv), path: "conn", api: 0, vers: vers(0, pv), call: func(e *wireEnv) (string, error) {
			p := e.cl.Part("wt", 0)
			leo := p.LEO
			_, _, off, _, err := e.conn.WriteCompressedMessagesAt(nil, kafka.Message{Value: []byte("produced|")})
			if err == nil && (off != leo || p.LEO != leo+1) {
				return fmt.Sprintf("Conn.WriteCompressedMessagesAt returned offset %d, the record was appended at %d", off, leo), nil
			}
			return "", err
		}})
	}
	add(wireKind{name: "conn-createtopics", path: "conn", api: 19, call: func(e *wireEnv) (string, error) {
		err := e.conn.CreateTopics(kafka.TopicConfig{Topic: "created", NumPartitions: 1, ReplicationFactor: 1})
		if err == nil && e.cl.Topics["created"] == nil {
			return "Conn.CreateTopics returned nil, topic missing", nil
		}
		return "", err
	}})
	add(wireKind{name: "conn-deletetopics", path: "conn", api: 20, call: func(e *wireEnv) (string, error) {
		return "", e.conn.DeleteTopics("wother")
	}})
	k := connFetchKind("conn-fetch-v2-magic0", 3, 0, 0)
	add(k)
	add(connFetchKind("conn-fetch-v2-magic1-gzip", 3, 1, 1))
	add(connFetchKind("conn-fetch-v5-magic2", 7, 2, 0))
	add(connFetchKind("conn-fetch-v10-magic2-snappy", 11, 2, 2))
	add(connFetchKind("conn-fetch-v10-magic2-zstd", 11, 2, 4))
	add(connFetchKindPad("conn-fetch-v2-magic1-70KiB-values", 3, 1, 0, 70000))
	add(connFetchKindPad("conn-fetch-v2-magic0-70KiB-values", 3, 0, 0, 70000))
	add(connFetchKindPad("conn-fetch-v10-magic2-70KiB-values", 11, 2, 0, 70000))
	// ---- Transport path
	add(clientFetchKind("client-fetch-v2-magic1-lz4", 2, 1, 3))
	add(clientFetchKind("client-fetch-v4-magic2", 4, 2, 0))
	add(clientFetchKind("client-fetch-v11-magic2-gzip", 11, 2, 1))
	add(clientFetchKind("client-fetch-v11-magic2-zstd", 11, 2, 4))
	// (three batches of 5 KiB each: a cut inside a later batch leaves more
	// than a read buffer's worth of the announced frame outstanding)
	for _, k := range []wireKind{clientFetchKind("client-fetch-v11-magic2-2.5KiB-values", 11, 2, 0), clientFetchKind("client-fetch-v2-magic1-2.5KiB-values", 2, 1, 0)} {
		k.pad = 2500
		add(k)
	}
	for _, mv := range []int16{1, 5, 8} {
		mv := mv
		add(wireKind{name: fmt.Sprintf("client-metadata<=v%d", mv), path: "transport", api: 3, vers: vers(3, mv), call: func(e *wireEnv) (string, error) {
			res, err := e.client.Metadata(e.ctx, &kafka.MetadataRequest{Topics: []string{"wt"}})
			if err != nil {
				return "", err
			}
			if len(res.Brokers) != 1 || len(res.Topics) != 1 || res.Topics[0].Name != "wt" || (res.Topics[0].Error == nil && len(res.Topics[0].Partitions) != 2) {
				return fmt.Sprintf("Client.Metadata returned %d brokers, %d topics", len(res.Brokers), len(res.Topics)), nil
			}
			return "", res.Topics[0].Error
		}})
	}
	for _, lv := range []int16{1, 5} {
		lv := lv
		add(wireKind{name: fmt.Sprintf("client-listoffsets<=v%d", lv), path: "transport", api: 2, vers: vers(2, lv), call: func(e *wireEnv) (string, error) {
			res, err := e.client.ListOffsets(e.ctx, &kafka.ListOffsetsRequest{Topics: map[string][]kafka.OffsetRequest{"wt": {kafka.FirstOffsetOf(0), kafka.LastOffsetOf(0)}}})
			if err != nil {
				return "", err
			}
			for _, po := range res.Topics["wt"] {
				if po.Error != nil {
					return "", po.Error
				}
				if po.FirstOffset != 3 || po.LastOffset != 9 {
					return fmt.Sprintf("Client.ListOffsets returned first=%d last=%d, log is [3,9)", po.FirstOffset, po.LastOffset), nil
				}
			}
			if len(res.Topics["wt"]) != 1 {
				return fmt.Sprintf("Client.ListOffsets returned %d entries for wt", len(res.Topics["wt"])), nil
			}
			return "", nil
		}})
	}
	for _, pv := range []int16{2, 8} {
		pv := pv
		add(wireKind{name: fmt.Sprintf("client-produce<=v%d", pv), path: "transport", api: 0, vers: vers(0, pv), call: func(e *wireEnv) (string, error) {
			p := e.cl.Part("wt", 1)
			leo := p.LEO
			res, err := e.client.Produce(e.ctx, &kafka.ProduceRequest{Topic: "wt", Partition: 1, RequiredAcks: kafka.RequireAll, Records: kafka.NewRecordReader(kafka.Record{Value: kafka.NewBytes([]byte("produced|"))})})
			if err != nil {
				return "", err
			}
			if res.Error != nil {
				return "", res.Error
			}
			if pv >= 3 && res.BaseOffset != leo {
				return fmt.Sprintf("Client.Produce returned base offset %d, appended at %d", res.BaseOffset, leo), nil
			}
			if recs := p.Records(); p.LEO != leo+1 || len(recs) == 0 || string(recs[len(recs)-1].Value) != "produced|" {
				return fmt.Sprintf("Client.Produce returned success but the record was not appended (log end %d -> %d)", leo, p.LEO), nil
			}
			return "", nil
		}})
	}
	for _, ov := range []int16{1, 5} {
		ov := ov
		add(wireKind{name: fmt.Sprintf("client-offsetfetch<=v%d", ov), path: "transport", api: 9, vers: vers(9, ov), call: func(e *wireEnv) (string, error) {
			res, err := e.client.OffsetFetch(e.ctx, &kafka.OffsetFetchRequest{GroupID: "wgrp", Topics: map[string][]int{"wt": {0, 1}}})
			if err != nil {
				return "", err
			}
			if res.Error != nil {
				return "", res.Error
			}
			for _, po := range res.Topics["wt"] {
				want := int64(4 + po.Partition)
				if po.Error != nil {
					return "", po.Error
				}
				if po.CommittedOffset != want {
					return fmt.Sprintf("Client.OffsetFetch wt[%d] returned %d, committed %d", po.Partition, po.CommittedOffset, want), nil
				}
			}
			if len(res.Topics["wt"]) != 2 {
				return fmt.Sprintf("Client.OffsetFetch returned %d partitions", len(res.Topics["wt"])), nil
			}
			return "", nil
		}})
	}
	for _, ov := range []int16{2, 7} {
		ov := ov
		add(wireKind{name: fmt.Sprintf("client-offsetcommit<=v%d", ov), path: "transport", api: 8, vers: vers(8, ov), call: func(e *wireEnv) (string, error) {
			res, err := e.client.OffsetCommit(e.ctx, &kafka.OffsetCommitRequest{GroupID: "wgrp2", GenerationID: -1, Topics: map[string][]kafka.OffsetCommit{"wt": {{Partition: 0, Offset: 7}}}})
			if err != nil {
				return "", err
			}
			for _, pc := range res.Topics["wt"] {
				if pc.Error != nil {
					return "", pc.Error
				}
			}
			if e.cl.group("wgrp2").Offsets["wt"][0] != 7 {
				return "Client.OffsetCommit returned success but the coordinator holds no such commit", nil
			}
			return "", nil
		}})
	}
	for _, fv := range []int16{0, 2} {
		fv := fv
		add(wireKind{name: fmt.Sprintf("client-findcoordinator<=v%d", fv), path: "transport", api: 10, vers: vers(10, fv), call: func(e *wireEnv) (string, error) {
			res, err := e.client.FindCoordinator(e.ctx, &kafka.FindCoordinatorRequest{Key: "wgrp", KeyType: kafka.CoordinatorKeyTypeConsumer})
			if err != nil {
				return "", err
			}
			if res.Error != nil {
				return "", res.Error
			}
			if res.Coordinator == nil || res.Coordinator.NodeID != 1 || res.Coordinator.Host != "b1" || res.Coordinator.Port != 9092 {
				return fmt.Sprintf("Client.FindCoordinator returned %+v", res.Coordinator), nil
			}
			return "", nil
		}})
	}
	for _, jv := range []int16{2, 5, 7} {
		jv := jv
		add(wireKind{name: fmt.Sprintf("client-joingroup<=v%d", jv), path: "transport", api: 11, vers: vers(11, jv), nth: map[int16]int{2: 0, 5: 1, 7: 1}[jv], call: func(e *wireEnv) (string, error) {
			err := joinPrep(e)
			if err == nil && (e.member == "" || e.gen < 1) {
				return fmt.Sprintf("Client.JoinGroup returned member %q generation %d", e.member, e.gen), nil
			}
			return "", err
		}})
	}
	for _, sv := range []int16{0, 3, 5} {
		sv := sv
		add(wireKind{name: fmt.Sprintf("client-syncgroup<=v%d", sv), path: "transport", api: 14, vers: vers(14, sv, 11, 3), prep: joinPrep, call: func(e *wireEnv) (string, error) {
			res, err := e.client.SyncGroup(e.ctx, &kafka.SyncGroupRequest{GroupID: "wgrp", GenerationID: int(e.gen), MemberID: e.member, ProtocolType: "consumer", ProtocolName: "range",
				Assignments: []kafka.SyncGroupRequestAssignment{{MemberID: e.member, Assignment: kafka.GroupProtocolAssignment{AssignedPartitions: map[string][]int{"wt": {0, 1}}}}}})
			if err != nil {
				return "", err
			}
			if res.Error != nil {
				return "", res.Error
			}
			if len(res.Assignment.AssignedPartitions["wt"]) != 2 {
				return fmt.Sprintf("Client.SyncGroup returned assignment %v", res.Assignment.AssignedPartitions), nil
			}
			return "", nil
		}})
	}
	for _, hv := range []int16{0, 4} {
		hv := hv
		add(wireKind{name: fmt.Sprintf("client-heartbeat<=v%d", hv), path: "transport", api: 12, vers: vers(12, hv, 11, 3, 14, 3), prep: syncPrep, call: func(e *wireEnv) (string, error) {
			res, err := e.client.Heartbeat(e.ctx, &kafka.HeartbeatRequest{GroupID: "wgrp", GenerationID: e.gen, MemberID: e.member})
			if err != nil {
				return "", err
			}
			return "", res.Error
		}})
		add(wireKind{name: fmt.Sprintf("client-leavegroup<=v%d", hv), path: "transport", api: 13, vers: vers(13, hv, 11, 3, 14, 3), prep: syncPrep, call: func(e *wireEnv) (string, error) {
			res, err := e.client.LeaveGroup(e.ctx, &kafka.LeaveGroupRequest{GroupID: "wgrp", Members: []kafka.LeaveGroupRequestMember{{ID: e.member}}})
			if err != nil {
				return "", err
			}
			if res.Error != nil {
				return "", res.Error
			}
			if e.cl.group("wgrp").Members[e.member] != nil {
				return "Client.LeaveGroup returned success but the member is still in the group", nil
			}
			return "", nil
		}})
	}
	for _, cv := range []int16{0, 5} {
		cv := cv
		add(wireKind{name: fmt.Sprintf("client-createtopics<=v%d", cv), path: "transport", api: 19, vers: vers(19, cv), call: func(e *wireEnv) (string, error) {
			res, err := e.client.CreateTopics(e.ctx, &kafka.CreateTopicsRequest{Topics: []kafka.TopicConfig{{Topic: "created", NumPartitions: 2, ReplicationFactor: 1}}})
			if err != nil {
				return "", err
			}
			if res.Errors["created"] != nil {
				return "", res.Errors["created"]
			}
			if e.cl.Topics["created"] == nil {
				return "Client.CreateTopics returned success, topic missing", nil
			}
			return "", nil
		}})
	}
	add(wireKind{name: "client-deletetopics", path: "transport", api: 20, call: func(e *wireEnv) (string, error) {
		res, err := e.client.DeleteTopics(e.ctx, &kafka.DeleteTopicsRequest{Topics: []string{"wother"}})
		if err != nil {
			return "", err
		}
		return "", res.Errors["wother"]
	}})
	for _, iv := range []int16{0, 4} {
		iv := iv
		add(wireKind{name: fmt.Sprintf("client-initproducerid<=v%d", iv), path: "transport", api: 22, vers: vers(22, iv), call: func(e *wireEnv) (string, error) {
			res, err := e.client.InitProducerID(e.ctx, &kafka.InitProducerIDRequest{TransactionTimeoutMs: 1000})
			if err != nil {
				return "", err
			}
			if res.Error != nil {
				return "", res.Error
			}
			if res.Producer == nil || res.Producer.ProducerID < 1000 {
				return "Client.InitProducerID returned no producer id", nil
			}
			return "", nil
		}})
	}
	for _, av := range []int16{0, 2} {
		av := av
		add(wireKind{name: fmt.Sprintf("client-apiversions<=v%d", av), path: "transport", api: 18, vers: vers(18, av), nth: 1, call: func(e *wireEnv) (string, error) {
			res, err := e.client.ApiVersions(e.ctx, &kafka.ApiVersionsRequest{})
			if err != nil {
				return "", err
			}
			if res.Error != nil {
				return "", res.Error
			}
			if len(res.ApiKeys) != len(e.b.Versions) {
				return fmt.Sprintf("Client.ApiVersions returned %d entries, broker advertises %d", len(res.ApiKeys), len(e.b.Versions)), nil
			}
			return "", nil
		}})
	}
	for _, dv := range []int16{0, 5} {
		dv := dv
		add(wireKind{name: fmt.Sprintf("client-describegroups<=v%d", dv), path: "transport", api: 15, vers: vers(15, dv, 11, 3, 14, 3), prep: syncPrep, call: func(e *wireEnv) (string, error) {
			res, err := e.client.DescribeGroups(e.ctx, &kafka.DescribeGroupsRequest{GroupIDs: []string{"wgrp"}})
			if err != nil {
				return "", err
			}
			if len(res.Groups) != 1 || res.Groups[0].GroupID != "wgrp" {
				return fmt.Sprintf("Client.DescribeGroups returned %d groups", len(res.Groups)), nil
			}
			if res.Groups[0].Error != nil {
				return "", res.Groups[0].Error
			}
			if len(res.Groups[0].Members) != 1 || res.Groups[0].Members[0].MemberID != e.member {
				return "Client.DescribeGroups returned wrong members", nil
			}
			return "", nil
		}})
	}
	add(wireKind{name: "client-listgroups", path: "transport", api: 16, vers: vers(16, 2, 11, 3, 14, 3), prep: syncPrep, call: func(e *wireEnv) (string, error) {
		res, err := e.client.ListGroups(e.ctx, &kafka.ListGroupsRequest{})
		if err != nil {
			return "", err
		}
		if res.Error != nil {
			return "", res.Error
		}
		found := false
		for _, g := range res.Groups {
			if g.GroupID == "wgrp" {
				found = true
			}
		}
		if !found {
			return "Client.ListGroups did not list wgrp", nil
		}
		return "", nil
	}})
	return ks
}

// runWireCase runs one call of kind k with `damage` applied to the response
// frame of the target exchange. It reports what happened.
type wireOutcome struct {
	fired      bool
	frameLen   int
	err        error
	wrong      string
	took       time.Duration
	conn       *Conn // simnet connection that carried the damaged response
	outBefore  int   // client bytes written on it when the call returned
	alloc      uint64
	prepFailed error
	fields     []rc.LenField
	recFields  []rc.LenField
	reqIdx     int
	// a concurrent call of another API on the same Conn (cutresp, conn path)
	companion   bool
	pooled      bool
	compStarted bool
	compDone    bool
	compErr     error
	compTook    time.Duration
	retAt       time.Duration // instant the call under test returned
}

// wireCompanion asks the next runWireCase for a second goroutine with a
// request pending on the same Conn.
var wireCompanion bool

// wirePooled asks the next runWireCase (Transport path) to complete another
// exchange with the broker first, so that the exchange under test runs on a
// connection re-used from the Transport's idle pool.
var wirePooled bool

func runWireCase(s *Sim, k *wireKind, damage func(r *Req, frame []byte, fields []rc.LenField, out *wireOutcome) []byte, measure bool) (*wireEnv, *wireOutcome, func()) {
	e := wireCluster(s, k)
	out := &wireOutcome{companion: wireCompanion, pooled: wirePooled}
	wireCompanion, wirePooled = false, false
	armed := false
	seen := 0
	var lastFields []rc.LenField
	e.cl.Mutate = func(r *Req, body rc.Msg) rc.Msg {
		// re-encode to learn the length fields of this response (the broker
		// encodes once more right after; deterministic)
		if armed && !out.fired && r.Hdr.APIKey == k.api && seen == k.nth {
			_, fs, err := rc.EncodeResponse(r.Hdr.APIKey, r.Hdr.APIVersion, r.Hdr.CorrelationID, body, nil)
			if err == nil {
				lastFields = fs
			}
		}
		return body
	}
	e.cl.MutateFrame = func(r *Req, frame []byte) []byte {
		if !armed || out.fired || r.Hdr.APIKey != k.api {
			return frame
		}
		if seen < k.nth {
			seen++
			return frame
		}
		out.fired = true
		out.frameLen = len(frame)
		out.conn = r.Conn
		out.reqIdx = r.Idx
		out.fields = lastFields
		return damage(r, append([]byte(nil), frame...), lastFields, out)
	}
	done := false
	s.Go("case", func() {
		defer func() { done = true }()
		ctx, cancel := context.WithTimeout(context.Background(), 4*time.Second)
		defer cancel()
		e.ctx = ctx
		if k.path == "conn" {
			d := &kafka.Dialer{DialFunc: e.n.Dialer("wire"), ClientID: "wire", Timeout: 2 * time.Second}
			conn, err := d.DialLeader(ctx, "tcp", e.b.Addr(), "wt", 0)
			if err != nil {
				out.prepFailed = err
				return
			}
			defer conn.Close()
			e.conn = conn
			conn.SetDeadline(time.Now().Add(3 * time.Second))
			if k.api != 18 {
				if _, err := conn.ApiVersions(); err != nil {
					out.prepFailed = err
					return
				}
			}
		} else {
			defer e.tr.CloseIdleConnections()
			// warm the transport (connection + metadata) so that the damaged
			// exchange is the call's own, except for the kinds that target the
			// connection set-up itself
			if k.api != 18 && k.api != 3 {
				if _, err := e.client.Metadata(ctx, &kafka.MetadataRequest{Topics: []string{"wt"}}); err != nil {
					out.prepFailed = err
					return
				}
			}
		}
		if k.prep != nil {
			if err := k.prep(e); err != nil {
				out.prepFailed = err
				return
			}
		}
		if out.pooled && k.api != 18 && k.api != 3 {
			// an exchange of another API with the (only) broker: its connection
			// goes back to the idle pool and serves the call under test
			var err error
			if k.api == 2 {
				_, err = e.client.OffsetFetch(ctx, &kafka.OffsetFetchRequest{GroupID: "wgrp-warm", Topics: map[string][]int{"wt": {0}}})
			} else {
				_, err = e.client.ListOffsets(ctx, &kafka.ListOffsetsRequest{Topics: map[string][]kafka.OffsetRequest{"wt": {kafka.FirstOffsetOf(0)}}})
			}
			if err != nil {
				out.prepFailed = err
				return
			}
			e.s.Count("pooled-connection")
		}
		var m0 runtime.MemStats
		if measure {
			runtime.ReadMemStats(&m0)
		}
		armed = true
		t0 := s.Now()
		if out.companion && k.path == "conn" {
			// a second goroutine has a request of another API pending on the
			// same connection while the response of the first is damaged
			conn := e.conn
			out.compStarted = true
			s.Go("companion", func() {
				c0 := s.Now()
				if k.api == 3 {
					_, out.compErr = conn.ReadLastOffset()
				} else {
					_, out.compErr = conn.ReadPartitions("wt")
				}
				out.compTook = s.Now() - c0
				out.compDone = true
			})
		}
		out.wrong, out.err = k.call(e)
		out.took = s.Now() - t0
		out.retAt = s.Now()
		armed = false
		if measure {
			var m1 runtime.MemStats
			runtime.ReadMemStats(&m1)
			out.alloc = m1.TotalAlloc - m0.TotalAlloc
		}
		if out.conn != nil {
			out.outBefore = out.conn.BytesOut
		}
	})
	finish := func() {}
	s.DoneWhen(func() bool { return done && (!out.compStarted || out.compDone) })
	return e, out, finish
}

// ---------------------------------------------------------------------------
// C17

const cutMaxLen = 2048

func CutCases() int { return len(WireKinds) * (cutMaxLen + 1) * 4 }

func cutrespScenario(s *Sim, params map[string]string) {
	total := CutCases()
	idx := int((s.T.Run*7919 + s.T.Seed*104729) % uint64(total))
	x := idx
	mode := x % 2
	x /= 2
	variant := x % 2
	x /= 2
	pos := x % (cutMaxLen + 1)
	x /= cutMaxLen + 1
	k := &WireKinds[x%len(WireKinds)]
	if params["nocut"] != "" {
		k = &WireKinds[int(s.T.Run)%len(WireKinds)]
		pos = cutMaxLen
	}
	modeName := []string{"EOF", "RST"}[mode]
	cutAt := -1
	// variant 1: (Conn) a second goroutine is waiting on the same connection;
	// (Transport) the damaged exchange happens on a connection that has served
	// an exchange before and was taken from the idle pool
	wireCompanion = k.path == "conn" && variant == 1
	wirePooled = k.path == "transport" && variant == 1
	e, out, _ := runWireCase(s, k, func(r *Req, frame []byte, _ []rc.LenField, out *wireOutcome) []byte {
		if len(frame) > cutMaxLen && k.pad == 0 {
			s.Fail("SIM", "corpus-too-long", "%s: response of %d bytes exceeds the enumerated range", k.name, len(frame))
		}
		if k.pad > 0 {
			// long responses: the enumerated positions are spread over the frame
			// (position cutMaxLen still delivers it whole)
			if pos == cutMaxLen {
				return frame
			}
			cutAt = int(int64(pos) * int64(len(frame)) / int64(cutMaxLen))
			r.Fault = "cut-exact"
			s.Count("fault:cut-" + modeName)
			return frame
		}
		if pos >= len(frame) {
			return frame // no cut: the whole response is delivered
		}
		cutAt = pos
		r.Fault = "cut-exact"
		s.Count("fault:cut-" + modeName)
		return frame
	}, false)
	// exact cut: implemented by the broker's respond path through r.Fault
	e.cl.CutExact = func(r *Req) (int, bool) { return cutAt, mode == 1 }
	s.AtEnd(func() {
		desc := fmt.Sprintf("case %d: %s, response of %d bytes cut after %d bytes (%s)", idx, k.name, out.frameLen, cutAt, modeName)
		switch {
		case out.prepFailed != nil:
			s.Fail("SIM", "wire-prep", "%s: preparation failed: %v", k.name, out.prepFailed)
		case !out.fired:
			s.Fail("SIM", "wire-not-fired", "%s: target exchange not seen", k.name)
		case out.wrong != "":
			s.Fail("C17", "R3-wrong-value", "%s: %s", desc, out.wrong)
		case cutAt >= 0 && out.err == nil:
			// the client finished with the right value although the response
			// was cut: only possible if a retry on a fresh connection fetched
			// it again (Transport metadata/apiversions), never on the same one
			if k.path == "conn" {
				s.Fail("C17", "R3-truncated-accepted", "%s: the call returned success", desc)
			} else if !retriedElsewhere(e, out, k.api) {
				s.Fail("C17", "R3-truncated-accepted", "%s: the call returned success without re-issuing the request", desc)
			}
		case cutAt < 0 && out.err != nil:
			s.Fail("C17", "R3-complete-rejected", "%s delivered completely: the call failed with %v", k.name, out.err)
		}
		if out.took > 4*time.Second+100*time.Millisecond {
			s.Fail("C17", "R1-late", "%s: the call returned after %v (deadline 4s)", desc, out.took)
		}
		if out.compStarted {
			s.Count("concurrent-call-on-the-connection")
			if !out.compDone {
				s.Fail("C17", "R1-concurrent-call-hung", "%s: another call pending on the same connection (from a second goroutine) had not returned when the run ended (%s at %v; the connection's deadline is 3s)", desc, s.Ended, s.Now())
			} else if out.compTook > 4*time.Second+100*time.Millisecond {
				s.Fail("C17", "R1-late", "%s: another call pending on the same connection returned after %v (deadline 3s)", desc, out.compTook)
			}
		}
		if cutAt >= 0 && out.conn != nil && out.err != nil {
			// R4: the connection is not used again
			if out.conn.BytesOut != out.outBefore {
				s.Fail("C17", "R4-conn-reused", "%s: %d more bytes were written on the broken connection after the call failed", desc, out.conn.BytesOut-out.outBefore)
			}
			for _, r := range e.cl.Journal {
				// (a request of the concurrent caller that was already under
				// way when the call failed is not a reuse)
				if r.Conn == out.conn && r.Idx > out.reqIdx && r.At > out.retAt+e.n.MaxLatency {
					s.Fail("C17", "R4-conn-reused", "%s: request %s #%d was sent on the broken connection after the call had failed at %v (it arrived at %v)", desc, r.API.Name, r.Idx, out.retAt, r.At)
					break
				}
			}
		}
		if cutAt >= 0 {
			s.Count("nontrivial")
		}
		s.Count("ops")
		e.n.Shutdown()
	})
}

func retriedElsewhere(e *wireEnv, out *wireOutcome, api int16) bool {
	for _, r := range e.cl.Journal {
		if r.Idx > out.reqIdx && r.Conn != out.conn && r.Hdr.APIKey == api {
			return true
		}
	}
	return false
}

// ---------------------------------------------------------------------------
// C20

// (2^29+1, 2^30+1: counts whose product with an element width of 8 or 4 wraps
// around 32 bits to a small positive number)
var hostile32 = []int64{-2147483648, -2, -1, 0, 1, 65536, 2147483647, 1<<29 + 1, 1<<30 + 1}
var hostileVar = []int64{-2147483648, -2, -1, 0, 1, 65536, 2147483647, 1<<29 + 1, 1<<30 + 1, 4294967296, 9223372036854775807}

const lenMaxFields = 128
const lenValues = 14 // hostile values + (true-1, true+1, rest+1)

// (x 2: the mutated frame delivered whole, or only up to just past the mutated
// field, after which the connection ends)
func LenCases() int { return len(WireKinds) * lenMaxFields * lenValues * 2 }

func putVarint(v int64, zigzag bool) []byte {
	var u uint64
	if zigzag {
		u = uint64((v << 1) ^ (v >> 63))
	} else {
		u = uint64(v)
	}
	var b []byte
	for u >= 0x80 {
		b = append(b, byte(u)|0x80)
		u >>= 7
	}
	return append(b, byte(u))
}

var lenfuzzCut = -1

func lenfuzzScenario(s *Sim, params map[string]string) {
	lenfuzzCut = -1
	total := LenCases()
	idx := int((s.T.Run*7919 + s.T.Seed*104729) % uint64(total))
	x := idx
	cutAfterField := x%2 == 1
	x /= 2
	vi := x % lenValues
	x /= lenValues
	fi := x % lenMaxFields
	x /= lenMaxFields
	k := &WireKinds[x%len(WireKinds)]
	if k.path != "transport" {
		// the property is about the Transport/Client stack
		s.DoneWhen(func() bool { return true })
		s.Count("skipped-conn-kind")
		return
	}
	desc := ""
	applied := false
	received := 0
	e, out, _ := runWireCase(s, k, func(r *Req, frame []byte, fields []rc.LenField, out *wireOutcome) []byte {
		// all length fields: those of the frame, then those inside record sets
		type lf struct {
			rc.LenField
			inRecords bool
			recStart  int // start of the record set data in the frame
			recLen    int
		}
		var all []lf
		for _, f := range fields {
			all = append(all, lf{LenField: f})
		}
		for _, f := range fields {
			if f.Kind == "records32" || f.Kind == "compact-records" {
				start := f.Off + f.Size
				n := int(f.Value)
				if n <= 0 || start+n > len(frame) {
					continue
				}
				bs, err := rc.DecodeRecordSet(frame[start:start+n], rc.DecodeOpts{})
				if err != nil {
					continue
				}
				off := start
				for _, b := range bs {
					enc, rfs, err := rc.EncodeBatch(b, rc.EncodeOpts{})
					if err != nil {
						break
					}
					for _, rf := range rfs {
						rf.Off += off
						rf.Path = f.Path + "/" + rf.Path
						all = append(all, lf{LenField: rf, inRecords: true, recStart: off, recLen: len(enc)})
					}
					off += len(enc)
				}
			}
		}
		// ... and the words inside opaque BYTES fields that read as lengths or
		// counts of a nested encoding (consumer-protocol subscriptions and
		// assignments): every big-endian int32, then int16, whose value lies
		// between 0 and the length of the blob
		for _, f := range fields {
			if (f.Kind != "bytes32" && f.Kind != "compact-bytes") || f.Value < 4 {
				continue
			}
			start, n := f.Off+f.Size, int(f.Value)
			if start+n > len(frame) {
				continue
			}
			blob := frame[start : start+n]
			cnt := 0
			for o := 0; o+4 <= n && cnt < 10; o++ {
				if v := int32(binary.BigEndian.Uint32(blob[o:])); v >= 0 && int(v) <= n && (v > 0 || o%2 == 0) {
					all = append(all, lf{LenField: rc.LenField{Off: start + o, Size: 4, Kind: "blob-int32", Path: fmt.Sprintf("%s[%d:%d]", f.Path, o, o+4), Value: int64(v)}})
					cnt++
					o += 3
				}
			}
			cnt = 0
			for o := 0; o+2 <= n && cnt < 4; o++ {
				if v := int16(binary.BigEndian.Uint16(blob[o:])); v > 0 && int(v) <= n-o-2 {
					all = append(all, lf{LenField: rc.LenField{Off: start + o, Size: 2, Kind: "blob-int16", Path: fmt.Sprintf("%s[%d:%d]", f.Path, o, o+2), Value: int64(v)}})
					cnt++
					o++
				}
			}
		}
		received = len(frame)
		if fi >= len(all) {
			return frame
		}
		f := all[fi]
		var val int64
		set := hostile32
		isVar := f.Size != 4 && f.Size != 2 && f.Size != 8 || f.Kind == "compact-string" || f.Kind == "compact-bytes" || f.Kind == "compact-array" || f.Kind == "tag-count" || f.Kind == "tag-size" || f.Kind == "compact-records" ||
			f.Kind == "record-length" || f.Kind == "key-length" || f.Kind == "value-length" || f.Kind == "headers-count" || f.Kind == "header-key-length" || f.Kind == "header-value-length"
		if isVar {
			set = hostileVar
		}
		switch {
		case vi < len(set):
			val = set[vi]
		case vi == lenValues-3:
			val = f.Value - 1
		case vi == lenValues-2:
			val = f.Value + 1
		case vi == lenValues-1:
			val = int64(len(frame)-f.Off) + 1
		default:
			return frame
		}
		if val == f.Value {
			return frame
		}
		var enc []byte
		zig := f.Kind == "record-length" || f.Kind == "key-length" || f.Kind == "value-length" || f.Kind == "headers-count" || f.Kind == "header-key-length" || f.Kind == "header-value-length"
		switch {
		case isVar && zig:
			enc = putVarint(val, true)
		case isVar:
			raw := val
			if f.Kind != "tag-count" && f.Kind != "tag-size" {
				raw = val + 1 // compact lengths are stored +1
			}
			if raw < 0 {
				// unsigned varint of a negative number: 10-byte encoding
				enc = putVarint(raw, false)
			} else {
				enc = putVarint(raw, false)
			}
		case f.Size == 2:
			enc = []byte{byte(val >> 8), byte(val)}
		default:
			enc = make([]byte, 4)
			binary.BigEndian.PutUint32(enc, uint32(val))
		}
		nf := append(append(append([]byte(nil), frame[:f.Off]...), enc...), frame[f.Off+f.Size:]...)
		if f.Off != 0 {
			// keep the frame size prefix truthful unless it is the field under test
			binary.BigEndian.PutUint32(nf, uint32(len(nf)-4))
		}
		// fields inside a checksummed region (record counts, record/key/value
		// lengths of a v2 batch, key/value lengths of a v0/v1 message) are left
		// with their now-wrong checksum: the decoder must reject them by it;
		// batch-length and message-size precede the checksum and are not covered
		applied = true
		received = len(nf)
		if f.Kind == "blob-int32" || f.Kind == "blob-int16" {
			s.Count("fault:corrupt-length-inside-blob")
		}
		desc = fmt.Sprintf("case %d: %s v%d response, field %s (%s at byte %d, true value %d) set to %d", idx, k.name, r.Hdr.APIVersion, f.Path, f.Kind, f.Off, f.Value, val)
		s.Count("fault:corrupt-length")
		if cutAfterField && f.Off != 0 {
			// the connection ends a little after the field: the decoder is left
			// with the announced remainder of the frame and nothing to read
			lenfuzzCut = f.Off + len(enc) + (idx/2)%3
			if lenfuzzCut < len(nf) {
				r.Fault = "cut-exact"
				received = lenfuzzCut
				desc += fmt.Sprintf(", frame delivered up to byte %d, then the connection is closed", lenfuzzCut)
				s.Count("fault:cut-after-field")
			} else {
				lenfuzzCut = -1
			}
		}
		return nf
	}, true)
	e.cl.CutExact = func(r *Req) (int, bool) { return lenfuzzCut, false }
	s.AtEnd(func() {
		switch {
		case out.prepFailed != nil:
			s.Fail("SIM", "wire-prep", "%s: preparation failed: %v", k.name, out.prepFailed)
		case !out.fired:
			s.Fail("SIM", "wire-not-fired", "%s: target exchange not seen", k.name)
		case applied && out.wrong != "":
			// a corrupted length may legitimately change what is decoded; only
			// fabricated record offsets / values are reported by the fetch kinds
			s.Count("decoded-different-value")
		}
		if !applied && out.fired && out.prepFailed == nil {
			s.Stats["baseline-alloc-kb:"+k.name] = int(out.alloc / 1024)
		}
		if applied {
			s.Count("nontrivial")
			// fixed working memory of the decompressors is not proportional to
			// the input and is allowed on top (measured baselines: gzip 5 MiB)
			limit := uint64(64*received) + 1<<20
			switch k.codec {
			case 1, 2, 3:
				limit += 8 << 20
			case 4:
				limit += 24 << 20
			}
			if out.alloc > limit {
				s.Fail("C20", "R3-allocation", "%s: the call allocated %d bytes for a response of %d bytes (limit %d)", desc, out.alloc, received, limit)
			}
			if out.took > 4*time.Second+100*time.Millisecond {
				s.Fail("C20", "R1-hang", "%s: the call returned after %v", desc, out.took)
			}
		}
		s.Count("ops")
		e.n.Shutdown()
	})
}

// ---------------------------------------------------------------------------
// C20, second space: a frame whose size prefix announces far more than the
// broker ever sends, delivered up to byte k; then the broker closes or stalls.
// Whatever the decoder does with the fields it could not read, it must not
// turn them into counts or lengths to allocate by.

// (the last four: what the first bytes of another protocol's answer read as —
// a TLS alert, a TLS handshake record, "HTTP", "SSH-"; the bytes behind such a
// size are then not the response's but filler with the high bit set)
var sizecutSizes = []int64{1 << 20, 1 << 26, 1<<31 - 1, 0x15030302, 0x16030300, 0x48545450, 0x5353482d}

const sizecutMaxLen = 512

func SizeCutCases() int { return len(WireKinds) * (sizecutMaxLen + 1) * len(sizecutSizes) * 2 }

func sizecutScenario(s *Sim, params map[string]string) {
	total := SizeCutCases()
	idx := int((s.T.Run*7919 + s.T.Seed*104729) % uint64(total))
	x := idx
	silent := x%2 == 1
	x /= 2
	size := sizecutSizes[x%len(sizecutSizes)]
	x /= len(sizecutSizes)
	pos := x % (sizecutMaxLen + 1)
	x /= sizecutMaxLen + 1
	k := &WireKinds[x%len(WireKinds)]
	if k.path != "transport" {
		s.DoneWhen(func() bool { return true })
		s.Count("skipped-conn-kind")
		return
	}
	cutAt := -1
	frameLen := 0
	e, out, _ := runWireCase(s, k, func(r *Req, frame []byte, _ []rc.LenField, out *wireOutcome) []byte {
		frameLen = len(frame)
		// positions past the end of a long response fold back into it
		p := pos
		if p >= len(frame) {
			if len(frame) <= sizecutMaxLen {
				return frame // nothing to cut: delivered whole and truthful
			}
			p = len(frame) - 1
		}
		if p < 4 {
			p = 4 // the size prefix itself is always delivered
		}
		cutAt = p
		binary.BigEndian.PutUint32(frame, uint32(size))
		if size >= 0x15030000 && size != 1<<31-1 {
			for i := 4; i < len(frame); i++ {
				frame[i] = byte(0x80 + (i*37+idx)%128)
			}
			s.Count("fault:foreign-protocol-answer")
		}
		r.Fault = "cut-exact"
		s.Count("fault:size-lie-and-cut")
		return frame
	}, true)
	e.cl.CutExact = func(r *Req) (int, bool) { return cutAt, false }
	e.cl.CutSilent = silent
	s.AtEnd(func() {
		desc := fmt.Sprintf("case %d: %s, response of %d bytes announced as %d bytes, delivered up to byte %d, then the broker %s", idx, k.name, frameLen, size, cutAt,
			map[bool]string{true: "stalls", false: "closes"}[silent])
		switch {
		case out.prepFailed != nil:
			s.Fail("SIM", "wire-prep", "%s: preparation failed: %v", k.name, out.prepFailed)
		case !out.fired:
			s.Fail("SIM", "wire-not-fired", "%s: target exchange not seen", k.name)
		}
		if cutAt >= 0 {
			s.Count("nontrivial")
			limit := uint64(64*cutAt) + 1<<20
			switch k.codec {
			case 1, 2, 3:
				limit += 8 << 20
			case 4:
				limit += 24 << 20
			}
			if out.alloc > limit {
				s.Fail("C20", "R3-allocation", "%s: the call allocated %d bytes for %d bytes received (limit %d)", desc, out.alloc, cutAt, limit)
			}
			if out.took > 4*time.Second+100*time.Millisecond {
				s.Fail("C20", "R1-hang", "%s: the call returned after %v", desc, out.took)
			}
			if out.err == nil && !retriedElsewhere(e, out, k.api) {
				s.Fail("C20", "R2-neither-error-nor-message", "%s: the call returned success", desc)
			}
		}
		s.Count("ops")
		e.n.Shutdown()
	})
}
