package sim

import (
	"crypto/ecdsa"
	"crypto/elliptic"
	"crypto/rand"
	"crypto/tls"
	"crypto/x509"
	"crypto/x509/pkix"
	"math/big"
	"net"
	"sync"
	"time"

	"github.com/segmentio/kafka-go/protocol"
	"github.com/segmentio/kafka-go/protocol/apiversions"
	meta "github.com/segmentio/kafka-go/protocol/metadata"
)

// The "tls" program of racemix: the model brokers speak plaintext, so the TLS
// branch of the Transport's connection set-up is exercised against a minimal
// stand-in instead — one goroutine per connection behind crypto/tls over
// net.Pipe, answering ApiVersions and Metadata through the library's own
// protocol package. Only the race detector judges this program.

var (
	tlsPKIOnce sync.Once
	tlsRoots   *x509.CertPool
	tlsCerts   map[string]tls.Certificate
	tlsPKIErr  error
)

var raceTLSHosts = []string{"tls-a.sim.test", "tls-b.sim.test"}

// raceTLSPKI builds (once per process) a CA and one leaf certificate per host,
// valid from 1990 to 2100: inside a bubble the clock reads 2000-01-01.
func raceTLSPKI() (*x509.CertPool, map[string]tls.Certificate, error) {
	tlsPKIOnce.Do(func() {
		from, to := time.Date(1990, 1, 1, 0, 0, 0, 0, time.UTC), time.Date(2100, 1, 1, 0, 0, 0, 0, time.UTC)
		caKey, err := ecdsa.GenerateKey(elliptic.P256(), rand.Reader)
		if err != nil {
			tlsPKIErr = err
			return
		}
		caTmpl := &x509.Certificate{SerialNumber: big.NewInt(1), Subject: pkix.Name{CommonName: "sim CA"}, NotBefore: from, NotAfter: to,
			IsCA: true, KeyUsage: x509.KeyUsageCertSign | x509.KeyUsageDigitalSignature, BasicConstraintsValid: true}
		caDER, err := x509.CreateCertificate(rand.Reader, caTmpl, caTmpl, &caKey.PublicKey, caKey)
		if err != nil {
			tlsPKIErr = err
			return
		}
		caCert, err := x509.ParseCertificate(caDER)
		if err != nil {
			tlsPKIErr = err
			return
		}
		tlsRoots = x509.NewCertPool()
		tlsRoots.AddCert(caCert)
		tlsCerts = map[string]tls.Certificate{}
		for i, h := range raceTLSHosts {
			key, err := ecdsa.GenerateKey(elliptic.P256(), rand.Reader)
			if err != nil {
				tlsPKIErr = err
				return
			}
			tmpl := &x509.Certificate{SerialNumber: big.NewInt(int64(2 + i)), Subject: pkix.Name{CommonName: h}, DNSNames: []string{h}, NotBefore: from, NotAfter: to,
				KeyUsage: x509.KeyUsageDigitalSignature, ExtKeyUsage: []x509.ExtKeyUsage{x509.ExtKeyUsageServerAuth}}
			der, err := x509.CreateCertificate(rand.Reader, tmpl, caCert, &key.PublicKey, caKey)
			if err != nil {
				tlsPKIErr = err
				return
			}
			tlsCerts[h] = tls.Certificate{Certificate: [][]byte{der}, PrivateKey: key}
		}
	})
	return tlsRoots, tlsCerts, tlsPKIErr
}

// serveTLSBroker answers ApiVersions and Metadata until the client goes away.
func serveTLSBroker(conn net.Conn) {
	defer conn.Close()
	brokers := []meta.ResponseBroker{{NodeID: 1, Host: raceTLSHosts[0], Port: 9092}, {NodeID: 2, Host: raceTLSHosts[1], Port: 9092}}
	for {
		apiVersion, correlationID, _, msg, err := protocol.ReadRequest(conn)
		if err != nil {
			return
		}
		var res protocol.Message
		switch msg.(type) {
		case *apiversions.Request:
			res = &apiversions.Response{ApiKeys: []apiversions.ApiKeyResponse{
				{ApiKey: int16(protocol.ApiVersions), MinVersion: 0, MaxVersion: 0},
				{ApiKey: int16(protocol.Metadata), MinVersion: 1, MaxVersion: 1},
			}}
		case *meta.Request:
			res = &meta.Response{ControllerID: 1, Brokers: brokers, Topics: []meta.ResponseTopic{}}
		default:
			return
		}
		if err := protocol.WriteResponse(conn, apiVersion, correlationID, res); err != nil {
			return
		}
	}
}
