package sim

import (
	"encoding/binary"
	"fmt"
	"sort"
	"time"

	rc "verif/sim/refcodec"
)

// Kafka error codes used by the model.
const (
	ErrNone                      int16 = 0
	ErrUnknown                   int16 = -1
	ErrOffsetOutOfRange          int16 = 1
	ErrCorruptMessage            int16 = 2
	ErrUnknownTopicOrPartition   int16 = 3
	ErrLeaderNotAvailable        int16 = 5
	ErrNotLeaderForPartition     int16 = 6
	ErrRequestTimedOut           int16 = 7
	ErrBrokerNotAvailable        int16 = 8
	ErrMessageTooLarge           int16 = 10
	ErrCoordinatorLoadInProgress int16 = 14
	ErrCoordinatorNotAvailable   int16 = 15
	ErrNotCoordinator            int16 = 16
	ErrInvalidTopic              int16 = 17
	ErrNotEnoughReplicas         int16 = 19
	ErrNotEnoughReplicasAfterApp int16 = 20
	ErrInvalidRequiredAcks       int16 = 21
	ErrIllegalGeneration         int16 = 22
	ErrInconsistentGroupProtocol int16 = 23
	ErrUnknownMemberID           int16 = 25
	ErrInvalidSessionTimeout     int16 = 26
	ErrRebalanceInProgress       int16 = 27
	ErrTopicAuthorizationFailed  int16 = 29
	ErrGroupAuthorizationFailed  int16 = 30
	ErrUnsupportedSASLMechanism  int16 = 33
	ErrIllegalSASLState          int16 = 34
	ErrUnsupportedVersion        int16 = 35
	ErrTopicAlreadyExists        int16 = 36
	ErrInvalidPartitions         int16 = 37
	ErrInvalidReplicationFactor  int16 = 38
	ErrNotController             int16 = 41
	ErrInvalidRequest            int16 = 42
	ErrUnsupportedForMessageFmt  int16 = 43
	ErrSASLAuthenticationFailed  int16 = 58
	ErrKafkaStorageError         int16 = 56
	ErrGroupIDNotFound           int16 = 69
	ErrFencedLeaderEpoch         int16 = 74
	ErrMemberIDRequired          int16 = 79
	ErrFencedInstanceID          int16 = 82
)

// StoredBatch is one physical batch in a partition log.
type StoredBatch struct {
	rc.Batch
	ReqIdx int // journal index of the produce request that appended it (-1: preloaded)
	enc    map[int8][]byte
}

func (b *StoredBatch) FirstOffset() int64 {
	if b.Magic == 2 {
		return b.BaseOffset
	}
	if len(b.Records) > 0 {
		return b.Records[0].Offset
	}
	return b.BaseOffset
}

func (b *StoredBatch) LastOffset() int64 {
	if b.Magic == 2 {
		return b.BaseOffset + int64(b.LastOffsetDelta)
	}
	if len(b.Records) > 0 {
		return b.Records[len(b.Records)-1].Offset
	}
	return b.BaseOffset
}

// AbortedTxn is one entry of a partition's aborted-transactions index.
type AbortedTxn struct {
	ProducerID  int64
	First, Last int64
}

// Partition is one topic partition of the model.
type Partition struct {
	// OpenTxn: the last OpenTxn offsets of the log belong to a transaction that
	// is still open: the last stable offset is LEO - OpenTxn
	OpenTxn int64
	// Aborted: transactions of the log that ended with an abort marker (Last is
	// the marker's offset)
	Aborted     []AbortedTxn
	Topic       string
	ID          int32
	Leader      int32
	Epoch       int32
	Replicas    []int32
	ISR         []int32
	Offline     []int32
	LogStart    int64
	LEO         int64 // log end offset == high watermark in this model
	Batches     []*StoredBatch
	AllBatches  []*StoredBatch // every batch ever appended (retention does not remove from here)
	LeaderSince time.Duration  // when the current leader took over
	Err         int16          // partition-level metadata error
	waiters     []func()
}

// Records returns every stored record, in log order.
func (p *Partition) Records() []rc.Record {
	var out []rc.Record
	for _, b := range p.Batches {
		if b.Control {
			continue
		}
		out = append(out, b.Records...)
	}
	return out
}

type Topic struct {
	Name     string
	Parts    []*Partition
	Internal bool
	Err      int16
	// Hidden: metadata responses do not know the topic for the moment (a
	// broker that has not caught up with the cluster metadata after a
	// restart); its partitions are served as usual
	Hidden bool
	// Hist holds the partition-id sets this topic had before each change made
	// during the run (NoteChange), with the instant the set stopped being live.
	Hist []PartSnap
}

// PartSnap is a partition-id set that was live until Until.
type PartSnap struct {
	Until time.Duration
	IDs   []int32
}

// NoteChange must be called immediately before the partition list of the
// topic is changed: a client that read the metadata earlier may still act on
// the previous set.
func (t *Topic) NoteChange(now time.Duration) {
	ids := make([]int32, 0, len(t.Parts))
	for _, p := range t.Parts {
		ids = append(ids, p.ID)
	}
	t.Hist = append(t.Hist, PartSnap{Until: now, IDs: ids})
}

// SetsSince returns the partition-id sets that were live at some instant in
// [since, now]: the current one and every earlier one that was still live at
// or after since.
func (t *Topic) SetsSince(since time.Duration) [][]int32 {
	cur := make([]int32, 0, len(t.Parts))
	for _, p := range t.Parts {
		cur = append(cur, p.ID)
	}
	out := [][]int32{cur}
	for i := len(t.Hist) - 1; i >= 0; i-- {
		if t.Hist[i].Until >= since {
			out = append(out, t.Hist[i].IDs)
		}
	}
	return out
}

// Broker is one simulated broker.
type Broker struct {
	C        *Cluster
	ID       int32
	Host     string
	Port     int32
	Rack     string
	Up       bool
	Versions map[int16][2]int16 // advertised [min,max] per api key
	// Unlisted: api keys the broker serves (in the range given in Versions)
	// but leaves out of its ApiVersions answer
	Unlisted map[int16]bool
}

func (b *Broker) Addr() string { return fmt.Sprintf("%s:%d", b.Host, b.Port) }

// Req is one journal entry: a request that arrived at a broker.
type Req struct {
	Idx          int
	Step         int
	At           time.Duration
	Broker       int32
	Conn         *Conn
	Frame        []byte
	Hdr          rc.RequestHeader
	API          *rc.API
	Body         rc.Msg
	DecodeErr    error
	Handled      bool   // the broker has processed (or deliberately dropped) the request
	Fault        string // fault applied to this exchange ("" none)
	Applied      bool   // the request's effect was applied to the cluster state
	Resp         rc.Msg // response body (nil: none)
	RespLen      int
	RespAt       time.Duration // when the response was handed to the network (-1: never)
	RespFull     bool          // every response byte was delivered to the client's socket buffer
	RespFullAt   time.Duration
	RespFullStep int
	Produced     []ProducedBatch
	Note         string
	// BrokerRange is the [min,max] version range the broker advertised for
	// this API when the request arrived (a broker may be restarted with
	// another table later in the run)
	BrokerRange [2]int16
}

// ProducedBatch records what a produce request did to one partition.
type ProducedBatch struct {
	Topic      string
	Partition  int32
	Err        int16
	BaseOffset int64
	Batches    []rc.Batch // decoded (strict) record batches of the request
	Applied    bool
}

// connState is the broker-side state of a connection.
type connState struct {
	broker    *Broker
	queue     []*Req
	busy      bool
	midFrame  bool // the first part of a split response has been sent, the rest has not
	authed    bool
	saslMech  string
	saslConv  any
	saslRaw   bool // after a v0 handshake: raw length-prefixed tokens
	reqs      int
	lastFrame map[[2]int16][]byte // last response frame per (api key, version)
}

// FaultCfg is the per-run fault configuration (swarm).
type FaultCfg struct {
	// per-request fault probabilities, in 1/1000
	CutBeforeApply int
	CutAfterApply  int
	CutInResponse  int
	Slow           int
	Stall          int
	ErrorCode      int
	// StaleResponse: before the real response a duplicate of the previous
	// response of the same API on this connection is delivered (a replayed /
	// left-over frame); a client must reject it by its correlation id
	StaleResponse int
	// Split: the response is delivered in two parts, the second one
	// SplitMin..SplitMax later (a network stall in the middle of a response)
	Split              int
	SplitMin, SplitMax time.Duration
	SlowMin, SlowMax   time.Duration
	StallReset         time.Duration // a stalled connection is reset by the broker after this long (default 8s)
	// which api keys are eligible (nil = all except ApiVersions/SASL)
	APIs map[int16]bool
	// stop injecting after this simulated time (0 = never stop)
	Until time.Duration
	// maximum number of injected faults per run (0 = unlimited)
	Max   int
	fired int
}

// Cluster is the event-driven model of a Kafka cluster.
type Cluster struct {
	S               *Sim
	N               *Net
	Brokers         []*Broker
	Controller      int32
	Topics          map[string]*Topic
	Groups          map[string]*Group
	Journal         []*Req
	F               FaultCfg
	ClusterID       string
	AutoCreate      bool
	AutoCreateParts int
	// per-API hooks for scenario-specific behaviour: return true if handled
	Hook func(b *Broker, r *Req) (handled bool)
	// ProduceErr lets a scenario force an error code for a produce to a partition
	ProduceErr     func(r *Req, topic string, part int32) (code int16, apply bool)
	ExpectClientID string
	// Mutate post-processes a response body before it is encoded (error injection)
	Mutate func(r *Req, body rc.Msg) rc.Msg
	// LibRange, when set, is the version range the sending stack declares for
	// an api (requests outside the broker's range are only wrong when the two
	// ranges overlap)
	LibRange func(api int16) (lo, hi int16)
	// CutExact: for r.Fault == "cut-exact", the number of response bytes to
	// deliver before the connection ends, and whether it ends with RST (else EOF)
	CutExact func(r *Req) (int, bool)
	// CutSilent: after the bytes of a "cut-exact" fault the broker neither
	// closes nor sends anything more on the connection
	CutSilent bool
	// ForceRecordSetLimit: every fetched record set is cut after this many
	// bytes, wherever that falls (0: off)
	ForceRecordSetLimit int
	// MemberRack, when set, tells the assignment monitor the rack a group
	// member was configured with (false: unknown / do not check racks)
	MemberRack func(memberID string) (rack string, ok bool)
	// ThrottleMs: the throttle_time_ms that responses carry (where the api and
	// version have the field). Purely informational: the broker has already
	// applied the quota by delaying the response; the request was served.
	// ThrottleEvery n: only every n-th response carries it (0 = all).
	ThrottleMs    int32
	ThrottleEvery int
	throttleSeq   int
	// OutOfOrder: a slow response does not hold up the requests queued behind
	// it on the connection; their responses may overtake it (Kafka brokers
	// answer in order; clients match responses by correlation id)
	OutOfOrder bool
	// SplitAt, when set, chooses where a "split" response is interrupted
	SplitAt func(r *Req, n int) int
	// MetaOrder: order in which metadata responses list a topic's partitions
	// (see listed)
	MetaOrder int
	// MutateFrame post-processes the encoded response frame (framing faults)
	MutateFrame func(r *Req, frame []byte) []byte
	// TruncateAtMaxBytes: a partition's record set is cut at partition_max_bytes
	// in the middle of a batch (what brokers do; consumers drop the partial tail)
	TruncateAtMaxBytes     bool
	ListOffsetsErr         func(topic string, part int32, ts int64) int16
	GroupInitialDelay      time.Duration
	MinSession, MaxSession time.Duration
	CommitErr              func(g *Group, topic string, part int32) int16
	OnStable               func(g *Group, gr *GenRecord)
	OnOffsetFetch          func(g *Group, r *Req, topic string, part int32, off int64)
	nextPID                int
	SASL                   *SASLConfig
	// monitors
	wireViolations int
}

func NewCluster(s *Sim, n *Net) *Cluster {
	return &Cluster{S: s, N: n, Topics: map[string]*Topic{}, Groups: map[string]*Group{}, ClusterID: "simkafka", AutoCreateParts: 1}
}

// DefaultVersions returns the full version table of the model.
func DefaultVersions() map[int16][2]int16 {
	m := map[int16][2]int16{}
	for k, a := range rc.APIs {
		m[k] = [2]int16{a.MinVersion, a.MaxVersion}
	}
	return m
}

func (c *Cluster) AddBroker(id int32, rack string) *Broker {
	b := &Broker{C: c, ID: id, Host: fmt.Sprintf("b%d", id), Port: 9092, Rack: rack, Up: true, Versions: DefaultVersions()}
	c.Brokers = append(c.Brokers, b)
	sort.Slice(c.Brokers, func(i, j int) bool { return c.Brokers[i].ID < c.Brokers[j].ID })
	if c.Controller == 0 {
		c.Controller = id
	}
	c.N.Listen(b.Addr(), b)
	return b
}

func (c *Cluster) Broker(id int32) *Broker {
	for _, b := range c.Brokers {
		if b.ID == id {
			return b
		}
	}
	return nil
}

func (c *Cluster) AddTopic(name string, parts int, leaders func(p int) int32) *Topic {
	t := &Topic{Name: name}
	for p := 0; p < parts; p++ {
		l := leaders(p)
		rs := c.replicasFor(l)
		t.Parts = append(t.Parts, &Partition{Topic: name, ID: int32(p), Leader: l, Replicas: rs, ISR: append([]int32(nil), rs...)})
	}
	c.Topics[name] = t
	return t
}

// replicasFor builds a replica list in which the leader is deliberately not
// the first entry when the cluster has more than one broker (a client that
// confuses "first replica" with "leader" must be visible).
func (c *Cluster) replicasFor(leader int32) []int32 {
	if len(c.Brokers) < 2 {
		return []int32{leader}
	}
	for i, b := range c.Brokers {
		if b.ID == leader {
			other := c.Brokers[(i+1)%len(c.Brokers)].ID
			return []int32{other, leader}
		}
	}
	return []int32{leader}
}

func (c *Cluster) Part(topic string, p int32) *Partition {
	t := c.Topics[topic]
	if t == nil || p < 0 || int(p) >= len(t.Parts) {
		return nil
	}
	return t.Parts[p]
}

func (c *Cluster) TopicNames() []string {
	var ns []string
	for n := range c.Topics {
		ns = append(ns, n)
	}
	sort.Strings(ns)
	return ns
}

// MoveLeader makes broker `to` the leader of the partition.
func (c *Cluster) MoveLeader(p *Partition, to int32) {
	p.Leader = to
	p.LeaderSince = c.S.Now()
	p.Epoch++
	p.Replicas = c.replicasFor(to)
	p.ISR = append([]int32(nil), p.Replicas...)
	c.S.Count("fault:leader-move")
	// wake long-polling fetches so that they answer NotLeader
	ws := p.waiters
	p.waiters = nil
	for _, w := range ws {
		w()
	}
}

// DeposeLeader leaves the partition without a leader (an election is in
// progress): replicas and in-sync replicas stay as they are.
func (c *Cluster) DeposeLeader(p *Partition) {
	p.Leader = -1
	p.LeaderSince = c.S.Now()
	p.Epoch++
	p.Err = ErrLeaderNotAvailable
	ws := p.waiters
	p.waiters = nil
	for _, w := range ws {
		w()
	}
}

// MoveBrokerAddr re-registers a broker (same node id) under another host
// name and/or port: the old endpoint stops listening and its connections are
// reset, the metadata advertises the new endpoint from now on.
func (c *Cluster) MoveBrokerAddr(b *Broker, host string, port int32) {
	if b.Up {
		c.N.Unlisten(b.Addr())
		for _, cn := range c.N.Conns() {
			if cn.H == Handler(b) && !cn.ServerDead() {
				cn.ServerReset()
			}
		}
	}
	b.Host, b.Port = host, port
	if b.Up {
		c.N.Listen(b.Addr(), b)
	}
	c.S.Count("fault:broker-readdressed")
}

// SetBrokerUp takes a broker down (connections reset, listener gone) or up.
func (c *Cluster) SetBrokerUp(b *Broker, up bool) {
	if b.Up == up {
		return
	}
	b.Up = up
	if up {
		c.N.Listen(b.Addr(), b)
		c.S.Count("fault:broker-up")
		return
	}
	c.S.Count("fault:broker-down")
	c.N.Unlisten(b.Addr())
	for _, cn := range c.N.Conns() {
		if cn.H == Handler(b) && !cn.ServerDead() {
			cn.ServerReset()
		}
	}
}

// ---------------------------------------------------------------------------
// request pipeline

func (b *Broker) OnClientClose(c *Conn) {}

func (b *Broker) OnData(c *Conn) {
	st, _ := c.State.(*connState)
	if st == nil {
		st = &connState{broker: b}
		if b.C.SASL == nil {
			st.authed = true
		}
		c.State = st
	}
	for {
		buf := c.ClientBytes()
		if st.saslRaw && !st.authed {
			// raw SASL tokens: [len32][bytes]
			if len(buf) < 4 {
				return
			}
			n := int(int32(binary.BigEndian.Uint32(buf)))
			if n < 0 || len(buf) < 4+n {
				return
			}
			tok := append([]byte(nil), buf[4:4+n]...)
			c.Consume(4 + n)
			b.C.saslRawToken(b, c, st, tok)
			continue
		}
		if len(buf) < 4 {
			return
		}
		sz := int(int32(binary.BigEndian.Uint32(buf)))
		if sz < 0 || sz > 64<<20 {
			b.C.wireFail(c, nil, "C04", "R1-frame", "request size prefix %d is not a valid frame size", sz)
			c.ServerReset()
			return
		}
		if len(buf) < 4+sz {
			return
		}
		frame := append([]byte(nil), buf[4:4+sz]...)
		c.Consume(4 + sz)
		r := &Req{Idx: len(b.C.Journal), Step: b.C.S.Step, At: b.C.S.Now(), Broker: b.ID, Conn: c, Frame: frame, RespAt: -1}
		r.Hdr, r.API, r.Body, r.DecodeErr = rc.DecodeRequest(frame)
		r.BrokerRange = b.Versions[r.Hdr.APIKey]
		if b.C.S.traceOn && r.API != nil {
			b.C.S.Tracef("b%d c%d <- %s v%d #%d (advertised %v)", b.ID, c.ID, r.API.Name, r.Hdr.APIVersion, r.Hdr.CorrelationID, r.BrokerRange)
		}
		b.C.Journal = append(b.C.Journal, r)
		st.reqs++
		st.queue = append(st.queue, r)
		b.pump(c, st)
		if c.ServerDead() {
			return
		}
	}
}

// pump processes queued requests of a connection one at a time (a Kafka
// broker does not read the next request of a connection before it has sent
// the response to the previous one).
func (b *Broker) pump(c *Conn, st *connState) {
	for !st.busy && len(st.queue) > 0 && !c.ServerDead() {
		r := st.queue[0]
		st.queue = st.queue[1:]
		st.busy = true
		b.handle(c, st, r)
	}
}

// respond hands the response of r to the network; done() must have been
// arranged by the caller to be called exactly once per request.
func (b *Broker) respond(c *Conn, st *connState, r *Req, body rc.Msg) {
	cl := b.C
	if c.ServerDead() {
		st.busy = false
		return
	}
	if body == nil { // no response expected (acks=0)
		st.busy = false
		b.pump(c, st)
		return
	}
	if cl.ThrottleMs > 0 {
		if _, ok := body["throttle_time_ms"]; ok {
			cl.throttleSeq++
			if cl.ThrottleEvery <= 1 || cl.throttleSeq%cl.ThrottleEvery == 0 {
				body["throttle_time_ms"] = cl.ThrottleMs
				cl.S.Count("throttled-response")
			}
		}
	}
	if cl.Mutate != nil {
		body = cl.Mutate(r, body)
	}
	r.Resp = body
	if cl.S.traceOn {
		cl.S.Tracef("b%d c%d %s v%d #%d req=%v", b.ID, c.ID, r.API.Name, r.Hdr.APIVersion, r.Hdr.CorrelationID, briefMsg(r.Body))
		cl.S.Tracef("   resp fault=%q %v", r.Fault, briefMsg(body))
	}
	frame, _, err := rc.EncodeResponse(r.Hdr.APIKey, r.Hdr.APIVersion, r.Hdr.CorrelationID, body, nil)
	if err != nil {
		panic(fmt.Sprintf("simkafka: cannot encode %s v%d response: %v", r.API.Name, r.Hdr.APIVersion, err))
	}
	if cl.MutateFrame != nil {
		frame = cl.MutateFrame(r, frame)
	}
	r.RespLen = len(frame)
	delay := cl.N.latency()
	switch r.Fault {
	case "slow":
		span := int((cl.F.SlowMax - cl.F.SlowMin) / time.Millisecond)
		delay += cl.F.SlowMin + time.Duration(cl.S.T.Intn("fault", span+1))*time.Millisecond
	case "stall":
		// never answered; the connection stays busy until the broker drops it
		// (idle-connection reaper / TCP keep-alive), StallReset later
		d := cl.F.StallReset
		if d == 0 {
			d = 8 * time.Second
		}
		cl.S.After(d, fmt.Sprintf("c%d:stall-reset", c.ID), func() { c.ServerReset() })
		return
	case "cut-after-apply":
		c.ServerReset()
		st.busy = false
		return
	}
	cut := -1
	rst := false
	if r.Fault == "cut-in-response" {
		cut = cl.S.T.Intn("fault", len(frame))
	}
	if r.Fault == "cut-exact" && cl.CutExact != nil {
		cut, rst = cl.CutExact(r)
	}
	r.RespAt = cl.S.Now()
	overtaken := cl.OutOfOrder && r.Fault == "slow"
	if overtaken {
		defer func() {
			st.busy = false
			b.pump(c, st)
		}()
	}
	cl.S.After(delay, fmt.Sprintf("c%d:resp#%d", c.ID, r.Hdr.CorrelationID), func() {
		if c.ServerDead() {
			return
		}
		if overtaken {
			// delivered whenever its delay is over, whatever else the
			// connection is doing by then — but never inside another frame
			var deliver func()
			deliver = func() {
				if c.ServerDead() {
					return
				}
				if st.midFrame {
					cl.S.After(time.Millisecond, fmt.Sprintf("c%d:resp#%d", c.ID, r.Hdr.CorrelationID), deliver)
					return
				}
				c.Deliver(frame)
				r.RespFull = true
				r.RespFullAt = cl.S.Now()
				r.RespFullStep = cl.S.Step
				cl.S.Count("response-out-of-order")
			}
			deliver()
			return
		}
		if cut >= 0 {
			c.Deliver(frame[:cut])
			if cl.CutSilent {
				return // (the connection stays busy: the broker has stalled)
			}
			if rst {
				c.ServerResetAfterData()
			} else {
				c.ServerClose()
			}
			st.busy = false
			return
		}
		key := [2]int16{r.Hdr.APIKey, r.Hdr.APIVersion}
		if r.Fault == "stale-response" {
			if old := st.lastFrame[key]; old != nil {
				c.Deliver(old)
			} else {
				cl.S.Stats["fault:stale-response"]--
			}
		}
		if st.lastFrame == nil {
			st.lastFrame = map[[2]int16][]byte{}
		}
		st.lastFrame[key] = frame
		if r.Fault == "split" && len(frame) > 1 {
			k := 0
			if cl.SplitAt != nil {
				k = cl.SplitAt(r, len(frame))
			} else {
				k = 1 + cl.S.T.Intn("fault", len(frame)-1)
			}
			span := int((cl.F.SplitMax - cl.F.SplitMin) / time.Millisecond)
			pause := cl.F.SplitMin + time.Duration(cl.S.T.Intn("fault", span+1))*time.Millisecond
			c.Deliver(frame[:k])
			st.midFrame = true
			cl.S.After(pause, fmt.Sprintf("c%d:resp-rest#%d", c.ID, r.Hdr.CorrelationID), func() {
				st.midFrame = false
				if c.ServerDead() {
					return
				}
				c.Deliver(frame[k:])
				r.RespFull = true
				r.RespFullAt = cl.S.Now()
				r.RespFullStep = cl.S.Step
				st.busy = false
				b.pump(c, st)
			})
			return
		}
		c.Deliver(frame)
		r.RespFull = true
		r.RespFullAt = cl.S.Now()
		r.RespFullStep = cl.S.Step
		st.busy = false
		b.pump(c, st)
	})
}

func (c *Cluster) drawFault(r *Req) string {
	f := &c.F
	if r.API == nil {
		return ""
	}
	k := r.Hdr.APIKey
	if k == 18 || k == 17 || k == 36 {
		return ""
	}
	if f.APIs != nil && !f.APIs[k] {
		return ""
	}
	if f.Until > 0 && c.S.Now() > f.Until {
		return ""
	}
	if f.Max > 0 && f.fired >= f.Max {
		return ""
	}
	total := f.CutBeforeApply + f.CutAfterApply + f.CutInResponse + f.Slow + f.Stall + f.ErrorCode + f.StaleResponse + f.Split
	if total == 0 {
		return ""
	}
	x := c.S.T.Intn("fault", 1000)
	// draw 0 must mean "no fault": faults occupy the top of the range
	x = 999 - x
	kinds := []struct {
		n string
		p int
	}{{"cut-before-apply", f.CutBeforeApply}, {"cut-after-apply", f.CutAfterApply}, {"cut-in-response", f.CutInResponse},
		{"slow", f.Slow}, {"stall", f.Stall}, {"error-code", f.ErrorCode}, {"stale-response", f.StaleResponse}, {"split", f.Split}}
	for _, kd := range kinds {
		if x < kd.p {
			f.fired++
			c.S.Count("fault:" + kd.n)
			return kd.n
		}
		x -= kd.p
	}
	return ""
}

func (b *Broker) handle(c *Conn, st *connState, r *Req) {
	cl := b.C
	r.Handled = true
	if r.DecodeErr != nil {
		cl.wireFail(c, r, "C04", "R3-body", "broker %d cannot decode request frame (%d bytes): %v", b.ID, len(r.Frame), r.DecodeErr)
		c.ServerReset()
		return
	}
	cl.checkHeader(b, c, st, r)
	if cl.S.Failed() {
		return
	}
	if r.Note == "unsupported-version" {
		// a broker cannot even parse a version it does not know: it drops the connection
		c.ServerReset()
		st.busy = false
		return
	}
	// SASL gate
	if !st.authed && r.Hdr.APIKey != 18 && r.Hdr.APIKey != 17 && r.Hdr.APIKey != 36 {
		cl.S.Fail("C18", "R1-before-auth", "conn c%d (%s) to broker %d: %s v%d request before authentication completed", c.ID, c.Owner, b.ID, r.API.Name, r.Hdr.APIVersion)
		return
	}
	r.Fault = cl.drawFault(r)
	if r.Fault == "cut-before-apply" {
		c.ServerReset()
		st.busy = false
		return
	}
	if cl.Hook != nil && cl.Hook(b, r) {
		return
	}
	done := func(body rc.Msg) { b.respond(c, st, r, body) }
	switch r.Hdr.APIKey {
	case 18:
		done(cl.apiVersions(b, r))
	case 3:
		done(cl.metadata(b, r))
	case 0:
		done(cl.produce(b, r))
	case 1:
		cl.fetch(b, r, done)
	case 2:
		done(cl.listOffsets(b, r))
	case 10:
		done(cl.findCoordinator(b, r))
	case 11:
		cl.joinGroup(b, c, r, done)
	case 14:
		cl.syncGroup(b, c, r, done)
	case 12:
		done(cl.heartbeat(b, r))
	case 13:
		done(cl.leaveGroup(b, r))
	case 8:
		done(cl.offsetCommit(b, r))
	case 9:
		done(cl.offsetFetch(b, r))
	case 17:
		done(cl.saslHandshake(b, c, st, r))
	case 36:
		done(cl.saslAuthenticate(b, c, st, r))
	case 19:
		done(cl.createTopics(b, r))
	case 20:
		done(cl.deleteTopics(b, r))
	case 22:
		done(cl.initProducerID(b, r))
	case 15:
		done(cl.describeGroups(b, r))
	case 16:
		done(cl.listGroups(b, r))
	default:
		cl.S.Fail("SIM", "unsupported-api", "simkafka does not implement api key %d", r.Hdr.APIKey)
	}
}

// wireFail records a wire-format violation (C04/C05 monitors).
func (c *Cluster) wireFail(cn *Conn, r *Req, prop, rule, f string, a ...any) {
	c.wireViolations++
	pre := fmt.Sprintf("conn c%d (%s): ", cn.ID, cn.Owner)
	c.S.Fail(prop, rule, pre+f, a...)
}

// checkHeader is the always-on C04.R2 monitor.
func (c *Cluster) checkHeader(b *Broker, cn *Conn, st *connState, r *Req) {
	vr, ok := b.Versions[r.Hdr.APIKey]
	if !ok {
		c.wireFail(cn, r, "C04", "R2-version", "%s request sent to broker %d which does not advertise that API", r.API.Name, b.ID)
		return
	}
	// ApiVersions v0 is always answered (it is how versions are discovered)
	if r.Hdr.APIKey != 18 && (r.Hdr.APIVersion < vr[0] || r.Hdr.APIVersion > vr[1]) {
		if c.LibRange != nil {
			// only a violation when the sender's range overlaps the broker's
			if lo, hi := c.LibRange(r.Hdr.APIKey); lo > vr[1] || hi < vr[0] {
				c.S.Count("unsupported-version-no-overlap")
				r.Note = "unsupported-version"
				return
			}
		}
		c.wireFail(cn, r, "C04", "R2-version", "%s v%d sent to broker %d which advertised [%d,%d]", r.API.Name, r.Hdr.APIVersion, b.ID, vr[0], vr[1])
		return
	}
	if c.ExpectClientID != "" {
		if r.Hdr.ClientID == nil || *r.Hdr.ClientID != c.ExpectClientID {
			got := "<null>"
			if r.Hdr.ClientID != nil {
				got = *r.Hdr.ClientID
			}
			c.wireFail(cn, r, "C04", "R2-clientid", "%s v%d carries client id %q, configured %q", r.API.Name, r.Hdr.APIVersion, got, c.ExpectClientID)
		}
	}
	wantFlex := r.API.FlexibleFrom >= 0 && r.Hdr.APIVersion >= r.API.FlexibleFrom
	if r.Hdr.Flexible != wantFlex {
		c.wireFail(cn, r, "C04", "R2-header", "%s v%d request header flexible=%v, want %v", r.API.Name, r.Hdr.APIVersion, r.Hdr.Flexible, wantFlex)
	}
}

// ---------------------------------------------------------------------------
// ApiVersions / Metadata

func (c *Cluster) apiVersions(b *Broker, r *Req) rc.Msg {
	var keys []rc.Msg
	var ks []int
	for k := range b.Versions {
		ks = append(ks, int(k))
	}
	sort.Ints(ks)
	for _, k := range ks {
		if b.Unlisted[int16(k)] {
			continue
		}
		v := b.Versions[int16(k)]
		keys = append(keys, rc.Msg{"api_key": int16(k), "min_version": v[0], "max_version": v[1]})
	}
	r.Applied = true
	return rc.Msg{"error_code": int16(0), "api_keys": keys, "throttle_time_ms": int32(0)}
}

// listed returns the topic's partitions in the order the brokers list them in
// metadata responses (Kafka promises no order): MetaOrder 0 ascending,
// 1 descending, 2 rotated by one, 3 odd ids before even ids.
func (c *Cluster) listed(t *Topic) []*Partition {
	ps := append([]*Partition(nil), t.Parts...)
	switch c.MetaOrder {
	case 1:
		for i, j := 0, len(ps)-1; i < j; i, j = i+1, j-1 {
			ps[i], ps[j] = ps[j], ps[i]
		}
	case 2:
		if len(ps) > 1 {
			ps = append(ps[1:], ps[0])
		}
	case 3:
		var odd, even []*Partition
		for _, p := range ps {
			if p.ID%2 == 1 {
				odd = append(odd, p)
			} else {
				even = append(even, p)
			}
		}
		ps = append(odd, even...)
	}
	return ps
}

func (c *Cluster) metadataTopic(t *Topic) rc.Msg {
	var parts []rc.Msg
	for _, p := range c.listed(t) {
		parts = append(parts, rc.Msg{
			"error_code": p.Err, "partition_index": p.ID, "leader_id": p.Leader, "leader_epoch": p.Epoch,
			"replica_nodes": i32s(p.Replicas), "isr_nodes": i32s(p.ISR), "offline_replicas": i32s(p.Offline),
		})
	}
	if parts == nil {
		parts = []rc.Msg{}
	}
	return rc.Msg{"error_code": t.Err, "name": t.Name, "is_internal": t.Internal, "partitions": parts, "topic_authorized_operations": int32(-2147483648)}
}

func i32s(v []int32) []any {
	out := make([]any, len(v))
	for i, x := range v {
		out[i] = x
	}
	return out
}

func (c *Cluster) metadata(b *Broker, r *Req) rc.Msg {
	var brokers []rc.Msg
	for _, br := range c.Brokers {
		if !br.Up {
			continue
		}
		var rack any
		if br.Rack != "" {
			rack = br.Rack
		}
		brokers = append(brokers, rc.Msg{"node_id": br.ID, "host": br.Host, "port": br.Port, "rack": rack})
	}
	var topics []rc.Msg
	req := r.Body.Arr("topics")
	all := r.Body.IsNull("topics") || (r.Hdr.APIVersion == 0 && len(req) == 0)
	if all {
		for _, n := range c.TopicNames() {
			if c.Topics[n].Hidden {
				continue
			}
			topics = append(topics, c.metadataTopic(c.Topics[n]))
		}
	} else {
		for _, rt := range req {
			name := rt.Str("name")
			t := c.Topics[name]
			if t == nil && c.AutoCreate && (r.Hdr.APIVersion < 4 || r.Body.Bool("allow_auto_topic_creation")) {
				t = c.AddTopic(name, c.AutoCreateParts, func(int) int32 { return c.Brokers[0].ID })
			}
			if t == nil || t.Hidden {
				topics = append(topics, rc.Msg{"error_code": ErrUnknownTopicOrPartition, "name": name, "is_internal": false, "partitions": []rc.Msg{}, "topic_authorized_operations": int32(-2147483648)})
				continue
			}
			topics = append(topics, c.metadataTopic(t))
		}
	}
	if topics == nil {
		topics = []rc.Msg{}
	}
	r.Applied = true
	return rc.Msg{"throttle_time_ms": int32(0), "brokers": brokers, "cluster_id": c.ClusterID, "controller_id": c.Controller,
		"topics": topics, "cluster_authorized_operations": int32(-2147483648)}
}

func briefMsg(m rc.Msg) string {
	s := fmt.Sprintf("%v", map[string]any(m))
	if len(s) > 400 {
		s = s[:400] + "..."
	}
	return s
}
