package sim

import (
	"context"
	"fmt"
	"time"

	kafka "github.com/segmentio/kafka-go"
	"github.com/segmentio/kafka-go/sasl"
	"github.com/segmentio/kafka-go/sasl/plain"
	"github.com/segmentio/kafka-go/sasl/scram"
)

func init() { Scenarios["sasl"] = saslScenario }

// saslScenario (C18): SASL-configured Dialer / Transport against brokers that
// require authentication; the broker-side gate (Broker.handle) reports any
// non-authentication request that arrives before the reference server has
// accepted the exchange; here the outcome of dialling is compared with the
// reference server's verdict and failed connections must be closed and silent.
func saslScenario(s *Sim, params map[string]string) {
	t := s.T
	n := NewNet(s)
	n.MinLatency = time.Duration(t.Range("cfg", 1, 10)) * 100 * time.Microsecond
	n.MaxLatency = n.MinLatency + time.Duration(t.Range("cfg", 0, 20))*100*time.Microsecond
	cl := NewCluster(s, n)
	nb := t.Range("cfg", 1, 3)
	hsCeil := int16(t.Range("cfg", 0, 1))
	authCeil := int16(t.Range("cfg", 0, 2))
	// a version table that does not mention the SASL APIs at all (the listener
	// still insists on a version-0 handshake and raw tokens): a client
	// configured for SASL authenticates all the same
	unlisted := t.Intn("unlisted", 8) == 0
	if unlisted {
		hsCeil, authCeil = 0, 0
		s.Count("sasl-apis-missing-from-ApiVersions")
	}
	for i := 1; i <= nb; i++ {
		b := cl.AddBroker(int32(i), "")
		b.Versions[17] = [2]int16{0, hsCeil}
		b.Versions[36] = [2]int16{0, authCeil}
		if unlisted {
			b.Unlisted = map[int16]bool{17: true, 36: true}
		}
	}
	cl.AddTopic("st", 3, func(int) int32 { return int32(1 + t.Intn("cfg", nb)) })

	users := []string{"alice", "bob=admin", "carol,ops", "dörte", "u ser"}
	passwords := []string{"secret", "p,ass=word", "pässwörd", "Ⅸ", "with space", "a­b", ""}
	user := users[t.Intn("cfg", len(users))]
	pass := passwords[t.Intn("cfg", len(passwords))]
	if pass == "" {
		pass = "x"
	}
	mechName := Pick(t, "cfg", "PLAIN", "SCRAM-SHA-256", "SCRAM-SHA-512")
	serverMechs := []string{mechName}
	mode := t.Intn("cfg", 8)
	if v, ok := params["mode"]; ok {
		fmt.Sscan(v, &mode)
	}
	cfg := &SASLConfig{Mechanisms: serverMechs, Users: map[string]string{user: pass}, Iters: Pick(t, "cfg", 4096, 4096, 8192)}
	clientPass := pass
	expectOK := true
	switch mode {
	case 0, 1: // healthy
	case 2: // wrong password
		clientPass = pass + "x"
		expectOK = false
	case 3: // mechanism not enabled on the broker
		other := map[string]string{"PLAIN": "SCRAM-SHA-256", "SCRAM-SHA-256": "SCRAM-SHA-512", "SCRAM-SHA-512": "PLAIN"}[mechName]
		cfg.Mechanisms = []string{other}
		expectOK = false
	case 4:
		cfg.Sabotage = "close-after-handshake"
		expectOK = false
	case 5:
		cfg.Sabotage = "auth-error"
		// (any non-zero code is a rejection: UNKNOWN_SERVER_ERROR is -1)
		cfg.AuthErrorCode = int16(Pick(t, "cfg", 58, 58, -1, 34, 33))
		expectOK = false
	case 6:
		if mechName == "PLAIN" {
			cfg.Sabotage = "close-mid"
		} else {
			cfg.Sabotage = Pick(t, "cfg", "bad-server-first", "bad-server-final", "close-mid")
		}
		expectOK = false
	case 7: // unknown user
		delete(cfg.Users, user)
		cfg.Users["someone-else"] = pass
		expectOK = false
	}
	cl.SASL = cfg
	var mech sasl.Mechanism
	switch mechName {
	case "PLAIN":
		mech = plain.Mechanism{Username: user, Password: clientPass}
	case "SCRAM-SHA-256":
		m, err := scram.Mechanism(scram.SHA256, user, clientPass)
		if err != nil {
			s.Count("client-rejected-credentials")
			s.DoneWhen(func() bool { return true })
			return
		}
		mech = m
	default:
		m, err := scram.Mechanism(scram.SHA512, user, clientPass)
		if err != nil {
			s.Count("client-rejected-credentials")
			s.DoneWhen(func() bool { return true })
			return
		}
		mech = m
	}
	desc := fmt.Sprintf("%s user %q, handshake<=v%d authenticate<=v%d, mode %d sabotage %q", mechName, user, hsCeil, authCeil, mode, cfg.Sabotage)

	entry := t.Intn("cfg", 2)
	if v, ok := params["entry"]; ok {
		fmt.Sscan(v, &entry)
	}
	okCalls, failCalls := 0, 0
	if entry == 0 {
		// Dialer -> Conn
		nact := t.Range("cfg", 1, 3)
		for a := 0; a < nact; a++ {
			s.Go(fmt.Sprintf("d%d", a), func() {
				d := &kafka.Dialer{DialFunc: n.Dialer("sasl-dialer"), ClientID: "sasl", Timeout: 3 * time.Second, SASLMechanism: mech}
				ctx, cancel := context.WithTimeout(context.Background(), 5*time.Second)
				defer cancel()
				var conn *kafka.Conn
				var err error
				if t.Intn("work", 2) == 0 {
					conn, err = d.DialContext(ctx, "tcp", cl.Brokers[0].Addr())
				} else {
					conn, err = d.DialLeader(ctx, "tcp", cl.Brokers[0].Addr(), "st", t.Intn("work", 3))
				}
				s.Count("ops")
				if err != nil {
					failCalls++
					if expectOK {
						s.Fail("C18", "R2-valid-credentials-rejected", "%s: dialling failed with %v although the reference server accepts these credentials", desc, err)
					}
					return
				}
				okCalls++
				if !expectOK {
					s.Fail("C18", "R2-invalid-exchange-accepted", "%s: dialling succeeded although the reference server did not accept the exchange", desc)
				}
				conn.SetDeadline(time.Now().Add(3 * time.Second))
				if ps, err := conn.ReadPartitions("st"); expectOK && (err != nil || len(ps) != 3) {
					s.Fail("C18", "R2-workload-after-auth", "%s: ReadPartitions after authentication: %d partitions, %v", desc, len(ps), err)
				}
				conn.Close()
			})
		}
	} else {
		tr := &kafka.Transport{Dial: n.Dialer("sasl-transport"), ClientID: "sasl", SASL: mech, DialTimeout: 2 * time.Second, MetadataTTL: 5 * time.Second}
		client := &kafka.Client{Addr: kafka.TCP(cl.Brokers[0].Addr()), Transport: tr, Timeout: 4 * time.Second}
		nact := t.Range("cfg", 1, 4)
		for a := 0; a < nact; a++ {
			s.Go(fmt.Sprintf("t%d", a), func() {
				for i := 0; i < 3; i++ {
					ctx, cancel := context.WithTimeout(context.Background(), 4*time.Second)
					var err error
					if t.Intn("work", 2) == 0 {
						_, err = client.Metadata(ctx, &kafka.MetadataRequest{Topics: []string{"st"}})
					} else {
						var res *kafka.ListOffsetsResponse
						res, err = client.ListOffsets(ctx, &kafka.ListOffsetsRequest{Topics: map[string][]kafka.OffsetRequest{"st": {kafka.LastOffsetOf(0), kafka.LastOffsetOf(1), kafka.LastOffsetOf(2)}}})
						if err == nil {
							for _, po := range res.Topics["st"] {
								if po.Error != nil {
									err = po.Error
								}
							}
						}
					}
					cancel()
					s.Count("ops")
					if err != nil {
						failCalls++
						if expectOK {
							s.Fail("C18", "R2-valid-credentials-rejected", "%s: a Client call failed with %v although the reference server accepts these credentials", desc, err)
						}
					} else {
						okCalls++
						if !expectOK {
							s.Fail("C18", "R2-invalid-exchange-accepted", "%s: a Client call succeeded although the reference server did not accept the exchange", desc)
						}
					}
					s.Pause("op")
				}
			})
		}
		closed := false
		s.Go("closer", func() {
			for s.Actors() > 1 {
				s.Sleep(50 * time.Millisecond)
			}
			tr.CloseIdleConnections()
			closed = true
		})
		_ = closed
	}
	s.DoneWhen(func() bool { return s.Actors() == 0 })
	s.AtEnd(func() {
		// failed connections: closed by the client, nothing after the failure
		rejected := map[string]bool{}
		for _, id := range cfg.Rejected {
			rejected[id] = true
		}
		accepted := map[string]bool{}
		for _, id := range cfg.Accepted {
			accepted[id] = true
		}
		for _, cn := range n.Conns() {
			id := fmt.Sprintf("c%d", cn.ID)
			st, _ := cn.State.(*connState)
			if st == nil {
				continue
			}
			if !st.authed {
				// never authenticated: the client must have closed it, and must
				// not have written anything after the broker ended the exchange
				if !cn.ClientClosed() {
					s.Fail("C18", "R2-failed-conn-left-open", "%s: connection %s never authenticated but was not closed by the client", desc, id)
				}
			}
			if accepted[id] != st.authed && cfg.Sabotage != "bad-server-final" {
				s.Fail("SIM", "sasl-bookkeeping", "connection %s accepted=%v authed=%v", id, accepted[id], st.authed)
			}
		}
		if expectOK && okCalls == 0 && failCalls == 0 {
			s.Count("no-calls")
		}
		n.Shutdown()
	})
}
