package refcodec

import (
	"fmt"
	"math"
	"strconv"
	"strings"
)

// Kind is the wire type of a field.
type Kind int

const (
	KBool Kind = iota
	KInt8
	KInt16
	KUint16
	KInt32
	KInt64
	KFloat64
	KString
	KBytes
	KRecords
	KUUID
	KArray
	KStruct
)

var kindNames = [...]string{"bool", "int8", "int16", "uint16", "int32", "int64", "float64",
	"string", "bytes", "records", "uuid", "array", "struct"}

func (k Kind) String() string {
	if k >= 0 && int(k) < len(kindNames) {
		return kindNames[k]
	}
	return "kind(" + strconv.Itoa(int(k)) + ")"
}

// VR is an inclusive version range. Max = 32767 stands for "N+"; VR{1,0} is
// the empty range ("never").
type VR struct{ Min, Max int16 }

// Never is the empty version range.
var Never = VR{1, 0}

// Has reports whether ver lies in the range.
func (v VR) Has(ver int16) bool { return ver >= v.Min && ver <= v.Max }

func (v VR) String() string {
	switch {
	case v.Min > v.Max:
		return "none"
	case v.Max == math.MaxInt16:
		return fmt.Sprintf("%d+", v.Min)
	case v.Min == v.Max:
		return strconv.Itoa(int(v.Min))
	}
	return fmt.Sprintf("%d-%d", v.Min, v.Max)
}

// Field describes one field of a Kafka structure.
type Field struct {
	Name           string
	Kind           Kind
	Elem           *Field  // for KArray: element description (Kind + Fields if struct)
	Fields         []Field // for KStruct, and for arrays of struct (same slice as Elem.Fields)
	Versions       VR      // versions in which the field is on the wire as a regular field
	Nullable       VR      // versions in which it may be null
	Tag            int     // -1: regular field; >=0: tagged field with that tag number
	TaggedVersions VR      // versions in which it is sent as a tagged field
	Default        any     // default used when the key is missing (nil => zero value, see DefaultNull)
	// DefaultNull (extension to SPEC.md) is set when the Kafka definition says
	// "default": "null": a missing key is then encoded as null.
	DefaultNull bool
}

// Present reports whether the field exists at all (regular or tagged) in ver.
func (f *Field) Present(ver int16) bool {
	return f.Versions.Has(ver) || (f.Tag >= 0 && f.TaggedVersions.Has(ver))
}

// API is the schema of one request/response pair.
type API struct {
	Key          int16
	Name         string
	MinVersion   int16
	MaxVersion   int16 // highest version implemented here
	FlexibleFrom int16 // first flexible version, or -1 if none implemented
	Request      []Field
	Response     []Field
}

// Flexible reports whether version ver of the API uses the flexible (KIP-482)
// encoding.
func (a *API) Flexible(ver int16) bool { return a.FlexibleFrom >= 0 && ver >= a.FlexibleFrom }

// RequestHeaderVersion is 2 for flexible versions and 1 otherwise.
func (a *API) RequestHeaderVersion(ver int16) int16 {
	if a.Flexible(ver) {
		return 2
	}
	return 1
}

// ResponseHeaderVersion is 1 for flexible versions and 0 otherwise; always 0
// for ApiVersions (KIP-511).
func (a *API) ResponseHeaderVersion(ver int16) int16 {
	if a.Key == 18 {
		return 0
	}
	if a.Flexible(ver) {
		return 1
	}
	return 0
}

// APIs holds every implemented API by api key.
var APIs = map[int16]*API{}

// Lookup returns the API with the given key, or nil.
func Lookup(key int16) *API { return APIs[key] }

// ---------------------------------------------------------------------------
// Schema DSL
//
//	api <Name> <key> <minVer>-<maxVer> flex=<ver|none>
//	req
//	  <name> <type> <versions> [null=<versions>] [tag=<n>] [tagged=<versions>] [default=<v>]
//	    <child fields of [] / {} one level deeper (2 spaces per level)>
//	res
//	  ...
//
// <type> is bool|int8|int16|uint16|int32|int64|float64|string|bytes|records|uuid,
// []<primitive>, [] (array of struct, children follow) or {} (struct).
// <versions> is "N", "N-M", "N+" or "none". "tag=n" without "tagged=" means the
// field is a tagged field in all of its versions.
// ---------------------------------------------------------------------------

func parseVR(s string) VR {
	if s == "none" {
		return Never
	}
	if strings.HasSuffix(s, "+") {
		return VR{atoi16(s[:len(s)-1]), math.MaxInt16}
	}
	if i := strings.IndexByte(s, '-'); i > 0 {
		return VR{atoi16(s[:i]), atoi16(s[i+1:])}
	}
	n := atoi16(s)
	return VR{n, n}
}

func atoi16(s string) int16 {
	n, err := strconv.ParseInt(s, 10, 16)
	if err != nil {
		panic("refcodec schema: bad number " + strconv.Quote(s))
	}
	return int16(n)
}

var primKinds = map[string]Kind{
	"bool": KBool, "int8": KInt8, "int16": KInt16, "uint16": KUint16, "int32": KInt32,
	"int64": KInt64, "float64": KFloat64, "string": KString, "bytes": KBytes,
	"records": KRecords, "uuid": KUUID,
}

func parseDefault(k Kind, s string) (any, bool) {
	if s == "null" {
		return nil, true
	}
	switch k {
	case KBool:
		return s == "true", false
	case KInt8, KInt16, KUint16, KInt32, KInt64:
		n, err := strconv.ParseInt(s, 0, 64)
		if err != nil {
			panic("refcodec schema: bad default " + strconv.Quote(s))
		}
		switch k {
		case KInt8:
			return int8(n), false
		case KInt16:
			return int16(n), false
		case KUint16:
			return uint16(n), false
		case KInt32:
			return int32(n), false
		}
		return n, false
	case KFloat64:
		f, err := strconv.ParseFloat(s, 64)
		if err != nil {
			panic("refcodec schema: bad default " + strconv.Quote(s))
		}
		return f, false
	case KString:
		return s, false
	}
	panic("refcodec schema: default not supported for " + k.String())
}

type dslLine struct {
	indent int
	toks   []string
	no     int
}

func parseField(lines []dslLine, pos int, indent int) (Field, int) {
	ln := lines[pos]
	t := ln.toks
	if len(t) < 3 {
		panic(fmt.Sprintf("refcodec schema: line %d: want <name> <type> <versions>", ln.no))
	}
	f := Field{Name: t[0], Versions: parseVR(t[2]), Nullable: Never, Tag: -1, TaggedVersions: Never}
	typ := t[1]
	hasChildren := false
	switch {
	case typ == "{}":
		f.Kind = KStruct
		hasChildren = true
	case typ == "[]":
		f.Kind = KArray
		f.Elem = &Field{Kind: KStruct, Versions: f.Versions, Nullable: Never, Tag: -1, TaggedVersions: Never}
		hasChildren = true
	case strings.HasPrefix(typ, "[]"):
		k, ok := primKinds[typ[2:]]
		if !ok {
			panic(fmt.Sprintf("refcodec schema: line %d: unknown type %q", ln.no, typ))
		}
		f.Kind = KArray
		f.Elem = &Field{Kind: k, Versions: f.Versions, Nullable: Never, Tag: -1, TaggedVersions: Never}
	default:
		k, ok := primKinds[typ]
		if !ok {
			panic(fmt.Sprintf("refcodec schema: line %d: unknown type %q", ln.no, typ))
		}
		f.Kind = k
	}
	taggedSet := false
	for _, o := range t[3:] {
		i := strings.IndexByte(o, '=')
		if i < 0 {
			panic(fmt.Sprintf("refcodec schema: line %d: bad option %q", ln.no, o))
		}
		k, v := o[:i], o[i+1:]
		switch k {
		case "null":
			f.Nullable = parseVR(v)
		case "tag":
			n, err := strconv.Atoi(v)
			if err != nil {
				panic(fmt.Sprintf("refcodec schema: line %d: bad tag %q", ln.no, v))
			}
			f.Tag = n
		case "tagged":
			f.TaggedVersions = parseVR(v)
			taggedSet = true
		case "default":
			f.Default, f.DefaultNull = parseDefault(f.Kind, v)
		default:
			panic(fmt.Sprintf("refcodec schema: line %d: unknown option %q", ln.no, k))
		}
	}
	if f.Tag >= 0 {
		all := f.Versions
		if !taggedSet {
			f.TaggedVersions = all
		}
		// Versions keeps only the versions in which the field is a regular field.
		tv := f.TaggedVersions
		switch {
		case tv.Min <= all.Min && tv.Max >= all.Max:
			f.Versions = Never
		case tv.Min > all.Min && tv.Max >= all.Max:
			f.Versions = VR{all.Min, tv.Min - 1}
		default:
			panic(fmt.Sprintf("refcodec schema: line %d: unsupported tagged range", ln.no))
		}
	}
	pos++
	if hasChildren {
		var kids []Field
		for pos < len(lines) && lines[pos].indent > indent {
			if lines[pos].indent != indent+1 {
				panic(fmt.Sprintf("refcodec schema: line %d: bad indentation", lines[pos].no))
			}
			var k Field
			k, pos = parseField(lines, pos, indent+1)
			kids = append(kids, k)
		}
		f.Fields = kids
		if f.Elem != nil {
			f.Elem.Fields = kids
		}
	} else if pos < len(lines) && lines[pos].indent > indent {
		panic(fmt.Sprintf("refcodec schema: line %d: unexpected child of primitive field", lines[pos].no))
	}
	return f, pos
}

// register parses one API definition written in the DSL and adds it to APIs.
func register(src string) {
	var lines []dslLine
	for i, raw := range strings.Split(src, "\n") {
		if j := strings.IndexByte(raw, '#'); j >= 0 {
			raw = raw[:j]
		}
		trim := strings.TrimLeft(raw, " ")
		if strings.TrimSpace(trim) == "" {
			continue
		}
		sp := len(raw) - len(trim)
		if sp%2 != 0 {
			panic(fmt.Sprintf("refcodec schema: line %d: odd indentation", i+1))
		}
		lines = append(lines, dslLine{indent: sp / 2, toks: strings.Fields(trim), no: i + 1})
	}
	if len(lines) == 0 || lines[0].toks[0] != "api" || len(lines[0].toks) != 5 {
		panic("refcodec schema: definition must start with: api <Name> <key> <min>-<max> flex=<v|none>")
	}
	h := lines[0].toks
	a := &API{Name: h[1], Key: atoi16(h[2]), FlexibleFrom: -1}
	vr := parseVR(h[3])
	a.MinVersion, a.MaxVersion = vr.Min, vr.Max
	if !strings.HasPrefix(h[4], "flex=") {
		panic("refcodec schema: missing flex=")
	}
	if fv := h[4][5:]; fv != "none" {
		a.FlexibleFrom = atoi16(fv)
	}
	pos := 1
	var cur *[]Field
	for pos < len(lines) {
		ln := lines[pos]
		if ln.indent == 0 {
			switch ln.toks[0] {
			case "req":
				cur = &a.Request
			case "res":
				cur = &a.Response
			default:
				panic(fmt.Sprintf("refcodec schema: line %d: want req/res", ln.no))
			}
			pos++
			continue
		}
		if cur == nil || ln.indent != 1 {
			panic(fmt.Sprintf("refcodec schema: line %d: bad indentation", ln.no))
		}
		var f Field
		f, pos = parseField(lines, pos, 1)
		*cur = append(*cur, f)
	}
	if _, dup := APIs[a.Key]; dup {
		panic("refcodec schema: duplicate api key " + strconv.Itoa(int(a.Key)))
	}
	if a.Request == nil {
		a.Request = []Field{}
	}
	if a.Response == nil {
		a.Response = []Field{}
	}
	APIs[a.Key] = a
}
