package refcodec

import (
	"math"
	"math/rand"
	"strconv"
	"strings"
)

// genOpts tunes the random body generator.
type genOpts struct {
	// records, if non-nil, produces the raw bytes of KRecords fields (instead of
	// random garbage), so that the result is a decodable record set.
	records func(r *rand.Rand) []byte
	// noMaxStrings disables the occasional 32767-byte string.
	noMaxStrings bool
}

var int64Bounds = []int64{0, 1, -1, math.MaxInt8, math.MinInt8, math.MaxInt16, math.MinInt16,
	math.MaxInt32, math.MinInt32, math.MaxInt64, math.MinInt64, 255, 256, 65535, 65536}

func genInt(r *rand.Rand, lo, hi int64) int64 {
	if r.Intn(2) == 0 {
		for tries := 0; tries < 8; tries++ {
			v := int64Bounds[r.Intn(len(int64Bounds))]
			if v >= lo && v <= hi {
				return v
			}
		}
	}
	if lo == math.MinInt64 && hi == math.MaxInt64 {
		return int64(r.Uint64())
	}
	return lo + int64(r.Uint64()%uint64(hi-lo+1))
}

var float64Bounds = []float64{0, 1, -1, 0.5, 1024, 1e9, -2.5e-3, math.MaxFloat64, -math.MaxFloat64,
	math.SmallestNonzeroFloat64, math.Inf(1), math.Inf(-1)}

// genFloat never returns NaN (reflect.DeepEqual could not compare it) and
// never -0 (the "is default" test of a tagged float would be ambiguous).
func genFloat(r *rand.Rand) float64 {
	if r.Intn(2) == 0 {
		return float64Bounds[r.Intn(len(float64Bounds))]
	}
	return r.NormFloat64() * 1e6
}

func genString(r *rand.Rand, o genOpts) string {
	switch n := r.Intn(200); {
	case n == 0 && !o.noMaxStrings:
		return strings.Repeat("x", math.MaxInt16)
	case n < 30:
		return ""
	case n < 60:
		return "a"
	case n < 70:
		// lengths around the 1-byte/2-byte compact varint boundary
		return strings.Repeat("b", 126+r.Intn(4))
	}
	b := make([]byte, 1+r.Intn(24))
	for i := range b {
		b[i] = byte('a' + r.Intn(26))
	}
	if r.Intn(8) == 0 {
		return string(b) + "-é-世界"
	}
	return string(b)
}

func genBytes(r *rand.Rand) []byte {
	switch r.Intn(6) {
	case 0:
		return []byte{}
	case 1:
		b := make([]byte, 126+r.Intn(4))
		r.Read(b)
		return b
	}
	b := make([]byte, 1+r.Intn(40))
	r.Read(b)
	return b
}

func genArrayLen(r *rand.Rand) int {
	switch n := r.Intn(10); {
	case n < 2:
		return 0
	case n < 6:
		return 1
	case n < 9:
		return 2
	}
	return 3
}

func genValue(r *rand.Rand, f *Field, ver int16, o genOpts) any {
	if f.Kind == KRecords && o.records != nil {
		return o.records(r) // never null: kafka-go cannot re-encode an empty record set
	}
	if f.Nullable.Has(ver) && r.Intn(4) == 0 {
		return nil
	}
	switch f.Kind {
	case KBool:
		return r.Intn(2) == 0
	case KInt8:
		return int8(genInt(r, math.MinInt8, math.MaxInt8))
	case KInt16:
		return int16(genInt(r, math.MinInt16, math.MaxInt16))
	case KUint16:
		return uint16(genInt(r, 0, math.MaxUint16))
	case KInt32:
		return int32(genInt(r, math.MinInt32, math.MaxInt32))
	case KInt64:
		return genInt(r, math.MinInt64, math.MaxInt64)
	case KFloat64:
		return genFloat(r)
	case KString:
		return genString(r, o)
	case KBytes:
		return genBytes(r)
	case KRecords:
		if o.records != nil {
			return o.records(r)
		}
		return genBytes(r)
	case KUUID:
		var u [16]byte
		r.Read(u[:])
		return u
	case KStruct:
		return genStruct(r, f.Fields, ver, o)
	case KArray:
		n := genArrayLen(r)
		if f.Elem.Kind == KStruct {
			out := make([]Msg, 0, n)
			for i := 0; i < n; i++ {
				out = append(out, genStruct(r, f.Elem.Fields, ver, o))
			}
			return out
		}
		out := make([]any, 0, n)
		for i := 0; i < n; i++ {
			out = append(out, genValue(r, f.Elem, ver, o))
		}
		return out
	}
	panic("unknown kind")
}

// genStruct generates a value for every field that exists in ver (regular or
// tagged), so that decode(encode(x)) == x under reflect.DeepEqual.
func genStruct(r *rand.Rand, fields []Field, ver int16, o genOpts) Msg {
	m := Msg{}
	for i := range fields {
		f := &fields[i]
		if !f.Present(ver) {
			continue
		}
		m[f.Name] = genValue(r, f, ver, o)
	}
	return m
}

// resolvePath walks a LenField path ("topics[0].partitions[1].records",
// "groups[2]") through a Msg.
func resolvePath(m Msg, path string) (any, bool) {
	var cur any = m
	for _, part := range strings.Split(path, ".") {
		name := part
		var idx []int
		for {
			i := strings.IndexByte(name, '[')
			if i < 0 {
				break
			}
			j := strings.IndexByte(name, ']')
			n, err := strconv.Atoi(name[i+1 : j])
			if err != nil {
				return nil, false
			}
			idx = append(idx, n)
			name = name[:i] + name[j+1:]
		}
		mm, ok := cur.(Msg)
		if !ok {
			return nil, false
		}
		v, ok := mm[name]
		if !ok {
			return nil, false
		}
		cur = v
		for _, n := range idx {
			switch a := cur.(type) {
			case []Msg:
				if n >= len(a) {
					return nil, false
				}
				cur = a[n]
			case []any:
				if n >= len(a) {
					return nil, false
				}
				cur = a[n]
			default:
				return nil, false
			}
		}
	}
	return cur, true
}
