package refcodec

// Msg is the generic value of a Kafka structure: field name (snake_case of the
// Kafka JSON definition) -> value. See SPEC.md §1 for the Go types stored.
type Msg map[string]any

// I8 returns the int8 stored under k, or 0.
func (m Msg) I8(k string) int8 {
	v, _ := m[k].(int8)
	return v
}

// I16 returns the int16 stored under k, or 0.
func (m Msg) I16(k string) int16 {
	v, _ := m[k].(int16)
	return v
}

// U16 returns the uint16 stored under k, or 0.
func (m Msg) U16(k string) uint16 {
	v, _ := m[k].(uint16)
	return v
}

// I32 returns the int32 stored under k, or 0.
func (m Msg) I32(k string) int32 {
	v, _ := m[k].(int32)
	return v
}

// I64 returns the int64 stored under k, or 0.
func (m Msg) I64(k string) int64 {
	v, _ := m[k].(int64)
	return v
}

// F64 returns the float64 stored under k, or 0.
func (m Msg) F64(k string) float64 {
	v, _ := m[k].(float64)
	return v
}

// Bool returns the bool stored under k, or false.
func (m Msg) Bool(k string) bool {
	v, _ := m[k].(bool)
	return v
}

// Str returns the string stored under k; "" for null, absent or wrong type.
func (m Msg) Str(k string) string {
	v, _ := m[k].(string)
	return v
}

// IsNull reports whether k is absent or holds a nil value.
func (m Msg) IsNull(k string) bool {
	v, ok := m[k]
	if !ok || v == nil {
		return true
	}
	switch x := v.(type) {
	case []byte:
		return x == nil
	case []Msg:
		return x == nil
	case []any:
		return x == nil
	}
	return false
}

// Bytes returns the []byte stored under k, or nil.
func (m Msg) Bytes(k string) []byte {
	v, _ := m[k].([]byte)
	return v
}

// Arr returns the []Msg stored under k; nil for null/absent/wrong type.
func (m Msg) Arr(k string) []Msg {
	v, _ := m[k].([]Msg)
	return v
}

// Prims returns the []any stored under k; nil for null/absent/wrong type.
func (m Msg) Prims(k string) []any {
	v, _ := m[k].([]any)
	return v
}

// UUID returns the [16]byte stored under k, or the zero UUID.
func (m Msg) UUID(k string) [16]byte {
	v, _ := m[k].([16]byte)
	return v
}
