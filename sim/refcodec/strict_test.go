package refcodec

import (
	"bytes"
	"encoding/binary"
	"strings"
	"testing"
)

// hdr builds a request header v1/v2 by hand.
func hdr(key, ver int16, corr int32, client string, flexible bool) []byte {
	var b []byte
	b = binary.BigEndian.AppendUint16(b, uint16(key))
	b = binary.BigEndian.AppendUint16(b, uint16(ver))
	b = binary.BigEndian.AppendUint32(b, uint32(corr))
	b = binary.BigEndian.AppendUint16(b, uint16(len(client)))
	b = append(b, client...)
	if flexible {
		b = append(b, 0)
	}
	return b
}

func cat(parts ...[]byte) []byte { return bytes.Join(parts, nil) }

func TestStrictRequestDecoding(t *testing.T) {
	str := func(s string) []byte {
		return append(binary.BigEndian.AppendUint16(nil, uint16(len(s))), s...)
	}
	cases := []struct {
		name    string
		frame   []byte
		wantErr string // "" = must decode
	}{
		{"heartbeat v0 ok", cat(hdr(12, 0, 1, "c", false), str("g"), []byte{0, 0, 0, 5}, str("m")), ""},
		{"unknown api key", cat(hdr(99, 0, 1, "c", false)), "unknown api key"},
		{"negative api key", cat(hdr(-1, 0, 1, "c", false)), "unknown api key"},
		{"version above max", cat(hdr(12, 5, 1, "c", false), str("g"), []byte{0, 0, 0, 5}, str("m")), "outside"},
		{"version below min", cat(hdr(12, -1, 1, "c", false), str("g"), []byte{0, 0, 0, 5}, str("m")), "outside"},
		{"trailing byte", cat(hdr(12, 0, 1, "c", false), str("g"), []byte{0, 0, 0, 5}, str("m"), []byte{0}), "trailing"},
		{"truncated", cat(hdr(12, 0, 1, "c", false), str("g"), []byte{0, 0, 0, 5}, []byte{0, 3, 'm'}), "need 3 bytes"},
		{"null non-nullable string", cat(hdr(12, 0, 1, "c", false), []byte{0xff, 0xff}, []byte{0, 0, 0, 5}, str("m")), "null marker"},
		{"string length -2", cat(hdr(12, 0, 1, "c", false), []byte{0xff, 0xfe}, []byte{0, 0, 0, 5}, str("m")), "negative length"},
		{"client id length -2", cat([]byte{0, 12, 0, 0, 0, 0, 0, 1, 0xff, 0xfe}, str("g"), []byte{0, 0, 0, 5}, str("m")), "negative length"},
		{"null client id ok", cat([]byte{0, 12, 0, 0, 0, 0, 0, 1, 0xff, 0xff}, str("g"), []byte{0, 0, 0, 5}, str("m")), ""},
		// Heartbeat v3: group_instance_id is nullable
		{"nullable string null ok", cat(hdr(12, 3, 1, "c", false), str("g"), []byte{0, 0, 0, 5}, str("m"), []byte{0xff, 0xff}), ""},
		// Heartbeat v4 flexible
		{"heartbeat v4 ok", cat(hdr(12, 4, 1, "c", true), []byte{2, 'g'}, []byte{0, 0, 0, 5}, []byte{2, 'm'}, []byte{0}, []byte{0}), ""},
		{"v4 missing header tag section", cat(hdr(12, 4, 1, "c", false), []byte{2, 'g'}, []byte{0, 0, 0, 5}, []byte{2, 'm'}, []byte{0}, []byte{0}), ""},
		{"v4 compact null non-nullable", cat(hdr(12, 4, 1, "c", true), []byte{0}, []byte{0, 0, 0, 5}, []byte{2, 'm'}, []byte{0}, []byte{0}), "null marker"},
		{"v4 non-minimal varint", cat(hdr(12, 4, 1, "c", true), []byte{0x82, 0x00, 'g'}, []byte{0, 0, 0, 5}, []byte{2, 'm'}, []byte{0}, []byte{0}), "non-minimal"},
		{"v4 over-long varint", cat(hdr(12, 4, 1, "c", true), []byte{0x82, 0x80, 0x80, 0x80, 0x80, 0x00, 'g'}, []byte{0, 0, 0, 5}, []byte{2, 'm'}, []byte{0}, []byte{0}), "over-long"},
		{"v4 varint over 32 bits", cat(hdr(12, 4, 1, "c", true), []byte{0xff, 0xff, 0xff, 0xff, 0x1f, 'g'}, []byte{0, 0, 0, 5}, []byte{2, 'm'}, []byte{0}, []byte{0}), "overflows"},
		{"v4 truncated varint", cat(hdr(12, 4, 1, "c", true), []byte{0x82}), "truncated varint"},
		{"v4 unknown body tag", cat(hdr(12, 4, 1, "c", true), []byte{2, 'g'}, []byte{0, 0, 0, 5}, []byte{2, 'm'}, []byte{0}, []byte{1, 0, 0}), "unknown tag"},
		{"v4 unknown header tag", cat(hdr(12, 4, 1, "c", false), []byte{1, 5, 1, 0xaa}, []byte{2, 'g'}, []byte{0, 0, 0, 5}, []byte{2, 'm'}, []byte{0}, []byte{0}), "unknown tag"},
		{"v4 tag count beyond frame", cat(hdr(12, 4, 1, "c", true), []byte{2, 'g'}, []byte{0, 0, 0, 5}, []byte{2, 'm'}, []byte{0}, []byte{9}), "exceeds"},
		{"v4 missing tag section", cat(hdr(12, 4, 1, "c", true), []byte{2, 'g'}, []byte{0, 0, 0, 5}, []byte{2, 'm'}, []byte{0}), "truncated varint"},
		// Metadata
		{"metadata v0 null topics", cat(hdr(3, 0, 1, "c", false), []byte{0xff, 0xff, 0xff, 0xff}), "null marker"},
		{"metadata v1 null topics ok", cat(hdr(3, 1, 1, "c", false), []byte{0xff, 0xff, 0xff, 0xff}), ""},
		{"metadata v1 count -2", cat(hdr(3, 1, 1, "c", false), []byte{0xff, 0xff, 0xff, 0xfe}), "negative length"},
		{"metadata v1 count too big", cat(hdr(3, 1, 1, "c", false), []byte{0x7f, 0xff, 0xff, 0xff}), "exceeds remaining"},
		{"metadata v4 bool 2", cat(hdr(3, 4, 1, "c", false), []byte{0, 0, 0, 0}, []byte{2}), "neither 0 nor 1"},
		{"metadata v4 bool 1 ok", cat(hdr(3, 4, 1, "c", false), []byte{0, 0, 0, 0}, []byte{1}), ""},
		// SaslAuthenticate v0: bytes
		{"bytes null non-nullable", cat(hdr(36, 0, 1, "c", false), []byte{0xff, 0xff, 0xff, 0xff}), "null marker"},
		{"bytes too long", cat(hdr(36, 0, 1, "c", false), []byte{0, 0, 0, 9, 1}), "need 9 bytes"},
		{"bytes empty ok", cat(hdr(36, 0, 1, "c", false), []byte{0, 0, 0, 0}), ""},
		{"short header", []byte{0, 12, 0}, "need 2 bytes"},
	}
	for _, c := range cases {
		if c.name == "v4 missing header tag section" {
			// without the header tag byte the body shifts by one: 0x02 is taken as
			// the header tag count -> must fail somehow
			if _, _, _, err := DecodeRequest(c.frame); err == nil {
				t.Errorf("%s: accepted", c.name)
			}
			continue
		}
		h, a, body, err := DecodeRequest(c.frame)
		switch {
		case c.wantErr == "" && err != nil:
			t.Errorf("%s: unexpected error %v", c.name, err)
		case c.wantErr != "" && err == nil:
			t.Errorf("%s: accepted: %+v %v", c.name, h, body)
		case c.wantErr != "" && !strings.Contains(err.Error(), c.wantErr):
			t.Errorf("%s: error %q does not mention %q", c.name, err, c.wantErr)
		}
		if err != nil && body != nil {
			t.Errorf("%s: body returned together with an error", c.name)
		}
		if c.wantErr == "" && (a == nil || a.Key != h.APIKey) {
			t.Errorf("%s: api not returned", c.name)
		}
	}

	// header is reported even when the version is out of range
	h, a, _, err := DecodeRequest(cat(hdr(18, 9, 77, "cli", false), []byte{1, 2, 3}))
	if err == nil || a == nil || a.Key != 18 || h.APIVersion != 9 || h.CorrelationID != 77 || h.ClientID == nil || *h.ClientID != "cli" {
		t.Errorf("out-of-range ApiVersions: %+v %v %v", h, a, err)
	}
}

func TestStrictResponseDecoding(t *testing.T) {
	// Heartbeat v4 response: header v1
	ok := []byte{0, 0, 0, 7, 0, 0, 0, 0, 0, 0, 27, 0}
	if corr, body, err := DecodeResponse(12, 4, ok); err != nil || corr != 7 || body.I16("error_code") != 27 {
		t.Fatalf("heartbeat v4 response: %v %v %v", corr, body, err)
	}
	if _, _, err := DecodeResponse(12, 4, append(append([]byte{}, ok...), 0)); err == nil {
		t.Errorf("trailing byte accepted")
	}
	// header v1 tag section with a tag -> unknown
	bad := []byte{0, 0, 0, 7, 1, 0, 0, 0, 0, 0, 0, 0, 27, 0}
	if _, _, err := DecodeResponse(12, 4, bad); err == nil || !strings.Contains(err.Error(), "unknown tag") {
		t.Errorf("header tag: %v", err)
	}
	// the same bytes as v3 (not flexible) have 2 bytes too many
	if _, _, err := DecodeResponse(12, 3, ok); err == nil {
		t.Errorf("v3 decode of v4 bytes accepted")
	}
	if _, _, err := DecodeResponse(12, 5, ok); err == nil {
		t.Errorf("version out of range accepted")
	}
	if _, _, err := DecodeResponse(77, 0, ok); err == nil {
		t.Errorf("unknown key accepted")
	}

	// ApiVersions v3 response: header v0 even though the body is flexible
	body := Msg{"error_code": int16(0), "throttle_time_ms": int32(0),
		"api_keys": []Msg{{"api_key": int16(18), "min_version": int16(0), "max_version": int16(3)}}}
	frame, lens, err := EncodeResponse(18, 3, 5, body, nil)
	if err != nil {
		t.Fatal(err)
	}
	want := []byte{0, 0, 0, 19, 0, 0, 0, 5, // size, correlation id, NO header tag section
		0, 0, 2, 0, 18, 0, 0, 0, 3, 0, 0, 0, 0, 0, 0}
	if !bytes.Equal(frame, want) {
		t.Errorf("ApiVersions v3 response:\n got  % x\n want % x", frame, want)
	}
	for _, l := range lens {
		if strings.HasPrefix(l.Path, "header") {
			t.Errorf("ApiVersions response must not have a header tag section: %+v", l)
		}
	}
	// a tagged field that is present
	body["finalized_features_epoch"] = int64(4)
	body["supported_features"] = []Msg{{"name": "f", "min_version": int16(1), "max_version": int16(2)}}
	frame, _, err = EncodeResponse(18, 3, 5, body, nil)
	if err != nil {
		t.Fatal(err)
	}
	wantTail := []byte{2, // two tagged fields
		0, 8, 2, 2, 'f', 0, 1, 0, 2, 0, // tag 0, size 8: compact array of 1 {name, min, max, tags}
		1, 8, 0, 0, 0, 0, 0, 0, 0, 4} // tag 1, size 8: int64
	if !bytes.HasSuffix(frame, wantTail) {
		t.Errorf("ApiVersions v3 tagged fields:\n got  % x\n want suffix % x", frame, wantTail)
	}
	_, got, err := DecodeResponse(18, 3, frame[4:])
	if err != nil {
		t.Fatal(err)
	}
	if got.I64("finalized_features_epoch") != 4 || len(got.Arr("supported_features")) != 1 || got.Arr("supported_features")[0].Str("name") != "f" {
		t.Errorf("tagged fields decode: %v", got)
	}
	// tagged fields out of order / duplicated
	pre := []byte{0, 0, 0, 5, 0, 0, 1, 0, 0, 0, 0}
	for _, tags := range [][]byte{
		{2, 1, 8, 0, 0, 0, 0, 0, 0, 0, 4, 0, 1, 1},
		{2, 3, 1, 1, 3, 1, 1},
	} {
		if _, _, err := DecodeResponse(18, 3, cat(pre, tags)); err == nil || !strings.Contains(err.Error(), "increasing") {
			t.Errorf("tag order % x: %v", tags, err)
		}
	}
	if _, b, err := DecodeResponse(18, 3, cat(pre, []byte{2, 0, 1, 1, 3, 1, 1})); err != nil || !b.Bool("zk_migration_ready") {
		t.Errorf("ordered tags: %v %v", b, err)
	}
	// tagged field whose size does not match its value
	mut := append([]byte{}, frame[4:]...)
	mut[len(mut)-9] = 9 // size of tag 1: 8 -> 9
	mut = append(mut, 0)
	if _, _, err := DecodeResponse(18, 3, mut); err == nil {
		t.Errorf("tag size mismatch accepted")
	}
}
