package refcodec

import "testing"

// Golden bytes for the APIs of schemas_more.go, assembled by hand from the
// Kafka message definitions and the encoding rules of the protocol guide
// (independent of kafka-go and of refcodec's encoder). Every API has at least
// one request and one response, and at least one flexible version.
//
// Recurring values: client id "c"; "tx" = 7478; "t" = 74; "g" = 67; "a" = 61;
// "User:a" = 557365723a61; "*" = 2a; "user" = 75736572;
// "retention.ms" (12 bytes) = 726574656e74696f6e2e6d73;
// "producer_byte_rate" (18 bytes) = 70726f64756365725f627974655f72617465;
// 60000 = 0000ea60; float64 1024.0 = 4090000000000000, 0.5 = 3fe0000000000000.

func hreq(key, ver int16, corr int32) RequestHeader {
	a := Lookup(key)
	return RequestHeader{APIKey: key, APIVersion: ver, CorrelationID: corr, ClientID: sp("c"), Flexible: a != nil && a.Flexible(ver)}
}

func TestGoldenMoreRequests(t *testing.T) {
	cases := []goldenReq{
		// ------------------------------------------------ AddPartitionsToTxn (24)
		{
			name: "AddPartitionsToTxn v0",
			hex: `0000002c
			      0018 0000 00000001 0001 63
			      0002 7478           // transactional_id "tx"
			      00000000000003e8    // producer_id 1000
			      0002                // producer_epoch
			      00000001            // 1 topic
			      0001 74
			      00000002 00000000 00000001 // partitions [0, 1]`,
			h: hreq(24, 0, 1),
			body: Msg{"transactional_id": "tx", "producer_id": int64(1000), "producer_epoch": int16(2),
				"topics": []Msg{{"name": "t", "partitions": []any{int32(0), int32(1)}}}},
		},
		{
			name: "AddPartitionsToTxn v3 (flexible)",
			hex: `00000027
			      0018 0003 00000001 0001 63 00
			      03 7478
			      00000000000003e8
			      0002
			      02                  // 1 topic
			      02 74
			      03 00000000 00000001
			      00                  // topic tags
			      00`,
			h: hreq(24, 3, 1),
			body: Msg{"transactional_id": "tx", "producer_id": int64(1000), "producer_epoch": int16(2),
				"topics": []Msg{{"name": "t", "partitions": []any{int32(0), int32(1)}}}},
		},
		// ------------------------------------------------ AddOffsetsToTxn (25)
		{
			name: "AddOffsetsToTxn v0",
			hex: `0000001c
			      0019 0000 00000002 0001 63
			      0002 7478
			      00000000000003e8
			      0002
			      0001 67             // group_id "g"`,
			h:    hreq(25, 0, 2),
			body: Msg{"transactional_id": "tx", "producer_id": int64(1000), "producer_epoch": int16(2), "group_id": "g"},
		},
		{
			name: "AddOffsetsToTxn v3 (flexible)",
			hex: `0000001c
			      0019 0003 00000002 0001 63 00
			      03 7478
			      00000000000003e8
			      0002
			      02 67
			      00`,
			h:    hreq(25, 3, 2),
			body: Msg{"transactional_id": "tx", "producer_id": int64(1000), "producer_epoch": int16(2), "group_id": "g"},
		},
		// ------------------------------------------------ EndTxn (26)
		{
			name: "EndTxn v0 (commit)",
			hex: `0000001a
			      001a 0000 00000003 0001 63
			      0002 7478
			      00000000000003e8
			      0002
			      01                  // committed`,
			h:    hreq(26, 0, 3),
			body: Msg{"transactional_id": "tx", "producer_id": int64(1000), "producer_epoch": int16(2), "committed": true},
		},
		{
			name: "EndTxn v3 (flexible, abort)",
			hex: `0000001b
			      001a 0003 00000003 0001 63 00
			      03 7478
			      00000000000003e8
			      0002
			      00
			      00`,
			h:    hreq(26, 3, 3),
			body: Msg{"transactional_id": "tx", "producer_id": int64(1000), "producer_epoch": int16(2), "committed": false},
		},
		// ------------------------------------------------ TxnOffsetCommit (28)
		{
			name: "TxnOffsetCommit v2 (committed_leader_epoch, null metadata)",
			hex: `00000039
			      001c 0002 00000004 0001 63
			      0002 7478
			      0001 67
			      00000000000003e8
			      0002
			      00000001 0001 74
			      00000001
			      00000000            // partition_index
			      000000000000002a    // committed_offset 42
			      00000005            // committed_leader_epoch
			      ffff                // committed_metadata null`,
			h: hreq(28, 2, 4),
			body: Msg{"transactional_id": "tx", "group_id": "g", "producer_id": int64(1000), "producer_epoch": int16(2),
				"topics": []Msg{{"name": "t", "partitions": []Msg{{"partition_index": int32(0), "committed_offset": int64(42),
					"committed_leader_epoch": int32(5), "committed_metadata": nil}}}}},
		},
		{
			name: "TxnOffsetCommit v3 (flexible: generation, member, null instance id)",
			hex: `0000003c
			      001c 0003 00000004 0001 63 00
			      03 7478
			      02 67
			      00000000000003e8
			      0002
			      00000007            // generation_id
			      02 6d               // member_id "m"
			      00                  // group_instance_id null
			      02 02 74
			      02
			      00000000
			      000000000000002a
			      00000005
			      03 6d64             // "md"
			      00 00 00`,
			h: hreq(28, 3, 4),
			body: Msg{"transactional_id": "tx", "group_id": "g", "producer_id": int64(1000), "producer_epoch": int16(2),
				"generation_id": int32(7), "member_id": "m", "group_instance_id": nil,
				"topics": []Msg{{"name": "t", "partitions": []Msg{{"partition_index": int32(0), "committed_offset": int64(42),
					"committed_leader_epoch": int32(5), "committed_metadata": "md"}}}}},
		},
		// ------------------------------------------------ DescribeAcls (29): the request is flat
		{
			name: "DescribeAcls v0 (no pattern type)",
			hex: `0000001a
			      001d 0000 00000005 0001 63
			      02                  // resource_type_filter: topic
			      ffff                // resource_name_filter null
			      0006 557365723a61   // principal_filter "User:a"
			      ffff                // host_filter null
			      01                  // operation: any
			      03                  // permission_type: allow`,
			h: hreq(29, 0, 5),
			body: Msg{"resource_type_filter": int8(2), "resource_name_filter": nil, "principal_filter": "User:a",
				"host_filter": nil, "operation": int8(1), "permission_type": int8(3)},
		},
		{
			name: "DescribeAcls v1 (pattern_type_filter after the resource name)",
			hex: `0000001b
			      001d 0001 00000005 0001 63
			      02 ffff 03
			      0006 557365723a61
			      ffff 01 03`,
			h: hreq(29, 1, 5),
			body: Msg{"resource_type_filter": int8(2), "resource_name_filter": nil, "pattern_type_filter": int8(3),
				"principal_filter": "User:a", "host_filter": nil, "operation": int8(1), "permission_type": int8(3)},
		},
		{
			name: "DescribeAcls v2 (flexible: ONE tag buffer, there is no nested filter struct)",
			hex: `00000015
			      001d 0002 00000005 0001 63 00
			      02
			      02 74               // resource_name_filter "t"
			      03
			      00                  // principal_filter null
			      00                  // host_filter null
			      01 03
			      00                  // tags of the request`,
			h: hreq(29, 2, 5),
			body: Msg{"resource_type_filter": int8(2), "resource_name_filter": "t", "pattern_type_filter": int8(3),
				"principal_filter": nil, "host_filter": nil, "operation": int8(1), "permission_type": int8(3)},
		},
		// ------------------------------------------------ CreateAcls (30)
		{
			name: "CreateAcls v0",
			hex: `00000020
			      001e 0000 00000006 0001 63
			      00000001
			      02 0001 74
			      0006 557365723a61
			      0001 2a             // host "*"
			      04 03               // write, allow`,
			h: hreq(30, 0, 6),
			body: Msg{"creations": []Msg{{"resource_type": int8(2), "resource_name": "t", "principal": "User:a", "host": "*",
				"operation": int8(4), "permission_type": int8(3)}}},
		},
		{
			name: "CreateAcls v1 (resource_pattern_type)",
			hex: `00000021
			      001e 0001 00000006 0001 63
			      00000001
			      02 0001 74 03
			      0006 557365723a61
			      0001 2a
			      04 03`,
			h: hreq(30, 1, 6),
			body: Msg{"creations": []Msg{{"resource_type": int8(2), "resource_name": "t", "resource_pattern_type": int8(3),
				"principal": "User:a", "host": "*", "operation": int8(4), "permission_type": int8(3)}}},
		},
		{
			name: "CreateAcls v2 (flexible)",
			hex: `0000001e
			      001e 0002 00000006 0001 63 00
			      02
			      02 02 74 03
			      07 557365723a61
			      02 2a
			      04 03
			      00
			      00`,
			h: hreq(30, 2, 6),
			body: Msg{"creations": []Msg{{"resource_type": int8(2), "resource_name": "t", "resource_pattern_type": int8(3),
				"principal": "User:a", "host": "*", "operation": int8(4), "permission_type": int8(3)}}},
		},
		// ------------------------------------------------ DeleteAcls (31)
		{
			name: "DeleteAcls v1 (all filters null)",
			hex: `00000019
			      001f 0001 00000007 0001 63
			      00000001
			      02 ffff 03 ffff ffff 01 01`,
			h: hreq(31, 1, 7),
			body: Msg{"filters": []Msg{{"resource_type_filter": int8(2), "resource_name_filter": nil, "pattern_type_filter": int8(3),
				"principal_filter": nil, "host_filter": nil, "operation": int8(1), "permission_type": int8(1)}}},
		},
		{
			name: "DeleteAcls v2 (flexible)",
			hex: `00000017
			      001f 0002 00000007 0001 63 00
			      02
			      02 02 74 03 00 00 01 01
			      00
			      00`,
			h: hreq(31, 2, 7),
			body: Msg{"filters": []Msg{{"resource_type_filter": int8(2), "resource_name_filter": "t", "pattern_type_filter": int8(3),
				"principal_filter": nil, "host_filter": nil, "operation": int8(1), "permission_type": int8(1)}}},
		},
		// ------------------------------------------------ DescribeConfigs (32)
		{
			name: "DescribeConfigs v0 (null configuration_keys = all)",
			hex: `00000017
			      0020 0000 00000008 0001 63
			      00000001
			      02 0001 74
			      ffffffff`,
			h:    hreq(32, 0, 8),
			body: Msg{"resources": []Msg{{"resource_type": int8(2), "resource_name": "t", "configuration_keys": nil}}},
		},
		{
			name: "DescribeConfigs v3 (include_synonyms, include_documentation)",
			hex: `00000027
			      0020 0003 00000008 0001 63
			      00000001
			      02 0001 74
			      00000001 000c 726574656e74696f6e2e6d73
			      01                  // include_synonyms
			      00                  // include_documentation`,
			h: hreq(32, 3, 8),
			body: Msg{"resources": []Msg{{"resource_type": int8(2), "resource_name": "t", "configuration_keys": []any{"retention.ms"}}},
				"include_synonyms": true, "include_documentation": false},
		},
		{
			name: "DescribeConfigs v4 (flexible)",
			hex: `00000022
			      0020 0004 00000008 0001 63 00
			      02
			      02 02 74
			      02 0d 726574656e74696f6e2e6d73
			      00
			      01 01
			      00`,
			h: hreq(32, 4, 8),
			body: Msg{"resources": []Msg{{"resource_type": int8(2), "resource_name": "t", "configuration_keys": []any{"retention.ms"}}},
				"include_synonyms": true, "include_documentation": true},
		},
		// ------------------------------------------------ AlterConfigs (33)
		{
			name: "AlterConfigs v0 (null value, validate only)",
			hex: `00000028
			      0021 0000 00000009 0001 63
			      00000001
			      02 0001 74
			      00000001
			      000c 726574656e74696f6e2e6d73
			      ffff
			      01`,
			h: hreq(33, 0, 9),
			body: Msg{"resources": []Msg{{"resource_type": int8(2), "resource_name": "t",
				"configs": []Msg{{"name": "retention.ms", "value": nil}}}}, "validate_only": true},
		},
		{
			name: "AlterConfigs v2 (flexible)",
			hex: `00000024
			      0021 0002 00000009 0001 63 00
			      02
			      02 02 74
			      02
			      0d 726574656e74696f6e2e6d73
			      02 31               // value "1"
			      00
			      00
			      00                  // validate_only
			      00`,
			h: hreq(33, 2, 9),
			body: Msg{"resources": []Msg{{"resource_type": int8(2), "resource_name": "t",
				"configs": []Msg{{"name": "retention.ms", "value": "1"}}}}, "validate_only": false},
		},
		// ------------------------------------------------ ElectLeaders (43)
		{
			name: "ElectLeaders v0 (null topic_partitions = all partitions, no election_type)",
			hex: `00000013
			      002b 0000 0000000a 0001 63
			      ffffffff
			      0000ea60`,
			h:    hreq(43, 0, 10),
			body: Msg{"topic_partitions": nil, "timeout_ms": int32(60000)},
		},
		{
			name: "ElectLeaders v1 (election_type first)",
			hex: `0000001f
			      002b 0001 0000000a 0001 63
			      01                  // election_type: unclean
			      00000001 0001 74
			      00000001 00000000
			      0000ea60`,
			h: hreq(43, 1, 10),
			body: Msg{"election_type": int8(1), "topic_partitions": []Msg{{"topic": "t", "partitions": []any{int32(0)}}},
				"timeout_ms": int32(60000)},
		},
		{
			name: "ElectLeaders v2 (flexible)",
			hex: `0000001b
			      002b 0002 0000000a 0001 63 00
			      00
			      02 02 74
			      02 00000000
			      00
			      0000ea60
			      00`,
			h: hreq(43, 2, 10),
			body: Msg{"election_type": int8(0), "topic_partitions": []Msg{{"topic": "t", "partitions": []any{int32(0)}}},
				"timeout_ms": int32(60000)},
		},
		// ------------------------------------------------ IncrementalAlterConfigs (44)
		{
			name: "IncrementalAlterConfigs v0 (config_operation between name and value)",
			hex: `0000002a
			      002c 0000 0000000b 0001 63
			      00000001
			      02 0001 74
			      00000001
			      000c 726574656e74696f6e2e6d73
			      00                  // config_operation: set
			      0001 31
			      00`,
			h: hreq(44, 0, 11),
			body: Msg{"resources": []Msg{{"resource_type": int8(2), "resource_name": "t",
				"configs": []Msg{{"name": "retention.ms", "config_operation": int8(0), "value": "1"}}}}, "validate_only": false},
		},
		{
			name: "IncrementalAlterConfigs v1 (flexible, delete with null value)",
			hex: `00000024
			      002c 0001 0000000b 0001 63 00
			      02
			      02 02 74
			      02
			      0d 726574656e74696f6e2e6d73
			      01                  // config_operation: delete
			      00                  // value null
			      00
			      00
			      01
			      00`,
			h: hreq(44, 1, 11),
			body: Msg{"resources": []Msg{{"resource_type": int8(2), "resource_name": "t",
				"configs": []Msg{{"name": "retention.ms", "config_operation": int8(1), "value": nil}}}}, "validate_only": true},
		},
		// ------------------------------------------------ AlterPartitionReassignments (45)
		{
			name: "AlterPartitionReassignments v0 (flexible; null replicas cancels)",
			hex: `0000002a
			      002d 0000 0000000c 0001 63 00
			      0000ea60
			      02 02 74
			      03                  // 2 partitions
			      00000000 03 00000001 00000002 00
			      00000001 00 00      // partition 1: replicas null
			      00
			      00`,
			h: hreq(45, 0, 12),
			body: Msg{"timeout_ms": int32(60000), "topics": []Msg{{"name": "t", "partitions": []Msg{
				{"partition_index": int32(0), "replicas": []any{int32(1), int32(2)}},
				{"partition_index": int32(1), "replicas": nil}}}}},
		},
		// ------------------------------------------------ ListPartitionReassignments (46)
		{
			name: "ListPartitionReassignments v0 (flexible, null topics = all)",
			hex: `00000012
			      002e 0000 0000000d 0001 63 00
			      0000ea60
			      00
			      00`,
			h:    hreq(46, 0, 13),
			body: Msg{"timeout_ms": int32(60000), "topics": nil},
		},
		{
			name: "ListPartitionReassignments v0 (one topic)",
			hex: `0000001a
			      002e 0000 0000000d 0001 63 00
			      0000ea60
			      02 02 74
			      02 00000000
			      00
			      00`,
			h:    hreq(46, 0, 13),
			body: Msg{"timeout_ms": int32(60000), "topics": []Msg{{"name": "t", "partition_indexes": []any{int32(0)}}}},
		},
		// ------------------------------------------------ DescribeClientQuotas (48)
		{
			name: "DescribeClientQuotas v0",
			hex: `0000001a
			      0030 0000 0000000e 0001 63
			      00000001
			      0004 75736572       // entity_type "user"
			      00                  // match_type: exact
			      0001 61             // match "a"
			      01                  // strict`,
			h:    hreq(48, 0, 14),
			body: Msg{"components": []Msg{{"entity_type": "user", "match_type": int8(0), "match": "a"}}, "strict": true},
		},
		{
			name: "DescribeClientQuotas v1 (flexible, null match)",
			hex: `00000017
			      0030 0001 0000000e 0001 63 00
			      02
			      05 75736572
			      01                  // match_type: default
			      00                  // match null
			      00
			      00
			      00`,
			h:    hreq(48, 1, 14),
			body: Msg{"components": []Msg{{"entity_type": "user", "match_type": int8(1), "match": nil}}, "strict": false},
		},
		// ------------------------------------------------ AlterClientQuotas (49)
		{
			name: "AlterClientQuotas v0 (float64 value, null entity name = default entity)",
			hex: `0000003d
			      0031 0000 0000000f 0001 63
			      00000001
			      00000001 0004 75736572 ffff
			      00000001
			      0012 70726f64756365725f627974655f72617465
			      4090000000000000    // 1024.0
			      00                  // remove
			      01                  // validate_only`,
			h: hreq(49, 0, 15),
			body: Msg{"entries": []Msg{{"entity": []Msg{{"entity_type": "user", "entity_name": nil}},
				"ops": []Msg{{"key": "producer_byte_rate", "value": float64(1024), "remove": false}}}}, "validate_only": true},
		},
		{
			name: "AlterClientQuotas v1 (flexible, remove)",
			hex: `00000037
			      0031 0001 0000000f 0001 63 00
			      02
			      02 05 75736572 02 61 00
			      02
			      13 70726f64756365725f627974655f72617465
			      0000000000000000
			      01
			      00
			      00
			      00
			      00`,
			h: hreq(49, 1, 15),
			body: Msg{"entries": []Msg{{"entity": []Msg{{"entity_type": "user", "entity_name": "a"}},
				"ops": []Msg{{"key": "producer_byte_rate", "value": float64(0), "remove": true}}}}, "validate_only": false},
		},
		// ------------------------------------------------ DescribeUserScramCredentials (50)
		{
			name: "DescribeUserScramCredentials v0 (flexible, null users = all)",
			hex: `0000000e
			      0032 0000 00000010 0001 63 00
			      00
			      00`,
			h:    hreq(50, 0, 16),
			body: Msg{"users": nil},
		},
		{
			name: "DescribeUserScramCredentials v0 (one user)",
			hex: `00000011
			      0032 0000 00000010 0001 63 00
			      02 02 61 00
			      00`,
			h:    hreq(50, 0, 16),
			body: Msg{"users": []Msg{{"name": "a"}}},
		},
		// ------------------------------------------------ AlterUserScramCredentials (51)
		{
			name: "AlterUserScramCredentials v0 (flexible, compact bytes)",
			hex: `00000022
			      0033 0000 00000011 0001 63 00
			      02 02 61 01 00      // delete "a", SCRAM-SHA-256
			      02 02 62 02         // upsert "b", SCRAM-SHA-512
			      00001000            // iterations 4096
			      03 0102             // salt
			      04 aabbcc           // salted_password
			      00
			      00`,
			h: hreq(51, 0, 17),
			body: Msg{"deletions": []Msg{{"name": "a", "mechanism": int8(1)}},
				"upsertions": []Msg{{"name": "b", "mechanism": int8(2), "iterations": int32(4096),
					"salt": []byte{1, 2}, "salted_password": []byte{0xaa, 0xbb, 0xcc}}}},
		},
	}
	seen := map[int16]bool{}
	for _, c := range cases {
		checkGoldenRequest(t, c)
		seen[c.h.APIKey] = true
	}
	for _, k := range moreAPIKeys {
		if !seen[k] {
			t.Errorf("no golden request for api %d", k)
		}
	}
}

var moreAPIKeys = []int16{24, 25, 26, 28, 29, 30, 31, 32, 33, 43, 44, 45, 46, 48, 49, 50, 51}

func TestGoldenMoreResponses(t *testing.T) {
	cases := []goldenRes{
		// ------------------------------------------------ AddPartitionsToTxn (24)
		{
			name: "AddPartitionsToTxn v0", key: 24, ver: 0, corr: 1,
			hex: `00000019 00000001
			      00000000
			      00000001 0001 74
			      00000001
			      00000001 0030       // partition 1: INVALID_TXN_STATE (48)`,
			body: Msg{"throttle_time_ms": int32(0), "results": []Msg{{"name": "t",
				"results": []Msg{{"partition_index": int32(1), "error_code": int16(48)}}}}},
		},
		{
			name: "AddPartitionsToTxn v3 (flexible)", key: 24, ver: 3, corr: 1,
			hex: `00000016 00000001 00
			      00000000
			      02 02 74
			      02 00000001 0030 00
			      00
			      00`,
			body: Msg{"throttle_time_ms": int32(0), "results": []Msg{{"name": "t",
				"results": []Msg{{"partition_index": int32(1), "error_code": int16(48)}}}}},
		},
		// ------------------------------------------------ AddOffsetsToTxn (25)
		{
			name: "AddOffsetsToTxn v0", key: 25, ver: 0, corr: 2,
			hex: `0000000a 00000002
			      00000064 0000`,
			body: Msg{"throttle_time_ms": int32(100), "error_code": int16(0)},
		},
		{
			name: "AddOffsetsToTxn v3 (flexible)", key: 25, ver: 3, corr: 2,
			hex: `0000000c 00000002 00
			      00000064 0000
			      00`,
			body: Msg{"throttle_time_ms": int32(100), "error_code": int16(0)},
		},
		// ------------------------------------------------ EndTxn (26)
		{
			name: "EndTxn v0", key: 26, ver: 0, corr: 3,
			hex: `0000000a 00000003
			      00000000 002f       // INVALID_PRODUCER_EPOCH (47)`,
			body: Msg{"throttle_time_ms": int32(0), "error_code": int16(47)},
		},
		{
			name: "EndTxn v3 (flexible)", key: 26, ver: 3, corr: 3,
			hex: `0000000c 00000003 00
			      00000000 002f
			      00`,
			body: Msg{"throttle_time_ms": int32(0), "error_code": int16(47)},
		},
		// ------------------------------------------------ TxnOffsetCommit (28)
		{
			name: "TxnOffsetCommit v0", key: 28, ver: 0, corr: 4,
			hex: `00000019 00000004
			      00000000
			      00000001 0001 74
			      00000001
			      00000000 0019       // UNKNOWN_MEMBER_ID (25)`,
			body: Msg{"throttle_time_ms": int32(0), "topics": []Msg{{"name": "t",
				"partitions": []Msg{{"partition_index": int32(0), "error_code": int16(25)}}}}},
		},
		{
			name: "TxnOffsetCommit v3 (flexible)", key: 28, ver: 3, corr: 4,
			hex: `00000016 00000004 00
			      00000000
			      02 02 74
			      02 00000000 0019 00
			      00
			      00`,
			body: Msg{"throttle_time_ms": int32(0), "topics": []Msg{{"name": "t",
				"partitions": []Msg{{"partition_index": int32(0), "error_code": int16(25)}}}}},
		},
		// ------------------------------------------------ DescribeAcls (29)
		{
			name: "DescribeAcls v0 (no pattern_type)", key: 29, ver: 0, corr: 5,
			hex: `00000025 00000005
			      00000000 0000 ffff  // throttle, error, error_message null
			      00000001
			      02 0001 74
			      00000001
			      0006 557365723a61
			      0001 2a
			      03 03               // read, allow`,
			body: Msg{"throttle_time_ms": int32(0), "error_code": int16(0), "error_message": nil,
				"resources": []Msg{{"resource_type": int8(2), "resource_name": "t",
					"acls": []Msg{{"principal": "User:a", "host": "*", "operation": int8(3), "permission_type": int8(3)}}}}},
		},
		{
			name: "DescribeAcls v2 (flexible, pattern_type after the resource name)", key: 29, ver: 2, corr: 5,
			hex: `00000020 00000005 00
			      00000000 0000 00
			      02
			      02 02 74 03
			      02
			      07 557365723a61
			      02 2a
			      03 03
			      00
			      00
			      00`,
			body: Msg{"throttle_time_ms": int32(0), "error_code": int16(0), "error_message": nil,
				"resources": []Msg{{"resource_type": int8(2), "resource_name": "t", "pattern_type": int8(3),
					"acls": []Msg{{"principal": "User:a", "host": "*", "operation": int8(3), "permission_type": int8(3)}}}}},
		},
		// ------------------------------------------------ CreateAcls (30)
		{
			name: "CreateAcls v0", key: 30, ver: 0, corr: 6,
			hex: `00000010 00000006
			      00000000
			      00000001 0000 ffff`,
			body: Msg{"throttle_time_ms": int32(0), "results": []Msg{{"error_code": int16(0), "error_message": nil}}},
		},
		{
			name: "CreateAcls v2 (flexible, two results)", key: 30, ver: 2, corr: 6,
			hex: `00000015 00000006 00
			      00000000
			      03
			      0000 00 00
			      001f 03 6e6f 00     // SECURITY_DISABLED (31), "no"
			      00`,
			body: Msg{"throttle_time_ms": int32(0), "results": []Msg{{"error_code": int16(0), "error_message": nil},
				{"error_code": int16(31), "error_message": "no"}}},
		},
		// ------------------------------------------------ DeleteAcls (31)
		{
			name: "DeleteAcls v0 (no pattern_type)", key: 31, ver: 0, corr: 7,
			hex: `00000029 00000007
			      00000000
			      00000001
			      0000 ffff
			      00000001
			      0000 ffff
			      02 0001 74
			      0006 557365723a61
			      0001 2a
			      03 03`,
			body: Msg{"throttle_time_ms": int32(0), "filter_results": []Msg{{"error_code": int16(0), "error_message": nil,
				"matching_acls": []Msg{{"error_code": int16(0), "error_message": nil, "resource_type": int8(2), "resource_name": "t",
					"principal": "User:a", "host": "*", "operation": int8(3), "permission_type": int8(3)}}}}},
		},
		{
			name: "DeleteAcls v2 (flexible)", key: 31, ver: 2, corr: 7,
			hex: `00000023 00000007 00
			      00000000
			      02
			      0000 00
			      02
			      0000 00
			      02 02 74 03
			      07 557365723a61
			      02 2a
			      03 03
			      00
			      00
			      00`,
			body: Msg{"throttle_time_ms": int32(0), "filter_results": []Msg{{"error_code": int16(0), "error_message": nil,
				"matching_acls": []Msg{{"error_code": int16(0), "error_message": nil, "resource_type": int8(2), "resource_name": "t",
					"pattern_type": int8(3), "principal": "User:a", "host": "*", "operation": int8(3), "permission_type": int8(3)}}}}},
		},
		// ------------------------------------------------ DescribeConfigs (32)
		{
			name: "DescribeConfigs v0 (is_default between read_only and is_sensitive)", key: 32, ver: 0, corr: 8,
			hex: `0000002c 00000008
			      00000000
			      00000001
			      0000 ffff
			      02 0001 74
			      00000001
			      000c 726574656e74696f6e2e6d73
			      0001 31
			      00                  // read_only
			      01                  // is_default
			      00                  // is_sensitive`,
			body: Msg{"throttle_time_ms": int32(0), "results": []Msg{{"error_code": int16(0), "error_message": nil,
				"resource_type": int8(2), "resource_name": "t", "configs": []Msg{{"name": "retention.ms", "value": "1",
					"read_only": false, "is_default": true, "is_sensitive": false}}}}},
		},
		{
			name: "DescribeConfigs v1 (config_source replaces is_default; synonyms)", key: 32, ver: 1, corr: 8,
			hex: `00000041 00000008
			      00000000
			      00000001
			      0000 ffff
			      02 0001 74
			      00000001
			      000c 726574656e74696f6e2e6d73
			      0001 31
			      00                  // read_only
			      05                  // config_source: default config
			      00                  // is_sensitive
			      00000001
			      000c 726574656e74696f6e2e6d73
			      ffff                // synonym value null
			      05                  // synonym source`,
			body: Msg{"throttle_time_ms": int32(0), "results": []Msg{{"error_code": int16(0), "error_message": nil,
				"resource_type": int8(2), "resource_name": "t", "configs": []Msg{{"name": "retention.ms", "value": "1",
					"read_only": false, "config_source": int8(5), "is_sensitive": false,
					"synonyms": []Msg{{"name": "retention.ms", "value": nil, "source": int8(5)}}}}}}},
		},
		{
			name: "DescribeConfigs v4 (flexible: config_type, documentation)", key: 32, ver: 4, corr: 8,
			hex: `00000029 00000008 00
			      00000000
			      02
			      0000 00
			      02 02 74
			      02
			      0d 726574656e74696f6e2e6d73
			      02 31
			      00                  // read_only
			      01                  // config_source: dynamic topic config
			      00                  // is_sensitive
			      01                  // synonyms: empty
			      05                  // config_type: long
			      00                  // documentation null
			      00
			      00
			      00`,
			body: Msg{"throttle_time_ms": int32(0), "results": []Msg{{"error_code": int16(0), "error_message": nil,
				"resource_type": int8(2), "resource_name": "t", "configs": []Msg{{"name": "retention.ms", "value": "1",
					"read_only": false, "config_source": int8(1), "is_sensitive": false, "synonyms": []Msg{},
					"config_type": int8(5), "documentation": nil}}}}},
		},
		// ------------------------------------------------ AlterConfigs (33)
		{
			name: "AlterConfigs v0", key: 33, ver: 0, corr: 9,
			hex: `00000014 00000009
			      00000000
			      00000001
			      0000 ffff 02 0001 74`,
			body: Msg{"throttle_time_ms": int32(0), "responses": []Msg{{"error_code": int16(0), "error_message": nil,
				"resource_type": int8(2), "resource_name": "t"}}},
		},
		{
			name: "AlterConfigs v2 (flexible)", key: 33, ver: 2, corr: 9,
			hex: `00000015 00000009 00
			      00000000
			      02
			      0028 04 626164      // INVALID_CONFIG (40), "bad"
			      02 02 74
			      00
			      00`,
			body: Msg{"throttle_time_ms": int32(0), "responses": []Msg{{"error_code": int16(40), "error_message": "bad",
				"resource_type": int8(2), "resource_name": "t"}}},
		},
		// ------------------------------------------------ ElectLeaders (43)
		{
			name: "ElectLeaders v0 (no top-level error_code)", key: 43, ver: 0, corr: 10,
			hex: `0000001b 0000000a
			      00000000
			      00000001 0001 74
			      00000001
			      00000000 0054 ffff  // partition 0: ELECTION_NOT_NEEDED (84), message null`,
			body: Msg{"throttle_time_ms": int32(0), "replica_election_results": []Msg{{"topic": "t",
				"partition_result": []Msg{{"partition_id": int32(0), "error_code": int16(84), "error_message": nil}}}}},
		},
		{
			name: "ElectLeaders v1 (error_code after the throttle time)", key: 43, ver: 1, corr: 10,
			hex: `0000000e 0000000a
			      00000000
			      0029                // NOT_CONTROLLER (41)
			      00000000`,
			body: Msg{"throttle_time_ms": int32(0), "error_code": int16(41), "replica_election_results": []Msg{}},
		},
		{
			name: "ElectLeaders v2 (flexible)", key: 43, ver: 2, corr: 10,
			hex: `0000001b 0000000a 00
			      00000000 0000
			      02 02 74
			      02 00000000 0054 03 6e6f 00
			      00
			      00`,
			body: Msg{"throttle_time_ms": int32(0), "error_code": int16(0), "replica_election_results": []Msg{{"topic": "t",
				"partition_result": []Msg{{"partition_id": int32(0), "error_code": int16(84), "error_message": "no"}}}}},
		},
		// ------------------------------------------------ IncrementalAlterConfigs (44)
		{
			name: "IncrementalAlterConfigs v0", key: 44, ver: 0, corr: 11,
			hex: `00000014 0000000b
			      00000000
			      00000001
			      0000 ffff 02 0001 74`,
			body: Msg{"throttle_time_ms": int32(0), "responses": []Msg{{"error_code": int16(0), "error_message": nil,
				"resource_type": int8(2), "resource_name": "t"}}},
		},
		{
			name: "IncrementalAlterConfigs v1 (flexible)", key: 44, ver: 1, corr: 11,
			hex: `00000012 0000000b 00
			      00000000
			      02
			      0000 00 02 02 74 00
			      00`,
			body: Msg{"throttle_time_ms": int32(0), "responses": []Msg{{"error_code": int16(0), "error_message": nil,
				"resource_type": int8(2), "resource_name": "t"}}},
		},
		// ------------------------------------------------ AlterPartitionReassignments (45)
		{
			name: "AlterPartitionReassignments v0 (flexible)", key: 45, ver: 0, corr: 12,
			hex: `0000001a 0000000c 00
			      00000000 0000 00    // throttle, error, error_message null
			      02 02 74
			      02 00000000 0000 00 00
			      00
			      00`,
			body: Msg{"throttle_time_ms": int32(0), "error_code": int16(0), "error_message": nil,
				"responses": []Msg{{"name": "t", "partitions": []Msg{{"partition_index": int32(0), "error_code": int16(0), "error_message": nil}}}}},
		},
		// ------------------------------------------------ ListPartitionReassignments (46)
		{
			name: "ListPartitionReassignments v0 (flexible)", key: 46, ver: 0, corr: 13,
			hex: `0000002e 0000000d 00
			      00000000 0000 00
			      02 02 74
			      02
			      00000000
			      04 00000001 00000002 00000003 // replicas
			      02 00000003                   // adding_replicas
			      02 00000001                   // removing_replicas
			      00
			      00
			      00`,
			body: Msg{"throttle_time_ms": int32(0), "error_code": int16(0), "error_message": nil,
				"topics": []Msg{{"name": "t", "partitions": []Msg{{"partition_index": int32(0),
					"replicas": []any{int32(1), int32(2), int32(3)}, "adding_replicas": []any{int32(3)}, "removing_replicas": []any{int32(1)}}}}}},
		},
		// ------------------------------------------------ DescribeClientQuotas (48)
		{
			name: "DescribeClientQuotas v0", key: 48, ver: 0, corr: 14,
			hex: `0000003d 0000000e
			      00000000 0000 ffff
			      00000001
			      00000001 0004 75736572 0001 61
			      00000001
			      0012 70726f64756365725f627974655f72617465
			      4090000000000000`,
			body: Msg{"throttle_time_ms": int32(0), "error_code": int16(0), "error_message": nil,
				"entries": []Msg{{"entity": []Msg{{"entity_type": "user", "entity_name": "a"}},
					"values": []Msg{{"key": "producer_byte_rate", "value": float64(1024)}}}}},
		},
		{
			name: "DescribeClientQuotas v1 (flexible, default entity)", key: 48, ver: 1, corr: 14,
			hex: `00000034 0000000e 00
			      00000000 0000 00
			      02
			      02 05 75736572 00 00 // entity: "user", name null, tags
			      02
			      13 70726f64756365725f627974655f72617465
			      3fe0000000000000    // 0.5
			      00
			      00
			      00`,
			body: Msg{"throttle_time_ms": int32(0), "error_code": int16(0), "error_message": nil,
				"entries": []Msg{{"entity": []Msg{{"entity_type": "user", "entity_name": nil}},
					"values": []Msg{{"key": "producer_byte_rate", "value": float64(0.5)}}}}},
		},
		{
			name: "DescribeClientQuotas v1 (error: null entries)", key: 48, ver: 1, corr: 14,
			hex: `0000000f 0000000e 00
			      00000000 002a 02 78 // INVALID_REQUEST (42), "x"
			      00                  // entries null
			      00`,
			body: Msg{"throttle_time_ms": int32(0), "error_code": int16(42), "error_message": "x", "entries": nil},
		},
		// ------------------------------------------------ AlterClientQuotas (49)
		{
			name: "AlterClientQuotas v0", key: 49, ver: 0, corr: 15,
			hex: `0000001d 0000000f
			      00000000
			      00000001
			      0000 ffff
			      00000001 0004 75736572 0001 61`,
			body: Msg{"throttle_time_ms": int32(0), "entries": []Msg{{"error_code": int16(0), "error_message": nil,
				"entity": []Msg{{"entity_type": "user", "entity_name": "a"}}}}},
		},
		{
			name: "AlterClientQuotas v1 (flexible)", key: 49, ver: 1, corr: 15,
			hex: `00000018 0000000f 00
			      00000000
			      02
			      0000 00
			      02 05 75736572 02 61 00
			      00
			      00`,
			body: Msg{"throttle_time_ms": int32(0), "entries": []Msg{{"error_code": int16(0), "error_message": nil,
				"entity": []Msg{{"entity_type": "user", "entity_name": "a"}}}}},
		},
		// ------------------------------------------------ DescribeUserScramCredentials (50)
		{
			name: "DescribeUserScramCredentials v0 (flexible)", key: 50, ver: 0, corr: 16,
			hex: `0000001b 00000010 00
			      00000000 0000 00
			      02
			      02 61 0000 00
			      02 01 00001000 00   // SCRAM-SHA-256, 4096 iterations
			      00
			      00`,
			body: Msg{"throttle_time_ms": int32(0), "error_code": int16(0), "error_message": nil,
				"results": []Msg{{"user": "a", "error_code": int16(0), "error_message": nil,
					"credential_infos": []Msg{{"mechanism": int8(1), "iterations": int32(4096)}}}}},
		},
		// ------------------------------------------------ AlterUserScramCredentials (51)
		{
			name: "AlterUserScramCredentials v0 (flexible)", key: 51, ver: 0, corr: 17,
			hex: `00000015 00000011 00
			      00000000
			      02
			      02 61 005b 05 676f6e65 00 // "a": RESOURCE_NOT_FOUND (91), "gone"
			      00`,
			body: Msg{"throttle_time_ms": int32(0), "results": []Msg{{"user": "a", "error_code": int16(91), "error_message": "gone"}}},
		},
	}
	seen, seenFlex := map[int16]bool{}, map[int16]bool{}
	for _, c := range cases {
		checkGoldenResponse(t, c)
		seen[c.key] = true
		if Lookup(c.key).Flexible(c.ver) {
			seenFlex[c.key] = true
		}
	}
	for _, k := range moreAPIKeys {
		if !seen[k] {
			t.Errorf("no golden response for api %d", k)
		}
		if !seenFlex[k] {
			t.Errorf("no golden response of a flexible version for api %d", k)
		}
	}
}
