package refcodec

import (
	"bytes"
	"encoding/binary"
	"fmt"
	"math/rand"
	"reflect"
	"strings"
	"testing"
)

func genBlob(r *rand.Rand) []byte {
	switch r.Intn(6) {
	case 0:
		return nil
	case 1:
		return []byte{}
	case 2:
		// compressible and longer than one xerial block now and then
		n := 100 + r.Intn(400)
		if r.Intn(10) == 0 {
			n = 70000
		}
		return bytes.Repeat([]byte{byte('a' + r.Intn(26))}, n)
	}
	b := make([]byte, 1+r.Intn(64))
	r.Read(b)
	return b
}

func genRecords(r *rand.Rand, magic int8, base int64, n int, holes bool) []Record {
	var recs []Record
	off := base
	ts := int64(1_600_000_000_000) + int64(r.Intn(1000))
	for i := 0; i < n; i++ {
		rec := Record{Offset: off, Timestamp: ts, Key: genBlob(r), Value: genBlob(r)}
		if magic == 0 {
			rec.Timestamp = -1
		}
		if magic == 2 {
			for j, nh := 0, r.Intn(3); j < nh; j++ {
				h := Header{Key: genString(r, genOpts{noMaxStrings: true}), Value: genBlob(r)}
				rec.Headers = append(rec.Headers, h)
			}
		}
		recs = append(recs, rec)
		off++
		if holes && r.Intn(3) == 0 {
			off += int64(r.Intn(5))
		}
		ts += int64(r.Intn(2000)) - 500
	}
	return recs
}

// canonV2 fills the fields that EncodeBatch computes so that the decoded batch
// can be compared with DeepEqual.
func canonV2(b Batch) Batch {
	if len(b.Records) > 0 {
		if b.LastOffsetDelta == 0 {
			b.LastOffsetDelta = int32(b.Records[len(b.Records)-1].Offset - b.BaseOffset)
		}
		if b.FirstTimestamp == 0 && b.MaxTimestamp == 0 {
			b.FirstTimestamp = b.Records[0].Timestamp
			b.MaxTimestamp = b.Records[0].Timestamp
			for _, r := range b.Records {
				if r.Timestamp > b.MaxTimestamp {
					b.MaxTimestamp = r.Timestamp
				}
			}
		}
	}
	return b
}

func checkBatchLens(t *testing.T, what string, enc []byte, lens []LenField, compressed bool, b Batch) {
	t.Helper()
	seen := map[string]int{}
	for _, l := range lens {
		seen[l.Kind]++
		var got int64
		switch l.Kind {
		case "batch-length", "records-count", "message-size", "msg-key-length", "msg-value-length":
			if l.Size != 4 {
				t.Fatalf("%s: %+v size", what, l)
			}
			got = int64(int32(binary.BigEndian.Uint32(enc[l.Off:])))
		case "record-length", "key-length", "value-length", "headers-count", "header-key-length", "header-value-length":
			v, n, err := readVarlong(enc, l.Off, 5, true, "x")
			if err != nil || n != l.Size {
				t.Fatalf("%s: %+v: varint %v n=%d", what, l, err, n)
			}
			got = v
		default:
			t.Fatalf("%s: unknown kind %+v", what, l)
		}
		if got != l.Value {
			t.Fatalf("%s: %+v: bytes hold %d", what, l, got)
		}
	}
	if b.Magic == 2 {
		if seen["batch-length"] != 1 || seen["records-count"] != 1 {
			t.Fatalf("%s: batch-length/records-count missing: %v", what, seen)
		}
		if !compressed {
			nh := 0
			for _, r := range b.Records {
				nh += len(r.Headers)
			}
			n := len(b.Records)
			if seen["record-length"] != n || seen["key-length"] != n || seen["value-length"] != n || seen["headers-count"] != n ||
				seen["header-key-length"] != nh || seen["header-value-length"] != nh {
				t.Fatalf("%s: per-record fields: %v", what, seen)
			}
		}
	} else {
		n := len(b.Records)
		if compressed {
			n = 1
		}
		if seen["message-size"] != n || seen["msg-key-length"] != n || seen["msg-value-length"] != n {
			t.Fatalf("%s: message fields: %v", what, seen)
		}
	}
}

func TestRecordBatchV2RoundTrip(t *testing.T) {
	rng := rand.New(rand.NewSource(7))
	for codec := CodecNone; codec <= CodecZstd; codec++ {
		for it := 0; it < 25; it++ {
			n := rng.Intn(6)
			holes := rng.Intn(2) == 0
			base := int64(rng.Intn(1000))
			b := Batch{Magic: 2, Codec: codec, BaseOffset: base, PartitionLeaderEpoch: int32(rng.Intn(10)) - 1,
				ProducerID: -1, ProducerEpoch: -1, BaseSequence: -1,
				LogAppendTime: rng.Intn(4) == 0, Transactional: rng.Intn(4) == 0, Control: rng.Intn(8) == 0}
			if rng.Intn(3) == 0 {
				b.ProducerID, b.ProducerEpoch, b.BaseSequence = int64(rng.Intn(1e6)), int16(rng.Intn(100)), int32(rng.Intn(1e6))
			}
			b.Records = genRecords(rng, 2, base, n, holes)
			if n == 0 {
				// empty retained batch keeps its offsets
				b.LastOffsetDelta = int32(rng.Intn(10))
				b.FirstTimestamp, b.MaxTimestamp = 1000, 2000
			} else if rng.Intn(2) == 0 {
				// batch whose tail was compacted away / base offset below the first record
				b.BaseOffset -= int64(rng.Intn(3))
				b.LastOffsetDelta = int32(b.Records[n-1].Offset-b.BaseOffset) + int32(rng.Intn(3))
			}
			opts := EncodeOpts{SnappyRaw: rng.Intn(2) == 0}
			what := fmt.Sprintf("v2 codec=%d it=%d", codec, it)
			enc, lens, err := EncodeBatch(b, opts)
			if err != nil {
				t.Fatalf("%s: %v", what, err)
			}
			checkBatchLens(t, what, enc, lens, codec != 0, b)
			if int(binary.BigEndian.Uint32(enc[8:])) != len(enc)-12 {
				t.Fatalf("%s: batch length", what)
			}
			if binary.BigEndian.Uint32(enc[17:]) != crc32cBitwise(enc[21:]) {
				t.Fatalf("%s: crc", what)
			}
			want := canonV2(b)
			if want.Records == nil {
				want.Records = nil
			}
			consecutive := n > 0 && want.LastOffsetDelta == int32(n-1) && want.Records[0].Offset == want.BaseOffset && !holesIn(want)
			for _, strict := range []bool{false, true} {
				got, err := DecodeRecordSet(enc, DecodeOpts{Strict: strict})
				if strict && n > 0 && !consecutive {
					if err == nil {
						t.Fatalf("%s: strict decode accepted non-consecutive offset deltas", what)
					}
					continue
				}
				if err != nil {
					t.Fatalf("%s strict=%v: %v", what, strict, err)
				}
				if len(got) != 1 {
					t.Fatalf("%s: %d batches", what, len(got))
				}
				if len(want.Records) == 0 {
					want.Records = nil
				}
				if !reflect.DeepEqual(got[0], want) {
					t.Fatalf("%s strict=%v:\n got  %+v\n want %+v", what, strict, got[0], want)
				}
			}
		}
	}
}

func holesIn(b Batch) bool {
	for i, r := range b.Records {
		if r.Offset != b.BaseOffset+int64(i) {
			return true
		}
	}
	return false
}

func TestLegacyRoundTrip(t *testing.T) {
	rng := rand.New(rand.NewSource(8))
	for magic := int8(0); magic <= 1; magic++ {
		for codec := CodecNone; codec <= CodecLZ4; codec++ {
			for it := 0; it < 20; it++ {
				n := 1 + rng.Intn(5)
				base := int64(1 + rng.Intn(1000))
				b := Batch{Magic: magic, Codec: codec, PartitionLeaderEpoch: -1, ProducerID: -1, ProducerEpoch: -1, BaseSequence: -1}
				b.LogAppendTime = magic == 1 && rng.Intn(3) == 0
				b.RelativeInner = magic == 1 && codec != 0 && rng.Intn(2) == 0
				b.Records = genRecords(rng, magic, base, n, rng.Intn(2) == 0)
				what := fmt.Sprintf("magic=%d codec=%d it=%d rel=%v", magic, codec, it, b.RelativeInner)
				enc, lens, err := EncodeBatch(b, EncodeOpts{SnappyRaw: rng.Intn(2) == 0})
				if err != nil {
					t.Fatalf("%s: %v", what, err)
				}
				checkBatchLens(t, what, enc, lens, codec != 0, b)
				for _, strict := range []bool{false, true} {
					got, err := DecodeRecordSet(enc, DecodeOpts{Strict: strict})
					if err != nil {
						t.Fatalf("%s strict=%v: %v", what, strict, err)
					}
					if codec == CodecNone {
						if len(got) != n {
							t.Fatalf("%s: %d top-level messages, want %d", what, len(got), n)
						}
						for i, g := range got {
							w := Batch{Magic: magic, LogAppendTime: b.LogAppendTime, BaseOffset: b.Records[i].Offset, MaxTimestamp: b.Records[i].Timestamp,
								PartitionLeaderEpoch: -1, ProducerID: -1, ProducerEpoch: -1, BaseSequence: -1, Records: b.Records[i : i+1]}
							if !reflect.DeepEqual(g, w) {
								t.Fatalf("%s:\n got  %+v\n want %+v", what, g, w)
							}
						}
						continue
					}
					if len(got) != 1 {
						t.Fatalf("%s: %d batches", what, len(got))
					}
					w := b
					w.BaseOffset = b.Records[n-1].Offset
					w.MaxTimestamp = -1
					for _, r := range b.Records {
						if r.Timestamp > w.MaxTimestamp {
							w.MaxTimestamp = r.Timestamp
						}
					}
					if !reflect.DeepEqual(got[0], w) {
						t.Fatalf("%s strict=%v:\n got  %+v\n want %+v", what, strict, got[0], w)
					}
				}
			}
		}
	}
}

func TestSnappyFraming(t *testing.T) {
	data := bytes.Repeat([]byte("0123456789"), 10000) // > 3 xerial blocks
	x, err := compressData(CodecSnappy, data, EncodeOpts{})
	if err != nil {
		t.Fatal(err)
	}
	if !bytes.HasPrefix(x, []byte{0x82, 'S', 'N', 'A', 'P', 'P', 'Y', 0, 0, 0, 0, 1, 0, 0, 0, 1}) {
		t.Fatalf("xerial header: % x", x[:16])
	}
	// walk the chunks by hand
	p, chunks := x[16:], 0
	for len(p) > 0 {
		n := int(binary.BigEndian.Uint32(p))
		p = p[4+n:]
		chunks++
	}
	if chunks != 4 {
		t.Errorf("%d xerial chunks, want 4 (32 KiB blocks)", chunks)
	}
	raw, err := compressData(CodecSnappy, data, EncodeOpts{SnappyRaw: true})
	if err != nil {
		t.Fatal(err)
	}
	if bytes.HasPrefix(raw, xerialMagic) {
		t.Errorf("raw snappy has a xerial header")
	}
	for _, in := range [][]byte{x, raw} {
		out, err := decompressData(CodecSnappy, in)
		if err != nil || !bytes.Equal(out, data) {
			t.Errorf("snappy decode: %v", err)
		}
	}
	if _, err := decompressData(CodecSnappy, x[:len(x)-3]); err == nil {
		t.Errorf("truncated xerial stream accepted")
	}
	// empty input round trips in both framings and all codecs
	for codec := CodecGzip; codec <= CodecZstd; codec++ {
		for _, rawOpt := range []bool{false, true} {
			c, err := compressData(codec, nil, EncodeOpts{SnappyRaw: rawOpt})
			if err != nil {
				t.Fatal(err)
			}
			out, err := decompressData(codec, c)
			if err != nil || len(out) != 0 {
				t.Errorf("codec %d empty: %v %v", codec, out, err)
			}
		}
	}
}

func TestRecordSetTruncation(t *testing.T) {
	mk := func(base int64, n int) []byte {
		b := Batch{Magic: 2, BaseOffset: base, ProducerID: -1, ProducerEpoch: -1, BaseSequence: -1}
		for i := 0; i < n; i++ {
			b.Records = append(b.Records, Record{Offset: base + int64(i), Timestamp: 1000, Value: []byte("value")})
		}
		enc, _, err := EncodeBatch(b, EncodeOpts{})
		if err != nil {
			t.Fatal(err)
		}
		return enc
	}
	b1, b2 := mk(0, 3), mk(3, 2)
	set := append(append([]byte{}, b1...), b2...)
	for cut := 0; cut <= len(set); cut++ {
		got, err := DecodeRecordSet(set[:cut], DecodeOpts{})
		if err != nil {
			t.Fatalf("cut %d: %v", cut, err)
		}
		want := 0
		if cut >= len(b1) {
			want = 1
		}
		if cut == len(set) {
			want = 2
		}
		if len(got) != want {
			t.Fatalf("cut %d: %d batches, want %d", cut, len(got), want)
		}
		_, err = DecodeRecordSet(set[:cut], DecodeOpts{Strict: true})
		complete := cut == 0 || cut == len(b1) || cut == len(set)
		if complete != (err == nil) {
			t.Fatalf("cut %d strict: err = %v", cut, err)
		}
	}
	// the same with legacy messages
	lb := Batch{Magic: 1, Records: []Record{{Offset: 1, Timestamp: 5, Value: []byte("a")}, {Offset: 2, Timestamp: 6, Value: []byte("b")}}}
	lenc, _, err := EncodeBatch(lb, EncodeOpts{})
	if err != nil {
		t.Fatal(err)
	}
	one := len(lenc) / 2
	for cut := 0; cut <= len(lenc); cut++ {
		got, err := DecodeRecordSet(lenc[:cut], DecodeOpts{})
		if err != nil {
			t.Fatalf("legacy cut %d: %v", cut, err)
		}
		if len(got) != cut/one {
			t.Fatalf("legacy cut %d: %d messages", cut, len(got))
		}
	}
}

func TestStrictRecordChecks(t *testing.T) {
	b := Batch{Magic: 2, BaseOffset: 10, ProducerID: -1, ProducerEpoch: -1, BaseSequence: -1,
		Records: []Record{
			{Offset: 10, Timestamp: 1000, Key: []byte("k1"), Value: []byte("v1"), Headers: []Header{{Key: "h", Value: []byte("x")}}},
			{Offset: 11, Timestamp: 1001, Key: nil, Value: []byte("v2")},
		}}
	enc, lens, err := EncodeBatch(b, EncodeOpts{})
	if err != nil {
		t.Fatal(err)
	}
	find := func(kind, path string) LenField {
		for _, l := range lens {
			if l.Kind == kind && l.Path == path {
				return l
			}
		}
		t.Fatalf("no LenField %s %s in %+v", kind, path, lens)
		return LenField{}
	}
	mutate := func(name string, f func(b []byte) []byte, fix bool, wantStrict string, lenientOK bool) {
		m := f(append([]byte{}, enc...))
		if fix {
			if err := FixCRC(m); err != nil {
				t.Fatalf("%s: FixCRC: %v", name, err)
			}
		}
		_, err := DecodeRecordSet(m, DecodeOpts{Strict: true})
		if err == nil || !strings.Contains(err.Error(), wantStrict) {
			t.Errorf("%s: strict error %v, want %q", name, err, wantStrict)
		}
		_, err = DecodeRecordSet(m, DecodeOpts{})
		if lenientOK != (err == nil) {
			t.Errorf("%s: lenient err = %v", name, err)
		}
	}
	setVar := func(l LenField, v int64) func([]byte) []byte {
		return func(m []byte) []byte {
			nv := appendVarlong(nil, v)
			if len(nv) != l.Size {
				t.Fatalf("mutation changes the varint width")
			}
			copy(m[l.Off:], nv)
			return m
		}
	}
	mutate("crc", func(m []byte) []byte { m[find("value-length", "records[0].value").Off+1] ^= 0xff; return m }, false, "crc32c", true)
	mutate("records_count+1", func(m []byte) []byte { binary.BigEndian.PutUint32(m[57:], 3); return m }, true, "truncated varint", false)
	mutate("records_count-1", func(m []byte) []byte { binary.BigEndian.PutUint32(m[57:], 1); return m }, true, "remain after the last", true)
	mutate("records_count negative", func(m []byte) []byte { binary.BigEndian.PutUint32(m[57:], 0xffffffff); return m }, true, "negative records_count", false)
	mutate("last_offset_delta", func(m []byte) []byte { binary.BigEndian.PutUint32(m[23:], 5); return m }, true, "last_offset_delta", true)
	mutate("record length+1", setVar(find("record-length", "records[0]"), find("record-length", "records[0]").Value+1), true, "length says", false)
	mutate("record length-1", setVar(find("record-length", "records[0]"), find("record-length", "records[0]").Value-1), true, "exceeds the remaining", false)
	mutate("key length -2", setVar(find("key-length", "records[0].key"), -2), true, "invalid", false)
	mutate("null header key", setVar(find("header-key-length", "records[0].headers[0].key"), -1), true, "invalid", false)
	mutate("headers count", setVar(find("headers-count", "records[1].headers"), 3), true, "invalid headers count", false)
	mutate("trailing garbage in batch", func(m []byte) []byte {
		m = append(m, 0)
		binary.BigEndian.PutUint32(m[8:], uint32(len(m)-12))
		return m
	}, true, "remain after the last", true)
	mutate("trailing garbage after set", func(m []byte) []byte { return append(m, 1, 2, 3) }, false, "too short", true)
	mutate("batch length too small", func(m []byte) []byte { binary.BigEndian.PutUint32(m[8:], 10); return m }, false, "below the minimum", false)
	mutate("unknown magic", func(m []byte) []byte { m[16] = 3; return m }, false, "unknown magic", false)
	mutate("unknown attribute bits", func(m []byte) []byte { m[21] = 0x80; return m }, true, "unknown attribute", true)
	mutate("codec 7", func(m []byte) []byte { m[22] |= 7; return m }, true, "unknown compression codec", false)
	mutate("record attributes", func(m []byte) []byte { m[62] = 1; return m }, true, "record attributes", true)
	// offset deltas 0,2
	gap := b
	gap.Records = append([]Record{}, b.Records...)
	gap.Records[1].Offset = 12
	genc, _, _ := EncodeBatch(gap, EncodeOpts{})
	if _, err := DecodeRecordSet(genc, DecodeOpts{Strict: true}); err == nil || !strings.Contains(err.Error(), "offset delta") {
		t.Errorf("gap: %v", err)
	}
	// non-minimal varint: re-encode record 1's length in two bytes... done by
	// hand on a one-record batch: length 0x0c -> 0x8c 0x00 is not expressible
	// without growing the batch, so grow it.
	one := Batch{Magic: 2, ProducerID: -1, ProducerEpoch: -1, BaseSequence: -1, Records: []Record{{Value: []byte("v")}}}
	oenc, olens, _ := EncodeBatch(one, EncodeOpts{})
	vl := LenField{}
	for _, l := range olens {
		if l.Kind == "value-length" {
			vl = l
		}
	}
	grown := append([]byte{}, oenc[:vl.Off]...)
	grown = append(grown, 0x82, 0x00) // zigzag(1)=2 in two bytes
	grown = append(grown, oenc[vl.Off+1:]...)
	grown[61]++ // record length +1 (single byte varint: zigzag step is 2)
	grown[61]++
	binary.BigEndian.PutUint32(grown[8:], uint32(len(grown)-12))
	if err := FixCRC(grown); err != nil {
		t.Fatal(err)
	}
	if _, err := DecodeRecordSet(grown, DecodeOpts{Strict: true}); err == nil || !strings.Contains(err.Error(), "non-minimal") {
		t.Errorf("non-minimal varint: %v", err)
	}
	if got, err := DecodeRecordSet(grown, DecodeOpts{}); err != nil || string(got[0].Records[0].Value) != "v" {
		t.Errorf("non-minimal varint lenient: %v %v", got, err)
	}

	// legacy: crc, sizes
	lb := Batch{Magic: 1, Codec: CodecGzip, RelativeInner: true, Records: []Record{{Offset: 5, Timestamp: 1, Value: []byte("a")}, {Offset: 6, Timestamp: 2, Value: []byte("b")}}}
	lenc, llens, err := EncodeBatch(lb, EncodeOpts{})
	if err != nil {
		t.Fatal(err)
	}
	m := append([]byte{}, lenc...)
	m[len(m)-1] ^= 1
	if _, err := DecodeRecordSet(m, DecodeOpts{Strict: true}); err == nil || !strings.Contains(err.Error(), "crc32 mismatch") {
		t.Errorf("legacy crc: %v", err)
	}
	for _, l := range llens {
		if l.Kind != "msg-value-length" {
			continue
		}
		m := append([]byte{}, lenc...)
		binary.BigEndian.PutUint32(m[l.Off:], uint32(l.Value-1))
		FixCRC(m)
		if _, err := DecodeRecordSet(m, DecodeOpts{Strict: true}); err == nil {
			t.Errorf("legacy value length -1 accepted")
		}
		m = append([]byte{}, lenc...)
		binary.BigEndian.PutUint32(m[l.Off:], uint32(l.Value+1))
		FixCRC(m)
		if _, err := DecodeRecordSet(m, DecodeOpts{Strict: true}); err == nil {
			t.Errorf("legacy value length +1 accepted")
		}
	}
	// wrapper whose inner messages have another magic
	inner, _, _ := EncodeBatch(Batch{Magic: 0, Records: []Record{{Offset: 0, Value: []byte("x")}}}, EncodeOpts{})
	comp, _ := compressData(CodecGzip, inner, EncodeOpts{})
	wrap := appendLegacyMsg(nil, nil, 0, 1, CodecGzip, 0, 5, nil, comp)
	if _, err := DecodeRecordSet(wrap, DecodeOpts{}); err == nil || !strings.Contains(err.Error(), "does not match the wrapper") {
		t.Errorf("inner magic mismatch: %v", err)
	}
	// nested compression
	wrap2 := appendLegacyMsg(nil, nil, 0, 1, CodecGzip, 0, 5, nil, mustCompress(t, wrap))
	_ = wrap2
	nested := appendLegacyMsg(nil, nil, 0, 1, CodecGzip, 0, 5, nil, mustCompress(t, lenc))
	if _, err := DecodeRecordSet(nested, DecodeOpts{}); err == nil || !strings.Contains(err.Error(), "nested compression") {
		t.Errorf("nested compression: %v", err)
	}
}

func mustCompress(t *testing.T, b []byte) []byte {
	t.Helper()
	c, err := compressData(CodecGzip, b, EncodeOpts{})
	if err != nil {
		t.Fatal(err)
	}
	return c
}

// The offsets of a v1 wrapper follow KIP-31.
func TestLegacyWrapperOffsets(t *testing.T) {
	recs := []Record{{Offset: 100, Timestamp: 1, Value: []byte("a")}, {Offset: 101, Timestamp: 2, Value: []byte("b")}, {Offset: 105, Timestamp: 3, Value: []byte("c")}}
	for _, rel := range []bool{true, false} {
		enc, _, err := EncodeBatch(Batch{Magic: 1, Codec: CodecSnappy, RelativeInner: rel, Records: recs}, EncodeOpts{})
		if err != nil {
			t.Fatal(err)
		}
		if off := int64(binary.BigEndian.Uint64(enc)); off != 105 {
			t.Errorf("wrapper offset %d, want the last record's offset 105", off)
		}
		got, err := DecodeRecordSet(enc, DecodeOpts{Strict: true})
		if err != nil {
			t.Fatal(err)
		}
		// relative inner offsets are 0,1,5: the hole survives
		want := []int64{100, 101, 105}
		if inner := innerOffsets(t, enc); rel != (inner[0] == 0 && inner[1] == 1 && inner[2] == 5) || !rel != (inner[0] == 100 && inner[2] == 105) {
			t.Errorf("rel=%v: inner offsets %v", rel, inner)
		}
		for i, r := range got[0].Records {
			if r.Offset != want[i] {
				t.Errorf("rel=%v: record %d offset %d, want %d", rel, i, r.Offset, want[i])
			}
		}
		if got[0].RelativeInner != rel || got[0].BaseOffset != 105 {
			t.Errorf("rel=%v: %+v", rel, got[0])
		}
	}
}

// innerOffsets returns the raw offsets of the inner messages of a wrapper.
func innerOffsets(t *testing.T, wrapper []byte) []int64 {
	t.Helper()
	m, err := decodeLegacyMsg(wrapper, true)
	if err != nil {
		t.Fatal(err)
	}
	inner, err := decompressData(m.attrs&attrCodecMask, m.value)
	if err != nil {
		t.Fatal(err)
	}
	var out []int64
	for off := 0; off < len(inner); {
		out = append(out, int64(binary.BigEndian.Uint64(inner[off:])))
		off += 12 + int(binary.BigEndian.Uint32(inner[off+8:]))
	}
	return out
}
