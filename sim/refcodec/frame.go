package refcodec

import (
	"encoding/binary"
	"fmt"
	"math"
	"sort"
	"strconv"
)

// RequestHeader is the decoded request header (v1, or v2 for flexible versions).
type RequestHeader struct {
	APIKey        int16
	APIVersion    int16
	CorrelationID int32
	ClientID      *string // nil = null client id
	Flexible      bool    // header v2 (tagged-field section present)
}

// LenField describes one length / count field inside an encoded frame.
//
// Paths: a field is addressed by its dotted path with array indexes
// ("topics[0].partitions[1].records", "groups[2]" for an element of a
// primitive array). The tagged-field section of a structure has the path
// "<struct>._tags" (top level: "_tags", response header: "header._tags"); the
// size varint of a tagged field has the path of the field itself (Kind
// "tag-size"), or "<struct>._tags[<tag>]" for an unknown tag.
type LenField struct {
	Off   int    // byte offset in the returned frame (size prefix is at Off 0)
	Size  int    // encoded width in bytes (4, 2, or the varint's length)
	Kind  string // "frame-size", "string16", "compact-string", "bytes32", "compact-bytes", "array32", "compact-array", "tag-count", "tag-size", "records32", "compact-records"
	Path  string
	Value int64 // the decoded logical value (compact forms: raw-1; null = -1)
}

// ResponseOpts are options of EncodeResponse.
type ResponseOpts struct {
	// UnknownTags, if non-nil, are extra tagged fields (tag -> raw bytes) appended
	// to the top-level tagged-field section of a flexible response body.
	UnknownTags map[uint32][]byte
	// NestedUnknownTags, if non-nil, are appended to the tagged-field section
	// of every nested structure (array elements included) of a flexible
	// response body: a decoder that does not skip them exactly loses its
	// place in the fields that follow.
	NestedUnknownTags map[uint32][]byte
}

// ---------------------------------------------------------------------------
// writer

type wbuf struct {
	b      []byte
	lens   []LenField
	nested map[uint32][]byte // unknown tags for nested structures
}

func (w *wbuf) lf(off, size int, kind, path string, val int64) {
	w.lens = append(w.lens, LenField{Off: off, Size: size, Kind: kind, Path: path, Value: val})
}

func (w *wbuf) i8(v int8)   { w.b = append(w.b, byte(v)) }
func (w *wbuf) i16(v int16) { w.b = binary.BigEndian.AppendUint16(w.b, uint16(v)) }
func (w *wbuf) i32(v int32) { w.b = binary.BigEndian.AppendUint32(w.b, uint32(v)) }
func (w *wbuf) i64(v int64) { w.b = binary.BigEndian.AppendUint64(w.b, uint64(v)) }

func (w *wbuf) uvarint(v uint32) int {
	n := 0
	for v >= 0x80 {
		w.b = append(w.b, byte(v)|0x80)
		v >>= 7
		n++
	}
	w.b = append(w.b, byte(v))
	return n + 1
}

// length writes a length/count in the given flavour and records it.
// n = -1 encodes null.
func (w *wbuf) length(n int, flex bool, wide bool, kindFixed, kindCompact, path string) {
	off := len(w.b)
	switch {
	case flex:
		sz := w.uvarint(uint32(n + 1))
		w.lf(off, sz, kindCompact, path, int64(n))
	case wide:
		w.i32(int32(n))
		w.lf(off, 4, kindFixed, path, int64(n))
	default:
		w.i16(int16(n))
		w.lf(off, 2, kindFixed, path, int64(n))
	}
}

func asInt(v any) (int64, bool) {
	switch x := v.(type) {
	case int:
		return int64(x), true
	case int8:
		return int64(x), true
	case int16:
		return int64(x), true
	case int32:
		return int64(x), true
	case int64:
		return x, true
	case uint8:
		return int64(x), true
	case uint16:
		return int64(x), true
	case uint32:
		return int64(x), true
	case uint:
		if uint64(x) > math.MaxInt64 {
			return 0, false
		}
		return int64(x), true
	case uint64:
		if x > math.MaxInt64 {
			return 0, false
		}
		return int64(x), true
	}
	return 0, false
}

func isNilValue(v any) bool {
	switch x := v.(type) {
	case nil:
		return true
	case []byte:
		return x == nil
	case []Msg:
		return x == nil
	case []any:
		return x == nil
	case *string:
		return x == nil
	}
	return false
}

// defaultValue returns the value used for a missing key.
func defaultValue(f *Field, ver int16) any {
	if f.DefaultNull && f.Nullable.Has(ver) {
		return nil
	}
	if f.Default != nil {
		return f.Default
	}
	switch f.Kind {
	case KBool:
		return false
	case KInt8:
		return int8(0)
	case KInt16:
		return int16(0)
	case KUint16:
		return uint16(0)
	case KInt32:
		return int32(0)
	case KInt64:
		return int64(0)
	case KFloat64:
		return float64(0)
	case KString:
		return ""
	case KBytes, KRecords:
		return []byte{}
	case KUUID:
		return [16]byte{}
	case KArray:
		if f.Elem.Kind == KStruct {
			return []Msg{}
		}
		return []any{}
	case KStruct:
		return Msg{}
	}
	return nil
}

// isDefault reports whether v is the default of the (tagged) field f, in which
// case the tagged field is omitted from the wire, as Kafka does.
func isDefault(f *Field, v any, ver int16) bool {
	null := isNilValue(v)
	if f.DefaultNull && f.Nullable.Has(ver) {
		return null
	}
	if null {
		return false
	}
	switch f.Kind {
	case KBool:
		b, ok := v.(bool)
		d, _ := defaultValue(f, ver).(bool)
		return ok && b == d
	case KInt8, KInt16, KUint16, KInt32, KInt64:
		n, ok := asInt(v)
		d, _ := asInt(defaultValue(f, ver))
		return ok && n == d
	case KFloat64:
		x, ok := v.(float64)
		d, _ := defaultValue(f, ver).(float64)
		return ok && x == d
	case KString:
		s, ok := v.(string)
		d, _ := defaultValue(f, ver).(string)
		return ok && s == d
	case KBytes, KRecords:
		b, ok := v.([]byte)
		return ok && len(b) == 0
	case KUUID:
		u, ok := v.([16]byte)
		return ok && u == [16]byte{}
	case KArray:
		switch a := v.(type) {
		case []Msg:
			return len(a) == 0
		case []any:
			return len(a) == 0
		}
	}
	return false
}

func joinPath(base, name string) string {
	if base == "" {
		return name
	}
	return base + "." + name
}

type taggedOut struct {
	tag  uint32
	path string
	data []byte
	lens []LenField
}

func encodeStruct(w *wbuf, fields []Field, m Msg, ver int16, flex bool, path string, extra map[uint32][]byte) error {
	if extra == nil && path != "" && flex {
		extra = w.nested
	}
	var tagged []taggedOut
	for i := range fields {
		f := &fields[i]
		isTagged := f.Tag >= 0 && f.TaggedVersions.Has(ver)
		if !isTagged && !f.Versions.Has(ver) {
			continue
		}
		v, ok := m[f.Name]
		if !ok {
			if isTagged {
				continue
			}
			v = defaultValue(f, ver)
		}
		p := joinPath(path, f.Name)
		if isTagged {
			if !flex {
				return fmt.Errorf("%s: tagged field in non-flexible version %d", p, ver)
			}
			if isDefault(f, v, ver) {
				continue
			}
			sub := &wbuf{nested: w.nested}
			if err := encodeValue(sub, f, v, ver, true, p); err != nil {
				return err
			}
			tagged = append(tagged, taggedOut{tag: uint32(f.Tag), path: p, data: sub.b, lens: sub.lens})
			continue
		}
		if err := encodeValue(w, f, v, ver, flex, p); err != nil {
			return err
		}
	}
	if !flex {
		if len(extra) != 0 {
			return fmt.Errorf("%s: unknown tagged fields requested for non-flexible version %d", path, ver)
		}
		return nil
	}
	tp := joinPath(path, "_tags")
	for t, data := range extra {
		for i := range fields {
			if f := &fields[i]; f.Tag >= 0 && uint32(f.Tag) == t && f.TaggedVersions.Has(ver) {
				return fmt.Errorf("%s: unknown tag %d collides with the known tagged field %s", tp, t, f.Name)
			}
		}
		tagged = append(tagged, taggedOut{tag: t, path: tp + "[" + strconv.FormatUint(uint64(t), 10) + "]", data: data})
	}
	sort.Slice(tagged, func(i, j int) bool { return tagged[i].tag < tagged[j].tag })
	off := len(w.b)
	sz := w.uvarint(uint32(len(tagged)))
	w.lf(off, sz, "tag-count", tp, int64(len(tagged)))
	for _, t := range tagged {
		w.uvarint(t.tag)
		off = len(w.b)
		sz = w.uvarint(uint32(len(t.data)))
		w.lf(off, sz, "tag-size", t.path, int64(len(t.data)))
		base := len(w.b)
		w.b = append(w.b, t.data...)
		for _, l := range t.lens {
			l.Off += base
			w.lens = append(w.lens, l)
		}
	}
	return nil
}

func typeErr(p string, f *Field, v any) error {
	return fmt.Errorf("%s: cannot encode %T as %s", p, v, f.Kind)
}

func encodeInt(w *wbuf, f *Field, v any, p string) error {
	n, ok := asInt(v)
	if !ok {
		return typeErr(p, f, v)
	}
	var lo, hi int64
	switch f.Kind {
	case KInt8:
		lo, hi = math.MinInt8, math.MaxInt8
	case KInt16:
		lo, hi = math.MinInt16, math.MaxInt16
	case KUint16:
		lo, hi = 0, math.MaxUint16
	case KInt32:
		lo, hi = math.MinInt32, math.MaxInt32
	default:
		lo, hi = math.MinInt64, math.MaxInt64
	}
	if n < lo || n > hi {
		return fmt.Errorf("%s: value %d out of range for %s", p, n, f.Kind)
	}
	switch f.Kind {
	case KInt8:
		w.i8(int8(n))
	case KInt16, KUint16:
		w.i16(int16(n))
	case KInt32:
		w.i32(int32(n))
	default:
		w.i64(n)
	}
	return nil
}

func encodeValue(w *wbuf, f *Field, v any, ver int16, flex bool, p string) error {
	null := isNilValue(v)
	nullable := f.Nullable.Has(ver)
	switch f.Kind {
	case KBool:
		b, ok := v.(bool)
		if !ok {
			return typeErr(p, f, v)
		}
		if b {
			w.i8(1)
		} else {
			w.i8(0)
		}
	case KInt8, KInt16, KUint16, KInt32, KInt64:
		return encodeInt(w, f, v, p)
	case KFloat64:
		x, ok := v.(float64)
		if !ok {
			return typeErr(p, f, v)
		}
		w.i64(int64(math.Float64bits(x)))
	case KUUID:
		u, ok := v.([16]byte)
		if !ok {
			return typeErr(p, f, v)
		}
		w.b = append(w.b, u[:]...)
	case KString:
		if sp, isPtr := v.(*string); isPtr && sp != nil {
			v = *sp
		}
		if null {
			if !nullable {
				return fmt.Errorf("%s: null for non-nullable string in version %d", p, ver)
			}
			w.length(-1, flex, false, "string16", "compact-string", p)
			return nil
		}
		s, ok := v.(string)
		if !ok {
			return typeErr(p, f, v)
		}
		if len(s) > math.MaxInt16 {
			return fmt.Errorf("%s: string of %d bytes is too long", p, len(s))
		}
		w.length(len(s), flex, false, "string16", "compact-string", p)
		w.b = append(w.b, s...)
	case KBytes, KRecords:
		fixed, compact := "bytes32", "compact-bytes"
		if f.Kind == KRecords {
			fixed, compact = "records32", "compact-records"
		}
		if v != nil {
			if _, ok := v.([]byte); !ok {
				return typeErr(p, f, v)
			}
		}
		if null && nullable {
			w.length(-1, flex, true, fixed, compact, p)
			return nil
		}
		if v == nil {
			return fmt.Errorf("%s: null for non-nullable %s in version %d", p, f.Kind, ver)
		}
		b := v.([]byte) // a typed-nil slice for a non-nullable field is an empty blob
		if len(b) > math.MaxInt32-1 {
			return fmt.Errorf("%s: blob too long", p)
		}
		w.length(len(b), flex, true, fixed, compact, p)
		w.b = append(w.b, b...)
	case KStruct:
		m, ok := v.(Msg)
		if !ok {
			if mm, ok2 := v.(map[string]any); ok2 {
				m, ok = Msg(mm), true
			}
		}
		if !ok {
			return typeErr(p, f, v)
		}
		return encodeStruct(w, f.Fields, m, ver, flex, p, nil)
	case KArray:
		return encodeArray(w, f, v, ver, flex, p)
	default:
		return fmt.Errorf("%s: unknown kind %d", p, f.Kind)
	}
	return nil
}

func encodeArray(w *wbuf, f *Field, v any, ver int16, flex bool, p string) error {
	nullable := f.Nullable.Has(ver)
	var elems []any
	switch a := v.(type) {
	case nil:
		if !nullable {
			return fmt.Errorf("%s: null for non-nullable array in version %d", p, ver)
		}
		w.length(-1, flex, true, "array32", "compact-array", p)
		return nil
	case []Msg:
		if a == nil && nullable {
			w.length(-1, flex, true, "array32", "compact-array", p)
			return nil
		}
		elems = make([]any, len(a))
		for i := range a {
			elems[i] = a[i]
		}
	case []any:
		if a == nil && nullable {
			w.length(-1, flex, true, "array32", "compact-array", p)
			return nil
		}
		elems = a
	case []string:
		elems = make([]any, len(a))
		for i := range a {
			elems[i] = a[i]
		}
	case []int32:
		elems = make([]any, len(a))
		for i := range a {
			elems[i] = a[i]
		}
	case []int64:
		elems = make([]any, len(a))
		for i := range a {
			elems[i] = a[i]
		}
	case []int16:
		elems = make([]any, len(a))
		for i := range a {
			elems[i] = a[i]
		}
	default:
		return typeErr(p, f, v)
	}
	w.length(len(elems), flex, true, "array32", "compact-array", p)
	for i, e := range elems {
		if err := encodeValue(w, f.Elem, e, ver, flex, p+"["+strconv.Itoa(i)+"]"); err != nil {
			return err
		}
	}
	return nil
}

// ---------------------------------------------------------------------------
// reader (strict)

type rbuf struct {
	b   []byte
	off int
}

func (r *rbuf) remain() int { return len(r.b) - r.off }

func (r *rbuf) need(n int, p string) error {
	if n < 0 || r.remain() < n {
		return fmt.Errorf("%s: need %d bytes at offset %d, only %d remain", p, n, r.off, r.remain())
	}
	return nil
}

func (r *rbuf) i8(p string) (int8, error) {
	if err := r.need(1, p); err != nil {
		return 0, err
	}
	v := int8(r.b[r.off])
	r.off++
	return v, nil
}

func (r *rbuf) i16(p string) (int16, error) {
	if err := r.need(2, p); err != nil {
		return 0, err
	}
	v := int16(binary.BigEndian.Uint16(r.b[r.off:]))
	r.off += 2
	return v, nil
}

func (r *rbuf) i32(p string) (int32, error) {
	if err := r.need(4, p); err != nil {
		return 0, err
	}
	v := int32(binary.BigEndian.Uint32(r.b[r.off:]))
	r.off += 4
	return v, nil
}

func (r *rbuf) i64(p string) (int64, error) {
	if err := r.need(8, p); err != nil {
		return 0, err
	}
	v := int64(binary.BigEndian.Uint64(r.b[r.off:]))
	r.off += 8
	return v, nil
}

// uvarint reads an unsigned 32-bit varint, rejecting truncated, over-long
// (more than 5 bytes / more than 32 bits) and non-minimal encodings.
func (r *rbuf) uvarint(p string) (uint32, error) {
	start := r.off
	var x uint64
	for i := 0; i < 5; i++ {
		if r.off >= len(r.b) {
			return 0, fmt.Errorf("%s: truncated varint at offset %d", p, start)
		}
		c := r.b[r.off]
		r.off++
		x |= uint64(c&0x7f) << (7 * uint(i))
		if c&0x80 == 0 {
			if i > 0 && c == 0 {
				return 0, fmt.Errorf("%s: non-minimal varint at offset %d", p, start)
			}
			if x > math.MaxUint32 {
				return 0, fmt.Errorf("%s: varint overflows 32 bits at offset %d", p, start)
			}
			return uint32(x), nil
		}
	}
	return 0, fmt.Errorf("%s: over-long varint at offset %d", p, start)
}

// length reads a length/count; returns -1 for null.
func (r *rbuf) length(flex, wide bool, p string) (int, error) {
	switch {
	case flex:
		u, err := r.uvarint(p)
		if err != nil {
			return 0, err
		}
		if u > math.MaxInt32 {
			return 0, fmt.Errorf("%s: length %d too large", p, u)
		}
		return int(u) - 1, nil
	case wide:
		n, err := r.i32(p)
		if err != nil {
			return 0, err
		}
		if n < -1 {
			return 0, fmt.Errorf("%s: negative length %d", p, n)
		}
		return int(n), nil
	default:
		n, err := r.i16(p)
		if err != nil {
			return 0, err
		}
		if n < -1 {
			return 0, fmt.Errorf("%s: negative length %d", p, n)
		}
		return int(n), nil
	}
}

func decodeStruct(r *rbuf, fields []Field, ver int16, flex bool, path string) (Msg, error) {
	m := Msg{}
	for i := range fields {
		f := &fields[i]
		if f.Tag >= 0 && f.TaggedVersions.Has(ver) {
			continue
		}
		if !f.Versions.Has(ver) {
			continue
		}
		v, err := decodeValue(r, f, ver, flex, joinPath(path, f.Name))
		if err != nil {
			return nil, err
		}
		m[f.Name] = v
	}
	if !flex {
		return m, nil
	}
	tp := joinPath(path, "_tags")
	n, err := r.uvarint(tp)
	if err != nil {
		return nil, err
	}
	if int64(n) > int64(r.remain()) {
		return nil, fmt.Errorf("%s: tagged field count %d exceeds remaining %d bytes", tp, n, r.remain())
	}
	prev := int64(-1)
	for i := uint32(0); i < n; i++ {
		tag, err := r.uvarint(tp)
		if err != nil {
			return nil, err
		}
		if int64(tag) <= prev {
			return nil, fmt.Errorf("%s: tag %d not in strictly increasing order (previous %d)", tp, tag, prev)
		}
		prev = int64(tag)
		size, err := r.uvarint(tp)
		if err != nil {
			return nil, err
		}
		if err := r.need(int(size), tp); err != nil {
			return nil, err
		}
		var tf *Field
		for j := range fields {
			f := &fields[j]
			if f.Tag >= 0 && uint32(f.Tag) == tag && f.TaggedVersions.Has(ver) {
				tf = f
				break
			}
		}
		if tf == nil {
			return nil, fmt.Errorf("%s: unknown tag %d", tp, tag)
		}
		p := joinPath(path, tf.Name)
		sub := &rbuf{b: r.b[:r.off+int(size)], off: r.off}
		v, err := decodeValue(sub, tf, ver, true, p)
		if err != nil {
			return nil, err
		}
		if sub.remain() != 0 {
			return nil, fmt.Errorf("%s: tagged field size %d but value used %d bytes", p, size, sub.off-r.off)
		}
		r.off = sub.off
		m[tf.Name] = v
	}
	// absent tagged fields take their default
	for i := range fields {
		f := &fields[i]
		if f.Tag >= 0 && f.TaggedVersions.Has(ver) {
			if _, ok := m[f.Name]; !ok {
				m[f.Name] = defaultValue(f, ver)
			}
		}
	}
	return m, nil
}

func decodeValue(r *rbuf, f *Field, ver int16, flex bool, p string) (any, error) {
	nullable := f.Nullable.Has(ver)
	switch f.Kind {
	case KBool:
		b, err := r.i8(p)
		if err != nil {
			return nil, err
		}
		if b != 0 && b != 1 {
			return nil, fmt.Errorf("%s: boolean byte 0x%02x is neither 0 nor 1", p, uint8(b))
		}
		return b == 1, nil
	case KInt8:
		return wrap(r.i8(p))
	case KInt16:
		return wrap(r.i16(p))
	case KUint16:
		v, err := r.i16(p)
		return uint16(v), err
	case KInt32:
		return wrap(r.i32(p))
	case KInt64:
		return wrap(r.i64(p))
	case KFloat64:
		v, err := r.i64(p)
		return math.Float64frombits(uint64(v)), err
	case KUUID:
		if err := r.need(16, p); err != nil {
			return nil, err
		}
		var u [16]byte
		copy(u[:], r.b[r.off:])
		r.off += 16
		return u, nil
	case KString:
		n, err := r.length(flex, false, p)
		if err != nil {
			return nil, err
		}
		if n < 0 {
			if !nullable {
				return nil, fmt.Errorf("%s: null marker for non-nullable string in version %d", p, ver)
			}
			return nil, nil
		}
		if n > math.MaxInt16 {
			return nil, fmt.Errorf("%s: string length %d exceeds 32767", p, n)
		}
		if err := r.need(n, p); err != nil {
			return nil, err
		}
		s := string(r.b[r.off : r.off+n])
		r.off += n
		return s, nil
	case KBytes, KRecords:
		n, err := r.length(flex, true, p)
		if err != nil {
			return nil, err
		}
		if n < 0 {
			if !nullable {
				return nil, fmt.Errorf("%s: null marker for non-nullable %s in version %d", p, f.Kind, ver)
			}
			return nil, nil
		}
		if err := r.need(n, p); err != nil {
			return nil, err
		}
		b := make([]byte, n)
		copy(b, r.b[r.off:])
		r.off += n
		return b, nil
	case KStruct:
		return decodeStruct(r, f.Fields, ver, flex, p)
	case KArray:
		n, err := r.length(flex, true, p)
		if err != nil {
			return nil, err
		}
		if n < 0 {
			if !nullable {
				return nil, fmt.Errorf("%s: null marker for non-nullable array in version %d", p, ver)
			}
			return nil, nil
		}
		if n > r.remain() {
			return nil, fmt.Errorf("%s: array count %d exceeds remaining %d bytes", p, n, r.remain())
		}
		if f.Elem.Kind == KStruct {
			out := make([]Msg, 0, n)
			for i := 0; i < n; i++ {
				m, err := decodeStruct(r, f.Elem.Fields, ver, flex, p+"["+strconv.Itoa(i)+"]")
				if err != nil {
					return nil, err
				}
				out = append(out, m)
			}
			return out, nil
		}
		out := make([]any, 0, n)
		for i := 0; i < n; i++ {
			v, err := decodeValue(r, f.Elem, ver, flex, p+"["+strconv.Itoa(i)+"]")
			if err != nil {
				return nil, err
			}
			out = append(out, v)
		}
		return out, nil
	}
	return nil, fmt.Errorf("%s: unknown kind %d", p, f.Kind)
}

func wrap[T any](v T, err error) (any, error) {
	if err != nil {
		return nil, err
	}
	return v, nil
}

// ---------------------------------------------------------------------------
// frames

func lookupVersion(apiKey, version int16) (*API, error) {
	a := Lookup(apiKey)
	if a == nil {
		return nil, fmt.Errorf("refcodec: unknown api key %d", apiKey)
	}
	if version < a.MinVersion || version > a.MaxVersion {
		return a, fmt.Errorf("refcodec: %s version %d outside [%d, %d]", a.Name, version, a.MinVersion, a.MaxVersion)
	}
	return a, nil
}

// DecodeRequest strictly decodes one request frame body (the bytes after the
// 4-byte size prefix). On error the header fields parsed so far (and the API,
// if the key is known) are still returned.
func DecodeRequest(frame []byte) (RequestHeader, *API, Msg, error) {
	var h RequestHeader
	r := &rbuf{b: frame}
	var err error
	if h.APIKey, err = r.i16("header.api_key"); err != nil {
		return h, nil, nil, fmt.Errorf("refcodec: request: %w", err)
	}
	if h.APIVersion, err = r.i16("header.api_version"); err != nil {
		return h, Lookup(h.APIKey), nil, fmt.Errorf("refcodec: request: %w", err)
	}
	if h.CorrelationID, err = r.i32("header.correlation_id"); err != nil {
		return h, Lookup(h.APIKey), nil, fmt.Errorf("refcodec: request: %w", err)
	}
	a, verr := lookupVersion(h.APIKey, h.APIVersion)
	// The client id is a nullable int16 string in header v1 and v2 alike.
	n, err := r.length(false, false, "header.client_id")
	if err != nil {
		return h, a, nil, fmt.Errorf("refcodec: request: %w", err)
	}
	if n >= 0 {
		if err := r.need(n, "header.client_id"); err != nil {
			return h, a, nil, fmt.Errorf("refcodec: request: %w", err)
		}
		s := string(r.b[r.off : r.off+n])
		r.off += n
		h.ClientID = &s
	}
	if verr != nil {
		return h, a, nil, verr
	}
	wrapErr := func(err error) error {
		return fmt.Errorf("refcodec: %s v%d request: %w", a.Name, h.APIVersion, err)
	}
	flex := a.Flexible(h.APIVersion)
	h.Flexible = flex
	if flex {
		if _, err := decodeStruct(r, nil, h.APIVersion, true, "header"); err != nil {
			return h, a, nil, wrapErr(err)
		}
	}
	body, err := decodeStruct(r, a.Request, h.APIVersion, flex, "")
	if err != nil {
		return h, a, nil, wrapErr(err)
	}
	if r.remain() != 0 {
		return h, a, nil, wrapErr(fmt.Errorf("%d trailing bytes after the last field (offset %d)", r.remain(), r.off))
	}
	return h, a, body, nil
}

// EncodeRequest builds a complete request frame including the 4-byte size
// prefix. The header version is derived from the schema (h.Flexible is
// ignored: v2 for flexible versions, v1 otherwise).
func EncodeRequest(h RequestHeader, body Msg) ([]byte, error) {
	a, err := lookupVersion(h.APIKey, h.APIVersion)
	if err != nil {
		return nil, err
	}
	w := &wbuf{}
	w.i32(0)
	w.i16(h.APIKey)
	w.i16(h.APIVersion)
	w.i32(h.CorrelationID)
	if h.ClientID == nil {
		w.i16(-1)
	} else {
		if len(*h.ClientID) > math.MaxInt16 {
			return nil, fmt.Errorf("refcodec: client id too long")
		}
		w.i16(int16(len(*h.ClientID)))
		w.b = append(w.b, *h.ClientID...)
	}
	flex := a.Flexible(h.APIVersion)
	if flex {
		w.uvarint(0)
	}
	if err := encodeStruct(w, a.Request, body, h.APIVersion, flex, "", nil); err != nil {
		return nil, fmt.Errorf("refcodec: %s v%d request: %w", a.Name, h.APIVersion, err)
	}
	binary.BigEndian.PutUint32(w.b, uint32(len(w.b)-4))
	return w.b, nil
}

// EncodeResponse builds a complete response frame including the 4-byte size
// prefix and the response header (v0, or v1 with an empty tagged section for
// flexible versions; always v0 for ApiVersions), and reports every length or
// count field it wrote (including the frame size itself at Off 0), in the
// order in which they appear in the frame.
func EncodeResponse(apiKey, version int16, correlationID int32, body Msg, opts *ResponseOpts) ([]byte, []LenField, error) {
	a, err := lookupVersion(apiKey, version)
	if err != nil {
		return nil, nil, err
	}
	w := &wbuf{}
	w.i32(0)
	w.i32(correlationID)
	if a.ResponseHeaderVersion(version) >= 1 {
		off := len(w.b)
		sz := w.uvarint(0)
		w.lf(off, sz, "tag-count", "header._tags", 0)
	}
	var extra map[uint32][]byte
	if opts != nil {
		extra = opts.UnknownTags
		w.nested = opts.NestedUnknownTags
	}
	if err := encodeStruct(w, a.Response, body, version, a.Flexible(version), "", extra); err != nil {
		return nil, nil, fmt.Errorf("refcodec: %s v%d response: %w", a.Name, version, err)
	}
	binary.BigEndian.PutUint32(w.b, uint32(len(w.b)-4))
	lens := make([]LenField, 0, len(w.lens)+1)
	lens = append(lens, LenField{Off: 0, Size: 4, Kind: "frame-size", Path: "", Value: int64(len(w.b) - 4)})
	lens = append(lens, w.lens...)
	sort.SliceStable(lens, func(i, j int) bool { return lens[i].Off < lens[j].Off })
	return w.b, lens, nil
}

// DecodeResponse strictly decodes a response frame body (bytes after the size
// prefix, starting with the correlation id).
func DecodeResponse(apiKey, version int16, frame []byte) (correlationID int32, body Msg, err error) {
	a, err := lookupVersion(apiKey, version)
	if err != nil {
		return 0, nil, err
	}
	wrapErr := func(err error) error {
		return fmt.Errorf("refcodec: %s v%d response: %w", a.Name, version, err)
	}
	r := &rbuf{b: frame}
	if correlationID, err = r.i32("header.correlation_id"); err != nil {
		return 0, nil, wrapErr(err)
	}
	if a.ResponseHeaderVersion(version) >= 1 {
		if _, err := decodeStruct(r, nil, version, true, "header"); err != nil {
			return correlationID, nil, wrapErr(err)
		}
	}
	body, err = decodeStruct(r, a.Response, version, a.Flexible(version), "")
	if err != nil {
		return correlationID, nil, wrapErr(err)
	}
	if r.remain() != 0 {
		return correlationID, nil, wrapErr(fmt.Errorf("%d trailing bytes after the last field (offset %d)", r.remain(), r.off))
	}
	return correlationID, body, nil
}
