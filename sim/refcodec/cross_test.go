package refcodec

// Cross-validation against kafka-go's protocol package (test files only).

import (
	"bytes"
	"fmt"
	"io"
	"math/rand"
	"reflect"
	"sort"
	"strings"
	"testing"
	"time"

	"github.com/segmentio/kafka-go/protocol"
	"github.com/segmentio/kafka-go/protocol/addoffsetstotxn"
	"github.com/segmentio/kafka-go/protocol/addpartitionstotxn"
	"github.com/segmentio/kafka-go/protocol/alterclientquotas"
	"github.com/segmentio/kafka-go/protocol/alterconfigs"
	"github.com/segmentio/kafka-go/protocol/alterpartitionreassignments"
	"github.com/segmentio/kafka-go/protocol/alteruserscramcredentials"
	"github.com/segmentio/kafka-go/protocol/apiversions"
	"github.com/segmentio/kafka-go/protocol/createacls"
	"github.com/segmentio/kafka-go/protocol/createpartitions"
	"github.com/segmentio/kafka-go/protocol/createtopics"
	"github.com/segmentio/kafka-go/protocol/deleteacls"
	"github.com/segmentio/kafka-go/protocol/deletegroups"
	"github.com/segmentio/kafka-go/protocol/deletetopics"
	"github.com/segmentio/kafka-go/protocol/describeacls"
	"github.com/segmentio/kafka-go/protocol/describeclientquotas"
	"github.com/segmentio/kafka-go/protocol/describeconfigs"
	"github.com/segmentio/kafka-go/protocol/describegroups"
	"github.com/segmentio/kafka-go/protocol/describeuserscramcredentials"
	"github.com/segmentio/kafka-go/protocol/electleaders"
	"github.com/segmentio/kafka-go/protocol/endtxn"
	"github.com/segmentio/kafka-go/protocol/fetch"
	"github.com/segmentio/kafka-go/protocol/findcoordinator"
	"github.com/segmentio/kafka-go/protocol/heartbeat"
	"github.com/segmentio/kafka-go/protocol/incrementalalterconfigs"
	"github.com/segmentio/kafka-go/protocol/initproducerid"
	"github.com/segmentio/kafka-go/protocol/joingroup"
	"github.com/segmentio/kafka-go/protocol/leavegroup"
	"github.com/segmentio/kafka-go/protocol/listgroups"
	"github.com/segmentio/kafka-go/protocol/listoffsets"
	"github.com/segmentio/kafka-go/protocol/listpartitionreassignments"
	"github.com/segmentio/kafka-go/protocol/metadata"
	"github.com/segmentio/kafka-go/protocol/offsetcommit"
	"github.com/segmentio/kafka-go/protocol/offsetdelete"
	"github.com/segmentio/kafka-go/protocol/offsetfetch"
	"github.com/segmentio/kafka-go/protocol/produce"
	"github.com/segmentio/kafka-go/protocol/saslauthenticate"
	"github.com/segmentio/kafka-go/protocol/saslhandshake"
	"github.com/segmentio/kafka-go/protocol/syncgroup"
	"github.com/segmentio/kafka-go/protocol/txnoffsetcommit"
)

type kgoPair struct{ req, res protocol.Message }

var kgoAPIs = []kgoPair{
	{&produce.Request{}, &produce.Response{}},
	{&fetch.Request{}, &fetch.Response{}},
	{&listoffsets.Request{}, &listoffsets.Response{}},
	{&metadata.Request{}, &metadata.Response{}},
	{&offsetcommit.Request{}, &offsetcommit.Response{}},
	{&offsetfetch.Request{}, &offsetfetch.Response{}},
	{&findcoordinator.Request{}, &findcoordinator.Response{}},
	{&joingroup.Request{}, &joingroup.Response{}},
	{&heartbeat.Request{}, &heartbeat.Response{}},
	{&leavegroup.Request{}, &leavegroup.Response{}},
	{&syncgroup.Request{}, &syncgroup.Response{}},
	{&describegroups.Request{}, &describegroups.Response{}},
	{&listgroups.Request{}, &listgroups.Response{}},
	{&saslhandshake.Request{}, &saslhandshake.Response{}},
	{&apiversions.Request{}, &apiversions.Response{}},
	{&createtopics.Request{}, &createtopics.Response{}},
	{&deletetopics.Request{}, &deletetopics.Response{}},
	{&initproducerid.Request{}, &initproducerid.Response{}},
	{&saslauthenticate.Request{}, &saslauthenticate.Response{}},
	{&createpartitions.Request{}, &createpartitions.Response{}},
	{&deletegroups.Request{}, &deletegroups.Response{}},
	{&offsetdelete.Request{}, &offsetdelete.Response{}},
	// schemas_more.go
	{&addpartitionstotxn.Request{}, &addpartitionstotxn.Response{}},
	{&addoffsetstotxn.Request{}, &addoffsetstotxn.Response{}},
	{&endtxn.Request{}, &endtxn.Response{}},
	{&txnoffsetcommit.Request{}, &txnoffsetcommit.Response{}},
	{&describeacls.Request{}, &describeacls.Response{}},
	{&createacls.Request{}, &createacls.Response{}},
	{&deleteacls.Request{}, &deleteacls.Response{}},
	{&describeconfigs.Request{}, &describeconfigs.Response{}},
	{&alterconfigs.Request{}, &alterconfigs.Response{}},
	{&electleaders.Request{}, &electleaders.Response{}},
	{&incrementalalterconfigs.Request{}, &incrementalalterconfigs.Response{}},
	{&alterpartitionreassignments.Request{}, &alterpartitionreassignments.Response{}},
	{&listpartitionreassignments.Request{}, &listpartitionreassignments.Response{}},
	{&describeclientquotas.Request{}, &describeclientquotas.Response{}},
	{&alterclientquotas.Request{}, &alterclientquotas.Response{}},
	{&describeuserscramcredentials.Request{}, &describeuserscramcredentials.Response{}},
	{&alteruserscramcredentials.Request{}, &alteruserscramcredentials.Response{}},
}

var recordSetType = reflect.TypeOf(protocol.RecordSet{})

type memRecord struct {
	Offset  int64
	Time    int64
	Key     []byte
	Value   []byte
	Headers []protocol.Header
}

func kgoRandomRecords(r *rand.Rand, version int8) []protocol.Record {
	n := 1 + r.Intn(4)
	recs := make([]protocol.Record, n)
	for i := range recs {
		recs[i] = protocol.Record{
			Offset: int64(i),
			Time:   time.UnixMilli(1_600_000_000_000 + int64(r.Intn(100000))),
			Key:    protocol.NewBytes(genBlob(r)),
			Value:  protocol.NewBytes(genBlob(r)),
		}
		if version == 2 {
			for j, nh := 0, r.Intn(3); j < nh; j++ {
				recs[i].Headers = append(recs[i].Headers, protocol.Header{Key: genString(r, genOpts{noMaxStrings: true}), Value: genBlob(r)})
			}
		}
	}
	return recs
}

// fillRandom fills a kafka-go message with random values.
func fillRandom(r *rand.Rand, v reflect.Value, recVersion int8) {
	if v.Type() == recordSetType {
		rs := protocol.RecordSet{Version: recVersion, Attributes: protocol.Attributes(r.Intn(5))}
		if recVersion < 2 && rs.Attributes == protocol.Zstd {
			rs.Attributes = protocol.Gzip
		}
		rs.Records = protocol.NewRecordReader(kgoRandomRecords(r, recVersion)...)
		v.Set(reflect.ValueOf(rs))
		return
	}
	switch v.Kind() {
	case reflect.Bool:
		v.SetBool(r.Intn(2) == 0)
	case reflect.Int8:
		v.SetInt(genInt(r, -128, 127))
	case reflect.Int16:
		v.SetInt(genInt(r, -32768, 32767))
	case reflect.Int32:
		v.SetInt(genInt(r, -1<<31, 1<<31-1))
	case reflect.Int64:
		v.SetInt(genInt(r, -1<<63, 1<<63-1))
	case reflect.Float64:
		v.SetFloat(genFloat(r))
	case reflect.String:
		v.SetString(genString(r, genOpts{}))
	case reflect.Slice:
		if v.Type().Elem().Kind() == reflect.Uint8 {
			b := genBlob(r)
			if len(b) > 1000 {
				b = b[:1000]
			}
			v.SetBytes(b)
			return
		}
		if r.Intn(5) == 0 {
			v.Set(reflect.Zero(v.Type())) // nil slice
			return
		}
		n := genArrayLen(r)
		s := reflect.MakeSlice(v.Type(), n, n)
		for i := 0; i < n; i++ {
			fillRandom(r, s.Index(i), recVersion)
		}
		v.Set(s)
	case reflect.Struct:
		for i := 0; i < v.NumField(); i++ {
			f := v.Type().Field(i)
			if f.PkgPath != "" || f.Name == "_" || f.Type.Size() == 0 {
				continue
			}
			fillRandom(r, v.Field(i), recVersion)
		}
	default:
		panic("fillRandom: unsupported kind " + v.Kind().String())
	}
}

func drainRecords(rr protocol.RecordReader) ([]memRecord, error) {
	var out []memRecord
	if rr == nil {
		return nil, nil
	}
	for {
		rec, err := rr.ReadRecord()
		if err != nil {
			if err == io.EOF {
				return out, nil
			}
			return out, err
		}
		k, _ := protocol.ReadAll(rec.Key)
		v, _ := protocol.ReadAll(rec.Value)
		out = append(out, memRecord{Offset: rec.Offset, Time: rec.Time.UnixMilli(), Key: k, Value: v,
			Headers: append([]protocol.Header(nil), rec.Headers...)})
	}
}

// kgoEqual compares two kafka-go values; nil and empty slices are equal (the
// library cannot tell them apart), record sets are compared record by record.
func kgoEqual(a, b reflect.Value) error {
	if a.Type() != b.Type() {
		return fmt.Errorf("types %s / %s", a.Type(), b.Type())
	}
	if a.Type() == recordSetType {
		ra, rb := a.Interface().(protocol.RecordSet), b.Interface().(protocol.RecordSet)
		if ra.Version != rb.Version || ra.Attributes != rb.Attributes {
			return fmt.Errorf("record set version/attributes %d/%d vs %d/%d", ra.Version, ra.Attributes, rb.Version, rb.Attributes)
		}
		la, err := drainRecords(ra.Records)
		if err != nil {
			return err
		}
		lb, err := drainRecords(rb.Records)
		if err != nil {
			return err
		}
		if len(la) != len(lb) {
			return fmt.Errorf("%d vs %d records", len(la), len(lb))
		}
		for i := range la {
			x, y := la[i], lb[i]
			if x.Offset != y.Offset || x.Time != y.Time || !bytes.Equal(x.Key, y.Key) || (x.Key == nil) != (y.Key == nil) ||
				!bytes.Equal(x.Value, y.Value) || (x.Value == nil) != (y.Value == nil) || len(x.Headers) != len(y.Headers) {
				return fmt.Errorf("record %d: %+v vs %+v", i, x, y)
			}
			for j := range x.Headers {
				if x.Headers[j].Key != y.Headers[j].Key || !bytes.Equal(x.Headers[j].Value, y.Headers[j].Value) {
					return fmt.Errorf("record %d header %d differs", i, j)
				}
			}
		}
		return nil
	}
	switch a.Kind() {
	case reflect.Ptr:
		if a.IsNil() || b.IsNil() {
			if a.IsNil() != b.IsNil() {
				return fmt.Errorf("nil pointer mismatch")
			}
			return nil
		}
		return kgoEqual(a.Elem(), b.Elem())
	case reflect.Struct:
		for i := 0; i < a.NumField(); i++ {
			f := a.Type().Field(i)
			if f.PkgPath != "" || f.Name == "_" {
				continue
			}
			if err := kgoEqual(a.Field(i), b.Field(i)); err != nil {
				return fmt.Errorf("%s: %w", f.Name, err)
			}
		}
		return nil
	case reflect.Slice:
		if a.Len() != b.Len() {
			return fmt.Errorf("slice lengths %d vs %d", a.Len(), b.Len())
		}
		for i := 0; i < a.Len(); i++ {
			if err := kgoEqual(a.Index(i), b.Index(i)); err != nil {
				return fmt.Errorf("[%d]: %w", i, err)
			}
		}
		return nil
	default:
		if !reflect.DeepEqual(a.Interface(), b.Interface()) {
			return fmt.Errorf("%v vs %v", a.Interface(), b.Interface())
		}
		return nil
	}
}

func recVersionFor(apiKey, ver int16) int8 {
	// Produce v3+ / Fetch v4+ carry record batches (magic 2); older versions
	// carry message sets.
	if (apiKey == 0 && ver >= 3) || (apiKey == 1 && ver >= 4) {
		return 2
	}
	return 1
}

// crossFindings collects disagreements: key -> first example.
type crossFindings struct {
	m map[string]string
}

func (c *crossFindings) add(key, detail string) {
	if c.m == nil {
		c.m = map[string]string{}
	}
	if _, ok := c.m[key]; !ok {
		c.m[key] = detail
	}
}

func (c *crossFindings) keys() []string {
	var ks []string
	for k := range c.m {
		ks = append(ks, k)
	}
	sort.Strings(ks)
	return ks
}

// classify turns a refcodec strict-decode error into a stable finding key.
func classify(api *API, ver int16, dir string, err error) string {
	msg := err.Error()
	if i := strings.Index(msg, dir+": "); i >= 0 {
		msg = msg[i+len(dir)+2:]
	}
	// drop array indexes and numbers so that the key is stable
	var sb strings.Builder
	for i := 0; i < len(msg); i++ {
		c := msg[i]
		if c == '[' {
			if j := strings.IndexByte(msg[i:], ']'); j > 0 {
				i += j
				continue
			}
		}
		sb.WriteByte(c)
	}
	msg = sb.String()
	if i := strings.Index(msg, " at offset"); i >= 0 {
		msg = msg[:i]
	}
	if i := strings.Index(msg, " (offset"); i >= 0 {
		msg = msg[:i]
	}
	if i := strings.Index(msg, " in version"); i >= 0 {
		msg = msg[:i]
	}
	return fmt.Sprintf("%s %s: %s", api.Name, dir, msg)
}

// knownForward lists the disagreements found by TestCrossKafkaGoForward; each
// is triaged in DISAGREEMENTS.md. Key -> versions affected.
var knownForward = map[string]string{
	// (DISAGREEMENTS.md #1, #2, #3 - null topic arrays in Metadata v0 and
	// OffsetFetch v0-v1 requests, "" written as a null array element - and #10
	// - the same for DescribeConfigs configuration_keys - were repaired in
	// kafka-go; they must not occur any more, which this test enforces because
	// every finding that is not listed here is an error.)
	// DISAGREEMENTS.md #9 (the filter is wrapped in a struct with its own tag buffer)
	"DescribeAcls request: 1 trailing bytes after the last field": "v2-v3",
}

func TestCrossKafkaGoForward(t *testing.T) {
	rng := rand.New(rand.NewSource(42))
	found := &crossFindings{}
	versionsOf := map[string][]int16{}
	covered := 0
	for _, pair := range kgoAPIs {
		key := int16(pair.req.ApiKey())
		api := Lookup(key)
		if api == nil {
			t.Fatalf("refcodec lacks api %d", key)
		}
		kmin, kmax := protocol.ApiKey(key).MinVersion(), protocol.ApiKey(key).MaxVersion()
		lo, hi := max(kmin, api.MinVersion), min(kmax, api.MaxVersion)
		if lo > hi {
			t.Errorf("%s: no common version (kafka-go %d-%d)", api.Name, kmin, kmax)
			continue
		}
		t.Logf("%-16s kafka-go v%d-v%d, refcodec v%d-v%d", api.Name, kmin, kmax, api.MinVersion, api.MaxVersion)
		for ver := lo; ver <= hi; ver++ {
			covered++
			for it := 0; it < 40; it++ {
				// ------------------------------------------------ request
				req := reflect.New(reflect.TypeOf(pair.req).Elem())
				fillRandom(rng, req.Elem(), recVersionFor(key, ver))
				clientID := genString(rng, genOpts{noMaxStrings: true})
				corr := int32(rng.Uint32())
				var b1 bytes.Buffer
				if err := protocol.WriteRequest(&b1, ver, corr, clientID, req.Interface().(protocol.Message)); err != nil {
					t.Fatalf("%s v%d: kafka-go WriteRequest: %v", api.Name, ver, err)
				}
				frame1 := b1.Bytes()
				h, _, body, err := DecodeRequest(frame1[4:])
				if err != nil {
					k := classify(api, ver, "request", err)
					found.add(k, fmt.Sprintf("v%d: %v", ver, err))
					versionsOf[k] = appendVer(versionsOf[k], ver)
				} else {
					wantClient := clientID
					if h.CorrelationID != corr || h.APIKey != key || h.APIVersion != ver {
						t.Fatalf("%s v%d: header %+v", api.Name, ver, h)
					}
					if h.ClientID == nil {
						// kafka-go writes "" as null in flexible headers
						if !(api.Flexible(ver) && wantClient == "") {
							t.Fatalf("%s v%d: null client id for %q", api.Name, ver, wantClient)
						}
					} else if *h.ClientID != wantClient {
						t.Fatalf("%s v%d: client id %q vs %q", api.Name, ver, *h.ClientID, wantClient)
					}
					frame2, err := EncodeRequest(h, body)
					if err != nil {
						t.Fatalf("%s v%d: re-encode: %v", api.Name, ver, err)
					}
					if !bytes.Equal(frame1, frame2) {
						t.Fatalf("%s v%d request: refcodec re-encoding differs:\n kafka-go %x\n refcodec %x", api.Name, ver, frame1, frame2)
					}
					v1, c1, id1, m1, err1 := protocol.ReadRequest(bytes.NewReader(frame1))
					v2, c2, id2, m2, err2 := protocol.ReadRequest(bytes.NewReader(frame2))
					if err1 != nil || err2 != nil {
						t.Fatalf("%s v%d: kafka-go ReadRequest: %v / %v", api.Name, ver, err1, err2)
					}
					if v1 != v2 || c1 != c2 || id1 != id2 {
						t.Fatalf("%s v%d: kafka-go header mismatch", api.Name, ver)
					}
					if err := kgoEqual(reflect.ValueOf(m1), reflect.ValueOf(m2)); err != nil {
						t.Fatalf("%s v%d request: %v", api.Name, ver, err)
					}
				}

				// ------------------------------------------------ response
				res := reflect.New(reflect.TypeOf(pair.res).Elem())
				fillRandom(rng, res.Elem(), recVersionFor(key, ver))
				var r1 bytes.Buffer
				if err := protocol.WriteResponse(&r1, ver, corr, res.Interface().(protocol.Message)); err != nil {
					t.Fatalf("%s v%d: kafka-go WriteResponse: %v", api.Name, ver, err)
				}
				rframe1 := r1.Bytes()
				gotCorr, rbody, err := DecodeResponse(key, ver, rframe1[4:])
				if err != nil {
					k := classify(api, ver, "response", err)
					found.add(k, fmt.Sprintf("v%d: %v", ver, err))
					versionsOf[k] = appendVer(versionsOf[k], ver)
					continue
				}
				if gotCorr != corr {
					t.Fatalf("%s v%d: correlation id", api.Name, ver)
				}
				rframe2, lens, err := EncodeResponse(key, ver, corr, rbody, nil)
				if err != nil {
					t.Fatalf("%s v%d: re-encode: %v", api.Name, ver, err)
				}
				checkLenFields(t, api.Name, rframe2, lens, rbody)
				if !bytes.Equal(rframe1, rframe2) {
					// Only allowed difference: kafka-go writes tagged fields that hold
					// their default value, Kafka (and refcodec) omit them.
					k := fmt.Sprintf("%s response: kafka-go writes tagged fields holding their default", api.Name)
					found.add(k, fmt.Sprintf("v%d", ver))
					versionsOf[k] = appendVer(versionsOf[k], ver)
					if len(rframe2) >= len(rframe1) {
						t.Fatalf("%s v%d response: refcodec re-encoding differs:\n kafka-go %x\n refcodec %x", api.Name, ver, rframe1, rframe2)
					}
				}
				_, m1, err1 := protocol.ReadResponse(bytes.NewReader(rframe1), protocol.ApiKey(key), ver)
				_, m2, err2 := protocol.ReadResponse(bytes.NewReader(rframe2), protocol.ApiKey(key), ver)
				if err1 != nil || err2 != nil {
					t.Fatalf("%s v%d: kafka-go ReadResponse: %v / %v", api.Name, ver, err1, err2)
				}
				if err := kgoEqual(reflect.ValueOf(m1), reflect.ValueOf(m2)); err != nil {
					t.Fatalf("%s v%d response: %v", api.Name, ver, err)
				}
			}
		}
	}
	t.Logf("%d api versions cross-validated", covered)
	for _, k := range found.keys() {
		t.Logf("DISAGREEMENT %s  [versions %v]  e.g. %s", k, versionsOf[k], found.m[k])
		if _, ok := knownForward[k]; !ok {
			t.Errorf("untriaged disagreement: %s (%s)", k, found.m[k])
		}
	}
	for k := range knownForward {
		if _, ok := found.m[k]; !ok {
			t.Errorf("disagreement listed as known did not occur: %s", k)
		}
	}
}

func appendVer(s []int16, v int16) []int16 {
	for _, x := range s {
		if x == v {
			return s
		}
	}
	return append(s, v)
}
