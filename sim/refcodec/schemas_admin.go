package refcodec

func init() {
	// SaslHandshakeRequest.json / SaslHandshakeResponse.json (never flexible)
	register(`
api SaslHandshake 17 0-1 flex=none
req
  mechanism string 0+
res
  error_code int16 0+
  mechanisms []string 0+
`)

	// ApiVersionsRequest.json / ApiVersionsResponse.json
	// NB: the response header of ApiVersions is always v0 (see API.ResponseHeaderVersion).
	register(`
api ApiVersions 18 0-3 flex=3
req
  client_software_name string 3+
  client_software_version string 3+
res
  error_code int16 0+
  api_keys [] 0+
    api_key int16 0+
    min_version int16 0+
    max_version int16 0+
  throttle_time_ms int32 1+
  supported_features [] 3+ tag=0
    name string 3+
    min_version int16 3+
    max_version int16 3+
  finalized_features_epoch int64 3+ tag=1 default=-1
  finalized_features [] 3+ tag=2
    name string 3+
    max_version_level int16 3+
    min_version_level int16 3+
  zk_migration_ready bool 3+ tag=3
`)

	// CreateTopicsRequest.json / CreateTopicsResponse.json
	register(`
api CreateTopics 19 0-5 flex=5
req
  topics [] 0+
    name string 0+
    num_partitions int32 0+
    replication_factor int16 0+
    assignments [] 0+
      partition_index int32 0+
      broker_ids []int32 0+
    configs [] 0+
      name string 0+
      value string 0+ null=0+
  timeout_ms int32 0+ default=60000
  validate_only bool 1+
res
  throttle_time_ms int32 2+
  topics [] 0+
    name string 0+
    error_code int16 0+
    error_message string 1+ null=1+
    topic_config_error_code int16 5+ tag=0
    num_partitions int32 5+ default=-1
    replication_factor int16 5+ default=-1
    configs [] 5+ null=5+
      name string 5+
      value string 5+ null=5+
      read_only bool 5+
      config_source int8 5+ default=-1
      is_sensitive bool 5+
`)

	// DeleteTopicsRequest.json / DeleteTopicsResponse.json
	register(`
api DeleteTopics 20 0-4 flex=4
req
  topic_names []string 0+
  timeout_ms int32 0+
res
  throttle_time_ms int32 1+
  responses [] 0+
    name string 0+
    error_code int16 0+
`)

	// InitProducerIdRequest.json / InitProducerIdResponse.json
	register(`
api InitProducerId 22 0-4 flex=2
req
  transactional_id string 0+ null=0+
  transaction_timeout_ms int32 0+
  producer_id int64 3+ default=-1
  producer_epoch int16 3+ default=-1
res
  throttle_time_ms int32 0+
  error_code int16 0+
  producer_id int64 0+ default=-1
  producer_epoch int16 0+
`)

	// SaslAuthenticateRequest.json / SaslAuthenticateResponse.json
	register(`
api SaslAuthenticate 36 0-2 flex=2
req
  auth_bytes bytes 0+
res
  error_code int16 0+
  error_message string 0+ null=0+
  auth_bytes bytes 0+
  session_lifetime_ms int64 1+
`)

	// CreatePartitionsRequest.json / CreatePartitionsResponse.json
	register(`
api CreatePartitions 37 0-3 flex=2
req
  topics [] 0+
    name string 0+
    count int32 0+
    assignments [] 0+ null=0+
      broker_ids []int32 0+
  timeout_ms int32 0+
  validate_only bool 0+
res
  throttle_time_ms int32 0+
  results [] 0+
    name string 0+
    error_code int16 0+
    error_message string 0+ null=0+ default=null
`)
}
