package refcodec

import (
	"bytes"
	"encoding/binary"
	"encoding/hex"
	"reflect"
	"strings"
	"testing"
)

// Golden bytes assembled by hand from the Kafka protocol guide
// (https://kafka.apache.org/protocol) - independent of kafka-go.

func unhex(t *testing.T, s string) []byte {
	t.Helper()
	var sb strings.Builder
	for _, line := range strings.Split(s, "\n") {
		if i := strings.Index(line, "//"); i >= 0 {
			line = line[:i]
		}
		sb.WriteString(strings.Join(strings.Fields(line), ""))
	}
	b, err := hex.DecodeString(sb.String())
	if err != nil {
		t.Fatalf("bad hex: %v", err)
	}
	return b
}

func sp(s string) *string { return &s }

type goldenReq struct {
	name string
	hex  string
	h    RequestHeader
	body Msg
}

func TestGoldenRequests(t *testing.T) {
	cases := []goldenReq{
		{
			name: "ApiVersions v0",
			hex: `0000000c            // size 12
			      0012 0000 0000002a  // api_key 18, version 0, correlation id 42
			      0002 6d65           // client id "me"`,
			h:    RequestHeader{APIKey: 18, APIVersion: 0, CorrelationID: 42, ClientID: sp("me")},
			body: Msg{},
		},
		{
			name: "ApiVersions v3 (request header v2, compact strings)",
			hex: `0000001c
			      0012 0003 00000001
			      0001 63             // client id "c": still an int16 string in header v2
			      00                  // header tagged fields
			      09 6b61666b612d676f // client_software_name "kafka-go" (len+1)
			      06 302e342e30       // client_software_version "0.4.0"
			      00                  // body tagged fields`,
			h:    RequestHeader{APIKey: 18, APIVersion: 3, CorrelationID: 1, ClientID: sp("c"), Flexible: true},
			body: Msg{"client_software_name": "kafka-go", "client_software_version": "0.4.0"},
		},
		{
			name: "Metadata v1, one topic",
			hex: `00000015
			      0003 0001 00000007
			      0003 636964         // client id "cid"
			      00000001            // 1 topic
			      0002 7431           // "t1"`,
			h:    RequestHeader{APIKey: 3, APIVersion: 1, CorrelationID: 7, ClientID: sp("cid")},
			body: Msg{"topics": []Msg{{"name": "t1"}}},
		},
		{
			name: "Metadata v1, all topics (null array), null client id",
			hex: `0000000e
			      0003 0001 00000008
			      ffff
			      ffffffff`,
			h:    RequestHeader{APIKey: 3, APIVersion: 1, CorrelationID: 8},
			body: Msg{"topics": nil},
		},
		{
			name: "Metadata v0, all topics (empty array)",
			hex: `0000000e
			      0003 0000 00000008
			      0000
			      00000000`,
			h:    RequestHeader{APIKey: 3, APIVersion: 0, CorrelationID: 8, ClientID: sp("")},
			body: Msg{"topics": []Msg{}},
		},
		{
			name: "Produce v3, null transactional id",
			hex: `0000002b
			      0000 0003 00000002
			      0001 70             // client id "p"
			      ffff                // transactional_id null
			      ffff                // acks -1
			      000005dc            // timeout 1500
			      00000001            // 1 topic
			      0001 74             // "t"
			      00000001            // 1 partition
			      00000003            // index 3
			      00000005 0102030405 // records: 5 raw bytes`,
			h: RequestHeader{APIKey: 0, APIVersion: 3, CorrelationID: 2, ClientID: sp("p")},
			body: Msg{"transactional_id": nil, "acks": int16(-1), "timeout_ms": int32(1500),
				"topic_data": []Msg{{"name": "t", "partition_data": []Msg{{"index": int32(3), "records": []byte{1, 2, 3, 4, 5}}}}}},
		},
		{
			name: "ListOffsets v0 (max_num_offsets)",
			hex: `0000002a
			      0002 0000 00000003
			      0001 6c
			      ffffffff            // replica_id -1
			      00000001 0001 74
			      00000001
			      00000000            // partition 0
			      fffffffffffffffe    // timestamp -2 (earliest)
			      00000001            // max_num_offsets 1`,
			h: RequestHeader{APIKey: 2, APIVersion: 0, CorrelationID: 3, ClientID: sp("l")},
			body: Msg{"replica_id": int32(-1), "topics": []Msg{{"name": "t", "partitions": []Msg{{
				"partition_index": int32(0), "timestamp": int64(-2), "max_num_offsets": int32(1)}}}}},
		},
		{
			name: "ListOffsets v1 (no max_num_offsets)",
			hex: `00000026
			      0002 0001 00000003
			      0001 6c
			      ffffffff
			      00000001 0001 74
			      00000001
			      00000000
			      ffffffffffffffff    // timestamp -1 (latest)`,
			h: RequestHeader{APIKey: 2, APIVersion: 1, CorrelationID: 3, ClientID: sp("l")},
			body: Msg{"replica_id": int32(-1), "topics": []Msg{{"name": "t", "partitions": []Msg{{
				"partition_index": int32(0), "timestamp": int64(-1)}}}}},
		},
		{
			name: "JoinGroup v0 (no rebalance timeout)",
			hex: `0000002f
			      000b 0000 00000004
			      0001 6a
			      0001 67             // group "g"
			      00007530            // session timeout 30000
			      0000                // member id ""
			      0008 636f6e73756d6572 // protocol type "consumer"
			      00000001
			      0005 72616e6765     // "range"
			      00000002 aabb       // metadata`,
			h: RequestHeader{APIKey: 11, APIVersion: 0, CorrelationID: 4, ClientID: sp("j")},
			body: Msg{"group_id": "g", "session_timeout_ms": int32(30000), "member_id": "", "protocol_type": "consumer",
				"protocols": []Msg{{"name": "range", "metadata": []byte{0xaa, 0xbb}}}},
		},
		{
			name: "JoinGroup v1 (rebalance timeout after session timeout)",
			hex: `00000033
			      000b 0001 00000004
			      0001 6a
			      0001 67
			      00007530
			      0000ea60            // rebalance timeout 60000
			      0000
			      0008 636f6e73756d6572
			      00000001
			      0005 72616e6765
			      00000002 aabb`,
			h: RequestHeader{APIKey: 11, APIVersion: 1, CorrelationID: 4, ClientID: sp("j")},
			body: Msg{"group_id": "g", "session_timeout_ms": int32(30000), "rebalance_timeout_ms": int32(60000),
				"member_id": "", "protocol_type": "consumer",
				"protocols": []Msg{{"name": "range", "metadata": []byte{0xaa, 0xbb}}}},
		},
		{
			name: "OffsetCommit v1 (per-partition commit_timestamp)",
			hex: `00000038
			      0008 0001 00000005
			      0001 6f
			      0001 67             // group
			      00000002            // generation 2
			      0001 6d             // member "m"
			      00000001 0001 74
			      00000001
			      00000000            // partition 0
			      000000000000002a    // offset 42
			      00000000000003e8    // commit_timestamp 1000
			      0002 6d64           // metadata "md"`,
			h: RequestHeader{APIKey: 8, APIVersion: 1, CorrelationID: 5, ClientID: sp("o")},
			body: Msg{"group_id": "g", "generation_id": int32(2), "member_id": "m", "topics": []Msg{{"name": "t",
				"partitions": []Msg{{"partition_index": int32(0), "committed_offset": int64(42), "commit_timestamp": int64(1000),
					"committed_metadata": "md"}}}}},
		},
		{
			name: "OffsetCommit v2 (retention_time_ms, null metadata)",
			hex: `00000036
			      0008 0002 00000005
			      0001 6f
			      0001 67
			      00000002
			      0001 6d
			      ffffffffffffffff    // retention_time_ms -1
			      00000001 0001 74
			      00000001
			      00000000
			      000000000000002a
			      ffff                // metadata null`,
			h: RequestHeader{APIKey: 8, APIVersion: 2, CorrelationID: 5, ClientID: sp("o")},
			body: Msg{"group_id": "g", "generation_id": int32(2), "member_id": "m", "retention_time_ms": int64(-1),
				"topics": []Msg{{"name": "t", "partitions": []Msg{{"partition_index": int32(0), "committed_offset": int64(42),
					"committed_metadata": nil}}}}},
		},
		{
			name: "Heartbeat v4 (flexible)",
			hex: `00000016
			      000c 0004 00000006
			      0001 68
			      00                  // header tags
			      02 67               // group "g"
			      00000009            // generation
			      02 6d               // member "m"
			      00                  // group_instance_id null
			      00                  // tags`,
			h:    RequestHeader{APIKey: 12, APIVersion: 4, CorrelationID: 6, ClientID: sp("h"), Flexible: true},
			body: Msg{"group_id": "g", "generation_id": int32(9), "member_id": "m", "group_instance_id": nil},
		},
		{
			name: "Fetch v4",
			hex: `00000037
			      0001 0004 00000007
			      0001 66
			      ffffffff            // replica -1
			      000001f4            // max wait 500
			      00000001            // min bytes
			      00100000            // max bytes
			      01                  // isolation level read_committed
			      00000001 0001 74
			      00000001
			      00000002            // partition 2
			      0000000000000064    // fetch offset 100
			      00010000            // partition max bytes`,
			h: RequestHeader{APIKey: 1, APIVersion: 4, CorrelationID: 7, ClientID: sp("f")},
			body: Msg{"replica_id": int32(-1), "max_wait_ms": int32(500), "min_bytes": int32(1), "max_bytes": int32(0x100000),
				"isolation_level": int8(1), "topics": []Msg{{"topic": "t", "partitions": []Msg{{"partition": int32(2),
					"fetch_offset": int64(100), "partition_max_bytes": int32(0x10000)}}}}},
		},
		{
			name: "ListGroups v4 (flexible, states filter)",
			hex: `00000015
			      0010 0004 00000001
			      0001 63 00
			      02 07 537461626c65  // states_filter ["Stable"]
			      00`,
			h:    RequestHeader{APIKey: 16, APIVersion: 4, CorrelationID: 1, ClientID: sp("c"), Flexible: true},
			body: Msg{"states_filter": []any{"Stable"}},
		},
		{
			name: "DeleteTopics v4 (flexible)",
			hex: `00000015
			      0014 0004 00000002
			      0001 63 00
			      02 03 7431          // topic_names ["t1"]
			      00007530            // timeout
			      00`,
			h:    RequestHeader{APIKey: 20, APIVersion: 4, CorrelationID: 2, ClientID: sp("c"), Flexible: true},
			body: Msg{"topic_names": []any{"t1"}, "timeout_ms": int32(30000)},
		},
		{
			name: "SaslAuthenticate v2 (flexible)",
			hex: `00000011
			      0024 0002 00000003
			      0001 63 00
			      04 010203           // auth_bytes
			      00`,
			h:    RequestHeader{APIKey: 36, APIVersion: 2, CorrelationID: 3, ClientID: sp("c"), Flexible: true},
			body: Msg{"auth_bytes": []byte{1, 2, 3}},
		},
		{
			name: "CreatePartitions v2 (flexible, null assignments)",
			hex: `0000001b
			      0025 0002 00000004
			      0001 63 00
			      02                  // 1 topic
			      02 74 00000003 00 00 // "t", count 3, assignments null, tags
			      00000064 01         // timeout 100, validate_only
			      00`,
			h:    RequestHeader{APIKey: 37, APIVersion: 2, CorrelationID: 4, ClientID: sp("c"), Flexible: true},
			body: Msg{"topics": []Msg{{"name": "t", "count": int32(3), "assignments": nil}}, "timeout_ms": int32(100), "validate_only": true},
		},
	}
	for _, c := range cases {
		checkGoldenRequest(t, c)
	}
}

// checkGoldenRequest checks that the body encodes to exactly the golden bytes
// and that the golden bytes strictly decode to exactly the header and body.
func checkGoldenRequest(t *testing.T, c goldenReq) {
	t.Helper()
	want := unhex(t, c.hex)
	if int(binary.BigEndian.Uint32(want)) != len(want)-4 {
		t.Errorf("%s: golden frame has a wrong size prefix (%d vs %d bytes)", c.name, binary.BigEndian.Uint32(want), len(want)-4)
		return
	}
	got, err := EncodeRequest(c.h, c.body)
	if err != nil {
		t.Errorf("%s: encode: %v", c.name, err)
		return
	}
	if !bytes.Equal(got, want) {
		t.Errorf("%s: encode:\n got  %x\n want %x", c.name, got, want)
	}
	h, _, body, err := DecodeRequest(want[4:])
	if err != nil {
		t.Errorf("%s: decode: %v", c.name, err)
		return
	}
	if !reflect.DeepEqual(h, c.h) {
		t.Errorf("%s: header: got %+v want %+v", c.name, h, c.h)
	}
	if !reflect.DeepEqual(body, c.body) {
		t.Errorf("%s: body:\n got  %v\n want %v", c.name, body, c.body)
	}
}

type goldenRes struct {
	name     string
	key, ver int16
	corr     int32
	hex      string
	body     Msg
}

func TestGoldenResponses(t *testing.T) {
	cases := []goldenRes{
		{
			name: "ApiVersions v0", key: 18, ver: 0, corr: 42,
			hex: `00000016 0000002a
			      0000                // error
			      00000002
			      0000 0000 0008      // Produce 0..8
			      0012 0000 0003      // ApiVersions 0..3`,
			body: Msg{"error_code": int16(0), "api_keys": []Msg{
				{"api_key": int16(0), "min_version": int16(0), "max_version": int16(8)},
				{"api_key": int16(18), "min_version": int16(0), "max_version": int16(3)}}},
		},
		{
			name: "ListOffsets v0 (old_style_offsets)", key: 2, ver: 0, corr: 3,
			hex: `00000029 00000003
			      00000001 0001 74
			      00000001
			      00000000            // partition
			      0000                // error
			      00000002 0000000000000064 0000000000000000 // offsets [100, 0]`,
			body: Msg{"topics": []Msg{{"name": "t", "partitions": []Msg{{"partition_index": int32(0), "error_code": int16(0),
				"old_style_offsets": []any{int64(100), int64(0)}}}}}},
		},
		{
			name: "ListOffsets v1", key: 2, ver: 1, corr: 3,
			hex: `00000025 00000003
			      00000001 0001 74
			      00000001
			      00000000 0000
			      ffffffffffffffff    // timestamp -1
			      0000000000000064    // offset`,
			body: Msg{"topics": []Msg{{"name": "t", "partitions": []Msg{{"partition_index": int32(0), "error_code": int16(0),
				"timestamp": int64(-1), "offset": int64(100)}}}}},
		},
		{
			name: "Fetch v4 (null aborted_transactions, null records)", key: 1, ver: 4, corr: 7,
			hex: `00000031 00000007
			      00000000            // throttle
			      00000001 0001 74
			      00000001
			      00000002            // partition 2
			      0003                // error 3
			      0000000000000064    // high watermark
			      0000000000000063    // last stable offset
			      ffffffff            // aborted transactions: null
			      ffffffff            // records: null`,
			body: Msg{"throttle_time_ms": int32(0), "responses": []Msg{{"topic": "t", "partitions": []Msg{{
				"partition_index": int32(2), "error_code": int16(3), "high_watermark": int64(100), "last_stable_offset": int64(99),
				"aborted_transactions": nil, "records": nil}}}}},
		},
		{
			name: "Fetch v0", key: 1, ver: 0, corr: 7,
			hex: `00000024 00000007
			      00000001 0001 74
			      00000001
			      00000002 0000
			      0000000000000064
			      00000003 010203`,
			body: Msg{"responses": []Msg{{"topic": "t", "partitions": []Msg{{
				"partition_index": int32(2), "error_code": int16(0), "high_watermark": int64(100), "records": []byte{1, 2, 3}}}}}},
		},
		{
			name: "Produce v2 (throttle after responses)", key: 0, ver: 2, corr: 2,
			hex: `00000029 00000002
			      00000001 0001 74
			      00000001
			      00000003 0000
			      000000000000000a    // base offset 10
			      ffffffffffffffff    // log append time -1
			      00000005            // throttle`,
			body: Msg{"responses": []Msg{{"name": "t", "partition_responses": []Msg{{"index": int32(3), "error_code": int16(0),
				"base_offset": int64(10), "log_append_time_ms": int64(-1)}}}}, "throttle_time_ms": int32(5)},
		},
		{
			name: "Metadata v1", key: 3, ver: 1, corr: 7,
			hex: `00000047 00000007
			      00000001
			      00000001 0002 6831 00002384 ffff // broker 1 "h1":9092, rack null
			      00000001            // controller
			      00000001
			      0000 0002 7431 00   // topic "t1", not internal
			      00000001
			      0000 00000000 00000001 // partition 0 leader 1
			      00000002 00000001 00000002 // replicas
			      00000001 00000001   // isr`,
			body: Msg{"brokers": []Msg{{"node_id": int32(1), "host": "h1", "port": int32(9092), "rack": nil}},
				"controller_id": int32(1), "topics": []Msg{{"error_code": int16(0), "name": "t1", "is_internal": false,
					"partitions": []Msg{{"error_code": int16(0), "partition_index": int32(0), "leader_id": int32(1),
						"replica_nodes": []any{int32(1), int32(2)}, "isr_nodes": []any{int32(1)}}}}}},
		},
		{
			name: "FindCoordinator v1", key: 10, ver: 1, corr: 9,
			hex: `00000018 00000009
			      00000000 0000 ffff  // throttle, error, message null
			      00000002 0002 6832 00002385`,
			body: Msg{"throttle_time_ms": int32(0), "error_code": int16(0), "error_message": nil, "node_id": int32(2),
				"host": "h2", "port": int32(9093)},
		},
		{
			name: "JoinGroup v6 (flexible, response header v1)", key: 11, ver: 6, corr: 4,
			hex: `00000022 00000004
			      00                  // header tags
			      00000000 0000       // throttle, error
			      00000001            // generation
			      06 72616e6765       // protocol "range"
			      02 6d               // leader "m"
			      02 6d               // member id "m"
			      02                  // 1 member
			      02 6d 00 03 aabb 00 // "m", instance null, metadata, tags
			      00`,
			body: Msg{"throttle_time_ms": int32(0), "error_code": int16(0), "generation_id": int32(1), "protocol_name": "range",
				"leader": "m", "member_id": "m", "members": []Msg{{"member_id": "m", "group_instance_id": nil, "metadata": []byte{0xaa, 0xbb}}}},
		},
		{
			name: "SaslHandshake v1", key: 17, ver: 1, corr: 1,
			hex: `00000011 00000001
			      0000 00000001 0005 504c41494e`,
			body: Msg{"error_code": int16(0), "mechanisms": []any{"PLAIN"}},
		},
		{
			name: "ListGroups v4 (flexible)", key: 16, ver: 4, corr: 1,
			hex: `00000020 00000001 00
			      00000000 0000
			      02
			      02 67 09 636f6e73756d6572 07 537461626c65 00
			      00`,
			body: Msg{"throttle_time_ms": int32(0), "error_code": int16(0),
				"groups": []Msg{{"group_id": "g", "protocol_type": "consumer", "group_state": "Stable"}}},
		},
		{
			name: "DeleteTopics v4 (flexible)", key: 20, ver: 4, corr: 2,
			hex: `00000011 00000002 00
			      00000000
			      02 03 7431 0003 00
			      00`,
			body: Msg{"throttle_time_ms": int32(0), "responses": []Msg{{"name": "t1", "error_code": int16(3)}}},
		},
		{
			name: "SaslAuthenticate v2 (flexible)", key: 36, ver: 2, corr: 3,
			hex: `00000012 00000003 00
			      0000 00 01
			      0000000000000e10    // session lifetime 3600
			      00`,
			body: Msg{"error_code": int16(0), "error_message": nil, "auth_bytes": []byte{}, "session_lifetime_ms": int64(3600)},
		},
		{
			name: "CreatePartitions v2 (flexible)", key: 37, ver: 2, corr: 4,
			hex: `00000011 00000004 00
			      00000000
			      02 02 74 0000 00 00
			      00`,
			body: Msg{"throttle_time_ms": int32(0), "results": []Msg{{"name": "t", "error_code": int16(0), "error_message": nil}}},
		},
	}
	for _, c := range cases {
		checkGoldenResponse(t, c)
	}
}

func checkGoldenResponse(t *testing.T, c goldenRes) {
	t.Helper()
	want := unhex(t, c.hex)
	if int(binary.BigEndian.Uint32(want)) != len(want)-4 {
		t.Errorf("%s: golden frame has a wrong size prefix (%#x vs %#x bytes)", c.name, binary.BigEndian.Uint32(want), len(want)-4)
		return
	}
	got, lens, err := EncodeResponse(c.key, c.ver, c.corr, c.body, nil)
	if err != nil {
		t.Errorf("%s: encode: %v", c.name, err)
		return
	}
	if !bytes.Equal(got, want) {
		t.Errorf("%s: encode:\n got  %x\n want %x", c.name, got, want)
		return
	}
	checkLenFields(t, c.name, got, lens, c.body)
	corr, body, err := DecodeResponse(c.key, c.ver, want[4:])
	if err != nil {
		t.Errorf("%s: decode: %v", c.name, err)
		return
	}
	if corr != c.corr || !reflect.DeepEqual(body, c.body) {
		t.Errorf("%s: body:\n got  %v\n want %v", c.name, body, c.body)
	}
}

// ---- hand-written checksums (bitwise, reflected) ----

func crcBitwise(poly uint32, data []byte) uint32 {
	crc := ^uint32(0)
	for _, b := range data {
		crc ^= uint32(b)
		for i := 0; i < 8; i++ {
			if crc&1 != 0 {
				crc = crc>>1 ^ poly
			} else {
				crc >>= 1
			}
		}
	}
	return ^crc
}

func crc32cBitwise(data []byte) uint32    { return crcBitwise(0x82F63B78, data) } // Castagnoli, reflected
func crc32IEEEBitwise(data []byte) uint32 { return crcBitwise(0xEDB88320, data) }

func TestGoldenRecordBatchV2(t *testing.T) {
	if crc32cBitwise([]byte("123456789")) != 0xE3069283 || crc32IEEEBitwise([]byte("123456789")) != 0xCBF43926 {
		t.Fatal("hand-written CRCs do not reproduce the standard check values")
	}
	raw := unhex(t, `
		0000000000000064    // base offset 100
		0000003e            // batch length 62 = 74 - 12
		00000005            // partition leader epoch 5
		02                  // magic
		00000000            // crc (filled below)
		0000                // attributes
		00000000            // last offset delta
		00000000000003e8    // first timestamp 1000
		00000000000003e8    // max timestamp 1000
		ffffffffffffffff    // producer id -1
		ffff                // producer epoch -1
		ffffffff            // base sequence -1
		00000001            // 1 record
		18                  // record length 12 (zigzag 24)
		00                  // attributes
		00                  // timestamp delta 0
		00                  // offset delta 0
		02 6b               // key "k" (zigzag 2 = 1)
		04 7676             // value "vv"
		02                  // 1 header
		02 68               // header key "h"
		01                  // header value null (zigzag 1 = -1)
	`)
	if len(raw) != 74 {
		t.Fatalf("golden batch has %d bytes", len(raw))
	}
	binary.BigEndian.PutUint32(raw[17:], crc32cBitwise(raw[21:]))

	want := Batch{Magic: 2, BaseOffset: 100, PartitionLeaderEpoch: 5, FirstTimestamp: 1000, MaxTimestamp: 1000,
		ProducerID: -1, ProducerEpoch: -1, BaseSequence: -1,
		Records: []Record{{Offset: 100, Timestamp: 1000, Key: []byte("k"), Value: []byte("vv"), Headers: []Header{{Key: "h"}}}}}
	got, lens, err := EncodeBatch(want, EncodeOpts{})
	if err != nil {
		t.Fatal(err)
	}
	if !bytes.Equal(got, raw) {
		t.Errorf("EncodeBatch:\n got  %x\n want %x", got, raw)
	}
	wantLens := []LenField{
		{8, 4, "batch-length", "", 62}, {57, 4, "records-count", "records", 1},
		{61, 1, "record-length", "records[0]", 12}, {65, 1, "key-length", "records[0].key", 1},
		{67, 1, "value-length", "records[0].value", 2}, {70, 1, "headers-count", "records[0].headers", 1},
		{71, 1, "header-key-length", "records[0].headers[0].key", 1}, {73, 1, "header-value-length", "records[0].headers[0].value", -1},
	}
	if !reflect.DeepEqual(lens, wantLens) {
		t.Errorf("LenFields:\n got  %+v\n want %+v", lens, wantLens)
	}
	for _, strict := range []bool{true, false} {
		bs, err := DecodeRecordSet(raw, DecodeOpts{Strict: strict})
		if err != nil {
			t.Fatalf("strict=%v: %v", strict, err)
		}
		if len(bs) != 1 || !reflect.DeepEqual(bs[0], want) {
			t.Errorf("strict=%v decode:\n got  %+v\n want %+v", strict, bs, want)
		}
	}
	// a flipped bit must be caught by the CRC in strict mode
	bad := append([]byte{}, raw...)
	bad[66] ^= 1
	if _, err := DecodeRecordSet(bad, DecodeOpts{Strict: true}); err == nil || !strings.Contains(err.Error(), "crc32c") {
		t.Errorf("corrupted batch: %v", err)
	}
}

func TestGoldenLegacyMessages(t *testing.T) {
	v1 := unhex(t, `
		0000000000000005    // offset 5
		00000018            // message size 24
		00000000            // crc
		01 00               // magic 1, attributes 0
		00000000000003e8    // timestamp 1000
		ffffffff            // key null
		00000002 6869       // value "hi"
	`)
	binary.BigEndian.PutUint32(v1[12:], crc32IEEEBitwise(v1[16:]))
	v0 := unhex(t, `
		0000000000000006
		0000000f            // message size 15
		00000000
		00 00               // magic 0
		00000001 6b         // key "k"
		00000000            // value "" (empty, not null)
	`)
	binary.BigEndian.PutUint32(v0[12:], crc32IEEEBitwise(v0[16:]))

	b1 := Batch{Magic: 1, BaseOffset: 5, MaxTimestamp: 1000, PartitionLeaderEpoch: -1, ProducerID: -1, ProducerEpoch: -1, BaseSequence: -1,
		Records: []Record{{Offset: 5, Timestamp: 1000, Key: nil, Value: []byte("hi")}}}
	b0 := Batch{Magic: 0, BaseOffset: 6, MaxTimestamp: -1, PartitionLeaderEpoch: -1, ProducerID: -1, ProducerEpoch: -1, BaseSequence: -1,
		Records: []Record{{Offset: 6, Timestamp: -1, Key: []byte("k"), Value: []byte{}}}}

	got1, lens1, err := EncodeBatch(b1, EncodeOpts{})
	if err != nil || !bytes.Equal(got1, v1) {
		t.Errorf("v1 encode: %v\n got  %x\n want %x", err, got1, v1)
	}
	wantLens := []LenField{{8, 4, "message-size", "messages[0]", 24}, {26, 4, "msg-key-length", "messages[0].key", -1},
		{30, 4, "msg-value-length", "messages[0].value", 2}}
	if !reflect.DeepEqual(lens1, wantLens) {
		t.Errorf("v1 LenFields: %+v", lens1)
	}
	got0, _, err := EncodeBatch(b0, EncodeOpts{})
	if err != nil || !bytes.Equal(got0, v0) {
		t.Errorf("v0 encode: %v\n got  %x\n want %x", err, got0, v0)
	}
	set := append(append([]byte{}, v1...), v0...)
	bs, err := DecodeRecordSet(set, DecodeOpts{Strict: true})
	if err != nil {
		t.Fatal(err)
	}
	if len(bs) != 2 || !reflect.DeepEqual(bs[0], b1) || !reflect.DeepEqual(bs[1], b0) {
		t.Errorf("decode:\n got  %+v\n want %+v", bs, []Batch{b1, b0})
	}
	if bs[1].Records[0].Value == nil || bs[0].Records[0].Key != nil {
		t.Errorf("null/empty distinction lost")
	}
}
