package refcodec

// Reverse cross-validation: refcodec encodes random bodies (including nulls,
// which kafka-go cannot generate), kafka-go decodes and re-encodes them,
// refcodec strictly decodes the result and the bodies are compared modulo the
// information kafka-go's Go types cannot carry (null vs empty).

import (
	"bytes"
	"fmt"
	"math/rand"
	"reflect"
	"testing"

	"github.com/segmentio/kafka-go/protocol"
)

func genRecordSet(magic int8) func(r *rand.Rand) []byte {
	return func(r *rand.Rand) []byte {
		b := Batch{Magic: magic, ProducerID: -1, ProducerEpoch: -1, BaseSequence: -1, PartitionLeaderEpoch: -1}
		max := CodecZstd
		if magic < 2 {
			max = CodecLZ4
		}
		b.Codec = int8(r.Intn(int(max) + 1))
		b.RelativeInner = magic == 1
		b.Records = genRecords(r, magic, 0, 1+r.Intn(3), false)
		enc, _, err := EncodeBatch(b, EncodeOpts{SnappyRaw: r.Intn(2) == 0})
		if err != nil {
			panic(err)
		}
		return enc
	}
}

type flatRecord struct {
	Timestamp int64
	Key       []byte
	Value     []byte
	Headers   []Header
}

func flattenRecords(raw []byte) ([]flatRecord, error) {
	bs, err := DecodeRecordSet(raw, DecodeOpts{Strict: true})
	if err != nil {
		return nil, err
	}
	var out []flatRecord
	for _, b := range bs {
		for _, r := range b.Records {
			out = append(out, flatRecord{r.Timestamp, r.Key, r.Value, r.Headers})
		}
	}
	return out, nil
}

// diffNorm compares two decoded bodies; null and empty are the same thing for
// strings, bytes and arrays. It returns a description of the first difference.
func diffNorm(fields []Field, a, b Msg, ver int16, path string) string {
	for i := range fields {
		f := &fields[i]
		if !f.Present(ver) {
			continue
		}
		if d := diffNormValue(f, a[f.Name], b[f.Name], ver, joinPath(path, f.Name)); d != "" {
			return d
		}
	}
	return ""
}

func diffNormValue(f *Field, x, y any, ver int16, p string) string {
	switch f.Kind {
	case KString:
		xs, _ := x.(string)
		ys, _ := y.(string)
		if xs != ys {
			return fmt.Sprintf("%s: %q vs %q", p, xs, ys)
		}
	case KBytes:
		xb, _ := x.([]byte)
		yb, _ := y.([]byte)
		if !bytes.Equal(xb, yb) {
			return fmt.Sprintf("%s: bytes differ", p)
		}
	case KRecords:
		xb, _ := x.([]byte)
		yb, _ := y.([]byte)
		fx, err := flattenRecords(xb)
		if err != nil {
			return fmt.Sprintf("%s: original records: %v", p, err)
		}
		fy, err := flattenRecords(yb)
		if err != nil {
			return fmt.Sprintf("%s: records re-encoded by kafka-go are not strictly valid: %v", p, err)
		}
		if !reflect.DeepEqual(fx, fy) {
			return fmt.Sprintf("%s: records differ:\n %+v\n %+v", p, fx, fy)
		}
	case KStruct:
		xm, _ := x.(Msg)
		ym, _ := y.(Msg)
		return diffNorm(f.Fields, xm, ym, ver, p)
	case KArray:
		if f.Elem.Kind == KStruct {
			xa, _ := x.([]Msg)
			ya, _ := y.([]Msg)
			if len(xa) != len(ya) {
				return fmt.Sprintf("%s: %d vs %d elements", p, len(xa), len(ya))
			}
			for i := range xa {
				if d := diffNorm(f.Elem.Fields, xa[i], ya[i], ver, fmt.Sprintf("%s[%d]", p, i)); d != "" {
					return d
				}
			}
			return ""
		}
		xa, _ := x.([]any)
		ya, _ := y.([]any)
		if len(xa) != len(ya) {
			return fmt.Sprintf("%s: %d vs %d elements", p, len(xa), len(ya))
		}
		for i := range xa {
			if d := diffNormValue(f.Elem, xa[i], ya[i], ver, fmt.Sprintf("%s[%d]", p, i)); d != "" {
				return d
			}
		}
	default:
		if !reflect.DeepEqual(x, y) {
			return fmt.Sprintf("%s: %v vs %v", p, x, y)
		}
	}
	return ""
}

// stripIndexes removes "[n]" so that findings have stable keys.
func stripIndexes(s string) string {
	var out []byte
	skip := false
	for i := 0; i < len(s); i++ {
		switch {
		case s[i] == '[':
			skip = true
		case s[i] == ']' && skip:
			skip = false
		case !skip:
			out = append(out, s[i])
		}
	}
	return string(out)
}

// knownReverse lists the disagreements found by TestCrossKafkaGoReverse; each
// is triaged in DISAGREEMENTS.md.
var knownReverse = map[string]string{
	// (DISAGREEMENTS.md #2 and #10, an empty array element written as a null
	// string, were repaired in kafka-go)
	// DISAGREEMENTS.md #4 (tagged field not modelled, silently dropped)
	"CreateTopics response: value changed by kafka-go round trip: topics.topic_config_error_code": "v5",
	// DISAGREEMENTS.md #9 (kafka-go expects the tag buffer of a struct Kafka does not have)
	"DescribeAcls request: kafka-go cannot read: cannot decode unsigned varint from input stream": "v2-v3",
}

func TestCrossKafkaGoReverse(t *testing.T) {
	rng := rand.New(rand.NewSource(43))
	found := &crossFindings{}
	versionsOf := map[string][]int16{}
	note := func(api *API, ver int16, dir, what, detail string) {
		k := fmt.Sprintf("%s %s: %s", api.Name, dir, what)
		found.add(k, fmt.Sprintf("v%d: %s", ver, detail))
		versionsOf[k] = appendVer(versionsOf[k], ver)
	}
	for _, pair := range kgoAPIs {
		key := int16(pair.req.ApiKey())
		api := Lookup(key)
		kmin, kmax := protocol.ApiKey(key).MinVersion(), protocol.ApiKey(key).MaxVersion()
		for ver := max(kmin, api.MinVersion); ver <= min(kmax, api.MaxVersion); ver++ {
			opts := genOpts{noMaxStrings: true, records: genRecordSet(recVersionFor(key, ver))}
			for it := 0; it < 40; it++ {
				// ------------------------------------------------ request
				body := genStruct(rng, api.Request, ver, opts)
				client := "cl"
				h := RequestHeader{APIKey: key, APIVersion: ver, CorrelationID: int32(rng.Uint32()), ClientID: &client}
				frame, err := EncodeRequest(h, body)
				if err != nil {
					t.Fatal(err)
				}
				kv, kc, kid, kmsg, err := protocol.ReadRequest(bytes.NewReader(frame))
				if err != nil {
					note(api, ver, "request", "kafka-go cannot read: "+stripIndexes(err.Error()), err.Error())
				} else {
					if kv != ver || kc != h.CorrelationID || kid != client {
						t.Fatalf("%s v%d: kafka-go read header %d %d %q", api.Name, ver, kv, kc, kid)
					}
					var out bytes.Buffer
					if err := protocol.WriteRequest(&out, ver, kc, kid, kmsg); err != nil {
						t.Fatalf("%s v%d: kafka-go WriteRequest: %v", api.Name, ver, err)
					}
					_, _, body2, err := DecodeRequest(out.Bytes()[4:])
					if err != nil {
						k := classify(api, ver, "request", err)
						found.add(k, fmt.Sprintf("v%d: %v", ver, err))
						versionsOf[k] = appendVer(versionsOf[k], ver)
					} else if d := diffNorm(api.Request, body, body2, ver, ""); d != "" {
						note(api, ver, "request", "value changed by kafka-go round trip: "+stripIndexes(firstWord(d)), d)
					}
				}

				// ------------------------------------------------ response
				rbody := genStruct(rng, api.Response, ver, opts)
				corr := int32(rng.Uint32())
				rframe, _, err := EncodeResponse(key, ver, corr, rbody, nil)
				if err != nil {
					t.Fatal(err)
				}
				gc, rmsg, err := protocol.ReadResponse(bytes.NewReader(rframe), protocol.ApiKey(key), ver)
				if err != nil {
					note(api, ver, "response", "kafka-go cannot read: "+stripIndexes(err.Error()), err.Error())
					continue
				}
				if gc != corr {
					t.Fatalf("%s v%d: kafka-go read correlation id %d, want %d", api.Name, ver, gc, corr)
				}
				var out bytes.Buffer
				if err := protocol.WriteResponse(&out, ver, corr, rmsg); err != nil {
					t.Fatalf("%s v%d: kafka-go WriteResponse: %v", api.Name, ver, err)
				}
				_, rbody2, err := DecodeResponse(key, ver, out.Bytes()[4:])
				if err != nil {
					k := classify(api, ver, "response", err)
					found.add(k, fmt.Sprintf("v%d: %v", ver, err))
					versionsOf[k] = appendVer(versionsOf[k], ver)
				} else if d := diffNorm(api.Response, rbody, rbody2, ver, ""); d != "" {
					note(api, ver, "response", "value changed by kafka-go round trip: "+stripIndexes(firstWord(d)), d)
				}
			}
		}
	}
	for _, k := range found.keys() {
		t.Logf("DISAGREEMENT %s  [versions %v]  e.g. %s", k, versionsOf[k], found.m[k])
		if _, ok := knownReverse[k]; !ok {
			t.Errorf("untriaged disagreement: %s (%s)", k, found.m[k])
		}
	}
	for k := range knownReverse {
		if _, ok := found.m[k]; !ok {
			t.Errorf("disagreement listed as known did not occur: %s", k)
		}
	}
}

func firstWord(s string) string {
	for i := 0; i < len(s); i++ {
		if s[i] == ':' {
			return s[:i]
		}
	}
	return s
}
