package refcodec

import (
	"encoding/binary"
	"strings"
	"testing"
)

// Strict decoding of the APIs of schemas_more.go: frames assembled by hand.
func TestStrictMoreAPIs(t *testing.T) {
	str := func(s string) []byte {
		return append(binary.BigEndian.AppendUint16(nil, uint16(len(s))), s...)
	}
	pid := []byte{0, 0, 0, 0, 0, 0, 3, 0xe8}
	epoch := []byte{0, 2}
	timeout := []byte{0, 0, 0xea, 0x60}
	cases := []struct {
		name    string
		frame   []byte
		wantErr string // "" = must decode; "shifted" = must fail, however
	}{
		{"EndTxn v0 ok", cat(hdr(26, 0, 1, "c", false), str("tx"), pid, epoch, []byte{1}), ""},
		{"EndTxn v0 bool 2", cat(hdr(26, 0, 1, "c", false), str("tx"), pid, epoch, []byte{2}), "neither 0 nor 1"},
		{"EndTxn v4 not implemented", cat(hdr(26, 4, 1, "c", true), []byte{3, 't', 'x'}, pid, epoch, []byte{1, 0}), "outside"},
		{"EndTxn v3 ok", cat(hdr(26, 3, 1, "c", true), []byte{3, 't', 'x'}, pid, epoch, []byte{1, 0}), ""},
		{"EndTxn v3 with an int16 string", cat(hdr(26, 3, 1, "c", true), str("tx"), pid, epoch, []byte{1, 0}), "null marker"},
		{"EndTxn v2 with a compact string", cat(hdr(26, 2, 1, "c", false), []byte{3, 't', 'x'}, pid, epoch, []byte{1}), "shifted"},
		{"AddPartitionsToTxn v4 not implemented", cat(hdr(24, 4, 1, "c", true), []byte{1, 0}), "outside"},
		{"IncrementalAlterConfigs v2 does not exist", cat(hdr(44, 2, 1, "c", true), []byte{1, 0, 0}), "outside"},
		{"TxnOffsetCommit v3 null member_id", cat(hdr(28, 3, 1, "c", true), []byte{3, 't', 'x', 2, 'g'}, pid, epoch,
			[]byte{0, 0, 0, 7}, []byte{0}, []byte{0}, []byte{1}, []byte{0}), "null marker"},
		{"TxnOffsetCommit v3 null group_instance_id ok", cat(hdr(28, 3, 1, "c", true), []byte{3, 't', 'x', 2, 'g'}, pid, epoch,
			[]byte{0, 0, 0, 7}, []byte{2, 'm'}, []byte{0}, []byte{1}, []byte{0}), ""},
		// DescribeAcls: flat request
		{"DescribeAcls v2 ok", cat(hdr(29, 2, 1, "c", true), []byte{2, 2, 't', 3, 0, 0, 1, 3}, []byte{0}), ""},
		{"DescribeAcls v2 with the tag buffer of a wrapper struct", cat(hdr(29, 2, 1, "c", true), []byte{2, 2, 't', 3, 0, 0, 1, 3}, []byte{0, 0}), "trailing"},
		{"DescribeAcls v0 ok (no pattern type)", cat(hdr(29, 0, 1, "c", false), []byte{2, 0xff, 0xff, 0xff, 0xff, 0xff, 0xff, 1, 3}), ""},
		{"DescribeAcls v1 ok (pattern type)", cat(hdr(29, 1, 1, "c", false), []byte{2, 0xff, 0xff, 3, 0xff, 0xff, 0xff, 0xff, 1, 3}), ""},
		{"DescribeAcls v0 with a pattern type", cat(hdr(29, 0, 1, "c", false), []byte{2, 0xff, 0xff, 3, 0xff, 0xff, 0xff, 0xff, 1, 3}), "shifted"},
		{"DescribeConfigs v0 null resources", cat(hdr(32, 0, 1, "c", false), []byte{0xff, 0xff, 0xff, 0xff}), "null marker"},
		{"DescribeConfigs v0 null configuration_keys ok", cat(hdr(32, 0, 1, "c", false), []byte{0, 0, 0, 1, 2}, str("t"), []byte{0xff, 0xff, 0xff, 0xff}), ""},
		{"DescribeConfigs v0 null element of configuration_keys", cat(hdr(32, 0, 1, "c", false), []byte{0, 0, 0, 1, 2}, str("t"),
			[]byte{0, 0, 0, 1, 0xff, 0xff}), "null marker"},
		{"ElectLeaders v0 null topic_partitions ok", cat(hdr(43, 0, 1, "c", false), []byte{0xff, 0xff, 0xff, 0xff}, timeout), ""},
		{"ElectLeaders v2 null topic_partitions ok", cat(hdr(43, 2, 1, "c", true), []byte{0, 0}, timeout, []byte{0}), ""},
		{"ElectLeaders v0 with an election_type", cat(hdr(43, 0, 1, "c", false), []byte{1, 0xff, 0xff, 0xff, 0xff}, timeout), "shifted"},
		{"ElectLeaders v1 ok (election_type)", cat(hdr(43, 1, 1, "c", false), []byte{1, 0xff, 0xff, 0xff, 0xff}, timeout), ""},
		{"AlterPartitionReassignments null topics", cat(hdr(45, 0, 1, "c", true), timeout, []byte{0}, []byte{0}), "null marker"},
		{"AlterPartitionReassignments null replicas ok", cat(hdr(45, 0, 1, "c", true), timeout,
			[]byte{2, 2, 't', 2, 0, 0, 0, 0, 0, 0, 0}, []byte{0}), ""},
		{"ListPartitionReassignments null topics ok", cat(hdr(46, 0, 1, "c", true), timeout, []byte{0}, []byte{0}), ""},
		{"ListPartitionReassignments non-flexible header", cat(hdr(46, 0, 1, "c", false), timeout, []byte{0}, []byte{0}), "shifted"},
		{"AlterClientQuotas v0 truncated float64", cat(hdr(49, 0, 1, "c", false), []byte{0, 0, 0, 1, 0, 0, 0, 1}, str("user"), []byte{0xff, 0xff},
			[]byte{0, 0, 0, 1}, str("k"), []byte{0x40, 0x90, 0, 0}), "need 8 bytes"},
		{"AlterClientQuotas v0 null entity_type", cat(hdr(49, 0, 1, "c", false), []byte{0, 0, 0, 1, 0, 0, 0, 1}, []byte{0xff, 0xff}), "null marker"},
		{"DescribeUserScramCredentials null users ok", cat(hdr(50, 0, 1, "c", true), []byte{0}, []byte{0}), ""},
		{"DescribeUserScramCredentials unknown tag in an element", cat(hdr(50, 0, 1, "c", true), []byte{2, 2, 'a', 1, 0, 0}, []byte{0}), "unknown tag"},
		{"AlterUserScramCredentials null salt", cat(hdr(51, 0, 1, "c", true), []byte{1}, []byte{2, 2, 'b', 2, 0, 0, 0x10, 0, 0, 1, 0}, []byte{0}), "null marker"},
		{"AlterUserScramCredentials empty salt ok", cat(hdr(51, 0, 1, "c", true), []byte{1}, []byte{2, 2, 'b', 2, 0, 0, 0x10, 0, 1, 1, 0}, []byte{0}), ""},
	}
	for _, c := range cases {
		if c.wantErr == "shifted" {
			// the bytes are shifted with respect to the schema of that version
			if _, _, _, err := DecodeRequest(c.frame); err == nil {
				t.Errorf("%s: accepted", c.name)
			}
			continue
		}
		h, a, body, err := DecodeRequest(c.frame)
		switch {
		case c.wantErr == "" && err != nil:
			t.Errorf("%s: unexpected error %v", c.name, err)
		case c.wantErr != "" && err == nil:
			t.Errorf("%s: accepted: %+v %v", c.name, h, body)
		case c.wantErr != "" && !strings.Contains(err.Error(), c.wantErr):
			t.Errorf("%s: error %q does not mention %q", c.name, err, c.wantErr)
		}
		if err != nil && body != nil {
			t.Errorf("%s: body returned together with an error", c.name)
		}
		if c.wantErr == "" && (a == nil || a.Key != h.APIKey) {
			t.Errorf("%s: api not returned", c.name)
		}
	}

	// responses: DescribeClientQuotas v1 with null entries; the same bytes are
	// not a v0 response; ElectLeaders v0 has no top-level error code.
	nullEntries := []byte{0, 0, 0, 14, 0, 0, 0, 0, 0, 0, 0x2a, 2, 'x', 0, 0}
	if _, b, err := DecodeResponse(48, 1, nullEntries); err != nil || !b.IsNull("entries") || b.I16("error_code") != 42 {
		t.Errorf("DescribeClientQuotas v1 null entries: %v %v", b, err)
	}
	if _, _, err := DecodeResponse(48, 0, nullEntries); err == nil {
		t.Errorf("DescribeClientQuotas v0 decode of v1 bytes accepted")
	}
	if _, _, err := DecodeResponse(48, 2, nullEntries); err == nil || !strings.Contains(err.Error(), "outside") {
		t.Errorf("DescribeClientQuotas v2: %v", err)
	}
	v1 := []byte{0, 0, 0, 10, 0, 0, 0, 0, 0, 0x29, 0, 0, 0, 0}
	if _, b, err := DecodeResponse(43, 1, v1); err != nil || b.I16("error_code") != 41 {
		t.Errorf("ElectLeaders v1 response: %v %v", b, err)
	}
	if _, _, err := DecodeResponse(43, 0, v1); err == nil {
		t.Errorf("ElectLeaders v0 decode of v1 bytes accepted")
	}
	// AlterPartitionReassignments: null where the definition has no nullableVersions
	if _, err := EncodeRequest(RequestHeader{APIKey: 45, APIVersion: 0}, Msg{"topics": nil}); err == nil {
		t.Errorf("null topics accepted for AlterPartitionReassignments")
	}
	if _, err := EncodeRequest(RequestHeader{APIKey: 46, APIVersion: 0}, Msg{"topics": nil}); err != nil {
		t.Errorf("null topics refused for ListPartitionReassignments: %v", err)
	}
}

// Missing keys take the defaults of the Kafka definitions (schemas_more.go).
func TestDefaultsMoreAPIs(t *testing.T) {
	dec := func(key, ver int16, body Msg) Msg {
		t.Helper()
		f, err := EncodeRequest(RequestHeader{APIKey: key, APIVersion: ver}, body)
		if err != nil {
			t.Fatal(err)
		}
		_, _, m, err := DecodeRequest(f[4:])
		if err != nil {
			t.Fatal(err)
		}
		return m
	}
	if m := dec(43, 1, Msg{}); m.I32("timeout_ms") != 60000 || m.IsNull("topic_partitions") || m.I8("election_type") != 0 {
		t.Errorf("ElectLeaders defaults: %v", m)
	}
	if m := dec(46, 0, Msg{}); m.I32("timeout_ms") != 60000 || !m.IsNull("topics") {
		t.Errorf("ListPartitionReassignments defaults: %v", m)
	}
	m := dec(45, 0, Msg{"topics": []Msg{{"name": "t", "partitions": []Msg{{}}}}})
	if m.I32("timeout_ms") != 60000 || !m.Arr("topics")[0].Arr("partitions")[0].IsNull("replicas") {
		t.Errorf("AlterPartitionReassignments defaults: %v", m)
	}
	m = dec(28, 3, Msg{"topics": []Msg{{"name": "t", "partitions": []Msg{{}}}}})
	p := m.Arr("topics")[0].Arr("partitions")[0]
	if m.I32("generation_id") != -1 || m.Str("member_id") != "" || m.IsNull("member_id") || !m.IsNull("group_instance_id") ||
		p.I32("committed_leader_epoch") != -1 {
		t.Errorf("TxnOffsetCommit defaults: %v", m)
	}
	if m := dec(29, 1, Msg{}); m.I8("pattern_type_filter") != 3 {
		t.Errorf("DescribeAcls pattern_type_filter default: %v", m)
	}
	if m := dec(30, 1, Msg{"creations": []Msg{{}}}); m.Arr("creations")[0].I8("resource_pattern_type") != 3 {
		t.Errorf("CreateAcls resource_pattern_type default: %v", m)
	}
	f, _, err := EncodeResponse(32, 1, 1, Msg{"results": []Msg{{"configs": []Msg{{}}}}}, nil)
	if err != nil {
		t.Fatal(err)
	}
	_, r, err := DecodeResponse(32, 1, f[4:])
	if err != nil {
		t.Fatal(err)
	}
	if c := r.Arr("results")[0].Arr("configs")[0]; c.I8("config_source") != -1 || c.Arr("synonyms") == nil {
		t.Errorf("DescribeConfigs defaults: %v", c)
	}
}
