package refcodec
