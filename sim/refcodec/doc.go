// Package refcodec is an independent implementation of the Apache Kafka wire
// protocol used by the simulated brokers: request/response framing for the
// APIs listed in SPEC.md (schemas transcribed from the Kafka message
// definitions, KIP-482 flexible versions included), the legacy message-set
// formats (magic 0 and 1) and the record-batch format (magic 2) with gzip,
// snappy (xerial framing or raw), lz4 and zstd compression.
//
// It is the oracle against which github.com/segmentio/kafka-go is judged and
// therefore must not import that module outside of _test.go files. The
// contract is SPEC.md; the deviations of kafka-go found while cross-validating
// are listed in DISAGREEMENTS.md.
package refcodec
