package refcodec

import (
	"encoding/binary"
	"fmt"
	"math/rand"
	"reflect"
	"sort"
	"strings"
	"testing"
)

func sortedAPIs() []*API {
	var out []*API
	for _, a := range APIs {
		out = append(out, a)
	}
	sort.Slice(out, func(i, j int) bool { return out[i].Key < out[j].Key })
	return out
}

// The table of SPEC.md §2, plus the APIs of schemas_more.go.
func TestAPITable(t *testing.T) {
	want := []struct {
		key      int16
		name     string
		max      int16
		flexFrom int16
	}{
		{0, "Produce", 8, -1}, {1, "Fetch", 11, -1}, {2, "ListOffsets", 5, -1}, {3, "Metadata", 8, -1},
		{8, "OffsetCommit", 7, -1}, {9, "OffsetFetch", 5, -1}, {10, "FindCoordinator", 2, -1},
		{11, "JoinGroup", 7, 6}, {12, "Heartbeat", 4, 4}, {13, "LeaveGroup", 4, 4}, {14, "SyncGroup", 5, 4},
		{15, "DescribeGroups", 5, 5}, {16, "ListGroups", 4, 3}, {17, "SaslHandshake", 1, -1},
		{18, "ApiVersions", 3, 3}, {19, "CreateTopics", 5, 5}, {20, "DeleteTopics", 4, 4},
		{22, "InitProducerId", 4, 2}, {36, "SaslAuthenticate", 2, 2}, {37, "CreatePartitions", 3, 2},
		{42, "DeleteGroups", 2, 2}, {47, "OffsetDelete", 0, -1},
		// schemas_more.go
		{24, "AddPartitionsToTxn", 3, 3}, {25, "AddOffsetsToTxn", 3, 3}, {26, "EndTxn", 3, 3},
		{28, "TxnOffsetCommit", 3, 3}, {29, "DescribeAcls", 3, 2}, {30, "CreateAcls", 3, 2},
		{31, "DeleteAcls", 3, 2}, {32, "DescribeConfigs", 4, 4}, {33, "AlterConfigs", 2, 2},
		{43, "ElectLeaders", 2, 2}, {44, "IncrementalAlterConfigs", 1, 1},
		{45, "AlterPartitionReassignments", 0, 0}, {46, "ListPartitionReassignments", 0, 0},
		{48, "DescribeClientQuotas", 1, 1}, {49, "AlterClientQuotas", 1, 1},
		{50, "DescribeUserScramCredentials", 0, 0}, {51, "AlterUserScramCredentials", 0, 0},
	}
	if len(APIs) != len(want) {
		t.Errorf("got %d APIs, want %d", len(APIs), len(want))
	}
	for _, w := range want {
		a := Lookup(w.key)
		if a == nil {
			t.Errorf("api %d missing", w.key)
			continue
		}
		if a.Name != w.name || a.MinVersion != 0 || a.MaxVersion != w.max || a.FlexibleFrom != w.flexFrom || a.Key != w.key {
			t.Errorf("api %d: got %+v", w.key, *a)
		}
	}
	if Lookup(4) != nil || Lookup(-1) != nil {
		t.Errorf("Lookup of unknown key must be nil")
	}
}

// Structural sanity of the schemas: tagged fields only in flexible versions,
// nullable ranges inside the version ranges, unique names and tags.
func TestSchemaSanity(t *testing.T) {
	var check func(a *API, path string, fields []Field)
	check = func(a *API, path string, fields []Field) {
		names := map[string]bool{}
		tags := map[int]bool{}
		for i := range fields {
			f := &fields[i]
			p := path + "." + f.Name
			if names[f.Name] {
				t.Errorf("%s %s: duplicate name", a.Name, p)
			}
			names[f.Name] = true
			if f.Name != strings.ToLower(f.Name) {
				t.Errorf("%s %s: not snake_case", a.Name, p)
			}
			if f.Tag >= 0 {
				if tags[f.Tag] {
					t.Errorf("%s %s: duplicate tag", a.Name, p)
				}
				tags[f.Tag] = true
				if a.FlexibleFrom < 0 || f.TaggedVersions.Min < a.FlexibleFrom {
					t.Errorf("%s %s: tagged before the first flexible version", a.Name, p)
				}
			}
			first := f.Versions.Min
			if f.Versions.Min > f.Versions.Max {
				first = f.TaggedVersions.Min
			}
			if f.Nullable.Min <= f.Nullable.Max && f.Nullable.Min < first {
				t.Errorf("%s %s: nullable from v%d but exists from v%d", a.Name, p, f.Nullable.Min, first)
			}
			if f.DefaultNull && f.Nullable.Min > f.Nullable.Max {
				t.Errorf("%s %s: null default but never nullable", a.Name, p)
			}
			switch f.Kind {
			case KArray:
				if f.Elem == nil {
					t.Errorf("%s %s: array without Elem", a.Name, p)
				} else if f.Elem.Kind == KStruct {
					if len(f.Fields) == 0 || len(f.Elem.Fields) != len(f.Fields) {
						t.Errorf("%s %s: struct array without fields", a.Name, p)
					}
					check(a, p, f.Fields)
				}
			case KStruct:
				check(a, p, f.Fields)
			}
		}
	}
	for _, a := range sortedAPIs() {
		check(a, "req", a.Request)
		check(a, "res", a.Response)
	}
}

func readUvarint(b []byte, off int) (uint64, int) {
	v, n := binary.Uvarint(b[off:])
	return v, n
}

// checkLenFields re-reads each reported field at its offset and checks its
// value against the frame and against the body.
func checkLenFields(t *testing.T, what string, frame []byte, lens []LenField, body Msg) {
	t.Helper()
	if len(lens) == 0 || lens[0].Kind != "frame-size" || lens[0].Off != 0 || lens[0].Size != 4 {
		t.Fatalf("%s: first LenField must be the frame size, got %+v", what, lens)
	}
	prevEnd := 0
	for _, l := range lens {
		if l.Off < prevEnd || l.Off+l.Size > len(frame) {
			t.Fatalf("%s: field %+v overlaps the previous one or the frame end", what, l)
		}
		prevEnd = l.Off + l.Size
		var got int64
		switch l.Kind {
		case "frame-size":
			got = int64(int32(binary.BigEndian.Uint32(frame[l.Off:])))
			if got != int64(len(frame)-4) {
				t.Fatalf("%s: frame size %d, frame has %d bytes", what, got, len(frame))
			}
		case "string16":
			if l.Size != 2 {
				t.Fatalf("%s: %+v: size", what, l)
			}
			got = int64(int16(binary.BigEndian.Uint16(frame[l.Off:])))
		case "bytes32", "array32", "records32":
			if l.Size != 4 {
				t.Fatalf("%s: %+v: size", what, l)
			}
			got = int64(int32(binary.BigEndian.Uint32(frame[l.Off:])))
		case "compact-string", "compact-bytes", "compact-array", "compact-records":
			u, n := readUvarint(frame, l.Off)
			if n != l.Size {
				t.Fatalf("%s: %+v: varint has %d bytes", what, l, n)
			}
			got = int64(u) - 1
		case "tag-count", "tag-size":
			u, n := readUvarint(frame, l.Off)
			if n != l.Size {
				t.Fatalf("%s: %+v: varint has %d bytes", what, l, n)
			}
			got = int64(u)
		default:
			t.Fatalf("%s: unknown kind in %+v", what, l)
		}
		if got != l.Value {
			t.Fatalf("%s: %+v: frame holds %d", what, l, got)
		}
		// cross-check with the body
		switch l.Kind {
		case "frame-size", "tag-count", "tag-size":
			continue
		}
		v, ok := resolvePath(body, l.Path)
		if !ok {
			t.Fatalf("%s: path %q of %+v does not resolve", what, l.Path, l)
		}
		want := int64(-1)
		switch x := v.(type) {
		case nil:
		case string:
			want = int64(len(x))
			if string(frame[l.Off+l.Size:l.Off+l.Size+len(x)]) != x {
				t.Fatalf("%s: %+v: string does not follow its length", what, l)
			}
		case []byte:
			want = int64(len(x))
			if string(frame[l.Off+l.Size:l.Off+l.Size+len(x)]) != string(x) {
				t.Fatalf("%s: %+v: bytes do not follow their length", what, l)
			}
		case []Msg:
			want = int64(len(x))
		case []any:
			want = int64(len(x))
		default:
			t.Fatalf("%s: %+v resolves to %T", what, l, v)
		}
		if want != l.Value {
			t.Fatalf("%s: %+v: body value has length %d", what, l, want)
		}
	}
}

// countLenFields computes how many length fields a body must produce.
func countLenFields(fields []Field, m Msg, ver int16, flex bool) int {
	n := 0
	if flex {
		n++ // tag-count
	}
	var val func(f *Field, v any) int
	val = func(f *Field, v any) int {
		switch f.Kind {
		case KString, KBytes, KRecords:
			return 1
		case KStruct:
			return countLenFields(f.Fields, v.(Msg), ver, flex)
		case KArray:
			c := 1
			switch a := v.(type) {
			case []Msg:
				for _, e := range a {
					c += countLenFields(f.Elem.Fields, e, ver, flex)
				}
			case []any:
				for _, e := range a {
					c += val(f.Elem, e)
				}
			}
			return c
		}
		return 0
	}
	for i := range fields {
		f := &fields[i]
		if !f.Present(ver) {
			continue
		}
		v := m[f.Name]
		if f.Tag >= 0 && f.TaggedVersions.Has(ver) {
			if isDefault(f, v, ver) {
				continue
			}
			n++ // tag-size
		}
		n += val(f, v)
	}
	return n
}

func TestSelfRoundTrip(t *testing.T) {
	rng := rand.New(rand.NewSource(20260925))
	const iterations = 60
	for _, a := range sortedAPIs() {
		for ver := a.MinVersion; ver <= a.MaxVersion; ver++ {
			name := fmt.Sprintf("%s/v%d", a.Name, ver)
			for it := 0; it < iterations; it++ {
				// ---- request
				body := genStruct(rng, a.Request, ver, genOpts{})
				h := RequestHeader{APIKey: a.Key, APIVersion: ver, CorrelationID: int32(rng.Uint32())}
				if rng.Intn(4) != 0 {
					s := genString(rng, genOpts{})
					h.ClientID = &s
				}
				frame, err := EncodeRequest(h, body)
				if err != nil {
					t.Fatalf("%s: EncodeRequest: %v", name, err)
				}
				if int(binary.BigEndian.Uint32(frame)) != len(frame)-4 {
					t.Fatalf("%s: request size prefix wrong", name)
				}
				h2, a2, body2, err := DecodeRequest(frame[4:])
				if err != nil {
					t.Fatalf("%s: DecodeRequest: %v\nbody: %v", name, err, body)
				}
				h.Flexible = a.Flexible(ver)
				if a2 != a || !reflect.DeepEqual(h, h2) {
					t.Fatalf("%s: header mismatch: %+v vs %+v", name, h, h2)
				}
				if !reflect.DeepEqual(body, body2) {
					t.Fatalf("%s: request body mismatch:\n sent %v\n got  %v", name, body, body2)
				}
				// trailing byte and truncation must be rejected
				if _, _, _, err := DecodeRequest(append(append([]byte{}, frame[4:]...), 0)); err == nil {
					t.Fatalf("%s: request with a trailing byte accepted", name)
				}
				if _, _, _, err := DecodeRequest(frame[4 : len(frame)-1]); err == nil {
					t.Fatalf("%s: truncated request accepted", name)
				}

				// ---- response
				rbody := genStruct(rng, a.Response, ver, genOpts{})
				corr := int32(rng.Uint32())
				var opts *ResponseOpts
				if a.Flexible(ver) && rng.Intn(3) == 0 {
					opts = &ResponseOpts{UnknownTags: map[uint32][]byte{1000: {1, 2, 3}, 70000: {}}}
				}
				rframe, lens, err := EncodeResponse(a.Key, ver, corr, rbody, opts)
				if err != nil {
					t.Fatalf("%s: EncodeResponse: %v", name, err)
				}
				checkLenFields(t, name, rframe, lens, rbody)
				wantLens := 1 + countLenFields(a.Response, rbody, ver, a.Flexible(ver))
				if a.ResponseHeaderVersion(ver) == 1 {
					wantLens++
				}
				if opts != nil {
					wantLens += 2
				}
				if len(lens) != wantLens {
					t.Fatalf("%s: %d LenFields reported, want %d", name, len(lens), wantLens)
				}
				corr2, rbody2, err := DecodeResponse(a.Key, ver, rframe[4:])
				if opts != nil {
					if err == nil || !strings.Contains(err.Error(), "unknown tag") {
						t.Fatalf("%s: response with unknown tags: err = %v", name, err)
					}
					continue
				}
				if err != nil {
					t.Fatalf("%s: DecodeResponse: %v\nbody: %v", name, err, rbody)
				}
				if corr2 != corr || !reflect.DeepEqual(rbody, rbody2) {
					t.Fatalf("%s: response body mismatch:\n sent %v\n got  %v", name, rbody, rbody2)
				}
				if _, _, err := DecodeResponse(a.Key, ver, append(append([]byte{}, rframe[4:]...), 0)); err == nil {
					t.Fatalf("%s: response with a trailing byte accepted", name)
				}
				if _, _, err := DecodeResponse(a.Key, ver, rframe[4:len(rframe)-1]); err == nil {
					t.Fatalf("%s: truncated response accepted", name)
				}
			}
		}
	}
}

// Missing keys take the defaults of the Kafka definition.
func TestDefaults(t *testing.T) {
	frame, _, err := EncodeResponse(0, 8, 1, Msg{"responses": []Msg{{"name": "t", "partition_responses": []Msg{{}}}}}, nil)
	if err != nil {
		t.Fatal(err)
	}
	_, body, err := DecodeResponse(0, 8, frame[4:])
	if err != nil {
		t.Fatal(err)
	}
	p := body.Arr("responses")[0].Arr("partition_responses")[0]
	if p.I64("log_append_time_ms") != -1 || p.I64("log_start_offset") != -1 || !p.IsNull("error_message") ||
		p.I64("base_offset") != 0 || p.Arr("record_errors") == nil || len(p.Arr("record_errors")) != 0 {
		t.Errorf("produce defaults: %v", p)
	}
	if body.I32("throttle_time_ms") != 0 {
		t.Errorf("throttle default")
	}

	req, err := EncodeRequest(RequestHeader{APIKey: 1, APIVersion: 11}, Msg{})
	if err != nil {
		t.Fatal(err)
	}
	_, _, rb, err := DecodeRequest(req[4:])
	if err != nil {
		t.Fatal(err)
	}
	if rb.I32("replica_id") != -1 || rb.I32("max_bytes") != 0x7fffffff || rb.I32("session_epoch") != -1 ||
		rb.Str("rack_id") != "" || rb.IsNull("rack_id") || len(rb.Arr("topics")) != 0 || rb.IsNull("topics") {
		t.Errorf("fetch request defaults: %v", rb)
	}

	// Metadata: allow_auto_topic_creation defaults to true, topics to empty
	req, err = EncodeRequest(RequestHeader{APIKey: 3, APIVersion: 4}, Msg{})
	if err != nil {
		t.Fatal(err)
	}
	_, _, rb, err = DecodeRequest(req[4:])
	if err != nil {
		t.Fatal(err)
	}
	if !rb.Bool("allow_auto_topic_creation") || rb.IsNull("topics") {
		t.Errorf("metadata request defaults: %v", rb)
	}

	// ApiVersions v3: tagged fields omitted -> defaults on decode
	frame, lens, err := EncodeResponse(18, 3, 9, Msg{"api_keys": []Msg{{"api_key": int16(18), "max_version": int16(3)}}}, nil)
	if err != nil {
		t.Fatal(err)
	}
	for _, l := range lens {
		if l.Kind == "tag-size" {
			t.Errorf("default tagged field was written: %+v", l)
		}
	}
	_, body, err = DecodeResponse(18, 3, frame[4:])
	if err != nil {
		t.Fatal(err)
	}
	if body.I64("finalized_features_epoch") != -1 || body.Arr("supported_features") == nil || body.Bool("zk_migration_ready") {
		t.Errorf("apiversions tagged defaults: %v", body)
	}

	// integers given as other Go integer types are accepted when in range
	if _, _, err := EncodeResponse(12, 0, 1, Msg{"error_code": 27}, nil); err != nil {
		t.Errorf("int for int16: %v", err)
	}
	if _, _, err := EncodeResponse(12, 0, 1, Msg{"error_code": 70000}, nil); err == nil {
		t.Errorf("out-of-range int16 accepted")
	}
	if _, _, err := EncodeResponse(12, 0, 1, Msg{"error_code": "x"}, nil); err == nil {
		t.Errorf("string for int16 accepted")
	}
	// null for a non-nullable field is refused by the encoder
	if _, err := EncodeRequest(RequestHeader{APIKey: 3, APIVersion: 0}, Msg{"topics": nil}); err == nil {
		t.Errorf("null topics accepted for Metadata v0")
	}
	if _, err := EncodeRequest(RequestHeader{APIKey: 3, APIVersion: 1}, Msg{"topics": nil}); err != nil {
		t.Errorf("null topics refused for Metadata v1: %v", err)
	}
}

func TestAccessors(t *testing.T) {
	m := Msg{"a": int8(1), "b": int16(2), "c": int32(3), "d": int64(4), "e": true, "f": "s", "g": nil,
		"h": []byte{1}, "i": []Msg{{"x": int32(1)}}, "j": []any{"p"}}
	if m.I8("a") != 1 || m.I16("b") != 2 || m.I32("c") != 3 || m.I64("d") != 4 || !m.Bool("e") || m.Str("f") != "s" ||
		!m.IsNull("g") || !m.IsNull("zz") || m.IsNull("f") || len(m.Bytes("h")) != 1 || len(m.Arr("i")) != 1 || len(m.Prims("j")) != 1 {
		t.Errorf("accessors broken")
	}
	// wrong types / absent keys -> zero values, no panic
	if m.I8("b") != 0 || m.I16("a") != 0 || m.I32("zz") != 0 || m.I64("f") != 0 || m.Bool("a") || m.Str("g") != "" ||
		m.Bytes("f") != nil || m.Arr("j") != nil || m.Prims("i") != nil {
		t.Errorf("accessors must return zero values")
	}
	var nilMsg Msg
	if nilMsg.I32("x") != 0 || !nilMsg.IsNull("x") {
		t.Errorf("nil Msg")
	}
}
