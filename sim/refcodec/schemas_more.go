package refcodec

// Transactional, ACL, config, quota, SCRAM, election and reassignment APIs.
//
// Transcribed from the Apache Kafka message definitions
// (clients/src/main/resources/common/message/<Name>Request.json and
// <Name>Response.json, Kafka 2.x/3.x), NOT from kafka-go's struct tags. Field
// names are the snake_case form of the JSON names. Details of which the
// transcriber was not certain carry an "UNCERTAIN" comment and are listed in
// DISAGREEMENTS.md, section "Uncertain transcriptions".
//
// None of these definitions has a tagged field in the version ranges
// implemented here.

func init() {
	// AddPartitionsToTxnRequest.json / AddPartitionsToTxnResponse.json
	// validVersions 0-3 here, flexibleVersions 3+. Version 4 (Kafka 3.5+,
	// KIP-890: a batch of transactions, broker-only) has a different layout and
	// is not implemented.
	// UNCERTAIN (names only, no wire impact): Kafka 3.5+ renamed the v0-v3
	// fields to V3AndBelowTransactionalId / V3AndBelowProducerId /
	// V3AndBelowProducerEpoch / V3AndBelowTopics and the response fields to
	// ResultsByTopicV3AndBelow / ResultsByPartition / PartitionErrorCode. The
	// names below are those of the definition up to Kafka 3.4.
	register(`
api AddPartitionsToTxn 24 0-3 flex=3
req
  transactional_id string 0+
  producer_id int64 0+
  producer_epoch int16 0+
  topics [] 0+
    name string 0+
    partitions []int32 0+
res
  throttle_time_ms int32 0+
  results [] 0+
    name string 0+
    results [] 0+
      partition_index int32 0+
      error_code int16 0+
`)

	// AddOffsetsToTxnRequest.json / AddOffsetsToTxnResponse.json
	// validVersions 0-3 (0-4 from Kafka 3.8, no wire change), flexibleVersions 3+
	register(`
api AddOffsetsToTxn 25 0-3 flex=3
req
  transactional_id string 0+
  producer_id int64 0+
  producer_epoch int16 0+
  group_id string 0+
res
  throttle_time_ms int32 0+
  error_code int16 0+
`)

	// EndTxnRequest.json / EndTxnResponse.json
	// validVersions 0-3 (later 0-5), flexibleVersions 3+
	register(`
api EndTxn 26 0-3 flex=3
req
  transactional_id string 0+
  producer_id int64 0+
  producer_epoch int16 0+
  committed bool 0+
res
  throttle_time_ms int32 0+
  error_code int16 0+
`)

	// TxnOffsetCommitRequest.json / TxnOffsetCommitResponse.json
	// validVersions 0-3 (later 0-5), flexibleVersions 3+
	register(`
api TxnOffsetCommit 28 0-3 flex=3
req
  transactional_id string 0+
  group_id string 0+
  producer_id int64 0+
  producer_epoch int16 0+
  generation_id int32 3+ default=-1
  member_id string 3+
  group_instance_id string 3+ null=3+ default=null
  topics [] 0+
    name string 0+
    partitions [] 0+
      partition_index int32 0+
      committed_offset int64 0+
      committed_leader_epoch int32 2+ default=-1
      committed_metadata string 0+ null=0+
res
  throttle_time_ms int32 0+
  topics [] 0+
    name string 0+
    partitions [] 0+
      partition_index int32 0+
      error_code int16 0+
`)

	// DescribeAclsRequest.json / DescribeAclsResponse.json
	// validVersions 0-3, flexibleVersions 2+. The request is FLAT: the filter
	// fields are top-level fields of the request, there is no nested struct.
	// UNCERTAIN: v3 ("adds user resource type", KIP-554 era) is transcribed as
	// byte-compatible with v2; the same holds for CreateAcls and DeleteAcls.
	register(`
api DescribeAcls 29 0-3 flex=2
req
  resource_type_filter int8 0+
  resource_name_filter string 0+ null=0+
  pattern_type_filter int8 1+ default=3
  principal_filter string 0+ null=0+
  host_filter string 0+ null=0+
  operation int8 0+
  permission_type int8 0+
res
  throttle_time_ms int32 0+
  error_code int16 0+
  error_message string 0+ null=0+
  resources [] 0+
    resource_type int8 0+
    resource_name string 0+
    pattern_type int8 1+ default=3
    acls [] 0+
      principal string 0+
      host string 0+
      operation int8 0+
      permission_type int8 0+
`)

	// CreateAclsRequest.json / CreateAclsResponse.json
	// validVersions 0-3, flexibleVersions 2+
	register(`
api CreateAcls 30 0-3 flex=2
req
  creations [] 0+
    resource_type int8 0+
    resource_name string 0+
    resource_pattern_type int8 1+ default=3
    principal string 0+
    host string 0+
    operation int8 0+
    permission_type int8 0+
res
  throttle_time_ms int32 0+
  results [] 0+
    error_code int16 0+
    error_message string 0+ null=0+
`)

	// DeleteAclsRequest.json / DeleteAclsResponse.json
	// validVersions 0-3, flexibleVersions 2+
	register(`
api DeleteAcls 31 0-3 flex=2
req
  filters [] 0+
    resource_type_filter int8 0+
    resource_name_filter string 0+ null=0+
    pattern_type_filter int8 1+ default=3
    principal_filter string 0+ null=0+
    host_filter string 0+ null=0+
    operation int8 0+
    permission_type int8 0+
res
  throttle_time_ms int32 0+
  filter_results [] 0+
    error_code int16 0+
    error_message string 0+ null=0+
    matching_acls [] 0+
      error_code int16 0+
      error_message string 0+ null=0+
      resource_type int8 0+
      resource_name string 0+
      pattern_type int8 1+ default=3
      principal string 0+
      host string 0+
      operation int8 0+
      permission_type int8 0+
`)

	// DescribeConfigsRequest.json / DescribeConfigsResponse.json
	// validVersions 0-4, flexibleVersions 4+
	register(`
api DescribeConfigs 32 0-4 flex=4
req
  resources [] 0+
    resource_type int8 0+
    resource_name string 0+
    configuration_keys []string 0+ null=0+
  include_synonyms bool 1+
  include_documentation bool 3+
res
  throttle_time_ms int32 0+
  results [] 0+
    error_code int16 0+
    error_message string 0+ null=0+
    resource_type int8 0+
    resource_name string 0+
    configs [] 0+
      name string 0+
      value string 0+ null=0+
      read_only bool 0+
      is_default bool 0
      config_source int8 1+ default=-1
      is_sensitive bool 0+
      synonyms [] 1+
        name string 1+
        value string 1+ null=1+
        source int8 1+
      config_type int8 3+
      documentation string 3+ null=3+
`)

	// AlterConfigsRequest.json / AlterConfigsResponse.json
	// validVersions 0-2, flexibleVersions 2+
	register(`
api AlterConfigs 33 0-2 flex=2
req
  resources [] 0+
    resource_type int8 0+
    resource_name string 0+
    configs [] 0+
      name string 0+
      value string 0+ null=0+
  validate_only bool 0+
res
  throttle_time_ms int32 0+
  responses [] 0+
    error_code int16 0+
    error_message string 0+ null=0+
    resource_type int8 0+
    resource_name string 0+
`)

	// ElectLeadersRequest.json / ElectLeadersResponse.json
	// validVersions 0-2, flexibleVersions 2+
	// UNCERTAIN (name only, no wire impact): the []int32 inside TopicPartitions
	// is "Partitions" in current definitions; Kafka 2.4 called it "PartitionId".
	register(`
api ElectLeaders 43 0-2 flex=2
req
  election_type int8 1+
  topic_partitions [] 0+ null=0+
    topic string 0+
    partitions []int32 0+
  timeout_ms int32 0+ default=60000
res
  throttle_time_ms int32 0+
  error_code int16 1+
  replica_election_results [] 0+
    topic string 0+
    partition_result [] 0+
      partition_id int32 0+
      error_code int16 0+
      error_message string 0+ null=0+
`)

	// IncrementalAlterConfigsRequest.json / IncrementalAlterConfigsResponse.json
	// validVersions 0-1, flexibleVersions 1+
	register(`
api IncrementalAlterConfigs 44 0-1 flex=1
req
  resources [] 0+
    resource_type int8 0+
    resource_name string 0+
    configs [] 0+
      name string 0+
      config_operation int8 0+
      value string 0+ null=0+
  validate_only bool 0+
res
  throttle_time_ms int32 0+
  responses [] 0+
    error_code int16 0+
    error_message string 0+ null=0+
    resource_type int8 0+
    resource_name string 0+
`)

	// AlterPartitionReassignmentsRequest.json / AlterPartitionReassignmentsResponse.json
	// validVersions 0 (Kafka 4.0 adds v1 with AllowReplicationFactorChange: not
	// implemented), flexibleVersions 0+
	register(`
api AlterPartitionReassignments 45 0-0 flex=0
req
  timeout_ms int32 0+ default=60000
  topics [] 0+
    name string 0+
    partitions [] 0+
      partition_index int32 0+
      replicas []int32 0+ null=0+ default=null
res
  throttle_time_ms int32 0+
  error_code int16 0+
  error_message string 0+ null=0+
  responses [] 0+
    name string 0+
    partitions [] 0+
      partition_index int32 0+
      error_code int16 0+
      error_message string 0+ null=0+
`)

	// ListPartitionReassignmentsRequest.json / ListPartitionReassignmentsResponse.json
	// validVersions 0, flexibleVersions 0+
	register(`
api ListPartitionReassignments 46 0-0 flex=0
req
  timeout_ms int32 0+ default=60000
  topics [] 0+ null=0+ default=null
    name string 0+
    partition_indexes []int32 0+
res
  throttle_time_ms int32 0+
  error_code int16 0+
  error_message string 0+ null=0+
  topics [] 0+
    name string 0+
    partitions [] 0+
      partition_index int32 0+
      replicas []int32 0+
      adding_replicas []int32 0+
      removing_replicas []int32 0+
`)

	// DescribeClientQuotasRequest.json / DescribeClientQuotasResponse.json
	// validVersions 0-1, flexibleVersions 1+
	// UNCERTAIN: response Entries is transcribed with "nullableVersions": "0+"
	// (null when the request failed as a whole).
	register(`
api DescribeClientQuotas 48 0-1 flex=1
req
  components [] 0+
    entity_type string 0+
    match_type int8 0+
    match string 0+ null=0+
  strict bool 0+
res
  throttle_time_ms int32 0+
  error_code int16 0+
  error_message string 0+ null=0+
  entries [] 0+ null=0+
    entity [] 0+
      entity_type string 0+
      entity_name string 0+ null=0+
    values [] 0+
      key string 0+
      value float64 0+
`)

	// AlterClientQuotasRequest.json / AlterClientQuotasResponse.json
	// validVersions 0-1, flexibleVersions 1+
	register(`
api AlterClientQuotas 49 0-1 flex=1
req
  entries [] 0+
    entity [] 0+
      entity_type string 0+
      entity_name string 0+ null=0+
    ops [] 0+
      key string 0+
      value float64 0+
      remove bool 0+
  validate_only bool 0+
res
  throttle_time_ms int32 0+
  entries [] 0+
    error_code int16 0+
    error_message string 0+ null=0+
    entity [] 0+
      entity_type string 0+
      entity_name string 0+ null=0+
`)

	// DescribeUserScramCredentialsRequest.json / DescribeUserScramCredentialsResponse.json
	// validVersions 0, flexibleVersions 0+
	register(`
api DescribeUserScramCredentials 50 0-0 flex=0
req
  users [] 0+ null=0+
    name string 0+
res
  throttle_time_ms int32 0+
  error_code int16 0+
  error_message string 0+ null=0+
  results [] 0+
    user string 0+
    error_code int16 0+
    error_message string 0+ null=0+
    credential_infos [] 0+
      mechanism int8 0+
      iterations int32 0+
`)

	// AlterUserScramCredentialsRequest.json / AlterUserScramCredentialsResponse.json
	// validVersions 0, flexibleVersions 0+
	register(`
api AlterUserScramCredentials 51 0-0 flex=0
req
  deletions [] 0+
    name string 0+
    mechanism int8 0+
  upsertions [] 0+
    name string 0+
    mechanism int8 0+
    iterations int32 0+
    salt bytes 0+
    salted_password bytes 0+
res
  throttle_time_ms int32 0+
  results [] 0+
    user string 0+
    error_code int16 0+
    error_message string 0+ null=0+
`)
}
