package refcodec

// Schemas transcribed from the Apache Kafka message definitions
// (clients/src/main/resources/common/message/*.json). Field names are the
// snake_case form of the JSON names.

func init() {
	// ProduceRequest.json / ProduceResponse.json (flexible from v9: not implemented)
	register(`
api Produce 0 0-8 flex=none
req
  transactional_id string 3+ null=3+ default=null
  acks int16 0+
  timeout_ms int32 0+
  topic_data [] 0+
    name string 0+
    partition_data [] 0+
      index int32 0+
      records records 0+ null=0+ default=null
res
  responses [] 0+
    name string 0+
    partition_responses [] 0+
      index int32 0+
      error_code int16 0+
      base_offset int64 0+
      log_append_time_ms int64 2+ default=-1
      log_start_offset int64 5+ default=-1
      record_errors [] 8+
        batch_index int32 8+
        batch_index_error_message string 8+ null=8+ default=null
      error_message string 8+ null=8+ default=null
  throttle_time_ms int32 1+
`)

	// FetchRequest.json / FetchResponse.json (flexible from v12: not implemented)
	register(`
api Fetch 1 0-11 flex=none
req
  replica_id int32 0+ default=-1
  max_wait_ms int32 0+
  min_bytes int32 0+
  max_bytes int32 3+ default=0x7fffffff
  isolation_level int8 4+
  session_id int32 7+
  session_epoch int32 7+ default=-1
  topics [] 0+
    topic string 0+
    partitions [] 0+
      partition int32 0+
      current_leader_epoch int32 9+ default=-1
      fetch_offset int64 0+
      log_start_offset int64 5+ default=-1
      partition_max_bytes int32 0+
  forgotten_topics_data [] 7+
    topic string 7+
    partitions []int32 7+
  rack_id string 11+
res
  throttle_time_ms int32 1+
  error_code int16 7+
  session_id int32 7+
  responses [] 0+
    topic string 0+
    partitions [] 0+
      partition_index int32 0+
      error_code int16 0+
      high_watermark int64 0+
      last_stable_offset int64 4+ default=-1
      log_start_offset int64 5+ default=-1
      aborted_transactions [] 4+ null=4+
        producer_id int64 4+
        first_offset int64 4+
      preferred_read_replica int32 11+ default=-1
      records records 0+ null=0+ default=null
`)

	// ListOffsetsRequest.json / ListOffsetsResponse.json (flexible from v6: not implemented)
	register(`
api ListOffsets 2 0-5 flex=none
req
  replica_id int32 0+
  isolation_level int8 2+
  topics [] 0+
    name string 0+
    partitions [] 0+
      partition_index int32 0+
      current_leader_epoch int32 4+ default=-1
      timestamp int64 0+
      max_num_offsets int32 0 default=1
res
  throttle_time_ms int32 2+
  topics [] 0+
    name string 0+
    partitions [] 0+
      partition_index int32 0+
      error_code int16 0+
      old_style_offsets []int64 0
      timestamp int64 1+ default=-1
      offset int64 1+ default=-1
      leader_epoch int32 4+ default=-1
`)

	// MetadataRequest.json / MetadataResponse.json (flexible from v9: not implemented)
	register(`
api Metadata 3 0-8 flex=none
req
  topics [] 0+ null=1+
    name string 0+
  allow_auto_topic_creation bool 4+ default=true
  include_cluster_authorized_operations bool 8-10
  include_topic_authorized_operations bool 8+
res
  throttle_time_ms int32 3+
  brokers [] 0+
    node_id int32 0+
    host string 0+
    port int32 0+
    rack string 1+ null=1+ default=null
  cluster_id string 2+ null=2+ default=null
  controller_id int32 1+ default=-1
  topics [] 0+
    error_code int16 0+
    name string 0+
    is_internal bool 1+
    partitions [] 0+
      error_code int16 0+
      partition_index int32 0+
      leader_id int32 0+
      leader_epoch int32 7+ default=-1
      replica_nodes []int32 0+
      isr_nodes []int32 0+
      offline_replicas []int32 5+
    topic_authorized_operations int32 8+ default=-2147483648
  cluster_authorized_operations int32 8-10 default=-2147483648
`)
}
