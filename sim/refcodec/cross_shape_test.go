package refcodec

// Byte-level cross-validation cannot see two adjacent fields that are swapped
// but occupy the same number of bytes (the random values round-trip either
// way). This test compares, version by version, the *sequence* of field
// kinds, nullability and (normalised) names of kafka-go's message structs
// with refcodec's schemas.

import (
	"fmt"
	"reflect"
	"sort"
	"strconv"
	"strings"
	"testing"

	"github.com/segmentio/kafka-go/protocol"
)

type shapeField struct {
	name     string
	kind     string // bool,int8,...,string,bytes,records,array,struct
	nullable bool
	tag      int // -1 regular
	elem     *shapeField
	fields   []shapeField
}

type kgoTag struct {
	min, max int
	nullable bool
	tag      int // -2 none, -1 flexible marker, >=0 tagged
}

func parseKgoTags(s string) []kgoTag {
	var out []kgoTag
	for _, part := range strings.Split(s, "|") {
		t := kgoTag{min: -1, max: -1, tag: -2}
		for _, o := range strings.Split(part, ",") {
			switch {
			case strings.HasPrefix(o, "min=v"):
				t.min, _ = strconv.Atoi(o[5:])
			case strings.HasPrefix(o, "max=v"):
				t.max, _ = strconv.Atoi(o[5:])
			case o == "nullable":
				t.nullable = true
			case o == "tag":
				t.tag = -1
			case strings.HasPrefix(o, "tag="):
				t.tag, _ = strconv.Atoi(o[4:])
			}
		}
		out = append(out, t)
	}
	return out
}

func kgoShapeOfType(t reflect.Type, ver int, nullable bool) shapeField {
	if t == recordSetType {
		return shapeField{kind: "records", nullable: true}
	}
	switch t.Kind() {
	case reflect.Bool:
		return shapeField{kind: "bool"}
	case reflect.Int8:
		return shapeField{kind: "int8"}
	case reflect.Int16:
		return shapeField{kind: "int16"}
	case reflect.Int32:
		return shapeField{kind: "int32"}
	case reflect.Int64:
		return shapeField{kind: "int64"}
	case reflect.Float64:
		return shapeField{kind: "float64"}
	case reflect.String:
		return shapeField{kind: "string", nullable: nullable}
	case reflect.Slice:
		if t.Elem().Kind() == reflect.Uint8 {
			return shapeField{kind: "bytes", nullable: nullable}
		}
		// the nullable flag describes the array, not its elements (kafka-go's
		// arrayEncodeFuncOf clears it for the element encoder; before the repair
		// of DISAGREEMENTS.md #2 it handed the flag down)
		e := kgoShapeOfType(t.Elem(), ver, false)
		return shapeField{kind: "array", nullable: nullable, elem: &e}
	case reflect.Struct:
		return shapeField{kind: "struct", fields: kgoShape(t, ver)}
	}
	panic("kgoShapeOfType: " + t.String())
}

func kgoShape(t reflect.Type, ver int) []shapeField {
	var out []shapeField
	for i := 0; i < t.NumField(); i++ {
		f := t.Field(i)
		if f.Name == "_" || f.Type.Size() == 0 || f.PkgPath != "" {
			continue
		}
		tagStr, ok := f.Tag.Lookup("kafka")
		if !ok || tagStr == "-" {
			continue
		}
		for _, tg := range parseKgoTags(tagStr) {
			if tg.min <= ver && ver <= tg.max {
				s := kgoShapeOfType(f.Type, ver, tg.nullable)
				s.name = f.Name
				s.tag = -1
				if tg.tag >= 0 {
					s.tag = tg.tag
				}
				out = append(out, s)
				break
			}
		}
	}
	return out
}

func refShapeOf(f *Field, ver int16) shapeField {
	s := shapeField{name: f.Name, nullable: f.Nullable.Has(ver), tag: -1}
	if f.Tag >= 0 && f.TaggedVersions.Has(ver) {
		s.tag = f.Tag
	}
	switch f.Kind {
	case KArray:
		s.kind = "array"
		e := refShapeOf(f.Elem, ver)
		s.elem = &e
	case KStruct:
		s.kind = "struct"
		s.fields = refShape(f.Fields, ver)
	default:
		s.kind = f.Kind.String()
	}
	return s
}

func refShape(fields []Field, ver int16) []shapeField {
	var out []shapeField
	for i := range fields {
		if fields[i].Present(ver) {
			out = append(out, refShapeOf(&fields[i], ver))
		}
	}
	return out
}

func normName(s string) string {
	return strings.ToLower(strings.ReplaceAll(s, "_", ""))
}

// nameAliases: kafka-go Go field name -> Kafka JSON field name (snake_case),
// for the fields that kafka-go named differently from the Kafka definition.
// Each entry was checked by hand against the Kafka message definition.
var nameAliases = NameAliases

// kgoWrapperStructs: kafka-go struct fields that have no counterpart in the
// Kafka definition: kafka-go groups fields that Kafka has directly in the
// enclosing structure. The shape comparison records the finding and then goes
// on with the wrapped fields in place of the wrapper, so that their order,
// kinds and names are still compared. In a flexible version the wrapper adds
// a tag buffer that Kafka does not have.
var kgoWrapperStructs = map[string]bool{
	"DescribeAcls.req.Filter": true, // DISAGREEMENTS.md #9
}

type shapeFindings struct {
	m map[string][]int16
}

func (s *shapeFindings) add(k string, ver int16) {
	if s.m == nil {
		s.m = map[string][]int16{}
	}
	s.m[k] = appendVer(s.m[k], ver)
}

func compareShapes(sf *shapeFindings, ver int16, path string, kgo, ref []shapeField) {
	// tagged fields are compared as sets, regular fields as sequences
	var kr, rr []shapeField
	kt, rt := map[int]shapeField{}, map[int]shapeField{}
	var unwrapped []shapeField
	for _, f := range kgo {
		if f.kind == "struct" && kgoWrapperStructs[path+"."+f.name] {
			sf.add(fmt.Sprintf("%s.%s: kafka-go wraps fields in a struct that Kafka does not have", path, f.name), ver)
			for _, in := range f.fields {
				in.name = f.name + "." + in.name
				unwrapped = append(unwrapped, in)
			}
			continue
		}
		unwrapped = append(unwrapped, f)
	}
	kgo = unwrapped
	for _, f := range kgo {
		if f.tag >= 0 {
			kt[f.tag] = f
		} else {
			kr = append(kr, f)
		}
	}
	for _, f := range ref {
		if f.tag >= 0 {
			rt[f.tag] = f
		} else {
			rr = append(rr, f)
		}
	}
	for tag, f := range rt {
		if _, ok := kt[tag]; !ok {
			sf.add(fmt.Sprintf("%s: kafka-go does not model tagged field %s (tag %d)", path, f.name, tag), ver)
		}
	}
	for tag, f := range kt {
		if _, ok := rt[tag]; !ok {
			sf.add(fmt.Sprintf("%s: kafka-go has a tagged field %s (tag %d) unknown to refcodec", path, f.name, tag), ver)
		}
	}
	if len(kr) != len(rr) {
		sf.add(fmt.Sprintf("%s: field count differs: kafka-go %v, refcodec %v", path, shapeNames(kr), shapeNames(rr)), ver)
		return
	}
	for i := range kr {
		compareShapeField(sf, ver, path+"."+kr[i].name, kr[i], rr[i])
	}
}

func shapeNames(s []shapeField) []string {
	var out []string
	for _, f := range s {
		out = append(out, f.name+":"+f.kind)
	}
	return out
}

var usedAliases = map[string]bool{}

func compareShapeField(sf *shapeFindings, ver int16, path string, k, r shapeField) {
	if r.kind == "struct" && k.kind != "struct" && len(r.fields) == 1 && r.fields[0].tag < 0 {
		// kafka-go flattens a struct with a single field (e.g. Metadata request
		// topics: []string instead of []{name string}); same bytes in
		// non-flexible versions.
		inner := r.fields[0]
		inner.name = ""
		r = inner
	}
	if k.kind != r.kind {
		sf.add(fmt.Sprintf("%s: kind differs: kafka-go %s, refcodec %s %s", path, k.kind, r.name, r.kind), ver)
		return
	}
	if k.name != "" && r.name != "" {
		want := r.name
		if alias, ok := nameAliases[path]; ok {
			usedAliases[path] = true
			if alias != r.name {
				sf.add(fmt.Sprintf("%s: NAME/ORDER differs: kafka-go %s (= Kafka %s) is at the position of refcodec %s", path, k.name, alias, r.name), ver)
			}
		} else if normName(k.name[strings.LastIndexByte(k.name, '.')+1:]) != normName(want) { // "Wrapper.Field": see kgoWrapperStructs
			sf.add(fmt.Sprintf("%s: NAME/ORDER differs: kafka-go %s is at the position of refcodec %s", path, k.name, r.name), ver)
		}
	}
	if k.nullable != r.nullable && k.kind != "records" {
		sf.add(fmt.Sprintf("%s: nullability differs: kafka-go %v, Kafka %v", path, k.nullable, r.nullable), ver)
	}
	switch k.kind {
	case "array":
		ke, re := *k.elem, *r.elem
		ke.name, re.name = "", ""
		compareShapeField(sf, ver, path, ke, re)
	case "struct":
		compareShapes(sf, ver, path, k.fields, r.fields)
	}
}

// knownShape: findings of TestCrossShapes, triaged in DISAGREEMENTS.md.
var knownShape = map[string]string{
	// (DISAGREEMENTS.md #5, Heartbeat / LeaveGroup response field order, was repaired in kafka-go)
	// (#1, #2, #3, #10 - kafka-go could write a null where Kafka does not allow one - were repaired in kafka-go)
	// #4: tagged field not modelled
	"CreateTopics.res.Topics: kafka-go does not model tagged field topic_config_error_code (tag 0)": "v5",
	// #6: kafka-go cannot express a null that Kafka allows (harmless on the wire, see the file)
	"CreateTopics.res.Topics.Configs: nullability differs: kafka-go false, Kafka true":                 "v5",
	"Fetch.res.Topics.Partitions.AbortedTransactions: nullability differs: kafka-go false, Kafka true": "v4-v11",
	"SyncGroup.req.ProtocolName: nullability differs: kafka-go false, Kafka true":                      "v5",
	"SyncGroup.req.ProtocolType: nullability differs: kafka-go false, Kafka true":                      "v5",
	"SyncGroup.res.ProtocolName: nullability differs: kafka-go false, Kafka true":                      "v5",
	"SyncGroup.res.ProtocolType: nullability differs: kafka-go false, Kafka true":                      "v5",
	// #9: the DescribeAcls request is flat in Kafka
	"DescribeAcls.req.Filter: kafka-go wraps fields in a struct that Kafka does not have": "v0-v3 (one surplus byte on the wire in v2-v3)",
	// #11: kafka-go cannot express a null that Kafka allows
	"ElectLeaders.req.TopicPartitions: nullability differs: kafka-go false, Kafka true":                        "v0-v1",
	"DescribeUserScramCredentials.req.Users: nullability differs: kafka-go false, Kafka true":                  "v0",
	"DescribeClientQuotas.res.Entries: nullability differs: kafka-go false, Kafka true":                        "v0-v1",
	"TxnOffsetCommit.req.Topics.Partitions.CommittedMetadata: nullability differs: kafka-go false, Kafka true": "v0-v2",
}

func TestCrossShapes(t *testing.T) {
	sf := &shapeFindings{}
	for _, pair := range kgoAPIs {
		key := int16(pair.req.ApiKey())
		api := Lookup(key)
		kmin, kmax := protocol.ApiKey(key).MinVersion(), protocol.ApiKey(key).MaxVersion()
		for ver := max(kmin, api.MinVersion); ver <= min(kmax, api.MaxVersion); ver++ {
			compareShapes(sf, ver, api.Name+".req", kgoShape(reflect.TypeOf(pair.req).Elem(), int(ver)), refShape(api.Request, ver))
			compareShapes(sf, ver, api.Name+".res", kgoShape(reflect.TypeOf(pair.res).Elem(), int(ver)), refShape(api.Response, ver))
		}
	}
	for a := range nameAliases {
		if !usedAliases[a] {
			t.Errorf("alias %s is not used", a)
		}
	}
	var keys []string
	for k := range sf.m {
		keys = append(keys, k)
	}
	sort.Strings(keys)
	for _, k := range keys {
		t.Logf("DISAGREEMENT %s  [versions %v]", k, sf.m[k])
		if _, ok := knownShape[k]; !ok {
			t.Errorf("untriaged: %s %v", k, sf.m[k])
		}
	}
	for k := range knownShape {
		if _, ok := sf.m[k]; !ok {
			t.Errorf("listed as known but did not occur: %s", k)
		}
	}
}
