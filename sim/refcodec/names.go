package refcodec

// NameAliases maps a kafka-go Go field path ("<Api>.req|res.<Field>...") to
// the Kafka field name (snake_case) for the fields that kafka-go named
// differently from the Kafka message definition. Each entry was checked by
// hand against the Kafka definition. Used by the shape cross-validation test
// and by the simulation's field-value comparison (scenario "fields").
var NameAliases = map[string]string{
	"Produce.req.Timeout":                                   "timeout_ms",
	"Produce.req.Topics":                                    "topic_data",
	"Produce.req.Topics.Topic":                              "name",
	"Produce.req.Topics.Partitions":                         "partition_data",
	"Produce.req.Topics.Partitions.Partition":               "index",
	"Produce.req.Topics.Partitions.RecordSet":               "records",
	"Produce.res.Topics":                                    "responses",
	"Produce.res.Topics.Topic":                              "name",
	"Produce.res.Topics.Partitions":                         "partition_responses",
	"Produce.res.Topics.Partitions.Partition":               "index",
	"Produce.res.Topics.Partitions.LogAppendTime":           "log_append_time_ms",
	"Fetch.req.MaxWaitTime":                                 "max_wait_ms",
	"Fetch.req.ForgottenTopics":                             "forgotten_topics_data",
	"Fetch.res.Topics":                                      "responses",
	"Fetch.res.Topics.Partitions.Partition":                 "partition_index",
	"Fetch.res.Topics.Partitions.RecordSet":                 "records",
	"ListOffsets.req.Topics.Topic":                          "name",
	"ListOffsets.req.Topics.Partitions.Partition":           "partition_index",
	"ListOffsets.res.Topics.Topic":                          "name",
	"ListOffsets.res.Topics.Partitions.Partition":           "partition_index",
	"Metadata.req.TopicNames":                               "topics",
	"OffsetFetch.res.Topics.Partitions.ComittedLeaderEpoch": "committed_leader_epoch",
	"JoinGroup.res.LeaderID":                                "leader",
	"SyncGroup.res.Assignments":                             "assignment",
	"DeleteTopics.req.TopicNames":                           "topic_names",
	"DeleteGroups.req.GroupIDs":                             "groups_names",
	"DeleteGroups.res.Responses":                            "results",
	"CreatePartitions.req.Topics.Assignments.BrokerIDs":     "broker_ids",

	// schemas_more.go. Kafka JSON name in the comment.
	"TxnOffsetCommit.req.Topics.Partitions.Partition":                         "partition_index",     // PartitionIndex
	"TxnOffsetCommit.res.Topics.Partitions.Partition":                         "partition_index",     // PartitionIndex
	"DescribeAcls.req.Filter.ResourcePatternTypeFilter":                       "pattern_type_filter", // PatternTypeFilter
	"DeleteAcls.req.Filters.ResourcePatternTypeFilter":                        "pattern_type_filter", // PatternTypeFilter
	"DeleteAcls.res.FilterResults.MatchingACLs.ResourcePatternType":           "pattern_type",        // PatternType
	"DescribeConfigs.req.Resources.ConfigNames":                               "configuration_keys",  // ConfigurationKeys
	"DescribeConfigs.res.Resources":                                           "results",             // Results
	"DescribeConfigs.res.Resources.ConfigEntries":                             "configs",             // Configs
	"DescribeConfigs.res.Resources.ConfigEntries.ConfigName":                  "name",                // Name
	"DescribeConfigs.res.Resources.ConfigEntries.ConfigValue":                 "value",               // Value
	"DescribeConfigs.res.Resources.ConfigEntries.ConfigSynonyms":              "synonyms",            // Synonyms
	"DescribeConfigs.res.Resources.ConfigEntries.ConfigSynonyms.ConfigName":   "name",                // Name
	"DescribeConfigs.res.Resources.ConfigEntries.ConfigSynonyms.ConfigValue":  "value",               // Value
	"DescribeConfigs.res.Resources.ConfigEntries.ConfigSynonyms.ConfigSource": "source",              // Source
	"DescribeConfigs.res.Resources.ConfigEntries.ConfigDocumentation":         "documentation",       // Documentation
	"ElectLeaders.req.TopicPartitions.PartitionIDs":                           "partitions",          // Partitions (Kafka 2.4: PartitionId)
	"ElectLeaders.res.ThrottleTime":                                           "throttle_time_ms",    // ThrottleTimeMs
	"ElectLeaders.res.ReplicaElectionResults.PartitionResults":                "partition_result",    // PartitionResult
	"AlterPartitionReassignments.res.Results":                                 "responses",           // Responses
	"DescribeClientQuotas.res.Entries.Entities":                               "entity",              // Entity
	"AlterClientQuotas.req.Entries.Entities":                                  "entity",              // Entity
	"AlterClientQuotas.res.Results":                                           "entries",             // Entries
	"AlterClientQuotas.res.Results.Entities":                                  "entity",              // Entity
}
