package refcodec

// Cross-validation of the record codecs against kafka-go's protocol.RecordSet.

import (
	"bytes"
	"encoding/binary"
	"fmt"
	"math/rand"
	"reflect"
	"testing"
	"time"

	"github.com/segmentio/kafka-go/protocol"
	"github.com/segmentio/kafka-go/protocol/heartbeat"
	"github.com/segmentio/kafka-go/protocol/leavegroup"
)

func kgoWriteRecordSet(t *testing.T, version int8, attrs protocol.Attributes, recs []protocol.Record) []byte {
	t.Helper()
	rs := protocol.RecordSet{Version: version, Attributes: attrs, Records: protocol.NewRecordReader(recs...)}
	var buf bytes.Buffer
	if _, err := rs.WriteTo(&buf); err != nil {
		t.Fatalf("kafka-go RecordSet.WriteTo: %v", err)
	}
	b := buf.Bytes()
	if int(binary.BigEndian.Uint32(b)) != len(b)-4 {
		t.Fatalf("kafka-go record set size prefix %d, have %d bytes", binary.BigEndian.Uint32(b), len(b)-4)
	}
	return b[4:]
}

func kgoReadRecordSet(raw []byte) (protocol.RecordSet, []memRecord, error) {
	framed := append(binary.BigEndian.AppendUint32(nil, uint32(len(raw))), raw...)
	var rs protocol.RecordSet
	if _, err := rs.ReadFrom(bytes.NewReader(framed)); err != nil {
		return rs, nil, err
	}
	recs, err := drainRecords(rs.Records)
	return rs, recs, err
}

type plainRec struct {
	ts      int64
	key     []byte
	value   []byte
	headers []Header
}

func genPlain(r *rand.Rand, n int, headers bool) []plainRec {
	out := make([]plainRec, n)
	for i := range out {
		out[i] = plainRec{ts: 1_600_000_000_000 + int64(r.Intn(100000)), key: genBlob(r), value: genBlob(r)}
		if headers {
			for j, nh := 0, r.Intn(3); j < nh; j++ {
				out[i].headers = append(out[i].headers, Header{Key: genString(r, genOpts{noMaxStrings: true}), Value: genBlob(r)})
			}
		}
	}
	return out
}

func toKgo(p []plainRec) []protocol.Record {
	out := make([]protocol.Record, len(p))
	for i, r := range p {
		out[i] = protocol.Record{Offset: int64(i), Time: time.UnixMilli(r.ts), Key: protocol.NewBytes(r.key), Value: protocol.NewBytes(r.value)}
		for _, h := range r.headers {
			out[i].Headers = append(out[i].Headers, protocol.Header{Key: h.Key, Value: h.Value})
		}
	}
	return out
}

func sameBlob(a, b []byte) bool { return bytes.Equal(a, b) && (a == nil) == (b == nil) }

// kafka-go writes, refcodec reads strictly, re-encodes, kafka-go reads.
func TestCrossRecordsKafkaGoWrites(t *testing.T) {
	rng := rand.New(rand.NewSource(99))
	wrapperOffsetZero := 0
	wrappers := 0
	for _, version := range []int8{1, 2} {
		maxCodec := CodecZstd
		if version == 1 {
			maxCodec = CodecLZ4
		}
		for codec := CodecNone; codec <= maxCodec; codec++ {
			for it := 0; it < 15; it++ {
				what := fmt.Sprintf("v%d codec %d it %d", version, codec, it)
				plain := genPlain(rng, 1+rng.Intn(5), version == 2)
				raw := kgoWriteRecordSet(t, version, protocol.Attributes(codec), toKgo(plain))
				batches, err := DecodeRecordSet(raw, DecodeOpts{Strict: true})
				if err != nil {
					t.Fatalf("%s: refcodec strict decode of kafka-go's bytes: %v", what, err)
				}
				var got []Record
				for _, b := range batches {
					if b.Magic != version || b.Codec != codec {
						t.Fatalf("%s: batch magic %d codec %d", what, b.Magic, b.Codec)
					}
					got = append(got, b.Records...)
				}
				if len(got) != len(plain) {
					t.Fatalf("%s: %d records, want %d", what, len(got), len(plain))
				}
				for i, r := range got {
					p := plain[i]
					if r.Offset != int64(i) || r.Timestamp != p.ts || !sameBlob(r.Key, p.key) || !sameBlob(r.Value, p.value) ||
						!reflect.DeepEqual(r.Headers, p.headers) {
						t.Fatalf("%s: record %d: got %+v want %+v", what, i, r, p)
					}
				}
				switch {
				case version == 2:
					b := batches[0]
					if len(batches) != 1 || b.BaseOffset != 0 || int(b.LastOffsetDelta) != len(plain)-1 || b.ProducerID != -1 ||
						b.ProducerEpoch != -1 || b.BaseSequence != -1 || b.PartitionLeaderEpoch != -1 || b.FirstTimestamp != plain[0].ts {
						t.Fatalf("%s: batch header %+v", what, b)
					}
				case codec != CodecNone:
					// DISAGREEMENTS.md #7: kafka-go leaves the wrapper's offset at 0
					// instead of the offset of the last inner message.
					wrappers++
					if len(batches) != 1 || !batches[0].RelativeInner {
						t.Fatalf("%s: wrapper %+v", what, batches)
					}
					if batches[0].BaseOffset == 0 && len(plain) > 1 {
						wrapperOffsetZero++
					}
				}
				// re-encode with refcodec
				var re []byte
				for _, b := range batches {
					enc, _, err := EncodeBatch(b, EncodeOpts{})
					if err != nil {
						t.Fatalf("%s: EncodeBatch: %v", what, err)
					}
					re = append(re, enc...)
				}
				if codec == CodecNone && !bytes.Equal(re, raw) {
					t.Fatalf("%s: uncompressed re-encoding differs:\n kafka-go %x\n refcodec %x", what, raw, re)
				}
				_, back, err := kgoReadRecordSet(re)
				if err != nil {
					t.Fatalf("%s: kafka-go cannot read refcodec's bytes: %v", what, err)
				}
				if len(back) != len(plain) {
					t.Fatalf("%s: kafka-go read %d records, want %d", what, len(back), len(plain))
				}
				for i, r := range back {
					p := plain[i]
					if r.Offset != int64(i) || r.Time != p.ts || !sameBlob(r.Key, p.key) || !sameBlob(r.Value, p.value) || len(r.Headers) != len(p.headers) {
						t.Fatalf("%s: kafka-go read record %d: %+v want %+v", what, i, r, p)
					}
				}
			}
		}
	}
	if wrapperOffsetZero == 0 {
		t.Errorf("DISAGREEMENTS.md #7 did not occur: kafka-go no longer writes v1 wrappers with offset 0")
	} else {
		t.Logf("DISAGREEMENT #7: %d of %d compressed v1 wrappers written by kafka-go carry offset 0 instead of the last inner offset", wrapperOffsetZero, wrappers)
	}
}

// refcodec writes what a broker would serve (any base offset, holes), kafka-go reads.
func TestCrossRecordsRefcodecWrites(t *testing.T) {
	rng := rand.New(rand.NewSource(100))
	type key struct {
		magic    int8
		relative bool
		holes    bool
	}
	wrong := map[key]int{}
	total := map[key]int{}
	for magic := int8(0); magic <= 2; magic++ {
		maxCodec := CodecZstd
		if magic < 2 {
			maxCodec = CodecLZ4
		}
		for codec := CodecNone; codec <= maxCodec; codec++ {
			for it := 0; it < 30; it++ {
				b := Batch{Magic: magic, Codec: codec, ProducerID: -1, ProducerEpoch: -1, BaseSequence: -1, PartitionLeaderEpoch: 3}
				base := int64(1 + rng.Intn(1000))
				holes := rng.Intn(2) == 0
				b.RelativeInner = magic == 1 && codec != 0 && rng.Intn(3) != 0
				b.BaseOffset = base
				b.Records = genRecords(rng, magic, base, 1+rng.Intn(5), holes)
				what := fmt.Sprintf("magic %d codec %d it %d relative %v holes %v", magic, codec, it, b.RelativeInner, holes)
				enc, _, err := EncodeBatch(b, EncodeOpts{SnappyRaw: rng.Intn(2) == 0})
				if err != nil {
					t.Fatal(err)
				}
				rs, got, err := kgoReadRecordSet(enc)
				if err != nil {
					t.Fatalf("%s: kafka-go cannot read: %v", what, err)
				}
				wantVersion := magic
				if magic == 0 {
					wantVersion = 1 // kafka-go reports 0 and 1 alike
				}
				if rs.Version != wantVersion || int8(rs.Attributes.Compression()) != codec {
					t.Fatalf("%s: kafka-go version %d attributes %v", what, rs.Version, rs.Attributes)
				}
				if len(got) != len(b.Records) {
					t.Fatalf("%s: kafka-go read %d records, want %d", what, len(got), len(b.Records))
				}
				k := key{magic, b.RelativeInner, holes}
				compressedLegacy := magic < 2 && codec != CodecNone
				if compressedLegacy {
					total[k]++
				}
				offsetsWrong := false
				for i, r := range got {
					w := b.Records[i]
					wantTS := w.Timestamp
					if magic == 0 {
						wantTS = 0 // kafka-go: no timestamp -> Unix epoch
					}
					if !sameBlob(r.Key, w.Key) || !sameBlob(r.Value, w.Value) || r.Time != wantTS || len(r.Headers) != len(w.Headers) {
						t.Fatalf("%s: record %d: kafka-go %+v want %+v", what, i, r, w)
					}
					for j, h := range w.Headers {
						if r.Headers[j].Key != h.Key || !bytes.Equal(r.Headers[j].Value, h.Value) {
							t.Fatalf("%s: record %d header %d", what, i, j)
						}
					}
					if r.Offset != w.Offset {
						if !compressedLegacy || (b.RelativeInner && !holes) {
							t.Fatalf("%s: record %d: kafka-go offset %d want %d", what, i, r.Offset, w.Offset)
						}
						offsetsWrong = true
					}
				}
				if offsetsWrong {
					wrong[k]++
				}
			}
		}
	}
	// DISAGREEMENTS.md #8 (kafka-go assumed that the inner messages of every
	// compressed wrapper carry relative offsets 0..n-1) was repaired in
	// kafka-go ("fix: protocol: absolute offsets of compressed v0/v1 messages
	// use the last inner offset"): every layout must now be read correctly.
	for k, n := range total {
		t.Logf("compressed legacy wrappers %+v: kafka-go computed wrong offsets in %d of %d", k, wrong[k], n)
		if wrong[k] != 0 {
			t.Errorf("kafka-go mis-read the offsets of compressed legacy wrappers %+v in %d of %d cases", k, wrong[k], n)
		}
	}
}

// DISAGREEMENTS.md #5 demonstrated on the wire: a Heartbeat / LeaveGroup
// response v1+ carrying an error is read by kafka-go as "no error".
func TestCrossHeartbeatLeaveGroupFieldOrder(t *testing.T) {
	for ver := int16(1); ver <= 4; ver++ {
		frame, _, err := EncodeResponse(12, ver, 1, Msg{"throttle_time_ms": int32(0), "error_code": int16(27)}, nil)
		if err != nil {
			t.Fatal(err)
		}
		_, m, err := protocol.ReadResponse(bytes.NewReader(frame), protocol.Heartbeat, ver)
		if err != nil {
			t.Fatal(err)
		}
		r := m.(*heartbeat.Response)
		// (DISAGREEMENTS.md #5 was repaired in kafka-go by a "fix:" commit: the
		// Kafka field order is now the expectation)
		if r.ErrorCode != 27 || r.ThrottleTimeMs != 0 {
			t.Errorf("Heartbeat v%d: kafka-go does not read the Kafka field order: %+v", ver, r)
		}

		frame, _, err = EncodeResponse(13, ver, 1, Msg{"throttle_time_ms": int32(0), "error_code": int16(25)}, nil)
		if err != nil {
			t.Fatal(err)
		}
		_, m, err = protocol.ReadResponse(bytes.NewReader(frame), protocol.LeaveGroup, ver)
		if err != nil {
			t.Fatal(err)
		}
		l := m.(*leavegroup.Response)
		if l.ErrorCode != 25 || l.ThrottleTimeMS != 0 {
			t.Errorf("LeaveGroup v%d: kafka-go does not read the Kafka field order: %+v", ver, l)
		}
	}
	// v0 has no throttle time: both agree
	frame, _, _ := EncodeResponse(12, 0, 1, Msg{"error_code": int16(27)}, nil)
	_, m, err := protocol.ReadResponse(bytes.NewReader(frame), protocol.Heartbeat, 0)
	if err != nil || m.(*heartbeat.Response).ErrorCode != 27 {
		t.Errorf("Heartbeat v0: %+v %v", m, err)
	}
}
