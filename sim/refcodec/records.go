package refcodec

import (
	"bytes"
	"compress/gzip"
	"encoding/binary"
	"errors"
	"fmt"
	"hash/crc32"
	"io"
	"math"
	"strconv"

	"github.com/golang/snappy"
	"github.com/klauspost/compress/zstd"
	"github.com/pierrec/lz4/v4"
)

// Header is a record header (magic 2 only).
type Header struct {
	Key   string
	Value []byte // nil = null
}

// Record is one record of a Batch.
//
// Timestamp is what the wire says: for magic 2 FirstTimestamp+delta, for
// magic 1 the message's own timestamp, for magic 0 always -1. It is NOT
// replaced by the batch's MaxTimestamp when LogAppendTime is set; callers that
// want the consumer-visible timestamp apply that rule themselves.
type Record struct {
	Offset    int64
	Timestamp int64
	Key       []byte // nil = null, []byte{} = empty
	Value     []byte // same
	Headers   []Header
}

// Batch is one top-level entry of a record set: a v2 record batch, or one
// top-level v0/v1 message (a compressed wrapper's inner messages become
// Records). For magic 0/1 the v2-only fields decode as: ProducerID,
// ProducerEpoch, BaseSequence, PartitionLeaderEpoch = -1; LastOffsetDelta,
// FirstTimestamp = 0; MaxTimestamp = the top-level message's timestamp (-1 for
// magic 0).
type Batch struct {
	Magic                int8
	Codec                int8 // 0 none, 1 gzip, 2 snappy, 3 lz4, 4 zstd
	LogAppendTime        bool
	Transactional        bool
	Control              bool
	BaseOffset           int64
	LastOffsetDelta      int32
	PartitionLeaderEpoch int32
	FirstTimestamp       int64
	MaxTimestamp         int64
	ProducerID           int64
	ProducerEpoch        int16
	BaseSequence         int32
	Records              []Record
	// RelativeInner (v1 compressed wrapper only): inner messages carry offsets
	// relative to the first inner message (the KIP-31 layout: 0..n-1, or with
	// gaps after compaction); false: they carry absolute offsets.
	RelativeInner bool
	// ZstdWindow (encoding, zstd only): compress with a streaming encoder
	// configured for this window instead of the one-shot encoder. Once the
	// payload exceeds one 128 KiB block the frame header announces the full
	// window, as frames from producers running high compression levels do.
	ZstdWindow int
}

// DecodeOpts controls DecodeRecordSet.
type DecodeOpts struct {
	// Strict: see SPEC.md §4. When !Strict a truncated trailing batch/message
	// is silently dropped, CRCs are not verified, non-minimal varints and
	// slack bytes inside a record/message/batch payload are tolerated.
	Strict bool
}

// EncodeOpts controls EncodeBatch.
type EncodeOpts struct {
	// SnappyRaw: emit a raw snappy block instead of the xerial framing that
	// Kafka producers emit.
	SnappyRaw  bool
	zstdWindow int
}

// Codec numbers.
const (
	CodecNone   int8 = 0
	CodecGzip   int8 = 1
	CodecSnappy int8 = 2
	CodecLZ4    int8 = 3
	CodecZstd   int8 = 4
)

const (
	v2HeaderSize  = 61 // base_offset .. records_count
	v2MinLength   = v2HeaderSize - 12
	logOverhead   = 12 // offset + size
	magicOffset   = 16
	v0MinSize     = 4 + 1 + 1 + 4 + 4
	v1MinSize     = v0MinSize + 8
	attrCodecMask = 0x07
	attrTSType    = 0x08
	attrTxn       = 0x10
	attrControl   = 0x20
	attrDelHoriz  = 0x40
)

var castagnoli = crc32.MakeTable(crc32.Castagnoli)

// ---------------------------------------------------------------------------
// signed varints (zigzag)

func appendVarlong(b []byte, v int64) []byte {
	u := uint64(v<<1) ^ uint64(v>>63)
	for u >= 0x80 {
		b = append(b, byte(u)|0x80)
		u >>= 7
	}
	return append(b, byte(u))
}

func sizeVarlong(v int64) int {
	u := uint64(v<<1) ^ uint64(v>>63)
	n := 1
	for u >= 0x80 {
		u >>= 7
		n++
	}
	return n
}

// readVarlong reads a zigzag varint of at most maxBytes bytes (5 for varint,
// 10 for varlong) from b at off.
func readVarlong(b []byte, off int, maxBytes int, strict bool, what string) (int64, int, error) {
	var u uint64
	for i := 0; i < maxBytes; i++ {
		if off+i >= len(b) {
			return 0, 0, fmt.Errorf("%s: truncated varint at offset %d", what, off)
		}
		c := b[off+i]
		if i == 9 && c > 1 {
			return 0, 0, fmt.Errorf("%s: varint overflows 64 bits at offset %d", what, off)
		}
		u |= uint64(c&0x7f) << (7 * uint(i))
		if c&0x80 == 0 {
			if strict && i > 0 && c == 0 {
				return 0, 0, fmt.Errorf("%s: non-minimal varint at offset %d", what, off)
			}
			if maxBytes == 5 && u > math.MaxUint32 {
				return 0, 0, fmt.Errorf("%s: varint overflows 32 bits at offset %d", what, off)
			}
			return int64(u>>1) ^ -int64(u&1), i + 1, nil
		}
	}
	return 0, 0, fmt.Errorf("%s: over-long varint at offset %d", what, off)
}

// ---------------------------------------------------------------------------
// compression

var xerialMagic = []byte{0x82, 'S', 'N', 'A', 'P', 'P', 'Y', 0}

const xerialBlockSize = 32 * 1024

func compressData(codec int8, data []byte, o EncodeOpts) ([]byte, error) {
	switch codec {
	case CodecGzip:
		var buf bytes.Buffer
		zw := gzip.NewWriter(&buf)
		if _, err := zw.Write(data); err != nil {
			return nil, err
		}
		if err := zw.Close(); err != nil {
			return nil, err
		}
		return buf.Bytes(), nil
	case CodecSnappy:
		if o.SnappyRaw {
			return snappy.Encode(nil, data), nil
		}
		out := append([]byte{}, xerialMagic...)
		out = binary.BigEndian.AppendUint32(out, 1) // version
		out = binary.BigEndian.AppendUint32(out, 1) // compatible version
		for len(data) > 0 {
			n := len(data)
			if n > xerialBlockSize {
				n = xerialBlockSize
			}
			blk := snappy.Encode(nil, data[:n])
			out = binary.BigEndian.AppendUint32(out, uint32(len(blk)))
			out = append(out, blk...)
			data = data[n:]
		}
		return out, nil
	case CodecLZ4:
		var buf bytes.Buffer
		zw := lz4.NewWriter(&buf)
		// What Kafka's KafkaLZ4BlockOutputStream writes: 64 KiB independent
		// blocks, no block checksum, no content checksum.
		if err := zw.Apply(lz4.BlockSizeOption(lz4.Block64Kb), lz4.BlockChecksumOption(false),
			lz4.ChecksumOption(false), lz4.ConcurrencyOption(1)); err != nil {
			return nil, err
		}
		if _, err := zw.Write(data); err != nil {
			return nil, err
		}
		if err := zw.Close(); err != nil {
			return nil, err
		}
		return buf.Bytes(), nil
	case CodecZstd:
		if o.zstdWindow > 0 {
			var buf bytes.Buffer
			enc, err := zstd.NewWriter(&buf, zstd.WithEncoderConcurrency(1), zstd.WithWindowSize(o.zstdWindow))
			if err != nil {
				return nil, err
			}
			if _, err := enc.Write(data); err != nil {
				return nil, err
			}
			if err := enc.Close(); err != nil {
				return nil, err
			}
			return buf.Bytes(), nil
		}
		// A fresh single-threaded encoder per call: no shared goroutines/pools.
		enc, err := zstd.NewWriter(nil, zstd.WithEncoderConcurrency(1), zstd.WithLowerEncoderMem(true),
			zstd.WithWindowSize(1<<20))
		if err != nil {
			return nil, err
		}
		out := enc.EncodeAll(data, nil)
		enc.Close()
		return out, nil
	}
	return nil, fmt.Errorf("refcodec: unknown compression codec %d", codec)
}

func decompressData(codec int8, data []byte) ([]byte, error) {
	switch codec {
	case CodecGzip:
		zr, err := gzip.NewReader(bytes.NewReader(data))
		if err != nil {
			return nil, fmt.Errorf("gzip: %w", err)
		}
		zr.Multistream(true)
		out, err := io.ReadAll(zr)
		if err != nil {
			return nil, fmt.Errorf("gzip: %w", err)
		}
		return out, nil
	case CodecSnappy:
		if len(data) >= 16 && bytes.Equal(data[:8], xerialMagic) {
			var out []byte
			p := data[16:]
			for len(p) > 0 {
				if len(p) < 4 {
					return nil, errors.New("snappy: truncated xerial chunk header")
				}
				n := int(binary.BigEndian.Uint32(p))
				p = p[4:]
				if n < 0 || n > len(p) {
					return nil, errors.New("snappy: xerial chunk length exceeds the data")
				}
				blk, err := snappy.Decode(nil, p[:n])
				if err != nil {
					return nil, fmt.Errorf("snappy: %w", err)
				}
				out = append(out, blk...)
				p = p[n:]
			}
			if out == nil {
				out = []byte{}
			}
			return out, nil
		}
		out, err := snappy.Decode(nil, data)
		if err != nil {
			return nil, fmt.Errorf("snappy: %w", err)
		}
		return out, nil
	case CodecLZ4:
		out, err := io.ReadAll(lz4.NewReader(bytes.NewReader(data)))
		if err != nil {
			return nil, fmt.Errorf("lz4: %w", err)
		}
		return out, nil
	case CodecZstd:
		dec, err := zstd.NewReader(nil, zstd.WithDecoderConcurrency(1))
		if err != nil {
			return nil, fmt.Errorf("zstd: %w", err)
		}
		defer dec.Close()
		out, err := dec.DecodeAll(data, nil)
		if err != nil {
			return nil, fmt.Errorf("zstd: %w", err)
		}
		if out == nil {
			out = []byte{}
		}
		return out, nil
	}
	return nil, fmt.Errorf("unknown compression codec %d", codec)
}

// ---------------------------------------------------------------------------
// decoding

// DecodeRecordSet decodes the raw bytes of a KRecords field.
func DecodeRecordSet(b []byte, o DecodeOpts) ([]Batch, error) {
	var out []Batch
	off := 0
	for off < len(b) {
		rem := len(b) - off
		if rem < magicOffset+1 {
			if o.Strict {
				return out, fmt.Errorf("refcodec: record set: %d trailing bytes at offset %d are too short for a batch header", rem, off)
			}
			break
		}
		size := int32(binary.BigEndian.Uint32(b[off+8:]))
		magic := int8(b[off+magicOffset])
		var minSize int32
		switch magic {
		case 0:
			minSize = v0MinSize
		case 1:
			minSize = v1MinSize
		case 2:
			minSize = v2MinLength
		default:
			return out, fmt.Errorf("refcodec: record set: unknown magic %d at offset %d", magic, off)
		}
		if size < minSize {
			return out, fmt.Errorf("refcodec: record set: entry at offset %d: size %d below the minimum %d for magic %d", off, size, minSize, magic)
		}
		if int64(size) > int64(rem-logOverhead) {
			if o.Strict {
				return out, fmt.Errorf("refcodec: record set: entry at offset %d: size %d exceeds the remaining %d bytes", off, size, rem-logOverhead)
			}
			break
		}
		total := logOverhead + int(size)
		var bt Batch
		var err error
		if magic == 2 {
			bt, err = decodeBatchV2(b[off:off+total], o.Strict)
		} else {
			bt, err = decodeLegacyTop(b[off:off+total], o.Strict)
		}
		if err != nil {
			return out, fmt.Errorf("refcodec: record set: entry at offset %d: %w", off, err)
		}
		out = append(out, bt)
		off += total
	}
	return out, nil
}

func decodeBatchV2(b []byte, strict bool) (Batch, error) {
	var bt Batch
	bt.Magic = 2
	bt.BaseOffset = int64(binary.BigEndian.Uint64(b[0:]))
	bt.PartitionLeaderEpoch = int32(binary.BigEndian.Uint32(b[12:]))
	crc := binary.BigEndian.Uint32(b[17:])
	attrs := binary.BigEndian.Uint16(b[21:])
	bt.LastOffsetDelta = int32(binary.BigEndian.Uint32(b[23:]))
	bt.FirstTimestamp = int64(binary.BigEndian.Uint64(b[27:]))
	bt.MaxTimestamp = int64(binary.BigEndian.Uint64(b[35:]))
	bt.ProducerID = int64(binary.BigEndian.Uint64(b[43:]))
	bt.ProducerEpoch = int16(binary.BigEndian.Uint16(b[51:]))
	bt.BaseSequence = int32(binary.BigEndian.Uint32(b[53:]))
	count := int32(binary.BigEndian.Uint32(b[57:]))

	if strict {
		if got := crc32.Checksum(b[21:], castagnoli); got != crc {
			return bt, fmt.Errorf("crc32c mismatch: header says %#08x, computed %#08x", crc, got)
		}
		if attrs&^(attrCodecMask|attrTSType|attrTxn|attrControl|attrDelHoriz) != 0 {
			return bt, fmt.Errorf("unknown attribute bits %#04x", attrs)
		}
	}
	bt.Codec = int8(attrs & attrCodecMask)
	bt.LogAppendTime = attrs&attrTSType != 0
	bt.Transactional = attrs&attrTxn != 0
	bt.Control = attrs&attrControl != 0
	if bt.Codec > CodecZstd {
		return bt, fmt.Errorf("unknown compression codec %d", bt.Codec)
	}
	if count < 0 {
		return bt, fmt.Errorf("negative records_count %d", count)
	}
	payload := b[v2HeaderSize:]
	if bt.Codec != CodecNone {
		var err error
		if payload, err = decompressData(bt.Codec, payload); err != nil {
			return bt, fmt.Errorf("decompress: %w", err)
		}
	}
	if int64(count) > int64(len(payload)) {
		return bt, fmt.Errorf("records_count %d exceeds the %d payload bytes", count, len(payload))
	}
	off := 0
	for i := 0; i < int(count); i++ {
		what := "records[" + strconv.Itoa(i) + "]"
		length, n, err := readVarlong(payload, off, 5, strict, what+".length")
		if err != nil {
			return bt, err
		}
		off += n
		if length < 0 || int(length) > len(payload)-off {
			return bt, fmt.Errorf("%s: length %d exceeds the remaining %d bytes", what, length, len(payload)-off)
		}
		rec, used, delta, err := decodeRecordV2(payload[off:off+int(length)], strict, what)
		if err != nil {
			return bt, err
		}
		if strict && used != int(length) {
			return bt, fmt.Errorf("%s: length says %d bytes, fields use %d", what, length, used)
		}
		if strict && delta != int64(i) {
			return bt, fmt.Errorf("%s: offset delta %d, want %d", what, delta, i)
		}
		rec.Offset = bt.BaseOffset + delta
		rec.Timestamp += bt.FirstTimestamp
		bt.Records = append(bt.Records, rec)
		off += int(length)
	}
	if strict {
		if off != len(payload) {
			return bt, fmt.Errorf("%d bytes remain after the last of %d records", len(payload)-off, count)
		}
		if count > 0 && bt.LastOffsetDelta != count-1 {
			return bt, fmt.Errorf("last_offset_delta %d but records_count %d", bt.LastOffsetDelta, count)
		}
	}
	return bt, nil
}

// FixCRC (extension to SPEC.md) recomputes the checksum of the single
// top-level entry (v2 batch or v0/v1 message) that starts at b[0], using the
// entry's own length field when it is plausible and len(b) otherwise. It is
// meant for callers that mutate fields reported by EncodeBatch and want the
// result to fail on the mutated field rather than on the checksum.
func FixCRC(b []byte) error {
	if len(b) < magicOffset+2 {
		return errors.New("refcodec: FixCRC: entry too short")
	}
	end := len(b)
	if size := int64(int32(binary.BigEndian.Uint32(b[8:]))); size >= 6 && size+logOverhead <= int64(len(b)) {
		end = int(size) + logOverhead
	}
	switch b[magicOffset] {
	case 0, 1:
		binary.BigEndian.PutUint32(b[12:], crc32.ChecksumIEEE(b[16:end]))
	case 2:
		if end < 21 {
			return errors.New("refcodec: FixCRC: batch too short")
		}
		binary.BigEndian.PutUint32(b[17:], crc32.Checksum(b[21:end], castagnoli))
	default:
		return fmt.Errorf("refcodec: FixCRC: unknown magic %d", b[magicOffset])
	}
	return nil
}

// decodeRecordV2 decodes the body of one record (after its length varint).
// Timestamp holds the delta on return; delta is the offset delta.
func decodeRecordV2(b []byte, strict bool, what string) (rec Record, used int, delta int64, err error) {
	if len(b) < 1 {
		return rec, 0, 0, fmt.Errorf("%s: empty record body", what)
	}
	if strict && b[0] != 0 {
		return rec, 0, 0, fmt.Errorf("%s: record attributes %#02x, want 0", what, b[0])
	}
	off := 1
	tsDelta, n, err := readVarlong(b, off, 10, strict, what+".timestamp_delta")
	if err != nil {
		return rec, 0, 0, err
	}
	off += n
	delta, n, err = readVarlong(b, off, 5, strict, what+".offset_delta")
	if err != nil {
		return rec, 0, 0, err
	}
	off += n
	rec.Timestamp = tsDelta
	readBlob := func(name string, nullable bool) ([]byte, error) {
		l, n, err := readVarlong(b, off, 5, strict, what+"."+name+"_length")
		if err != nil {
			return nil, err
		}
		off += n
		if l < 0 {
			if l != -1 || !nullable {
				return nil, fmt.Errorf("%s: invalid %s length %d", what, name, l)
			}
			return nil, nil
		}
		if int(l) > len(b)-off {
			return nil, fmt.Errorf("%s: %s length %d exceeds the remaining %d bytes", what, name, l, len(b)-off)
		}
		v := make([]byte, l)
		copy(v, b[off:])
		off += int(l)
		return v, nil
	}
	if rec.Key, err = readBlob("key", true); err != nil {
		return rec, 0, 0, err
	}
	if rec.Value, err = readBlob("value", true); err != nil {
		return rec, 0, 0, err
	}
	nh, n, err := readVarlong(b, off, 5, strict, what+".headers_count")
	if err != nil {
		return rec, 0, 0, err
	}
	off += n
	if nh < 0 || int(nh) > len(b)-off {
		return rec, 0, 0, fmt.Errorf("%s: invalid headers count %d", what, nh)
	}
	for j := 0; j < int(nh); j++ {
		hn := "headers[" + strconv.Itoa(j) + "]"
		k, err := readBlob(hn+".key", false)
		if err != nil {
			return rec, 0, 0, err
		}
		v, err := readBlob(hn+".value", true)
		if err != nil {
			return rec, 0, 0, err
		}
		rec.Headers = append(rec.Headers, Header{Key: string(k), Value: v})
	}
	return rec, off, delta, nil
}

type legacyMsg struct {
	offset    int64
	magic     int8
	attrs     int8
	timestamp int64
	key       []byte
	value     []byte
}

// decodeLegacyMsg decodes one v0/v1 message occupying exactly b.
func decodeLegacyMsg(b []byte, strict bool) (legacyMsg, error) {
	var m legacyMsg
	m.offset = int64(binary.BigEndian.Uint64(b[0:]))
	crc := binary.BigEndian.Uint32(b[12:])
	m.magic = int8(b[16])
	m.attrs = int8(b[17])
	if strict {
		if got := crc32.ChecksumIEEE(b[16:]); got != crc {
			return m, fmt.Errorf("crc32 mismatch: message says %#08x, computed %#08x", crc, got)
		}
		allowed := int8(attrCodecMask)
		if m.magic == 1 {
			allowed |= attrTSType
		}
		if m.attrs&^allowed != 0 {
			return m, fmt.Errorf("unknown attribute bits %#02x for magic %d", uint8(m.attrs), m.magic)
		}
	}
	off := 18
	m.timestamp = -1
	if m.magic == 1 {
		m.timestamp = int64(binary.BigEndian.Uint64(b[off:]))
		off += 8
	}
	readBlob := func(name string) ([]byte, error) {
		if len(b)-off < 4 {
			return nil, fmt.Errorf("truncated %s length", name)
		}
		l := int32(binary.BigEndian.Uint32(b[off:]))
		off += 4
		if l < 0 {
			if l != -1 {
				return nil, fmt.Errorf("invalid %s length %d", name, l)
			}
			return nil, nil
		}
		if int(l) > len(b)-off {
			return nil, fmt.Errorf("%s length %d exceeds the remaining %d bytes of the message", name, l, len(b)-off)
		}
		v := make([]byte, l)
		copy(v, b[off:])
		off += int(l)
		return v, nil
	}
	var err error
	if m.key, err = readBlob("key"); err != nil {
		return m, err
	}
	if m.value, err = readBlob("value"); err != nil {
		return m, err
	}
	if strict && off != len(b) {
		return m, fmt.Errorf("message_size leaves %d unused bytes", len(b)-off)
	}
	return m, nil
}

func decodeLegacyTop(b []byte, strict bool) (Batch, error) {
	bt := Batch{PartitionLeaderEpoch: -1, ProducerID: -1, ProducerEpoch: -1, BaseSequence: -1}
	m, err := decodeLegacyMsg(b, strict)
	if err != nil {
		return bt, err
	}
	bt.Magic = m.magic
	bt.Codec = m.attrs & attrCodecMask
	bt.LogAppendTime = m.attrs&attrTSType != 0
	bt.BaseOffset = m.offset
	bt.MaxTimestamp = m.timestamp
	if bt.Codec == CodecNone {
		bt.Records = []Record{{Offset: m.offset, Timestamp: m.timestamp, Key: m.key, Value: m.value}}
		return bt, nil
	}
	if bt.Codec > CodecZstd {
		return bt, fmt.Errorf("unknown compression codec %d", bt.Codec)
	}
	if strict && bt.Codec == CodecZstd {
		return bt, errors.New("zstd is not allowed for magic < 2")
	}
	if m.value == nil {
		return bt, errors.New("compressed wrapper message with a null value")
	}
	if strict && m.key != nil {
		return bt, errors.New("compressed wrapper message with a non-null key")
	}
	inner, err := decompressData(bt.Codec, m.value)
	if err != nil {
		return bt, fmt.Errorf("decompress: %w", err)
	}
	minSize := int32(v0MinSize)
	if m.magic == 1 {
		minSize = v1MinSize
	}
	var msgs []legacyMsg
	off := 0
	for off < len(inner) {
		rem := len(inner) - off
		trunc := rem < logOverhead
		var size int32
		if !trunc {
			size = int32(binary.BigEndian.Uint32(inner[off+8:]))
			if rem > magicOffset && int8(inner[off+magicOffset]) != m.magic {
				return bt, fmt.Errorf("inner message %d: magic %d does not match the wrapper's magic %d", len(msgs), inner[off+magicOffset], m.magic)
			}
			if size < minSize {
				return bt, fmt.Errorf("inner message %d: size %d below the minimum %d", len(msgs), size, minSize)
			}
			trunc = int64(size) > int64(rem-logOverhead)
		}
		if trunc {
			if strict {
				return bt, fmt.Errorf("inner message %d is truncated", len(msgs))
			}
			break
		}
		total := logOverhead + int(size)
		im, err := decodeLegacyMsg(inner[off:off+total], strict)
		if err != nil {
			return bt, fmt.Errorf("inner message %d: %w", len(msgs), err)
		}
		if im.attrs&attrCodecMask != 0 {
			return bt, fmt.Errorf("inner message %d: nested compression", len(msgs))
		}
		msgs = append(msgs, im)
		off += total
	}
	if len(msgs) == 0 {
		if strict {
			return bt, errors.New("compressed wrapper message without inner messages")
		}
		return bt, nil
	}
	for i := range msgs {
		if strict && i > 0 && msgs[i].offset <= msgs[i-1].offset {
			return bt, fmt.Errorf("inner message %d: offset %d not above the previous offset %d", i, msgs[i].offset, msgs[i-1].offset)
		}
	}
	// A magic-1 wrapper whose first inner offset is 0 uses the KIP-31 relative
	// layout (for a wrapper at the very start of a log both layouts coincide).
	bt.RelativeInner = m.magic == 1 && msgs[0].offset == 0
	// KIP-31: absolute = wrapper offset - last inner offset + inner offset; if
	// that base is negative the inner offsets are taken as they are (what
	// Kafka's AbstractLegacyRecordBatch does).
	base := int64(0)
	if m.magic == 1 {
		if d := m.offset - msgs[len(msgs)-1].offset; d >= 0 {
			base = d
		}
	}
	for _, im := range msgs {
		bt.Records = append(bt.Records, Record{Offset: base + im.offset, Timestamp: im.timestamp, Key: im.key, Value: im.value})
	}
	return bt, nil
}

// ---------------------------------------------------------------------------
// encoding

// EncodeBatch encodes one Batch in its Magic/Codec; see SPEC.md §4.
func EncodeBatch(b Batch, o EncodeOpts) ([]byte, []LenField, error) {
	if b.Codec < 0 || b.Codec > CodecZstd {
		return nil, nil, fmt.Errorf("refcodec: unknown compression codec %d", b.Codec)
	}
	switch b.Magic {
	case 0, 1:
		return encodeLegacy(b, o)
	case 2:
		return encodeBatchV2(b, o)
	}
	return nil, nil, fmt.Errorf("refcodec: unknown magic %d", b.Magic)
}

func appendLegacyMsg(out []byte, lens *[]LenField, idx int, magic int8, attrs int8, offset, ts int64, key, value []byte) []byte {
	start := len(out)
	out = binary.BigEndian.AppendUint64(out, uint64(offset))
	out = binary.BigEndian.AppendUint32(out, 0) // message_size
	out = binary.BigEndian.AppendUint32(out, 0) // crc
	out = append(out, byte(magic), byte(attrs))
	if magic == 1 {
		out = binary.BigEndian.AppendUint64(out, uint64(ts))
	}
	p := "messages[" + strconv.Itoa(idx) + "]"
	blob := func(kind, name string, v []byte) {
		off := len(out)
		n := int32(-1)
		if v != nil {
			n = int32(len(v))
		}
		out = binary.BigEndian.AppendUint32(out, uint32(n))
		out = append(out, v...)
		if lens != nil {
			*lens = append(*lens, LenField{Off: off, Size: 4, Kind: kind, Path: p + "." + name, Value: int64(n)})
		}
	}
	blob("msg-key-length", "key", key)
	blob("msg-value-length", "value", value)
	size := len(out) - start - logOverhead
	binary.BigEndian.PutUint32(out[start+8:], uint32(size))
	binary.BigEndian.PutUint32(out[start+12:], crc32.ChecksumIEEE(out[start+16:]))
	if lens != nil {
		*lens = append(*lens, LenField{Off: start + 8, Size: 4, Kind: "message-size", Path: p, Value: int64(size)})
	}
	return out
}

func encodeLegacy(b Batch, o EncodeOpts) ([]byte, []LenField, error) {
	var attrs int8
	if b.LogAppendTime && b.Magic == 1 {
		attrs |= attrTSType
	}
	ts := func(r Record) int64 {
		if b.Magic == 0 {
			return -1
		}
		return r.Timestamp
	}
	for _, r := range b.Records {
		if len(r.Headers) != 0 {
			return nil, nil, fmt.Errorf("refcodec: record headers need magic 2, batch has magic %d", b.Magic)
		}
	}
	var lens []LenField
	if b.Codec == CodecNone {
		out := []byte{}
		for i, r := range b.Records {
			out = appendLegacyMsg(out, &lens, i, b.Magic, attrs, r.Offset, ts(r), r.Key, r.Value)
		}
		sortLens(lens)
		return out, lens, nil
	}
	if len(b.Records) == 0 {
		return nil, nil, errors.New("refcodec: a compressed v0/v1 wrapper needs at least one record")
	}
	var inner []byte
	maxTS := int64(-1)
	for i, r := range b.Records {
		off := r.Offset
		if b.RelativeInner && b.Magic == 1 {
			// KIP-31: relative to the first inner message; 0..n-1 for consecutive
			// records, with gaps where a compacted wrapper lost messages.
			off = r.Offset - b.Records[0].Offset
		}
		inner = appendLegacyMsg(inner, nil, i, b.Magic, 0, off, ts(r), r.Key, r.Value)
		if ts(r) > maxTS {
			maxTS = ts(r)
		}
	}
	o.zstdWindow = b.ZstdWindow
	comp, err := compressData(b.Codec, inner, o)
	if err != nil {
		return nil, nil, err
	}
	wts := b.MaxTimestamp
	if wts == 0 {
		wts = maxTS
	}
	out := appendLegacyMsg(nil, &lens, 0, b.Magic, attrs|b.Codec, b.Records[len(b.Records)-1].Offset, wts, nil, comp)
	sortLens(lens)
	return out, lens, nil
}

func sortLens(l []LenField) {
	// insertion sort by offset; the lists are short and nearly sorted
	for i := 1; i < len(l); i++ {
		for j := i; j > 0 && l[j].Off < l[j-1].Off; j-- {
			l[j], l[j-1] = l[j-1], l[j]
		}
	}
}

func encodeBatchV2(b Batch, o EncodeOpts) ([]byte, []LenField, error) {
	first, max := b.FirstTimestamp, b.MaxTimestamp
	if first == 0 && max == 0 && len(b.Records) > 0 {
		first = b.Records[0].Timestamp
		max = b.Records[0].Timestamp
		for _, r := range b.Records {
			if r.Timestamp > max {
				max = r.Timestamp
			}
		}
	}
	lod := b.LastOffsetDelta
	if lod == 0 && len(b.Records) > 0 {
		d := b.Records[len(b.Records)-1].Offset - b.BaseOffset
		if d < math.MinInt32 || d > math.MaxInt32 {
			return nil, nil, fmt.Errorf("refcodec: last offset delta %d out of range", d)
		}
		lod = int32(d)
	}
	var attrs uint16 = uint16(b.Codec)
	if b.LogAppendTime {
		attrs |= attrTSType
	}
	if b.Transactional {
		attrs |= attrTxn
	}
	if b.Control {
		attrs |= attrControl
	}

	var lens []LenField
	var body []byte // records section, uncompressed; offsets relative to body
	vfield := func(kind, path string, v int64) {
		off := len(body)
		body = appendVarlong(body, v)
		lens = append(lens, LenField{Off: off, Size: len(body) - off, Kind: kind, Path: path, Value: v})
	}
	blob := func(kind, path string, v []byte, isNil bool) {
		if isNil {
			vfield(kind, path, -1)
			return
		}
		vfield(kind, path, int64(len(v)))
		body = append(body, v...)
	}
	for i, r := range b.Records {
		p := "records[" + strconv.Itoa(i) + "]"
		od := r.Offset - b.BaseOffset
		if od < math.MinInt32 || od > math.MaxInt32 {
			return nil, nil, fmt.Errorf("refcodec: %s: offset delta %d out of range", p, od)
		}
		td := r.Timestamp - first
		size := 1 + sizeVarlong(td) + sizeVarlong(od)
		klen, vlen := int64(-1), int64(-1)
		if r.Key != nil {
			klen = int64(len(r.Key))
			size += len(r.Key)
		}
		if r.Value != nil {
			vlen = int64(len(r.Value))
			size += len(r.Value)
		}
		size += sizeVarlong(klen) + sizeVarlong(vlen) + sizeVarlong(int64(len(r.Headers)))
		for _, h := range r.Headers {
			size += sizeVarlong(int64(len(h.Key))) + len(h.Key)
			if h.Value == nil {
				size += sizeVarlong(-1)
			} else {
				size += sizeVarlong(int64(len(h.Value))) + len(h.Value)
			}
		}
		vfield("record-length", p, int64(size))
		start := len(body)
		body = append(body, 0) // record attributes
		body = appendVarlong(body, td)
		body = appendVarlong(body, od)
		blob("key-length", p+".key", r.Key, r.Key == nil)
		blob("value-length", p+".value", r.Value, r.Value == nil)
		vfield("headers-count", p+".headers", int64(len(r.Headers)))
		for j, h := range r.Headers {
			hp := p + ".headers[" + strconv.Itoa(j) + "]"
			blob("header-key-length", hp+".key", []byte(h.Key), false)
			blob("header-value-length", hp+".value", h.Value, h.Value == nil)
		}
		if len(body)-start != size {
			return nil, nil, fmt.Errorf("refcodec: internal error: record size %d != computed %d", len(body)-start, size)
		}
	}

	out := make([]byte, v2HeaderSize, v2HeaderSize+len(body))
	binary.BigEndian.PutUint64(out[0:], uint64(b.BaseOffset))
	binary.BigEndian.PutUint32(out[12:], uint32(b.PartitionLeaderEpoch))
	out[16] = 2
	binary.BigEndian.PutUint16(out[21:], attrs)
	binary.BigEndian.PutUint32(out[23:], uint32(lod))
	binary.BigEndian.PutUint64(out[27:], uint64(first))
	binary.BigEndian.PutUint64(out[35:], uint64(max))
	binary.BigEndian.PutUint64(out[43:], uint64(b.ProducerID))
	binary.BigEndian.PutUint16(out[51:], uint16(b.ProducerEpoch))
	binary.BigEndian.PutUint32(out[53:], uint32(b.BaseSequence))
	binary.BigEndian.PutUint32(out[57:], uint32(len(b.Records)))
	if b.Codec == CodecNone {
		out = append(out, body...)
		for i := range lens {
			lens[i].Off += v2HeaderSize
		}
	} else {
		o.zstdWindow = b.ZstdWindow
		comp, err := compressData(b.Codec, body, o)
		if err != nil {
			return nil, nil, err
		}
		out = append(out, comp...)
		lens = nil // the per-record fields are not addressable inside compressed data
	}
	binary.BigEndian.PutUint32(out[8:], uint32(len(out)-logOverhead))
	binary.BigEndian.PutUint32(out[17:], crc32.Checksum(out[21:], castagnoli))
	all := make([]LenField, 0, len(lens)+2)
	all = append(all,
		LenField{Off: 8, Size: 4, Kind: "batch-length", Path: "", Value: int64(len(out) - logOverhead)},
		LenField{Off: 57, Size: 4, Kind: "records-count", Path: "records", Value: int64(len(b.Records))})
	all = append(all, lens...)
	return out, all, nil
}
