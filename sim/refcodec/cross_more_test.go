package refcodec

// Demonstrations of the disagreements found for the APIs of schemas_more.go
// (DISAGREEMENTS.md #9 and #11). Like the other pinned findings they assert
// that the deviation still exists and fail with "did not occur" otherwise.

import (
	"bytes"
	"encoding/binary"
	"reflect"
	"testing"

	"github.com/segmentio/kafka-go/protocol"
	"github.com/segmentio/kafka-go/protocol/describeacls"
	"github.com/segmentio/kafka-go/protocol/electleaders"
)

// DISAGREEMENTS.md #9: Kafka's DescribeAclsRequest is flat. kafka-go groups
// the seven filter fields in a struct (Request.Filter) that has its own tag
// buffer in flexible versions, so its v2/v3 request is the Kafka encoding
// followed by one surplus 0x00, and it cannot read the Kafka encoding.
func TestCrossDescribeAclsRequestWrapper(t *testing.T) {
	for ver := int16(0); ver <= 3; ver++ {
		kreq := &describeacls.Request{Filter: describeacls.ACLFilter{
			ResourceTypeFilter: 2, ResourceNameFilter: "t", ResourcePatternTypeFilter: 3,
			PrincipalFilter: "User:a", HostFilter: "", Operation: 1, PermissionType: 3}}
		var kb bytes.Buffer
		if err := protocol.WriteRequest(&kb, ver, 5, "c", kreq); err != nil {
			t.Fatal(err)
		}
		body := Msg{"resource_type_filter": int8(2), "resource_name_filter": "t", "principal_filter": "User:a",
			"host_filter": nil, "operation": int8(1), "permission_type": int8(3)}
		if ver >= 1 {
			body["pattern_type_filter"] = int8(3)
		}
		client := "c"
		ref, err := EncodeRequest(RequestHeader{APIKey: 29, APIVersion: ver, CorrelationID: 5, ClientID: &client}, body)
		if err != nil {
			t.Fatal(err)
		}
		if ver < 2 {
			if !bytes.Equal(kb.Bytes(), ref) {
				t.Errorf("DescribeAcls v%d request: kafka-go % x, refcodec % x", ver, kb.Bytes(), ref)
			}
			continue
		}
		// kafka-go = Kafka encoding + one surplus byte (the wrapper's tag buffer)
		want := append(append([]byte{}, ref...), 0)
		binary.BigEndian.PutUint32(want, uint32(len(want)-4))
		switch {
		case bytes.Equal(kb.Bytes(), ref):
			t.Errorf("DescribeAcls v%d request: the surplus tag buffer did not occur (kafka-go now writes the Kafka encoding): update DISAGREEMENTS.md #9", ver)
		case !bytes.Equal(kb.Bytes(), want):
			t.Errorf("DescribeAcls v%d request:\n kafka-go % x\n expected % x (Kafka encoding plus one 0x00)", ver, kb.Bytes(), want)
		}
		// a parser that stops after the request's tag buffer (as Kafka's
		// generated reader does) sees the same values in the prefix
		if _, _, got, err := DecodeRequest(ref[4:]); err != nil || !reflect.DeepEqual(got, body) {
			t.Errorf("DescribeAcls v%d: %v %v", ver, got, err)
		}
		if _, _, _, err := DecodeRequest(kb.Bytes()[4:]); err == nil {
			t.Errorf("DescribeAcls v%d: strict decoder accepted the surplus byte", ver)
		}
		// and kafka-go (as a server) cannot read what a Kafka client sends
		if _, _, _, _, err := protocol.ReadRequest(bytes.NewReader(ref)); err == nil {
			t.Errorf("DescribeAcls v%d request: kafka-go reads the Kafka encoding: \"cannot read\" did not occur: update DISAGREEMENTS.md #9", ver)
		}
	}
}

// DISAGREEMENTS.md #11: in ElectLeaders a null topic_partitions array means
// "all partitions"; kafka-go has no nullable tag on it and writes an empty
// array for a nil slice, which selects no partition at all.
func TestCrossElectLeadersAllPartitions(t *testing.T) {
	for ver := int16(0); ver <= 1; ver++ {
		var kb bytes.Buffer
		if err := protocol.WriteRequest(&kb, ver, 1, "c", &electleaders.Request{TimeoutMs: 60000}); err != nil {
			t.Fatal(err)
		}
		_, _, got, err := DecodeRequest(kb.Bytes()[4:])
		if err != nil {
			t.Fatal(err)
		}
		if got.IsNull("topic_partitions") {
			t.Errorf("ElectLeaders v%d: kafka-go wrote a null topic_partitions: \"cannot express null\" did not occur: update DISAGREEMENTS.md #11", ver)
		} else if len(got.Arr("topic_partitions")) != 0 {
			t.Errorf("ElectLeaders v%d: %v", ver, got)
		}
		// the Kafka way of asking for all partitions is readable by kafka-go (as empty)
		client := "c"
		ref, err := EncodeRequest(RequestHeader{APIKey: 43, APIVersion: ver, CorrelationID: 1, ClientID: &client},
			Msg{"topic_partitions": nil, "timeout_ms": int32(60000)})
		if err != nil {
			t.Fatal(err)
		}
		_, _, _, m, err := protocol.ReadRequest(bytes.NewReader(ref))
		if err != nil || len(m.(*electleaders.Request).TopicPartitions) != 0 {
			t.Errorf("ElectLeaders v%d: kafka-go reading null topic_partitions: %+v %v", ver, m, err)
		}
	}
}
