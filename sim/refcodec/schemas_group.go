package refcodec

func init() {
	// OffsetCommitRequest.json / OffsetCommitResponse.json (flexible from v8: not implemented)
	register(`
api OffsetCommit 8 0-7 flex=none
req
  group_id string 0+
  generation_id int32 1+ default=-1
  member_id string 1+
  group_instance_id string 7+ null=7+ default=null
  retention_time_ms int64 2-4 default=-1
  topics [] 0+
    name string 0+
    partitions [] 0+
      partition_index int32 0+
      committed_offset int64 0+
      committed_leader_epoch int32 6+ default=-1
      commit_timestamp int64 1 default=-1
      committed_metadata string 0+ null=0+
res
  throttle_time_ms int32 3+
  topics [] 0+
    name string 0+
    partitions [] 0+
      partition_index int32 0+
      error_code int16 0+
`)

	// OffsetFetchRequest.json / OffsetFetchResponse.json (flexible from v6: not implemented)
	register(`
api OffsetFetch 9 0-5 flex=none
req
  group_id string 0+
  topics [] 0+ null=2+
    name string 0+
    partition_indexes []int32 0+
res
  throttle_time_ms int32 3+
  topics [] 0+
    name string 0+
    partitions [] 0+
      partition_index int32 0+
      committed_offset int64 0+
      committed_leader_epoch int32 5+ default=-1
      metadata string 0+ null=0+
      error_code int16 0+
  error_code int16 2+
`)

	// FindCoordinatorRequest.json / FindCoordinatorResponse.json (flexible from v3: not implemented)
	register(`
api FindCoordinator 10 0-2 flex=none
req
  key string 0+
  key_type int8 1+
res
  throttle_time_ms int32 1+
  error_code int16 0+
  error_message string 1+ null=1+
  node_id int32 0+
  host string 0+
  port int32 0+
`)

	// JoinGroupRequest.json / JoinGroupResponse.json
	register(`
api JoinGroup 11 0-7 flex=6
req
  group_id string 0+
  session_timeout_ms int32 0+
  rebalance_timeout_ms int32 1+ default=-1
  member_id string 0+
  group_instance_id string 5+ null=5+ default=null
  protocol_type string 0+
  protocols [] 0+
    name string 0+
    metadata bytes 0+
res
  throttle_time_ms int32 2+
  error_code int16 0+
  generation_id int32 0+ default=-1
  protocol_type string 7+ null=7+ default=null
  protocol_name string 0+ null=7+
  leader string 0+
  member_id string 0+
  members [] 0+
    member_id string 0+
    group_instance_id string 5+ null=5+ default=null
    metadata bytes 0+
`)

	// HeartbeatRequest.json / HeartbeatResponse.json
	register(`
api Heartbeat 12 0-4 flex=4
req
  group_id string 0+
  generation_id int32 0+
  member_id string 0+
  group_instance_id string 3+ null=3+ default=null
res
  throttle_time_ms int32 1+
  error_code int16 0+
`)

	// LeaveGroupRequest.json / LeaveGroupResponse.json
	register(`
api LeaveGroup 13 0-4 flex=4
req
  group_id string 0+
  member_id string 0-2
  members [] 3+
    member_id string 3+
    group_instance_id string 3+ null=3+ default=null
res
  throttle_time_ms int32 1+
  error_code int16 0+
  members [] 3+
    member_id string 3+
    group_instance_id string 3+ null=3+
    error_code int16 3+
`)

	// SyncGroupRequest.json / SyncGroupResponse.json
	register(`
api SyncGroup 14 0-5 flex=4
req
  group_id string 0+
  generation_id int32 0+
  member_id string 0+
  group_instance_id string 3+ null=3+ default=null
  protocol_type string 5+ null=5+ default=null
  protocol_name string 5+ null=5+ default=null
  assignments [] 0+
    member_id string 0+
    assignment bytes 0+
res
  throttle_time_ms int32 1+
  error_code int16 0+
  protocol_type string 5+ null=5+ default=null
  protocol_name string 5+ null=5+ default=null
  assignment bytes 0+
`)

	// DescribeGroupsRequest.json / DescribeGroupsResponse.json
	register(`
api DescribeGroups 15 0-5 flex=5
req
  groups []string 0+
  include_authorized_operations bool 3+
res
  throttle_time_ms int32 1+
  groups [] 0+
    error_code int16 0+
    group_id string 0+
    group_state string 0+
    protocol_type string 0+
    protocol_data string 0+
    members [] 0+
      member_id string 0+
      group_instance_id string 4+ null=4+ default=null
      client_id string 0+
      client_host string 0+
      member_metadata bytes 0+
      member_assignment bytes 0+
    authorized_operations int32 3+ default=-2147483648
`)

	// ListGroupsRequest.json / ListGroupsResponse.json
	register(`
api ListGroups 16 0-4 flex=3
req
  states_filter []string 4+
res
  throttle_time_ms int32 1+
  error_code int16 0+
  groups [] 0+
    group_id string 0+
    protocol_type string 0+
    group_state string 4+
`)

	// DeleteGroupsRequest.json / DeleteGroupsResponse.json
	register(`
api DeleteGroups 42 0-2 flex=2
req
  groups_names []string 0+
res
  throttle_time_ms int32 0+
  results [] 0+
    group_id string 0+
    error_code int16 0+
`)

	// OffsetDeleteRequest.json / OffsetDeleteResponse.json
	register(`
api OffsetDelete 47 0-0 flex=none
req
  group_id string 0+
  topics [] 0+
    name string 0+
    partitions [] 0+
      partition_index int32 0+
res
  error_code int16 0+
  throttle_time_ms int32 0+
  topics [] 0+
    name string 0+
    partitions [] 0+
      partition_index int32 0+
      error_code int16 0+
`)
}
