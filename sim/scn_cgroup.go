package sim

import (
	"context"
	"errors"
	"fmt"
	"github.com/segmentio/kafka-go/zsimrt"
	"strings"
	"time"

	kafka "github.com/segmentio/kafka-go"
)

func init() { Scenarios["cgroup"] = cgroupScenario }

type cgFn struct {
	gen        int // index into member.gens
	startStep  int // when Start returned
	startAt    time.Duration
	lateStart  bool // started after the generation had already ended
	doneStep   int  // when its ctx was observed done (0 = never)
	doneAt     time.Duration
	exitStep   int
	exitAt     time.Duration
	selfExit   bool // exits on its own (without waiting for ctx)
	exited     bool
	errAtStart error
}

type cgGen struct {
	id       int32
	memberID string
	gotStep  int // step at which Next returned it
	gotAt    time.Duration
	fns      []*cgFn
	endAt    time.Duration // first instant a function observed ctx.Done (-1 = not yet)
	endStep  int
	ended    bool
	ctx      context.Context // the generation's context, as handed to its first function
}

// over reports whether the generation has ended as the library sees it (its
// context is done), which may be a few steps before a function observes it.
func (g *cgGen) over() bool { return g.ended || (g.ctx != nil && g.ctx.Err() != nil) }

type cgMember struct {
	k          int
	clientID   string
	cg         *kafka.ConsumerGroup
	gens       []*cgGen
	closeInv   int
	closeInvAt time.Duration
	closeRet   int
	closeRetAt time.Duration
	closed     bool
	nextErrs   []error
	afterClose error
	topics     []string
	rack       string
	balancers  []kafka.GroupBalancer
}

func cgroupScenario(s *Sim, params map[string]string) {
	t := s.T
	n := NewNet(s)
	n.MinLatency = time.Duration(t.Range("cfg", 1, 10)) * 100 * time.Microsecond
	n.MaxLatency = n.MinLatency + time.Duration(t.Range("cfg", 0, 20))*100*time.Microsecond
	cl := NewCluster(s, n)
	nb := t.Range("cfg", 1, 3)
	rackMode := t.Intn("racks", 2) == 0 // brokers and members live in racks
	for i := 1; i <= nb; i++ {
		rack := ""
		if rackMode {
			rack = []string{"r1", "r2"}[(i-1)%2]
		}
		b := cl.AddBroker(int32(i), rack)
		b.Versions[11] = [2]int16{0, Pick(t, "cfg", int16(7), 2, 1)}
		b.Versions[3] = [2]int16{0, Pick(t, "cfg", int16(8), 6, 1)}
	}
	top := cl.AddTopic("ct", t.Range("cfg", 1, 4), func(int) int32 { return int32(1 + t.Intn("cfg", nb)) })
	cl.AddTopic("cu", t.Range("cfg", 1, 3), func(int) int32 { return int32(1 + t.Intn("cfg", nb)) })
	cl.MetaOrder = Pick(t, "cfg", 0, 0, 1, 2, 3) // brokers list partitions in no particular order
	g := cl.group("cgrp")
	installAssignmentMonitor(s, cl)
	var membersRef func() []*cgMember
	electionsPlanned := false
	cl.MemberRack = func(memberID string) (string, bool) {
		if !rackMode || electionsPlanned {
			return "", false // (leaders move in this run: the racks the group leader saw are not the racks now)
		}
		for _, m := range membersRef() {
			if strings.HasPrefix(memberID, m.clientID+"-m") {
				return m.rack, true
			}
		}
		return "", false
	}
	// members may subscribe to different topic sets (a rolling deploy that
	// adds a topic): whoever is elected leader assigns the partitions of every
	// topic any member subscribes to
	hetero := t.Intn("cfg", 2) == 0
	balancer := []kafka.GroupBalancer{kafka.RangeGroupBalancer{}, kafka.RoundRobinGroupBalancer{}, kafka.RackAffinityGroupBalancer{Rack: "r1"}}[t.Intn("cfg", 3)]

	fmode := t.Intn("cfg", 4)
	if v, ok := params["faults"]; ok {
		fmt.Sscan(v, &fmode)
	}
	timing := false
	groupAPIs := map[int16]bool{9: true, 10: true, 11: true, 12: true, 13: true, 14: true, 3: true}
	switch fmode {
	case 0, 1:
	case 2:
		cl.F = FaultCfg{ErrorCode: Pick(t, "cfg", 30, 100), APIs: groupAPIs}
	case 3:
		cl.F = FaultCfg{ErrorCode: 40, CutBeforeApply: 25, CutAfterApply: 25, CutInResponse: 25, Slow: 25, Stall: 5, SlowMin: 50 * time.Millisecond, SlowMax: 3 * time.Second, APIs: groupAPIs}
		timing = true
	}
	endAt := time.Duration(t.Range("cfg", 5, 40)) * time.Second
	cl.F.Until = endAt

	hb := Pick(t, "cfg", 300*time.Millisecond, time.Second, 3*time.Second)
	session := Pick(t, "cfg", 4*time.Second, 10*time.Second)
	rebalance := Pick(t, "cfg", 2*time.Second, 8*time.Second)
	if t.Intn("longrebalance", 3) == 0 {
		// a rebalance timeout well above the session timeout: joins may be
		// held at the coordinator for longer than a session lasts
		rebalance = 20 * time.Second
		session = 4 * time.Second
	}
	backoff := Pick(t, "cfg", 500*time.Millisecond, 2*time.Second, 5*time.Second)
	timeout := Pick(t, "cfg", 2*time.Second, 5*time.Second)
	watch := t.Intn("cfg", 3) == 0
	watchIvl := Pick(t, "cfg", 500*time.Millisecond, 2*time.Second)

	mixedLists := t.Intn("racks", 2) == 0
	nmem := t.Range("cfg", 1, 3)
	lateNext := t.Intn("latenext", 3) == 0
	longLinger := t.Intn("longlinger", 4) == 0
	var members []*cgMember
	membersRef = func() []*cgMember { return members }
	slack := 2*n.MaxLatency + time.Millisecond

	runMember := func(m *cgMember, startDelay time.Duration) {
		s.Go(fmt.Sprintf("member%d", m.k), func() {
			if startDelay > 0 {
				s.Sleep(startDelay)
			}
			if m.closed {
				return // closed before it ever started
			}
			cg, err := kafka.NewConsumerGroup(kafka.ConsumerGroupConfig{
				ID: "cgrp", Brokers: []string{cl.Brokers[0].Addr()}, Topics: m.topics,
				Dialer:            &kafka.Dialer{DialFunc: n.Dialer(m.clientID), ClientID: m.clientID, Timeout: 3 * time.Second},
				HeartbeatInterval: hb, SessionTimeout: session, RebalanceTimeout: rebalance, JoinGroupBackoff: backoff, Timeout: timeout,
				WatchPartitionChanges: watch, PartitionWatchInterval: watchIvl,
				GroupBalancers: m.balancers,
			})
			if err != nil {
				s.Fail("SIM", "cgroup-config", "%v", err)
				return
			}
			m.cg = cg
			for !m.closed {
				if lateNext && t.Intn("work", 3) == 0 {
					// the application is busy with something else before it comes
					// back for the next generation
					s.Sleep(time.Duration(t.Range("work", 100, 4000)) * time.Millisecond)
					if m.closed {
						break
					}
				}
				ctx, cancel := context.WithTimeout(context.Background(), time.Duration(t.Range("work", 1, 20))*time.Second)
				gen, err := cg.Next(ctx)
				cancel()
				if err != nil {
					m.nextErrs = append(m.nextErrs, err)
					if errors.Is(err, kafka.ErrGroupClosed) {
						return
					}
					s.Pause("next-err")
					continue
				}
				cgn := &cgGen{id: gen.ID, memberID: gen.MemberID, gotStep: s.Step, gotAt: s.Now(), endAt: -1}
				gi := len(m.gens)
				// R1: every function of the previous generation that was started
				// before that generation ended has exited
				if gi > 0 {
					prev := m.gens[gi-1]
					for fi, f := range prev.fns {
						if !f.lateStart && !f.exited {
							s.Fail("C15", "R1-overlap", "member %d: Next returned generation %d (step %d) while function #%d of generation %d, started at step %d before that generation ended, is still running", m.k, gen.ID, s.Step, fi, prev.id, f.startStep)
						}
					}
					if !prev.ended {
						s.Fail("C15", "R1-overlap", "member %d: Next returned generation %d although generation %d never signalled its functions", m.k, gen.ID, prev.id)
					}
				}
				m.gens = append(m.gens, cgn)
				s.Count("ops")
				// launch functions
				nf := t.Range("work", 0, 4)
				launch := func(late bool) {
					f := &cgFn{gen: gi}
					f.selfExit = t.Intn("work", 5) == 0
					selfAfter := time.Duration(t.Range("work", 1, 8000)) * time.Millisecond
					linger := time.Duration(Pick(t, "work", 0, 0, 0, 3, 40)) * time.Millisecond
					if longLinger && t.Intn("longlinger", 3) == 0 {
						// application code that takes longer to wind down than the
						// group's rebalance time-out: the member misses the rebalance,
						// but still must not be handed the next generation before
						linger = rebalance + time.Duration(t.Range("longlinger", 300, 3000))*time.Millisecond
						s.Count("function-lingers-beyond-rebalance-timeout")
					}
					// A function handed to Start after the generation has ended is
					// run but not waited for (documented edge case). Whether the
					// library saw this Start before or after the end is only
					// certain when the generation's context says the same thing
					// before and after the call; in between, nothing is required.
					before := cgn.over()
					gen.Start(func(ctx context.Context) {
						f.errAtStart = ctx.Err()
						if f.selfExit {
							if s.WaitDoneOrTimeout(ctx, selfAfter) {
								f.doneStep, f.doneAt = s.Step, s.Now()
							}
						} else {
							s.WaitDone(ctx)
							f.doneStep, f.doneAt = s.Step, s.Now()
						}
						if f.doneStep != 0 && !cgn.ended {
							cgn.ended, cgn.endAt, cgn.endStep = true, s.Now(), s.Step
						}
						if f.doneStep != 0 && !errors.Is(ctx.Err(), kafka.ErrGenerationEnded) {
							s.Fail("C15", "R2-ctx-err", "generation context error is %v, want ErrGenerationEnded", ctx.Err())
						}
						if linger > 0 && f.doneStep != 0 {
							s.Sleep(linger)
						}
						if f.doneStep == 0 && !cgn.ended {
							// self exit ends the generation
							cgn.ended, cgn.endAt, cgn.endStep = true, s.Now(), s.Step
						}
						f.exited, f.exitStep, f.exitAt = true, s.Step, s.Now()
					})
					f.lateStart = before || cgn.over()
					f.startStep, f.startAt = s.Step, s.Now()
					cgn.fns = append(cgn.fns, f)
				}
				// always one watcher so that the end of the generation is observed
				f0 := &cgFn{gen: gi}
				f0Started := make(chan struct{})
				gen.Start(func(ctx context.Context) {
					cgn.ctx = ctx
					close(f0Started)
					s.WaitDone(ctx)
					f0.doneStep, f0.doneAt = s.Step, s.Now()
					if !cgn.ended {
						cgn.ended, cgn.endAt, cgn.endStep = true, s.Now(), s.Step
					}
					f0.exited, f0.exitStep, f0.exitAt = true, s.Step, s.Now()
				})
				f0.startStep, f0.startAt = s.Step, s.Now()
				cgn.fns = append(cgn.fns, f0)
				// until the watcher runs and publishes the generation's context
				zsimrt.Recv("harness:f0", f0Started)
				for i := 0; i < nf; i++ {
					if t.Intn("work", 4) == 0 {
						d := time.Duration(t.Range("work", 1, 5000)) * time.Millisecond
						s.Go(fmt.Sprintf("late%d", m.k), func() {
							s.Sleep(d)
							launch(true)
						})
					} else {
						launch(false)
					}
				}
				s.Pause("gen")
			}
		})
	}
	for k := 0; k < nmem; k++ {
		m := &cgMember{k: k, clientID: fmt.Sprintf("cg%d", k), topics: []string{"ct"}}
		if hetero {
			m.topics = [][]string{{"ct"}, {"ct", "cu"}, {"cu", "ct"}, {"ct"}}[t.Intn("cfg", 4)]
		}
		m.rack = "r1"
		if rackMode {
			m.rack = []string{"r1", "r2", "r3"}[t.Intn("racks", 3)]
		}
		m.balancers = []kafka.GroupBalancer{balancer}
		if _, ok := balancer.(kafka.RackAffinityGroupBalancer); ok {
			ra := kafka.RackAffinityGroupBalancer{Rack: m.rack}
			m.balancers = []kafka.GroupBalancer{ra}
			if mixedLists && k > 0 {
				// a member half-way through a migration offers the old protocol
				// as well, before or after the new one; member 0 offers
				// rack-affinity only, so that is what the coordinator selects
				if t.Intn("racks", 2) == 0 {
					m.balancers = []kafka.GroupBalancer{kafka.RangeGroupBalancer{}, ra}
				} else {
					m.balancers = []kafka.GroupBalancer{ra, kafka.RoundRobinGroupBalancer{}}
				}
			}
		}
		members = append(members, m)
		d := time.Duration(0)
		if k > 0 {
			d = time.Duration(t.Range("work", 0, 6000)) * time.Millisecond
		}
		runMember(m, d)
	}
	// cluster events
	var partChangeAt time.Duration = -1
	partChangeKind := ""
	if watch && t.Intn("cfg", 2) == 0 {
		at := time.Duration(t.Range("fault", 1000, int(endAt/time.Millisecond))) * time.Millisecond
		kind := Pick(t, "fault", "added", "added", "removed", "topic-deleted")
		s.After(at, "partition-"+kind, func() {
			top.NoteChange(s.Now())
			switch kind {
			case "added":
				p := &Partition{Topic: "ct", ID: int32(len(top.Parts)), Leader: cl.Brokers[0].ID, Replicas: []int32{cl.Brokers[0].ID}, ISR: []int32{cl.Brokers[0].ID}}
				top.Parts = append(top.Parts, p)
			case "removed":
				// the topic was deleted and re-created with fewer partitions
				if len(top.Parts) < 2 {
					return
				}
				top.Parts = top.Parts[:len(top.Parts)-1]
			default:
				delete(cl.Topics, "ct")
			}
			partChangeAt, partChangeKind = s.Now(), kind
			s.Count("fault:partition-" + kind)
		})
	}
	if t.Intn("cfg", 3) == 0 {
		electionsPlanned = true
		// a partition of the subscribed topic is without a leader for a while
		// (election in progress): it is still a partition of the topic
		at := time.Duration(t.Range("fault", 0, int(endAt/time.Millisecond))) * time.Millisecond
		dur := time.Duration(t.Range("fault", 200, 6000)) * time.Millisecond
		s.After(at, "leader-election", func() {
			tt := cl.Topics["ct"]
			if tt == nil || len(tt.Parts) == 0 {
				return
			}
			p := tt.Parts[t.Intn("fault", len(tt.Parts))]
			cl.DeposeLeader(p)
			s.Count("fault:leader-election")
			s.After(dur, "leader-elected", func() {
				p.Err = 0
				cl.MoveLeader(p, cl.Brokers[t.Intn("fault", len(cl.Brokers))].ID)
			})
		})
	}
	if fmode >= 2 && t.Intn("cfg", 2) == 0 {
		at := time.Duration(t.Range("fault", 1000, int(endAt/time.Millisecond))) * time.Millisecond
		s.After(at, "evict", func() {
			ms := g.sortedMembers()
			if len(ms) > 0 {
				cl.removeMember(g, ms[t.Intn("fault", len(ms))], "evicted")
				s.Count("fault:evict")
			}
		})
	}
	// close members at seeded times
	for _, m := range members {
		m := m
		at := time.Duration(t.Range("work", 500, int(endAt/time.Millisecond))) * time.Millisecond
		s.After(at, fmt.Sprintf("close%d", m.k), func() {
			s.Go(fmt.Sprintf("closer%d", m.k), func() {
				if m.cg == nil {
					m.closed = true
					return
				}
				m.closed = true
				m.closeInv, m.closeInvAt = s.Step, s.Now()
				m.cg.Close()
				m.closeRet, m.closeRetAt = s.Step, s.Now()
				_, err := m.cg.Next(context.Background())
				m.afterClose = err
			})
		})
	}

	s.DoneWhen(func() bool {
		if s.Actors() > 0 {
			return false
		}
		for _, m := range members {
			if !m.closed || (m.cg != nil && m.closeRet == 0) {
				return false
			}
		}
		return true
	})
	s.AtEnd(func() {
		if s.Ended != "done" {
			for _, m := range members {
				if m.cg != nil && m.closeInv != 0 && m.closeRet == 0 && s.Ended == "steps" && s.Now()-m.closeInvAt <= timeout+rebalance+session+2*timeout+time.Second {
					s.Count("close-pending-at-step-cap") // (the step budget ran out while this Close was within its time bound)
					continue
				}
				if m.cg != nil && m.closeInv != 0 && m.closeRet == 0 {
					s.Fail("C15", "R6-close-hung", "member %d: ConsumerGroup.Close invoked at %v did not return by %v (run ended: %s); goroutines: %s", m.k, m.closeInvAt, s.Now(), s.Ended, StuckReport(30))
				}
			}
		}
		// R7: a join is waited for until Timeout + RebalanceTimeout: the
		// coordinator may hold it that long, whatever the session timeout
		for _, ag := range g.AnsweredGone {
			for _, m := range members {
				if m.clientID != ag.ClientID || (m.closeInv != 0 && m.closeInvAt <= ag.ClosedAt) {
					continue
				}
				if ag.ClosedAt < ag.ReqAt+timeout+ag.Rebalance-slack && ag.At-ag.ReqAt <= ag.Rebalance+slack {
					s.Fail("C15", "R7-join-abandoned", "member %d (%s): the JoinGroup that reached the coordinator at %v (rebalance timeout %v, session timeout %v, Timeout %v) was answered successfully at %v, within the rebalance timeout, but the client had closed the connection at %v, %v into the wait", m.k, ag.Member, ag.ReqAt, ag.Rebalance, session, timeout, ag.At, ag.ClosedAt, ag.ClosedAt-ag.ReqAt)
				}
			}
		}
		if g.LongestHold > session {
			s.Count("join-held-beyond-session-timeout")
		}
		for _, m := range members {
			if m.cg == nil {
				continue
			}
			// R4: Next after Close, LeaveGroup with the current member id
			if m.closeRet != 0 && !errors.Is(m.afterClose, kafka.ErrGroupClosed) {
				s.Fail("C15", "R4-next-after-close", "member %d: Next after Close returned %v, want ErrGroupClosed", m.k, m.afterClose)
			}
			if m.closeRet != 0 && !timing {
				// Close cannot interrupt a join or sync that is waiting at the
				// coordinator; then it leaves the group (two more round trips)
				bound := timeout + rebalance + session + 2*timeout + time.Second
				if longLinger {
					bound += rebalance + 3*time.Second // Close waits for the functions
				}
				for _, gn := range m.gens {
					for _, f := range gn.fns {
						_ = f
					}
				}
				if d := m.closeRetAt - m.closeInvAt; d > bound+50*time.Millisecond {
					s.Fail("C15", "R6-close-slow", "member %d: Close took %v of simulated time (bound %v) without network faults", m.k, d, bound)
				}
			}
			for gi, gn := range m.gens {
				// R2a: all functions observed Done at the same simulated instant
				for fi, f := range gn.fns {
					if f.doneStep != 0 && f.doneAt != gn.endAt && !f.lateStart {
						s.Fail("C15", "R2-not-simultaneous", "member %d generation %d: function #%d observed ctx.Done at %v, the generation ended at %v", m.k, gn.id, fi, f.doneAt, gn.endAt)
					}
					if f.lateStart && f.errAtStart == nil && f.startStep != 0 && f.doneStep == 0 && f.exited && !f.selfExit {
						s.Fail("C15", "R1-late-start-not-cancelled", "member %d generation %d: function started after the generation ended ran with a live context", m.k, gn.id)
					}
					if !f.exited && m.closeRet != 0 && !f.lateStart {
						s.Fail("C15", "R6-fn-after-close", "member %d generation %d: function #%d (started step %d) still running after Close returned", m.k, gn.id, fi, f.startStep)
					}
				}
				// R2b: the generation ended at the instant of its cause (fault-free timing only)
				if !timing && gn.ended && !(lateNext && gn.endAt-gn.gotAt <= slack) {
					cause := time.Duration(-1)
					upd := func(x time.Duration) {
						if x >= gn.gotAt && (cause < 0 || x < cause) {
							cause = x
						}
					}
					for _, f := range gn.fns {
						if f.selfExit && f.exited && f.doneStep == 0 {
							upd(f.exitAt)
						}
					}
					if m.closeInv != 0 {
						upd(m.closeInvAt)
					}
					for _, r := range cl.Journal {
						if r.API == nil || clientIDOf(r) != m.clientID {
							continue
						}
						if r.Hdr.APIKey == 12 && r.Body.Str("member_id") == gn.memberID && r.Body.I32("generation_id") == gn.id && r.Resp != nil && r.Resp.I16("error_code") != 0 && r.RespFull {
							upd(r.RespFullAt)
						}
						if r.Hdr.APIKey == 12 && r.Body.Str("member_id") == gn.memberID && r.Body.I32("generation_id") == gn.id && r.Fault != "" {
							cause = -2 // transport-level heartbeat failure: instant not modelled
						}
					}
					if watch {
						cause = -2 // partition watcher may end it: covered by R2a only
					}
					if cause >= 0 && gn.endAt > cause+slack && gi < len(m.gens) {
						s.Fail("C15", "R2-late-cancel", "member %d generation %d: functions saw ctx.Done at %v, %v after the event that ended the generation (%v)", m.k, gn.id, gn.endAt, gn.endAt-cause, cause)
					}
					if cause >= 0 && gn.endAt < cause-slack {
						s.Fail("C15", "R2-early-cancel", "member %d generation %d: functions saw ctx.Done at %v but the first event that can end the generation is at %v", m.k, gn.id, gn.endAt, cause)
					}
				}
			}
		}
		// R7: a change of a watched topic's partition count ends the generations
		// that were live at that instant within one watch interval
		if !timing && partChangeAt >= 0 {
			for _, m := range members {
				for _, gn := range m.gens {
					if gn.gotAt > partChangeAt || (gn.ended && gn.endAt <= partChangeAt) {
						continue
					}
					limit := partChangeAt + watchIvl + timeout + 4*slack
					if m.closeInv != 0 && m.closeInvAt <= limit {
						continue
					}
					// The watcher compares with the count it read when it started:
					// the first Metadata request of the member after the generation's
					// OffsetFetch. A change that is already in that answer is no
					// change to the watcher (the window is a round trip wide).
					var fetchAt, baseAt time.Duration = -1, -1
					for _, r := range cl.Journal {
						if r.API == nil || clientIDOf(r) != m.clientID {
							continue
						}
						if r.Hdr.APIKey == 9 && r.At <= gn.gotAt {
							fetchAt, baseAt = r.At, -1
						}
						if r.Hdr.APIKey == 3 && fetchAt >= 0 && baseAt < 0 && r.At > fetchAt {
							baseAt = r.At
						}
					}
					if baseAt >= 0 && partChangeAt <= baseAt+slack {
						s.Count("partition-change-before-watcher-baseline")
						continue
					}
					if s.Now() > limit && (!gn.ended || gn.endAt > limit) {
						end := "is still live"
						if gn.ended {
							end = fmt.Sprintf("ended only at %v", gn.endAt)
						}
						s.Fail("C15", "R7-partition-change-ignored", "member %d generation %d (live since %v): the watched topic's partition count changed at %v (%s), PartitionWatchInterval %v, but the generation %s at %v", m.k, gn.id, gn.gotAt, partChangeAt, partChangeKind, watchIvl, end, s.Now())
					}
				}
			}
		}
		// R3: heartbeat cadence, R5: join back-off, R4: leave group (journal based)
		if !timing {
			last := map[string]HB{}
			for _, h := range g.Heartbeats {
				key := fmt.Sprintf("%s/%d", h.Member, h.Generation)
				if p, ok := last[key]; ok {
					gap := h.At - p.At
					if gap > hb+slack || gap < hb-slack {
						s.Fail("C15", "R3-heartbeat-interval", "member %s generation %d: heartbeats arrived %v apart, configured interval %v", h.Member, h.Generation, gap, hb)
					}
				}
				last[key] = h
			}
			// ... from the moment the member has synced, whether or not the
			// application has collected the generation from Next yet
			firstHB := map[string]time.Duration{}
			for _, h := range g.Heartbeats {
				key := fmt.Sprintf("%s/%d", h.Member, h.Generation)
				if _, ok := firstHB[key]; !ok {
					firstHB[key] = h.At
				}
			}
			// (with a partition watcher the generation can end on the client side
			// without a word to the coordinator, and a late application then
			// delays the rejoin: indistinguishable here from a silent member)
			for _, m := range members {
				if watch {
					break
				}
				for i, r := range cl.Journal {
					if r.API == nil || r.Hdr.APIKey != 14 || clientIDOf(r) != m.clientID || r.Resp == nil || !r.RespFull || r.Resp.I16("error_code") != 0 {
						continue
					}
					key := fmt.Sprintf("%s/%d", r.Body.Str("member_id"), r.Body.I32("generation_id"))
					due := r.RespFullAt + hb + 10*slack + 50*time.Millisecond
					// the generation is over before a heartbeat is due if the member
					// joins again, leaves, is closed, or the run ends
					over := s.Now()
					if m.closeInv != 0 && m.closeInvAt < over {
						over = m.closeInvAt
					}
					// ... or one of its functions returned (which ends it on the client
					// side at once; the rejoin waits for the other functions)
					for _, gn := range m.gens {
						if gn.memberID == r.Body.Str("member_id") && gn.id == r.Body.I32("generation_id") && gn.ended && gn.endAt < over {
							over = gn.endAt
						}
					}
					started := false // the offsets were fetched: the generation exists on the client side
					for _, r2 := range cl.Journal[i+1:] {
						if r2.API == nil || clientIDOf(r2) != m.clientID {
							continue
						}
						if (r2.Hdr.APIKey == 11 || r2.Hdr.APIKey == 13 || r2.Hdr.APIKey == 10) && r2.At < over {
							over = r2.At
						}
						if r2.Hdr.APIKey == 9 && r2.At < over && r2.Resp != nil && r2.RespFull {
							ok := r2.Hdr.APIVersion < 2 || r2.Resp.I16("error_code") == 0
							for _, tt := range r2.Resp.Arr("topics") {
								for _, pp := range tt.Arr("partitions") {
									if pp.I16("error_code") != 0 {
										ok = false
									}
								}
							}
							started = started || ok
						}
					}
					if !started {
						continue
					}
					if at, ok := firstHB[key]; over > due && (!ok || at > due) {
						when := "never"
						if ok {
							when = at.String()
						}
						s.Fail("C15", "R3-heartbeat-late-start", "member %d: generation %s synced at %v; its first heartbeat was due by %v (interval %v) and arrived %s (the generation was not over before %v)", m.k, key, r.RespFullAt, due, hb, when, over)
					}
				}
			}
			for _, m := range members {
				for _, gn := range m.gens {
					if !gn.ended {
						continue
					}
					if lateNext && gn.endAt-gn.gotAt <= slack {
						// collected late and already over (a rebalance while the
						// application was away): its life is not [gotAt, endAt]
						continue
					}
					key := fmt.Sprintf("%s/%d", gn.memberID, gn.id)
					lastAt := gn.gotAt
					if h, ok := last[key]; ok {
						lastAt = h.At
					}
					if gn.endAt-lastAt > hb+3*slack+timeout {
						s.Fail("C15", "R3-heartbeat-missing", "member %d generation %d lived until %v but its last heartbeat arrived at %v (interval %v)", m.k, gn.id, gn.endAt, lastAt, hb)
					}
				}
			}
		}
		for _, m := range members {
			if m.cg == nil || m.closeRet == 0 {
				continue
			}
			// the member id the group had when Close was invoked
			cur := ""
			for _, gn := range m.gens {
				cur = gn.memberID
			}
			if cur != "" && !timing && fmode < 2 {
				left := false
				for _, id := range g.Left {
					if id == cur {
						left = true
					}
				}
				stillMember := g.Members[cur] != nil
				evicted := false
				for _, id := range g.Evicted {
					if id == cur {
						evicted = true
					}
				}
				if !left && !evicted && stillMember {
					s.Fail("C15", "R4-no-leave", "member %d closed its group but no LeaveGroup for member id %s reached the coordinator", m.k, cur)
				}
			}
			// no heartbeat after Close returned
			for _, h := range g.Heartbeats {
				if strings.HasPrefix(h.Member, m.clientID+"-m") && m.closeRet != 0 && h.At > m.closeRetAt+n.MaxLatency {
					s.Fail("C09", "R5-heartbeat-after-close", "member %d: heartbeat from %s arrived at step %d after Close returned at step %d", m.k, h.Member, h.Step, m.closeRet)
				}
			}
		}
		// R5: join back-off
		if !timing {
			for _, m := range members {
				var failAt time.Duration = -1
				for _, r := range cl.Journal {
					if r.API == nil || clientIDOf(r) != m.clientID {
						continue
					}
					if failAt >= 0 && r.Hdr.APIKey == 11 { // (FindCoordinator may belong to the LeaveGroup that follows a failure)
						if r.At < failAt+backoff-slack {
							s.Fail("C15", "R5-no-backoff", "member %d: %s request arrived %v after a failed join/sync (error delivered at %v), JoinGroupBackoff is %v", m.k, r.API.Name, r.At-failAt, failAt, backoff)
						}
						failAt = -1
					}
					if (r.Hdr.APIKey == 11 || r.Hdr.APIKey == 14 || r.Hdr.APIKey == 9) && r.Resp != nil && r.RespFull {
						code := r.Resp.I16("error_code")
						if r.Hdr.APIKey == 9 && r.Hdr.APIVersion < 2 {
							code = 0 // no top-level error field on the wire before v2
						}
						if r.Hdr.APIKey == 9 && code == 0 {
							for _, tt := range r.Resp.Arr("topics") {
								for _, pp := range tt.Arr("partitions") {
									if c := pp.I16("error_code"); c != 0 {
										code = c
									}
								}
							}
						}
						if code != 0 && code != ErrRebalanceInProgress && code != ErrMemberIDRequired {
							failAt = r.RespFullAt
						}
					}
				}
				// ... and failed attempts are retried: after an error answer to
				// join / sync / offset-fetch (RebalanceInProgress included, which
				// is retried at once) the member joins again within the back-off
				// plus a margin, unless it was closed meanwhile
				var lastFail time.Duration = -1
				lastFailWhat := ""
				for _, r := range cl.Journal {
					if r.API == nil || clientIDOf(r) != m.clientID {
						continue
					}
					// (an attempt starts with FindCoordinator; the one that
					// belongs to the LeaveGroup after a failure comes at once)
					if r.Hdr.APIKey == 11 || (r.Hdr.APIKey == 10 && lastFail >= 0 && r.At >= lastFail+backoff-slack) {
						lastFail = -1
					}
					if (r.Hdr.APIKey == 11 || r.Hdr.APIKey == 14) && r.Resp != nil && r.RespFull {
						if code := r.Resp.I16("error_code"); code != 0 && code != ErrMemberIDRequired {
							lastFail, lastFailWhat = r.RespFullAt, fmt.Sprintf("%s answered with error %d", r.API.Name, code)
						}
					}
				}
				limit := lastFail + backoff + 3*time.Second
				if lastFail >= 0 && s.Now() > limit && (m.closeInv == 0 || m.closeInvAt > limit) {
					s.Fail("C15", "R5-no-retry", "member %d: %s at %v; no JoinGroup followed by %v (JoinGroupBackoff %v; the member was not closed before then; run ended %v)", m.k, lastFailWhat, lastFail, limit, backoff, s.Now())
				}
			}
		}
		n.Shutdown()
	})
}
