package sim

import (
	"bytes"
	"context"
	"errors"
	"fmt"
	"io"
	"time"

	kafka "github.com/segmentio/kafka-go"
	rc "verif/sim/refcodec"
)

func init() { Scenarios["connerr"] = connerrScenario }

// ConnErrCases is the size of the enumerated space of the connerr scenario:
// operation x version configuration x fault x follow-up operation.
const (
	ceOps    = 13
	ceCfgs   = 3
	ceFollow = 13
)

var ceCodes = []int16{ErrNotLeaderForPartition, ErrLeaderNotAvailable, ErrRequestTimedOut, ErrOffsetOutOfRange, ErrUnknownTopicOrPartition, ErrNotEnoughReplicas, ErrTopicAuthorizationFailed, 999, 35}

// faults: 0..len(codes)-1 = kafka error code in the response; then framing faults
var ceFraming = []string{"cut-mid", "garbage-size", "wrong-correlation-id"}

// ceFields: which error field of the response carries the code: 0 = the
// innermost one (partition / topic entry), 1 = the next one up (fetch:
// top-level error_code of v7+; metadata: partition-level inside the topic)
const ceFields = 2

func ConnErrCases() int {
	return ceOps * ceCfgs * (len(ceCodes) + len(ceFraming)) * ceFollow * ceFields
}

type ceEnv struct {
	s     *Sim
	cl    *Cluster
	conn  *kafka.Conn
	p     *Partition
	topic string
}

var ceOpNames = []string{"WriteMessages", "ReadBatch", "ReadFirstOffset", "ReadLastOffset", "ReadOffset", "ReadPartitions", "Brokers", "Controller", "ApiVersions", "CreateTopics", "DeleteTopics", "ReadBatch+Read(short buffer)", "WriteMessages (slow ack) with SetReadDeadline(100ms) from another goroutine meanwhile"}

// apiOfOp: which api key carries the operation's main exchange.
var ceOpAPI = []int16{0, 1, 2, 2, 2, 3, 3, 3, 18, 19, 20, 1, 0}

// doOp performs operation `op` and checks a successful result against the
// model; it returns the error of the operation.
func (e *ceEnv) doOp(op int, tag string) (err error, wrong string) {
	c, p := e.conn, e.p
	const base = int64(1600000000000)
	switch op {
	case 0:
		leo := p.LEO
		val := []byte(fmt.Sprintf("w-%s|", tag))
		_, err = c.WriteMessages(kafka.Message{Value: val})
		if err == nil {
			recs := p.Records()
			if p.LEO != leo+1 || len(recs) == 0 || !bytes.Equal(recs[len(recs)-1].Value, val) {
				wrong = fmt.Sprintf("WriteMessages returned nil but the log did not grow by that message (end %d -> %d)", leo, p.LEO)
			}
		}
	case 1:
		off, _ := c.Offset()
		b := c.ReadBatch(1, 1<<20)
		m, rerr := b.ReadMessage()
		cerr := b.Close()
		err = rerr
		if err == nil {
			err = cerr
		}
		if rerr == nil {
			want := fmt.Sprintf("ce/%d|", m.Offset)
			if m.Offset != off || string(m.Value) != want {
				wrong = fmt.Sprintf("ReadBatch at offset %d returned offset %d value %q (stored %q)", off, m.Offset, trunc(m.Value), want)
			}
		}
	case 2:
		var v int64
		v, err = c.ReadFirstOffset()
		if err == nil && v != p.LogStart {
			wrong = fmt.Sprintf("ReadFirstOffset returned %d, log start is %d", v, p.LogStart)
		}
	case 3:
		var v int64
		v, err = c.ReadLastOffset()
		if err == nil && v != p.LEO {
			wrong = fmt.Sprintf("ReadLastOffset returned %d, log end is %d", v, p.LEO)
		}
	case 4:
		var v int64
		target := p.LogStart + 2
		v, err = c.ReadOffset(time.UnixMilli(base + 10*target))
		if err == nil && v != target {
			wrong = fmt.Sprintf("ReadOffset(time of offset %d) returned %d", target, v)
		}
	case 5:
		var ps []kafka.Partition
		// (errors are only reported for the connection's own topic, by design)
		ps, err = c.ReadPartitions("ce")
		if err == nil && (len(ps) != 1 || ps[0].Topic != "ce") {
			wrong = fmt.Sprintf("ReadPartitions(ce) returned %d partitions (topic has 1)", len(ps))
		}
	case 6:
		var bs []kafka.Broker
		bs, err = c.Brokers()
		if err == nil && len(bs) != len(e.cl.Brokers) {
			wrong = fmt.Sprintf("Brokers returned %d brokers, cluster has %d", len(bs), len(e.cl.Brokers))
		}
	case 7:
		var b kafka.Broker
		b, err = c.Controller()
		if err == nil && int32(b.ID) != e.cl.Controller {
			wrong = fmt.Sprintf("Controller returned broker %d, controller is %d", b.ID, e.cl.Controller)
		}
	case 8:
		var vs []kafka.ApiVersion
		vs, err = c.ApiVersions()
		if err == nil && len(vs) != len(e.cl.Brokers[0].Versions) {
			wrong = fmt.Sprintf("ApiVersions returned %d entries, broker advertises %d", len(vs), len(e.cl.Brokers[0].Versions))
		}
	case 9:
		name := "new-" + tag
		err = c.CreateTopics(kafka.TopicConfig{Topic: name, NumPartitions: 2, ReplicationFactor: 1})
		if err == nil && e.cl.Topics[name] == nil {
			wrong = "CreateTopics returned nil but the topic does not exist"
		}
	case 12:
		// A write operation waits for its acknowledgement under the write
		// deadline; a read deadline set meanwhile by another goroutine applies
		// to the next read operation, not to this exchange.
		leo := p.LEO
		val := []byte(fmt.Sprintf("w-%s|", tag))
		saved := e.cl.F
		e.cl.F = FaultCfg{Slow: 1000, SlowMin: 300 * time.Millisecond, SlowMax: 300 * time.Millisecond, APIs: map[int16]bool{0: true}}
		e.s.Go("deadliner", func() {
			e.s.Sleep(50 * time.Millisecond)
			c.SetReadDeadline(time.Now().Add(100 * time.Millisecond))
		})
		_, err = c.WriteMessages(kafka.Message{Value: val})
		e.cl.F = saved
		c.SetReadDeadline(time.Now().Add(5 * time.Second))
		if err == nil {
			recs := p.Records()
			if p.LEO != leo+1 || len(recs) == 0 || !bytes.Equal(recs[len(recs)-1].Value, val) {
				wrong = fmt.Sprintf("WriteMessages returned nil but the log did not grow by that message (end %d -> %d)", leo, p.LEO)
			}
		}
	case 11:
		// The documented non-fatal local error: a buffer too short for the
		// value fails with io.ErrShortBuffer, the position is unchanged and the
		// connection stays open (the rest of the fetch response is skipped).
		// This is the ordinary outcome of this operation.
		off, _ := c.Offset()
		b := c.ReadBatch(1, 1<<20)
		buf := make([]byte, 2)
		n, rerr := b.Read(buf)
		b.Close()
		switch {
		case rerr == nil:
			wrong = fmt.Sprintf("Batch.Read into a 2-byte buffer returned n=%d and no error (the stored value has 5 bytes or more)", n)
		case errors.Is(rerr, io.ErrShortBuffer):
			if now, _ := c.Offset(); n != 2 || string(buf) != "ce" || now != off {
				wrong = fmt.Sprintf("Batch.Read into a 2-byte buffer at offset %d: n=%d buf=%q, position afterwards %d", off, n, buf, now)
			}
		default:
			err = rerr
		}
	case 10:
		name := "del-" + tag
		e.cl.AddTopic(name, 1, func(int) int32 { return e.cl.Brokers[0].ID })
		err = c.DeleteTopics(name)
		if err == nil && e.cl.Topics[name] != nil {
			wrong = "DeleteTopics returned nil but the topic still exists"
		}
	}
	return
}

// setErrorCode places code in the chosen error field; it reports false when
// that field does not exist for this api / version (case not applicable).
func setErrorCode(api, version int16, body rc.Msg, code int16, field int) bool {
	if field == 1 {
		switch api {
		case 1:
			if version < 7 {
				return false
			}
			body["error_code"] = code
			body["responses"] = []rc.Msg{}
			return true
		case 3:
			for _, t := range body.Arr("topics") {
				for _, p := range t.Arr("partitions") {
					p["error_code"] = code
				}
			}
			return true
		}
		return false
	}
	switch api {
	case 0:
		for _, t := range body.Arr("responses") {
			for _, p := range t.Arr("partition_responses") {
				p["error_code"] = code
				p["base_offset"] = int64(-1)
			}
		}
	case 1:
		for _, t := range body.Arr("responses") {
			for _, p := range t.Arr("partitions") {
				p["error_code"] = code
				p["records"] = []byte{}
			}
		}
	case 2:
		for _, t := range body.Arr("topics") {
			for _, p := range t.Arr("partitions") {
				p["error_code"] = code
				p["offset"] = int64(-1)
				p["timestamp"] = int64(-1)
			}
		}
	case 3:
		for _, t := range body.Arr("topics") {
			t["error_code"] = code
			t["partitions"] = []rc.Msg{}
		}
	case 18:
		body["error_code"] = code
	case 19:
		for _, t := range body.Arr("topics") {
			t["error_code"] = code
		}
	case 20:
		for _, t := range body.Arr("responses") {
			t["error_code"] = code
		}
	}
	return true
}

func connerrScenario(s *Sim, params map[string]string) {
	n := NewNet(s)
	n.MinLatency, n.MaxLatency = 200*time.Microsecond, 200*time.Microsecond
	cl := NewCluster(s, n)
	total := ConnErrCases()
	// bijective walk over the case space: every index is visited exactly once
	// per `total` consecutive runs, in a seed-dependent order
	idx := int((s.T.Run*7919 + s.T.Seed*104729) % uint64(total))
	x := idx
	field := x % ceFields
	x /= ceFields
	follow := x % ceFollow
	x /= ceFollow
	fault := x % (len(ceCodes) + len(ceFraming))
	x /= len(ceCodes) + len(ceFraming)
	cfg := x % ceCfgs
	x /= ceCfgs
	op := x % ceOps

	b := cl.AddBroker(1, "")
	b.Versions[0] = [2]int16{0, []int16{2, 3, 8}[cfg]}
	b.Versions[1] = [2]int16{0, []int16{3, 7, 11}[cfg]}
	b.Versions[3] = [2]int16{0, []int16{1, 5, 8}[cfg]}
	top := cl.AddTopic("ce", 1, func(int) int32 { return 1 })
	cl.AddTopic("other", 3, func(int) int32 { return 1 })
	p := top.Parts[0]
	const base = int64(1600000000000)
	p.LogStart, p.LEO = 5, 5
	magic := int8(2)
	if b.Versions[1][1] < 4 {
		magic = 1
	}
	for k := 0; k < 6; k++ {
		off := p.LEO
		cl.AppendPhysical(p, rc.Batch{Magic: magic, BaseOffset: off, ProducerID: -1, ProducerEpoch: -1, BaseSequence: -1, FirstTimestamp: base + 10*off, MaxTimestamp: base + 10*off,
			Records: []rc.Record{{Offset: off, Timestamp: base + 10*off, Value: []byte(fmt.Sprintf("ce/%d|", off))}}}, 1)
	}
	env := &ceEnv{s: s, cl: cl, p: p, topic: "ce"}
	api := ceOpAPI[op]
	desc := fmt.Sprintf("case %d: %s (produce<=v%d fetch<=v%d metadata<=v%d)", idx, ceOpNames[op], b.Versions[0][1], b.Versions[1][1], b.Versions[3][1])
	armed := false
	var code int16
	framing := ""
	if fault < len(ceCodes) {
		code = ceCodes[fault]
		desc += fmt.Sprintf(" answered with error code %d in error field #%d", code, field)
	} else {
		framing = ceFraming[fault-len(ceCodes)]
		desc += " hit by framing fault " + framing
	}
	desc += ", then " + ceOpNames[follow]
	fired := false
	notApplicable := framing != "" && field == 1 // framing faults have no field dimension
	cl.Mutate = func(r *Req, body rc.Msg) rc.Msg {
		if armed && !fired && framing == "" && r.Hdr.APIKey == api {
			fired = true
			if setErrorCode(api, r.Hdr.APIVersion, body, code, field) {
				s.Count("fault:error-code")
			} else {
				notApplicable = true
			}
		}
		return body
	}
	cl.MutateFrame = func(r *Req, frame []byte) []byte {
		if armed && !fired && framing != "" && r.Hdr.APIKey == api {
			fired = true
			if field == 1 {
				return frame // framing faults have no error-field dimension: plain exchange
			}
			s.Count("fault:" + framing)
			f := append([]byte(nil), frame...)
			switch framing {
			case "cut-mid":
				r.Fault = "cut-in-response"
			case "garbage-size":
				f[0], f[1], f[2], f[3] = 0x7f, 0xff, 0xff, 0xf0
			case "wrong-correlation-id":
				f[7] ^= 0x55
			}
			return f
		}
		return frame
	}

	done := false
	s.Go("case", func() {
		defer func() { done = true }()
		d := &kafka.Dialer{DialFunc: n.Dialer("ce"), ClientID: "ce", Timeout: 3 * time.Second}
		ctx, cancel := context.WithTimeout(context.Background(), 10*time.Second)
		conn, err := d.DialLeader(ctx, "tcp", b.Addr(), "ce", 0)
		cancel()
		if err != nil {
			s.Fail("SIM", "connerr-dial", "%v", err)
			return
		}
		defer conn.Close()
		env.conn = conn
		conn.SetDeadline(time.Now().Add(5 * time.Second))
		if _, err := conn.Seek(7, kafka.SeekAbsolute); err != nil {
			s.Fail("SIM", "connerr-seek", "%v", err)
			return
		}
		// warm the version cache so that the faulted exchange is the operation's
		// own (ReadPartitions negotiates its version, which loads the table; an
		// explicit ApiVersions call does not)
		if _, err := conn.ReadPartitions("ce"); err != nil {
			s.Fail("SIM", "connerr-warm", "%v", err)
			return
		}
		if op == 8 && follow == 12 {
			// Conn.ApiVersions leaves the read-deadline object attached to the
			// socket until the next read operation ends (it never detaches it):
			// a read deadline set meanwhile by another goroutine then hits a
			// pending write operation. That is how a fresh connection behaves
			// too, and no property speaks about it.
			follow = 6
			desc += " (replaced by Brokers: see the note on ApiVersions)"
		}
		// deadline pattern of every other error-code case: the first operation
		// runs under a deadline of its own kind only (300 ms), which has long
		// passed when the follow-up starts with no deadline at all
		lapsed := (idx/5)%2 == 1 && framing == "" && op != 12 && follow != 12
		if lapsed {
			conn.SetDeadline(time.Time{})
			if op == 0 || op == 9 || op == 10 {
				conn.SetWriteDeadline(time.Now().Add(300 * time.Millisecond))
			} else {
				conn.SetReadDeadline(time.Now().Add(300 * time.Millisecond))
			}
			desc += " (the first operation under a 300 ms deadline of its own kind, the follow-up 400 ms later without any)"
			s.Count("lapsed-deadline-pattern")
		}
		armed = true
		errA, wrongA := env.doOp(op, "a")
		armed = false
		s.Count("ops")
		if lapsed {
			s.Sleep(400 * time.Millisecond)
			conn.SetDeadline(time.Time{})
		}
		if wrongA != "" {
			s.Fail("C11", "R3-wrong-value", "%s: first operation: %s", desc, wrongA)
			return
		}
		if !fired {
			s.Fail("SIM", "connerr-not-fired", "%s: fault did not fire", desc)
			return
		}
		if notApplicable {
			// no such error field for this api/version: an ordinary exchange
			if errA != nil {
				s.Fail("C11", "R1-plain-exchange-failed", "%s: no fault applicable, yet the operation failed with %v", desc, errA)
				return
			}
			s.Count("case-not-applicable")
			// ... and the follow-up finds the connection aligned
			errB, wrongB := env.doOp(follow, "b")
			if wrongB != "" {
				s.Fail("C11", "R3-wrong-value", "%s: follow-up after a fault-free exchange: %s", desc, wrongB)
			} else if errB != nil {
				s.Fail("C11", "R1-conn-unusable-after-plain-exchange", "%s: no fault applicable; the follow-up operation failed with %v", desc, errB)
			}
			return
		}
		if framing == "" {
			var ke kafka.Error
			if field == 1 && api == 3 && errA == nil {
				// partition-level metadata errors are not surfaced by ReadPartitions / Brokers / Controller
				s.Count("error-code-not-applicable")
			} else if (op == 6 || op == 7) && errA == nil {
				// Brokers / Controller do not look at topic-level errors: the
				// injected code is not addressed to them
				s.Count("error-code-not-applicable")
			} else if errA == nil || !errors.As(errA, &ke) || int16(ke) != code {
				s.Fail("C11", "R1-error-not-reported", "%s: the operation returned %v, want kafka error %d", desc, errA, code)
				return
			}
			errB, wrongB := env.doOp(follow, "b")
			if wrongB != "" {
				s.Fail("C11", "R3-wrong-value", "%s: follow-up: %s", desc, wrongB)
				return
			}
			if errB != nil {
				s.Fail("C11", "R1-conn-unusable-after-kafka-error", "%s: the follow-up operation failed with %v (it succeeds on a fresh connection)", desc, errB)
			}
			return
		}
		// framing / transport fault: once an operation has failed with it,
		// every later operation must fail. (An operation may complete with the
		// right value before the damage is reached, e.g. a first message read
		// before a cut, or a size prefix that is larger than the body it
		// precedes: then nothing was observed and nothing is required.)
		errB, wrongB := env.doOp(follow, "b")
		if errA == nil {
			if wrongB != "" {
				s.Fail("C11", "R3-wrong-value", "%s: follow-up: %s", desc, wrongB)
			}
			s.Count("framing-fault-unobserved")
			return
		}
		if wrongB != "" {
			s.Fail("C11", "R3-wrong-value", "%s: follow-up: %s", desc, wrongB)
			return
		}
		if errB == nil {
			s.Fail("C11", "R2-conn-reused-after-framing-error", "%s: the follow-up operation succeeded on a connection that had a framing/transport error", desc)
		}
	})
	s.DoneWhen(func() bool { return done })
	s.AtEnd(func() { n.Shutdown() })
}

// ---------------------------------------------------------------------------
// stallclose (C11): the network stalls in the middle of a response for longer
// than the connection's deadline. The expiry is a transport-level error: the
// operation that meets it may report it or (Batch.Close) swallow it, but the
// one or two operations that follow — issued from separate goroutines, with a
// fresh deadline — must return: with the model's value if the connection is
// still aligned, with an error otherwise; never hang, never a foreign value.

func init() { Scenarios["stallclose"] = stallcloseScenario }

var scFirstOps = []int{1, 11, 99, 4, 5, 0, 3, 98, 97} // (98: a fetch limited to a few bytes, answered late; 97: WriteMessages refused with an error code)
// ReadBatch, short-buffer read, ReadBatch closed unread, ReadOffset, ReadPartitions, WriteMessages, ReadLastOffset

const scSplits = 5 // where the stall begins: inside the 8-byte frame header, early, in the middle, before the last byte, before the last field

func StallCloseCases() int { return ceCfgs * len(scFirstOps) * scSplits * 2 * ceFollow }

func stallcloseScenario(s *Sim, params map[string]string) {
	n := NewNet(s)
	n.MinLatency, n.MaxLatency = 200*time.Microsecond, 200*time.Microsecond
	cl := NewCluster(s, n)
	total := StallCloseCases()
	idx := int((s.T.Run*7919 + s.T.Seed*104729) % uint64(total))
	x := idx
	follow := x % ceFollow
	x /= ceFollow
	two := x%2 == 1
	x /= 2
	split := x % scSplits
	x /= scSplits
	first := scFirstOps[x%len(scFirstOps)]
	x /= len(scFirstOps)
	cfg := x % ceCfgs

	b := cl.AddBroker(1, "")
	b.Versions[0] = [2]int16{0, []int16{2, 3, 8}[cfg]}
	b.Versions[1] = [2]int16{0, []int16{3, 7, 11}[cfg]}
	b.Versions[3] = [2]int16{0, []int16{1, 5, 8}[cfg]}
	top := cl.AddTopic("ce", 1, func(int) int32 { return 1 })
	cl.AddTopic("other", 3, func(int) int32 { return 1 })
	p := top.Parts[0]
	const base = int64(1600000000000)
	p.LogStart, p.LEO = 5, 5
	magic := int8(2)
	if b.Versions[1][1] < 4 {
		magic = 1
	}
	for k := 0; k < 6; k++ {
		off := p.LEO
		cl.AppendPhysical(p, rc.Batch{Magic: magic, BaseOffset: off, ProducerID: -1, ProducerEpoch: -1, BaseSequence: -1, FirstTimestamp: base + 10*off, MaxTimestamp: base + 10*off,
			Records: []rc.Record{{Offset: off, Timestamp: base + 10*off, Value: []byte(fmt.Sprintf("ce/%d|", off))}}}, 1)
	}
	env := &ceEnv{s: s, cl: cl, p: p, topic: "ce"}
	armed, fired := false, false
	firstName := "ReadBatch closed unread"
	api := int16(1)
	if first == 98 {
		// the byte limit ends the response inside the header of the first
		// message; the response arrives after the deadline the fetch was given
		// (the connection's, less the round-trip allowance) and before the
		// connection's own: the batch reports RequestTimedOut, a Kafka error,
		// and the connection is kept
		firstName = "ReadBatch whose record set is cut inside its first header, answered late"
		cl.TruncateAtMaxBytes = true
		cl.ForceRecordSetLimit = 30
		if magic < 2 {
			cl.ForceRecordSetLimit = 20
		}
	} else if first == 97 {
		// the broker refuses the batch (a Kafka error: the connection is kept
		// if the response is consumed whole) and the network stalls inside
		// that response
		firstName, api = "WriteMessages answered with NotEnoughReplicas", 0
		cl.ProduceErr = func(r *Req, topic string, part int32) (int16, bool) {
			if armed {
				return 19, false
			}
			return ErrNone, false
		}
	} else if first != 99 {
		firstName, api = ceOpNames[first], ceOpAPI[first]
	}
	desc := fmt.Sprintf("case %d: %s (produce<=v%d fetch<=v%d metadata<=v%d); its response stalls for 3s %s, the connection's deadline is 1s; then %s", idx, firstName,
		b.Versions[0][1], b.Versions[1][1], b.Versions[3][1], []string{"inside the frame header", "after 12 bytes", "half-way", "before its last byte", "before its last 4 bytes"}[split], ceOpNames[follow])
	if first == 98 {
		desc = fmt.Sprintf("case %d: %s (produce<=v%d fetch<=v%d metadata<=v%d): the response arrives 1.7s into a 2s deadline; then %s", idx, firstName, b.Versions[0][1], b.Versions[1][1], b.Versions[3][1], ceOpNames[follow])
	}
	if two {
		desc += " and, from a second goroutine, Brokers"
	}
	cl.MutateFrame = func(r *Req, frame []byte) []byte {
		if armed && !fired && r.Hdr.APIKey == api {
			fired = true
			if first == 98 {
				r.Fault = "slow"
				s.Count("fault:late-truncated-fetch")
			} else {
				r.Fault = "split"
				s.Count("fault:stall-mid-response")
			}
		}
		return frame
	}
	if first == 98 {
		cl.F.SlowMin, cl.F.SlowMax = 1700*time.Millisecond, 1700*time.Millisecond
	}
	cl.F.SplitMin, cl.F.SplitMax = 3*time.Second, 3*time.Second
	cl.SplitAt = func(r *Req, n int) int {
		k := []int{5, 12, n / 2, n - 1, n - 4}[split]
		if k >= n {
			k = n - 1
		}
		if k < 1 {
			k = 1
		}
		return k
	}

	type res struct {
		done  bool
		err   error
		wrong string
		took  time.Duration
	}
	var ra, rb, rc2 res
	finished := false
	s.Go("case", func() {
		defer func() { finished = true }()
		d := &kafka.Dialer{DialFunc: n.Dialer("ce"), ClientID: "ce", Timeout: 3 * time.Second}
		ctx, cancel := context.WithTimeout(context.Background(), 10*time.Second)
		conn, err := d.DialLeader(ctx, "tcp", b.Addr(), "ce", 0)
		cancel()
		if err != nil {
			s.Fail("SIM", "stallclose-dial", "%v", err)
			return
		}
		defer conn.Close()
		env.conn = conn
		conn.SetDeadline(time.Now().Add(5 * time.Second))
		if _, err := conn.Seek(7, kafka.SeekAbsolute); err != nil {
			s.Fail("SIM", "stallclose-seek", "%v", err)
			return
		}
		if _, err := conn.ReadPartitions("ce"); err != nil {
			s.Fail("SIM", "stallclose-warm", "%v", err)
			return
		}
		conn.SetDeadline(time.Now().Add(time.Second))
		if first == 98 {
			conn.SetDeadline(time.Now().Add(2 * time.Second))
		}
		armed = true
		t0 := s.Now()
		if first == 98 {
			limit := 30
			if magic < 2 {
				limit = 20
			}
			bt := conn.ReadBatch(1, limit)
			_, rerr := bt.ReadMessage()
			cerr := bt.Close()
			ra.err = rerr
			if rerr == nil {
				ra.err = cerr
			}
			s.Count(fmt.Sprintf("late-fetch-result cfg%d: %v", cfg, ra.err))
		} else if first == 99 {
			bt := conn.ReadBatch(1, 1<<20)
			ra.err = bt.Close()
		} else if first == 97 {
			ra.err, ra.wrong = env.doOp(0, "a")
		} else {
			ra.err, ra.wrong = env.doOp(first, "a")
		}
		ra.took, ra.done = s.Now()-t0, true
		armed = false
		cl.ForceRecordSetLimit, cl.TruncateAtMaxBytes = 0, false
		s.Count("ops")
		// a fresh deadline for what follows
		conn.SetDeadline(time.Now().Add(6 * time.Second))
		t1 := s.Now()
		if two {
			s.Go("second", func() {
				bs, err := conn.Brokers()
				rc2.err = err
				if err == nil && len(bs) != 1 {
					rc2.wrong = fmt.Sprintf("Brokers returned %d brokers, cluster has 1", len(bs))
				}
				rc2.took, rc2.done = s.Now()-t1, true
			})
		}
		rb.err, rb.wrong = env.doOp(follow, "b")
		rb.took, rb.done = s.Now()-t1, true
		// (the connection is closed when this function returns: not under the
		// second goroutine's feet)
		for two && !rc2.done && s.Now()-t1 < 8*time.Second {
			s.Sleep(time.Millisecond)
		}
	})
	s.DoneWhen(func() bool { return finished && (!two || rc2.done || !rb.done) })
	s.AtEnd(func() {
		defer n.Shutdown()
		if !fired {
			s.Fail("SIM", "stallclose-not-fired", "%s: fault did not fire", desc)
			return
		}
		s.Count("nontrivial")
		if !ra.done {
			s.Fail("C11", "R4-hang", "%s: the first operation had not returned when the run ended (%s at %v)", desc, s.Ended, s.Now())
			return
		}
		if ra.wrong != "" {
			s.Fail("C11", "R3-wrong-value", "%s: first operation: %s", desc, ra.wrong)
		}
		if ra.took > time.Second+200*time.Millisecond && first != 98 {
			s.Fail("C11", "R4-hang", "%s: the first operation returned after %v (deadline 1s)", desc, ra.took)
		}
		for i, r := range []*res{&rb, &rc2} {
			who := []string{"the follow-up operation", "the second goroutine's Brokers call"}[i]
			if i == 1 && !two {
				continue
			}
			switch {
			case !r.done:
				s.Fail("C11", "R4-hang", "%s: %s had not returned when the run ended (%s at %v; first operation returned %v after %v)", desc, who, s.Ended, s.Now(), ra.err, ra.took)
			case r.wrong != "":
				s.Fail("C11", "R3-wrong-value", "%s: %s: %s", desc, who, r.wrong)
			case r.took > 6*time.Second+200*time.Millisecond:
				s.Fail("C11", "R4-hang", "%s: %s returned after %v (deadline 6s)", desc, who, r.took)
			case (first == 98 || first == 97 && isKafkaErr(ra.err)) && follow != 12 && (ra.err == nil || isKafkaErr(ra.err)) && r.err != nil: // (op 12 sets a short read deadline, which rightly hits a concurrent read operation)
				s.Fail("C11", "R1-conn-unusable-after-kafka-error", "%s: the first operation ended with %v and the connection was kept; %s then failed with %v", desc, ra.err, who, r.err)
			case ra.err != nil && !isKafkaErr(ra.err) && !errors.Is(ra.err, io.ErrShortBuffer) && r.err == nil:
				s.Fail("C11", "R2-conn-reused-after-framing-error", "%s: the first operation failed with %v, yet %s succeeded on that connection", desc, ra.err, who)
			}
		}
	})
}

func isKafkaErr(err error) bool {
	var ke kafka.Error
	return errors.As(err, &ke)
}
