package sim

import (
	"bytes"
	"context"
	"crypto/tls"
	"fmt"
	"io"
	"net"
	"os"
	"sync/atomic"
	"time"

	kafka "github.com/segmentio/kafka-go"
	"github.com/segmentio/kafka-go/compress"
)

func init() { Scenarios["racemix"] = raceScenario }

// raceScenario (C10, race flavour): generated concurrent client programs over
// the exported methods of the types documented as safe for concurrent use,
// run against the simulated cluster with the goroutines free-running on
// several Ps under the Go race detector. Workload, faults, network and time
// are simulated and drawn from the tape in the set-up phase; each actor then
// follows its own private pseudo-random program (no harness state is shared
// between actors). The oracle is the race detector.
//
// The scenario also runs in the serialised flavours (as a plain smoke test of
// the same programs), where it reports nothing by itself.

type lrand struct{ x uint64 }

func (r *lrand) next() uint64 {
	r.x += 0x9e3779b97f4a7c15
	z := r.x
	z = (z ^ (z >> 30)) * 0xbf58476d1ce4e5b9
	z = (z ^ (z >> 27)) * 0x94d049bb133111eb
	return z ^ (z >> 31)
}
func (r *lrand) intn(n int) int { return int(r.next() % uint64(n)) }
func (r *lrand) dur(lo, hi time.Duration) time.Duration {
	return lo + time.Duration(r.next()%uint64(hi-lo+1))
}

func raceScenario(s *Sim, params map[string]string) {
	t := s.T
	if !s.Free {
		// the actors block in plain channel operations and sleeps, which only
		// the free-running flavour supports
		s.Count("skipped-not-race-flavour")
		s.DoneWhen(func() bool { return true })
		return
	}
	s.Coalesce = Pick(t, "coalesce", time.Duration(0), 200*time.Microsecond, 2*time.Millisecond, 10*time.Millisecond)
	n := NewNet(s)
	n.MinLatency = time.Duration(t.Range("cfg", 1, 20)) * 100 * time.Microsecond
	n.MaxLatency = n.MinLatency // no draws from free-running goroutines
	cl := NewCluster(s, n)
	nb := t.Range("cfg", 1, 3)
	for i := 1; i <= nb; i++ {
		cl.AddBroker(int32(i), "")
	}
	oldFormat := false
	if t.Intn("oldproduce", 4) == 0 || params["oldproduce"] == "1" {
		// brokers from before the record-batch format: produce and fetch carry
		// message sets (format 1, compressed sets as wrapper messages)
		for _, b := range cl.Brokers {
			b.Versions[0] = [2]int16{0, 2}
			b.Versions[1] = [2]int16{0, 3}
		}
		s.Count("brokers-with-message-format-1")
		oldFormat = true
	}
	cl.AddTopic("rx", 3, func(int) int32 { return int32(1 + t.Intn("cfg", nb)) })
	cl.AddTopic("ry", 2, func(int) int32 { return int32(1 + t.Intn("cfg", nb)) })
	// pre-load something to read
	for pi := int32(0); pi < 3; pi++ {
		p := cl.Part("rx", pi)
		genLog(t, cl, p, LayoutOpts{Magics: []int8{2}, Codecs: []int8{0, 1, 2, 3, 4}, Headers: true, Stream: "layout"}, 0, t.Range("layout", 2, 10), fmt.Sprintf("rx%d-", pi))
	}
	switch t.Intn("cfg", 4) {
	case 0:
		cl.F = FaultCfg{CutAfterApply: 30, CutInResponse: 30, Slow: 60, ErrorCode: 40, SlowMin: 10 * time.Millisecond, SlowMax: 300 * time.Millisecond, Until: 3 * time.Second}
	case 1:
		// brokers that accept a request and stay silent: attempts end on the
		// client's own time-outs while the request is still held by the connection
		cl.F = FaultCfg{Stall: 350, StallReset: 2 * time.Second, ErrorCode: 50, APIs: map[int16]bool{0: true, 1: true, 2: true, 8: true, 9: true}, Until: 3 * time.Second}
	}
	if nb > 1 && t.Intn("cfg", 3) == 0 {
		// the broker set changes while requests are being routed: a broker
		// leaves the metadata and comes back, once or twice
		victim := cl.Brokers[t.Intn("cfg", nb)]
		at := time.Duration(t.Range("cfg", 20, 1500)) * time.Millisecond
		for k := 0; k < t.Range("cfg", 1, 2); k++ {
			down := time.Duration(t.Range("cfg", 30, 600)) * time.Millisecond
			s.After(at, "broker-down", func() { cl.SetBrokerUp(victim, false) })
			s.After(at+down, "broker-back", func() { cl.SetBrokerUp(victim, true) })
			at += down + time.Duration(t.Range("cfg", 50, 800))*time.Millisecond
		}
	}
	if params["force"] == "silent-produce" {
		cl.F = FaultCfg{Stall: 1000, StallReset: 2 * time.Second, APIs: map[int16]bool{0: true}, Until: 3 * time.Second}
	}
	program := Pick(t, "cfg", "writer", "reader", "group", "conn", "client", "balancers", "codecs", "batch", "conns", "tls")
	if t.Intn("wide", 12) == 0 {
		program = "widetopics"
	}
	if v, ok := params["program"]; ok {
		program = v
	}
	seedOf := func() *lrand { return &lrand{x: uint64(t.Intn("work", 1<<30))<<20 + 1} }
	addr := cl.Brokers[0].Addr()
	logf := kafka.LoggerFunc(func(string, ...interface{}) {})
	var ops, fetched atomic.Int64
	s.AtEnd(func() {
		s.hmu.Lock()
		s.Stats["ops"] += int(ops.Load())
		s.Stats["messages-fetched"] += int(fetched.Load())
		s.hmu.Unlock()
	})
	var cleanup []func()

	switch program {
	case "writer":
		tr := &kafka.Transport{Dial: n.Dialer("race-writer"), ClientID: "race", DialTimeout: 2 * time.Second, MetadataTTL: Pick(t, "cfg", 5*time.Second, 200*time.Millisecond), IdleTimeout: Pick(t, "cfg", 30*time.Second, 300*time.Millisecond)}
		var bal kafka.Balancer
		switch t.Intn("cfg", 5) {
		case 0:
			bal = &kafka.RoundRobin{}
		case 1:
			bal = &kafka.LeastBytes{}
		case 2:
			bal = &kafka.Hash{}
		case 3:
			bal = kafka.Murmur2Balancer{}
		default:
			bal = kafka.CRC32Balancer{}
		}
		var completions atomic.Int64
		w := &kafka.Writer{Addr: kafka.TCP(addr), Transport: tr, Balancer: bal, BatchSize: Pick(t, "cfg", 1, 3, 100), BatchTimeout: Pick(t, "cfg", time.Millisecond, 20*time.Millisecond),
			Async: t.Intn("cfg", 3) == 0, MaxAttempts: Pick(t, "cfg", 1, 3, 4), WriteTimeout: Pick(t, "cfg", 2*time.Second, 150*time.Millisecond), ReadTimeout: 2 * time.Second, RequiredAcks: kafka.RequireOne,
			WriteBackoffMin: 10 * time.Millisecond, WriteBackoffMax: 50 * time.Millisecond,
			Compression: kafka.Compression(t.Intn("cfg", 5)), Logger: logf, ErrorLogger: logf,
			Completion: func(msgs []kafka.Message, err error) { completions.Add(int64(len(msgs))) }}
		if oldFormat && w.Compression == kafka.Zstd {
			w.Compression = kafka.Gzip // (zstd needs record batches)
		}
		multi := t.Intn("cfg", 2) == 0
		if !multi {
			w.Topic = "rx"
		}
		nsub := t.Range("cfg", 2, 4)
		for a := 0; a < nsub; a++ {
			r := seedOf()
			s.Go(fmt.Sprintf("w%d", a), func() {
				for i := 0; i < 2+r.intn(5); i++ {
					k := 1 + r.intn(3)
					msgs := make([]kafka.Message, k)
					for j := range msgs {
						msgs[j] = kafka.Message{Key: []byte(fmt.Sprintf("k%d", r.intn(5))), Value: bytes.Repeat([]byte("v"), 1+r.intn(50))}
						if multi {
							msgs[j].Topic = []string{"rx", "ry"}[r.intn(2)]
						}
					}
					ctx, cancel := context.WithTimeout(context.Background(), r.dur(5*time.Millisecond, 3*time.Second))
					w.WriteMessages(ctx, msgs...)
					cancel()
					ops.Add(1)
					if r.intn(3) == 0 {
						time.Sleep(r.dur(0, 30*time.Millisecond))
					}
				}
			})
		}
		rs := seedOf()
		s.Go("stats", func() {
			for i := 0; i < 3+rs.intn(6); i++ {
				st := w.Stats()
				_ = st.Writes + st.Messages
				ops.Add(1)
				time.Sleep(rs.dur(0, 40*time.Millisecond))
			}
		})
		rc := seedOf()
		closeEarly := t.Intn("cfg", 2) == 0
		s.Go("closer", func() {
			if closeEarly {
				time.Sleep(rc.dur(0, 200*time.Millisecond))
			} else {
				time.Sleep(4 * time.Second)
			}
			w.Close()
			tr.CloseIdleConnections()
			ops.Add(1)
		})

	case "reader", "group":
		cfg := kafka.ReaderConfig{Brokers: []string{addr}, Topic: "rx", MinBytes: 1, MaxBytes: 1 << 20, MaxWait: Pick(t, "cfg", 50*time.Millisecond, 300*time.Millisecond),
			Dialer: &kafka.Dialer{DialFunc: n.Dialer("race-reader"), ClientID: "race", Timeout: 2 * time.Second}, Logger: logf, ErrorLogger: logf,
			ReadBackoffMin: 10 * time.Millisecond, ReadBackoffMax: 100 * time.Millisecond, ReadLagInterval: Pick(t, "cfg", -1, 100*time.Millisecond),
			QueueCapacity: Pick(t, "cfg", 1, 100)}
		if program == "group" {
			cfg.GroupID = "race-group"
			cfg.HeartbeatInterval = 200 * time.Millisecond
			cfg.SessionTimeout = 2 * time.Second
			cfg.RebalanceTimeout = 2 * time.Second
			cfg.JoinGroupBackoff = 100 * time.Millisecond
			cfg.CommitInterval = Pick(t, "cfg", 0, 50*time.Millisecond)
			cfg.RetentionTime = time.Hour
		} else {
			cfg.Partition = t.Intn("cfg", 3)
		}
		rd := kafka.NewReader(cfg)
		msgCh := make(chan kafka.Message, 64)
		nf := t.Range("cfg", 1, 2)
		for a := 0; a < nf; a++ {
			r := seedOf()
			s.Go(fmt.Sprintf("f%d", a), func() {
				for i := 0; i < 3+r.intn(10); i++ {
					ctx, cancel := context.WithTimeout(context.Background(), r.dur(20*time.Millisecond, time.Second))
					var m kafka.Message
					var err error
					if r.intn(2) == 0 || program == "reader" {
						m, err = rd.FetchMessage(ctx)
					} else {
						m, err = rd.ReadMessage(ctx)
					}
					cancel()
					ops.Add(1)
					if err == nil {
						fetched.Add(1)
						select {
						case msgCh <- m:
						default:
						}
					} else if err == io.EOF {
						return
					}
				}
			})
		}
		if program == "group" {
			r := seedOf()
			s.Go("committer", func() {
				for i := 0; i < 3+r.intn(6); i++ {
					select {
					case m := <-msgCh:
						ctx, cancel := context.WithTimeout(context.Background(), time.Second)
						rd.CommitMessages(ctx, m)
						cancel()
						ops.Add(1)
					case <-time.After(r.dur(10*time.Millisecond, 300*time.Millisecond)):
					}
				}
			})
			if t.Intn("cfg", 2) == 0 {
				// a second member triggers a rebalance underneath
				cfg2 := cfg
				cfg2.Dialer = &kafka.Dialer{DialFunc: n.Dialer("race-reader2"), ClientID: "race", Timeout: 2 * time.Second}
				r2 := seedOf()
				s.Go("member2", func() {
					time.Sleep(r2.dur(0, time.Second))
					rd2 := kafka.NewReader(cfg2)
					ctx, cancel := context.WithTimeout(context.Background(), r2.dur(100*time.Millisecond, 2*time.Second))
					rd2.FetchMessage(ctx)
					cancel()
					rd2.Close()
					ops.Add(1)
				})
			}
		} else {
			r := seedOf()
			s.Go("seeker", func() {
				for i := 0; i < 2+r.intn(4); i++ {
					time.Sleep(r.dur(0, 200*time.Millisecond))
					rd.SetOffset(int64(r.intn(10)))
					ops.Add(1)
					if r.intn(3) == 0 {
						ctx, cancel := context.WithTimeout(context.Background(), 500*time.Millisecond)
						rd.SetOffsetAt(ctx, time.UnixMilli(1600000000000+int64(r.intn(20))))
						cancel()
					}
				}
			})
		}
		rp := seedOf()
		s.Go("poller", func() {
			for i := 0; i < 4+rp.intn(8); i++ {
				// one method per iteration: a call that takes the reader's mutex
				// would order the unlocked accesses of the next one
				switch rp.intn(6) {
				case 0:
					_ = rd.Offset()
				case 1, 2:
					_ = rd.Lag()
				case 3:
					st := rd.Stats()
					_ = st.Messages
				case 4:
					_ = rd.Config()
				default:
					if program == "reader" {
						ctx, cancel := context.WithTimeout(context.Background(), 300*time.Millisecond)
						rd.ReadLag(ctx)
						cancel()
					}
				}
				ops.Add(1)
				time.Sleep(rp.dur(0, 60*time.Millisecond))
			}
		})
		rc := seedOf()
		early := t.Intn("cfg", 2) == 0
		s.Go("closer", func() {
			if early {
				time.Sleep(rc.dur(0, 500*time.Millisecond))
			} else {
				time.Sleep(5 * time.Second)
			}
			rd.Close()
			ops.Add(1)
		})

	case "conn":
		d := &kafka.Dialer{DialFunc: n.Dialer("race-conn"), ClientID: "race", Timeout: 2 * time.Second}
		ctx, cancel := context.WithTimeout(context.Background(), 3*time.Second)
		defer cancel()
		// dialling needs the driver: do it from an actor, then fan out
		rs := []*lrand{seedOf(), seedOf(), seedOf(), seedOf(), seedOf()}
		part := t.Intn("cfg", 3)
		s.Go("conn-root", func() {
			conn, err := d.DialLeader(context.Background(), "tcp", addr, "rx", part)
			if err != nil {
				return
			}
			done := make(chan struct{}, 8)
			sub := func(name string, f func(r *lrand), r *lrand) {
				s.Go(name, func() { f(r); done <- struct{}{} })
			}
			sub("c-read", func(r *lrand) {
				for i := 0; i < 2+r.intn(4); i++ {
					conn.Seek(int64(r.intn(8)), kafka.SeekAbsolute)
					b := conn.ReadBatch(1, 1<<20)
					for j := 0; j < 1+r.intn(6); j++ {
						if _, err := b.ReadMessage(); err != nil {
							break
						}
					}
					b.Close()
					ops.Add(1)
				}
			}, rs[0])
			sub("c-write", func(r *lrand) {
				for i := 0; i < 2+r.intn(4); i++ {
					conn.WriteMessages(kafka.Message{Value: []byte("x")})
					ops.Add(1)
					time.Sleep(r.dur(0, 20*time.Millisecond))
				}
			}, rs[1])
			sub("c-deadline", func(r *lrand) {
				for i := 0; i < 3+r.intn(6); i++ {
					switch r.intn(3) {
					case 0:
						conn.SetDeadline(time.Now().Add(r.dur(10*time.Millisecond, 2*time.Second)))
					case 1:
						conn.SetReadDeadline(time.Now().Add(r.dur(10*time.Millisecond, 2*time.Second)))
					default:
						conn.SetWriteDeadline(time.Now().Add(r.dur(10*time.Millisecond, 2*time.Second)))
					}
					ops.Add(1)
					time.Sleep(r.dur(0, 30*time.Millisecond))
				}
			}, rs[2])
			sub("c-query", func(r *lrand) {
				for i := 0; i < 2+r.intn(4); i++ {
					switch r.intn(4) {
					case 0:
						conn.ReadOffsets()
					case 1:
						conn.Offset()
					case 2:
						conn.ReadPartitions("rx")
					default:
						conn.ReadLastOffset()
					}
					ops.Add(1)
				}
			}, rs[3])
			if rs[4].intn(2) == 0 {
				time.Sleep(rs[4].dur(0, 300*time.Millisecond))
				conn.Close()
			}
			for i := 0; i < 4; i++ {
				<-done
			}
			conn.Close()
		})
		_ = ctx

	case "conns":
		// several connections used side by side, each by one goroutine: they
		// share nothing the caller can see, only the package's pools of
		// scratch buffers and codec objects. Compressed writes of requests
		// larger than a connection's write buffer, and reads of compressed
		// batches, from every one of them at once.
		d := &kafka.Dialer{DialFunc: n.Dialer("race-conns"), ClientID: "race", Timeout: 2 * time.Second}
		nc := t.Range("cfg", 2, 5)
		for a := 0; a < nc; a++ {
			r := seedOf()
			part := a % 3
			s.Go(fmt.Sprintf("cs%d", a), func() {
				conn, err := d.DialLeader(context.Background(), "tcp", addr, "rx", part)
				if err != nil {
					return
				}
				defer conn.Close()
				for i := 0; i < 3+r.intn(6); i++ {
					conn.SetDeadline(time.Now().Add(3 * time.Second))
					if r.intn(3) == 0 {
						conn.Seek(int64(r.intn(4)), kafka.SeekAbsolute)
						b := conn.ReadBatch(1, 1<<20)
						for j := 0; j < 1+r.intn(8); j++ {
							if _, err := b.ReadMessage(); err != nil {
								break
							}
						}
						b.Close()
					} else {
						msgs := make([]kafka.Message, 1+r.intn(4))
						for j := range msgs {
							v := make([]byte, 2000+r.intn(30000))
							x := uint64(r.intn(1<<30)) + 1
							for k := range v {
								x ^= x << 13
								x ^= x >> 7
								x ^= x << 17
								v[k] = byte(x)
							}
							msgs[j] = kafka.Message{Value: v}
						}
						cc := 1 + r.intn(4)
						if oldFormat && cc == 4 {
							cc = 1 // (zstd needs record batches)
						}
						conn.WriteCompressedMessages(kafka.Compression(cc).Codec(), msgs...)
					}
					ops.Add(1)
				}
			})
		}

	case "tls":
		// a Transport with a TLS configuration that names no server (it is
		// filled in per connection from the broker's address), a two-host
		// bootstrap list and several requests at once, so that several
		// connections are set up at the same time
		roots, certs, err := raceTLSPKI()
		if err != nil {
			s.Fail("SIM", "tls-pki", "%v", err)
			break
		}
		tr := &kafka.Transport{TLS: &tls.Config{RootCAs: roots}, ClientID: "race", DialTimeout: 2 * time.Second, MetadataTTL: Pick(t, "cfg", 5*time.Second, 100*time.Millisecond), IdleTimeout: Pick(t, "cfg", 30*time.Second, 50*time.Millisecond),
			Dial: func(ctx context.Context, network, address string) (net.Conn, error) {
				host, _, err := net.SplitHostPort(address)
				if err != nil {
					return nil, err
				}
				cert, ok := certs[host]
				if !ok {
					return nil, &net.DNSError{Err: "no such host", Name: host, IsNotFound: true}
				}
				cend, send := net.Pipe()
				// (net.Pipe has no buffering: the strictly alternating TLS 1.2 handshake)
				go serveTLSBroker(tls.Server(send, &tls.Config{Certificates: []tls.Certificate{cert}, MaxVersion: tls.VersionTLS12}))
				return cend, nil
			}}
		client := &kafka.Client{Addr: kafka.TCP(raceTLSHosts[0]+":9092", raceTLSHosts[1]+":9092"), Transport: tr, Timeout: 2 * time.Second}
		var tlsOK atomic.Int64
		s.AtEnd(func() {
			s.hmu.Lock()
			s.Stats["requests-over-tls-succeeded"] += int(tlsOK.Load())
			s.hmu.Unlock()
		})
		na := t.Range("cfg", 3, 8)
		for a := 0; a < na; a++ {
			r := seedOf()
			s.Go(fmt.Sprintf("t%d", a), func() {
				for i := 0; i < 1+r.intn(3); i++ {
					ctx, cancel := context.WithTimeout(context.Background(), 2*time.Second)
					var rerr error
					if r.intn(2) == 0 {
						_, rerr = client.ApiVersions(ctx, &kafka.ApiVersionsRequest{})
					} else {
						_, rerr = client.Metadata(ctx, &kafka.MetadataRequest{})
					}
					cancel()
					if rerr == nil {
						tlsOK.Add(1)
					}
					ops.Add(1)
					if r.intn(2) == 0 {
						time.Sleep(r.dur(0, 200*time.Millisecond))
					}
				}
			})
		}
		cleanup = append(cleanup, tr.CloseIdleConnections)

	case "batch":
		d := &kafka.Dialer{DialFunc: n.Dialer("race-batch"), ClientID: "race", Timeout: 2 * time.Second}
		rs := []*lrand{seedOf(), seedOf(), seedOf()}
		part := t.Intn("cfg", 3)
		s.Go("batch-root", func() {
			conn, err := d.DialLeader(context.Background(), "tcp", addr, "rx", part)
			if err != nil {
				return
			}
			defer conn.Close()
			conn.SetDeadline(time.Now().Add(3 * time.Second))
			b := conn.ReadBatch(1, 1<<20)
			done := make(chan struct{}, 4)
			s.Go("b-read", func() {
				for i := 0; i < 1+rs[0].intn(8); i++ {
					if rs[0].intn(2) == 0 {
						if _, err := b.ReadMessage(); err != nil {
							break
						}
					} else {
						buf := make([]byte, 256)
						if _, err := b.Read(buf); err != nil {
							break
						}
					}
					ops.Add(1)
				}
				done <- struct{}{}
			})
			s.Go("b-info", func() {
				for i := 0; i < 2+rs[1].intn(6); i++ {
					switch rs[1].intn(5) {
					case 0:
						_ = b.Offset()
					case 1:
						_ = b.HighWaterMark()
					case 2:
						_ = b.Partition()
					case 3:
						_ = b.Throttle()
					default:
						_ = b.Err()
					}
					ops.Add(1)
				}
				done <- struct{}{}
			})
			s.Go("b-close", func() {
				time.Sleep(rs[2].dur(0, 20*time.Millisecond))
				b.Close()
				ops.Add(1)
				done <- struct{}{}
			})
			for i := 0; i < 3; i++ {
				<-done
			}
		})

	case "client":
		tr := &kafka.Transport{Dial: n.Dialer("race-client"), ClientID: "race", DialTimeout: 2 * time.Second, MetadataTTL: Pick(t, "cfg", 5*time.Second, 100*time.Millisecond), IdleTimeout: Pick(t, "cfg", 30*time.Second, 200*time.Millisecond)}
		client := &kafka.Client{Addr: kafka.TCP(addr), Transport: tr, Timeout: 2 * time.Second}
		na := t.Range("cfg", 2, 5)
		// churn: the set of brokers in the metadata changes with (almost) every
		// refresh while many requests are being routed
		churn := t.Intn("cfg", 3) == 0
		opsPer := 0
		if churn {
			tr.MetadataTTL = Pick(t, "cfg", 3*time.Millisecond, 10*time.Millisecond)
			na, opsPer = 6, 15
			flapper := cl.AddBroker(int32(nb+1), "") // leads nothing
			at := time.Duration(t.Range("cfg", 1, 20)) * time.Millisecond
			for k := 0; k < 30; k++ {
				up := k%2 == 1
				s.After(at, "broker-flap", func() { cl.SetBrokerUp(flapper, up) })
				at += time.Duration(t.Range("cfg", 4, 25)) * time.Millisecond
			}
		}
		for a := 0; a < na; a++ {
			r := seedOf()
			s.Go(fmt.Sprintf("c%d", a), func() {
				for i := 0; i < 3+r.intn(6)+opsPer; i++ {
					ctx, cancel := context.WithTimeout(context.Background(), r.dur(5*time.Millisecond, 2*time.Second))
					switch r.intn(6) {
					case 0:
						client.Metadata(ctx, &kafka.MetadataRequest{Topics: []string{"rx", "ry"}})
					case 1:
						client.ListOffsets(ctx, &kafka.ListOffsetsRequest{Topics: map[string][]kafka.OffsetRequest{"rx": {kafka.FirstOffsetOf(0), kafka.LastOffsetOf(1)}}})
					case 2:
						client.Produce(ctx, &kafka.ProduceRequest{Topic: "ry", Partition: r.intn(2), RequiredAcks: kafka.RequireOne,
							Records: kafka.NewRecordReader(kafka.Record{Value: kafka.NewBytes([]byte("v"))})})
					case 3:
						res, err := client.Fetch(ctx, &kafka.FetchRequest{Topic: "rx", Partition: r.intn(3), Offset: int64(r.intn(5)), MinBytes: 1, MaxBytes: 1 << 20, MaxWait: 50 * time.Millisecond})
						if err == nil {
							for {
								rec, err := res.Records.ReadRecord()
								if err != nil {
									break
								}
								if rec.Key != nil {
									rec.Key.Close()
								}
								if rec.Value != nil {
									io.Copy(io.Discard, rec.Value)
									rec.Value.Close()
								}
							}
						}
					case 4:
						client.OffsetFetch(ctx, &kafka.OffsetFetchRequest{GroupID: "g", Topics: map[string][]int{"rx": {0, 1}}})
					default:
						client.OffsetCommit(ctx, &kafka.OffsetCommitRequest{GroupID: "g", GenerationID: -1, Topics: map[string][]kafka.OffsetCommit{"rx": {{Partition: r.intn(3), Offset: int64(r.intn(10))}}}})
					}
					cancel()
					ops.Add(1)
				}
			})
		}
		rc := seedOf()
		s.Go("idle-closer", func() {
			for i := 0; i < 1+rc.intn(4); i++ {
				time.Sleep(rc.dur(0, 300*time.Millisecond))
				tr.CloseIdleConnections()
				ops.Add(1)
			}
		})
		cleanup = append(cleanup, tr.CloseIdleConnections)

	case "balancers":
		bals := []kafka.Balancer{&kafka.RoundRobin{ChunkSize: t.Intn("cfg", 3)}, &kafka.LeastBytes{}, &kafka.Hash{}, &kafka.ReferenceHash{}, kafka.CRC32Balancer{}, kafka.Murmur2Balancer{}, kafka.CRC32Balancer{Consistent: true}}
		na := t.Range("cfg", 2, 6)
		for a := 0; a < na; a++ {
			r := seedOf()
			s.Go(fmt.Sprintf("b%d", a), func() {
				for i := 0; i < 20+r.intn(60); i++ {
					b := bals[r.intn(len(bals))]
					var key []byte
					if r.intn(4) != 0 {
						key = []byte(fmt.Sprintf("key-%d", r.intn(100)))
					}
					np := 1 + r.intn(6)
					if p := b.Balance(kafka.Message{Key: key, Value: make([]byte, r.intn(100))}, contiguous(np)...); p < 0 || p >= np {
						s.Fail("C13", "R0-offered", "%T returned %d of %d partitions under concurrent use", b, p, np)
					}
					ops.Add(1)
				}
			})
		}

	case "widetopics":
		// several goroutines write for the first time, at the same moment, to
		// topics wider than anything the process has seen: the Writer's
		// process-wide partition list cache grows under their feet
		warm := t.Range("cfg", 130, 390)
		cl.AddTopic("wwarm", warm, func(int) int32 { return cl.Brokers[0].ID })
		nw := t.Range("cfg", 2, 6)
		for k := 0; k < nw; k++ {
			cl.AddTopic(fmt.Sprintf("wbig%d", k), warm+1+t.Intn("cfg", 400), func(int) int32 { return cl.Brokers[0].ID })
		}
		tr := &kafka.Transport{Dial: n.Dialer("race-wide"), ClientID: "race", DialTimeout: 2 * time.Second, MetadataTTL: 5 * time.Second}
		var bal kafka.Balancer = &kafka.LeastBytes{}
		if t.Intn("cfg", 2) == 0 {
			bal = &kafka.RoundRobin{}
		}
		w := &kafka.Writer{Addr: kafka.TCP(addr), Transport: tr, Balancer: bal, BatchSize: 1, BatchTimeout: time.Millisecond, RequiredAcks: kafka.RequireOne, MaxAttempts: 1,
			WriteTimeout: 2 * time.Second, ReadTimeout: 2 * time.Second, Logger: logf, ErrorLogger: logf}
		start := make(chan struct{})
		s.Go("warm", func() {
			ctx, cancel := context.WithTimeout(context.Background(), 3*time.Second)
			w.WriteMessages(ctx, kafka.Message{Topic: "wwarm", Value: []byte("v")})
			cancel()
			ops.Add(1)
			close(start)
		})
		for k := 0; k < nw; k++ {
			k := k
			s.Go(fmt.Sprintf("wide%d", k), func() {
				<-start
				ctx, cancel := context.WithTimeout(context.Background(), 3*time.Second)
				w.WriteMessages(ctx, kafka.Message{Topic: fmt.Sprintf("wbig%d", k), Value: []byte("v")})
				cancel()
				ops.Add(1)
			})
		}
		cleanup = append(cleanup, func() { w.Close(); tr.CloseIdleConnections() })
	case "codecs":
		na := t.Range("cfg", 2, 5)
		for a := 0; a < na; a++ {
			r := seedOf()
			s.Go(fmt.Sprintf("z%d", a), func() {
				for i := 0; i < 3+r.intn(8); i++ {
					codec := compress.Codecs[1+r.intn(4)]
					x := bytes.Repeat([]byte{byte(r.intn(256)), 'a', 'b'}, 1+r.intn(30000))
					var buf bytes.Buffer
					w := codec.NewWriter(&buf)
					w.Write(x[:len(x)/2])
					w.Write(x[len(x)/2:])
					complete := r.intn(5) != 0
					if complete {
						w.Close()
					}
					stream := buf.Bytes()
					damaged := r.intn(4) == 0
					if damaged {
						// a stream whose header is wrong, cut short or missing:
						// the error paths hand pooled decoders back too
						switch r.intn(3) {
						case 0:
							if len(stream) > 0 {
								stream = append([]byte{stream[0] ^ 0xff}, stream[1:]...)
							}
						case 1:
							stream = stream[:r.intn(min(len(stream), 12)+1)]
						default:
							stream = nil
						}
						complete = false
					}
					rd := codec.NewReader(bytes.NewReader(stream))
					got, _ := io.ReadAll(rd)
					if damaged || r.intn(5) != 0 {
						rd.Close()
						if complete && !bytes.Equal(got, x) {
							// (content is C16's subject; reported here only because it is free)
							s.Fail("C16", "R1-roundtrip", "%s: concurrent round trip of %d bytes gave %d bytes", codec.Name(), len(x), len(got))
						}
					}
					ops.Add(1)
				}
			})
		}
	}

	s.DoneWhen(func() bool { return s.Actors() == 0 })
	s.AtEnd(func() {
		if s.Ended != "done" && params["debug"] != "" {
			fmt.Fprintf(os.Stderr, "STUCK run ended %s: %s\n", s.Ended, StuckReport(40))
		}
		for _, f := range cleanup {
			f()
		}
		n.Shutdown()
	})
}
