package sim

import (
	"bytes"
	"context"
	"errors"
	"fmt"
	"sort"
	"time"

	kafka "github.com/segmentio/kafka-go"
)

func init() { Scenarios["flush"] = flushScenario }

// flushScenario (C08 R5/R6): exact flush timing of Writer batches.
//
// The network has zero latency and no fault other than a slow produce
// response is injected, so every step of the library other than waiting for
// a batch timer or for a produce response takes zero simulated time. The
// arrival instant of the produce request carrying a batch can therefore be
// compared exactly, with no slack, against
//
//	max( min(t_open + BatchTimeout, t_full), t_prev_done )
//
// where t_open is the instant the first message of the batch was routed,
// t_full the instant the batch became full (its BatchSize-th message, the
// message that brought it to BatchBytes, or the message that did not fit any
// more), and t_prev_done the instant the response of the previous batch of
// the partition reached the client. The composition of the batches is taken
// from the requests themselves: no batching model is mirrored.
type fmsg struct {
	id    string
	actor int
	size  int64
	balAt time.Duration // instant the balancer was asked
	call  string        // the WriteMessages call it belongs to
	// the messages of a call are assigned to batches together, once the last of
	// them has been routed (routing a message of a topic whose metadata is not
	// cached yet waits for the metadata): appendAt is that instant
	appendAt time.Duration
	part     int
	topic    string
	reject   bool
}

type flushBalancer struct {
	s     *Sim
	byID  map[string]*fmsg
	inner kafka.Balancer
	pick  func(n int) int
}

func (b *flushBalancer) Balance(msg kafka.Message, partitions ...int) int {
	p := 0
	if b.inner != nil {
		p = b.inner.Balance(msg, partitions...)
	} else {
		p = partitions[b.pick(len(partitions))]
	}
	if m := b.byID[msgID(msg.Value)]; m != nil {
		m.balAt = b.s.Now()
		m.part = p
	}
	return p
}

func flushScenario(s *Sim, params map[string]string) {
	t := s.T
	n := NewNet(s)
	n.MinLatency, n.MaxLatency = 0, 0
	cl := NewCluster(s, n)
	nb := t.Range("cfg", 1, 3)
	for i := 1; i <= nb; i++ {
		b := cl.AddBroker(int32(i), "")
		b.Versions[0] = [2]int16{0, Pick(t, "cfg", int16(8), 7, 3, 2)}
	}
	ntop := t.Range("cfg", 1, 2)
	var topics []string
	for i := 0; i < ntop; i++ {
		name := fmt.Sprintf("f%d", i)
		topics = append(topics, name)
		cl.AddTopic(name, t.Range("cfg", 1, 3), func(int) int32 { return int32(1 + t.Intn("cfg", nb)) })
	}
	slow := Pick(t, "cfg", 0, 0, 200, 500, 1000)
	if slow > 0 {
		cl.F = FaultCfg{Slow: slow, SlowMin: time.Millisecond, SlowMax: Pick(t, "cfg", 5*time.Millisecond, 60*time.Millisecond, 300*time.Millisecond), APIs: map[int16]bool{0: true}}
	}
	batchSize := Pick(t, "cfg", 1, 2, 3, 5, 100)
	batchBytes := int64(Pick(t, "cfg", 1048576, 1048576, 200, 400))
	bt := Pick(t, "cfg", time.Millisecond, 10*time.Millisecond, 50*time.Millisecond, 200*time.Millisecond, time.Second)
	async := t.Intn("cfg", 2) == 0
	acks := Pick(t, "cfg", kafka.RequireOne, kafka.RequireAll, kafka.RequireNone)
	byID := map[string]*fmsg{}
	bal := &flushBalancer{s: s, byID: byID}
	switch t.Intn("cfg", 3) {
	case 0:
		bal.inner = &kafka.RoundRobin{}
	case 1:
		bal.inner = &kafka.Hash{}
	default:
		bal.pick = func(k int) int { return t.Intn("work", k) }
	}
	tr := &kafka.Transport{Dial: n.Dialer("flush"), ClientID: "sim-flush", MetadataTTL: Pick(t, "cfg", 6*time.Second, 300*time.Millisecond),
		DialTimeout: 3 * time.Second, IdleTimeout: Pick(t, "cfg", 30*time.Second, 100*time.Millisecond)}
	if t.Intn("throttle", 3) == 0 {
		// responses report a quota throttle (informational: they were served)
		cl.ThrottleMs, cl.ThrottleEvery = int32(Pick(t, "throttle", 1, 50, 700)), Pick(t, "throttle", 1, 2, 5)
	}
	multiTopic := ntop > 1
	w := &kafka.Writer{
		Addr: kafka.TCP(cl.Brokers[0].Addr()), Transport: tr, Balancer: bal,
		BatchSize: batchSize, BatchBytes: batchBytes, BatchTimeout: bt,
		Async: async, RequiredAcks: acks, MaxAttempts: Pick(t, "cfg", 1, 3),
		WriteTimeout: 10 * time.Second, ReadTimeout: 10 * time.Second,
		Compression: kafka.Compression(t.Intn("cfg", 3)),
		Logger:      kafka.LoggerFunc(func(string, ...interface{}) {}),
	}
	if !multiTopic {
		w.Topic = topics[0]
	}
	// a Completion callback that takes its time: it runs on the sender of its
	// own partition (whose next batch waits for it) and must hold up nobody else
	var compDelay time.Duration
	if t.Intn("completion", 3) == 0 {
		compDelay = Pick(t, "completion", 30*time.Millisecond, 250*time.Millisecond)
		w.Completion = func(msgs []kafka.Message, err error) { s.Sleep(compDelay) }
	}
	desc := fmt.Sprintf("BatchSize %d BatchBytes %d BatchTimeout %v async=%v acks=%d completion callback taking %v", batchSize, batchBytes, bt, async, acks, compDelay)

	nact := t.Range("cfg", 1, 3)
	total := 0
	var lastSubmit time.Duration
	keys := [][]byte{nil, []byte("a"), []byte("bb"), []byte("ccc"), []byte("dddd")}
	for a := 0; a < nact; a++ {
		a := a
		ncalls := t.Range("work", 1, 8)
		s.Go(fmt.Sprintf("f%d", a), func() {
			for ci := 0; ci < ncalls; ci++ {
				k := t.Range("work", 1, 4)
				msgs := make([]kafka.Message, k)
				var fm []*fmsg
				for j := 0; j < k; j++ {
					m := &fmsg{id: fmt.Sprintf("a%dc%di%d", a, ci, j), call: fmt.Sprintf("a%dc%d", a, ci), actor: a, part: -1, balAt: -1}
					m.topic = topics[t.Intn("work", len(topics))]
					key := keys[t.Intn("work", len(keys))]
					pad := Pick(t, "work", 0, 0, 10, 30)
					if batchBytes < 1000 {
						base := 22 + len(key) + len(m.id) + 1 + 1
						switch t.Intn("work", 5) {
						case 0: // exactly BatchBytes
							pad = int(batchBytes) - base
						case 1: // exactly half
							pad = int(batchBytes)/2 - base
						case 2: // just over half: two never fit together
							pad = int(batchBytes)/2 + 1 - base
						}
						if pad < 0 {
							pad = 0
						}
					}
					val := append([]byte(m.id+"|"), bytes.Repeat([]byte{'x'}, pad)...)
					km := kafka.Message{Key: key, Value: val}
					if multiTopic {
						km.Topic = m.topic
					}
					m.size = int64(4 + 1 + 1 + 8 + 4 + len(key) + 4 + len(val) + 1)
					byID[m.id] = m
					fm = append(fm, m)
					msgs[j] = km
					total++
				}
				ctx := context.Background()
				var cancel context.CancelFunc
				if t.Intn("work", 6) == 0 {
					// a caller that stops waiting: its messages stay accepted
					ctx, cancel = context.WithTimeout(ctx, time.Duration(t.Range("work", 1, 2000))*bt/1000+time.Microsecond)
				}
				err := w.WriteMessages(ctx, msgs...)
				if cancel != nil {
					cancel()
				}
				if err != nil && !errors.Is(err, context.DeadlineExceeded) {
					s.Fail("C08", "R5-write-error", "%s: fault-free WriteMessages returned %v", desc, err)
				}
				if now := s.Now(); now > lastSubmit {
					lastSubmit = now
				}
				s.Count("ops")
				// gaps on the batch timer's grid: before, exactly at and after its expiry
				switch t.Intn("work", 8) {
				case 0:
					s.Sleep(bt)
				case 1:
					s.Sleep(bt / 2)
				case 2:
					s.Sleep(bt - bt/10)
				case 3:
					s.Sleep(bt + bt/10)
				case 4:
					s.Sleep(3 * bt)
				case 5:
					s.Sleep(time.Duration(t.Range("work", 1, 3000)) * bt / 1000)
				default:
					s.Pause("op")
				}
			}
		})
	}

	checked := false
	check := func() {
		checked = true
		type preq struct {
			r    *Req
			msgs []*fmsg
		}
		perPart := map[string][]*preq{}
		seen := map[string]int{}
		for _, r := range cl.Journal {
			if r.API == nil || r.Hdr.APIKey != 0 || !r.Handled {
				continue
			}
			if len(r.Produced) != 1 {
				continue // reported by the writer scenario's monitor (R3)
			}
			pb := r.Produced[0]
			key := fmt.Sprintf("%s/%d", pb.Topic, pb.Partition)
			pr := &preq{r: r}
			for _, bt := range pb.Batches {
				for _, rec := range bt.Records {
					if m := byID[msgID(rec.Value)]; m != nil {
						pr.msgs = append(pr.msgs, m)
						seen[m.id]++
					}
				}
			}
			perPart[key] = append(perPart[key], pr)
		}
		callAt := map[string]time.Duration{}
		for _, m := range byID {
			if m.balAt > callAt[m.call] {
				callAt[m.call] = m.balAt
			}
		}
		for _, m := range byID {
			m.appendAt = callAt[m.call]
		}
		// R6: nothing but the passing of time was needed
		for _, id := range SortedKeys(byID) {
			m := byID[id]
			if m.balAt >= 0 && seen[id] == 0 {
				s.Fail("C08", "R6-never-flushed", "%s: message %s routed to partition %d at %v had not been produced at %v, long after its batch timer and every earlier batch (no further writes happened)", desc, id, m.part, m.balAt, s.Now())
				return
			}
		}
		for _, key := range SortedKeys(perPart) {
			var prevDone time.Duration
			reqs := perPart[key]
			if acks == kafka.RequireNone {
				// without acknowledgements the Writer sends the next batch as
				// soon as the previous one is written, possibly on another
				// connection: requests sent in the same instant reach the
				// broker in any order (order is only promised with
				// acknowledgements). Take them in the order the batches were
				// opened.
				first := func(pr *preq) time.Duration {
					if len(pr.msgs) == 0 {
						return pr.r.At
					}
					return pr.msgs[0].appendAt
				}
				sort.SliceStable(reqs, func(i, j int) bool { return first(reqs[i]) < first(reqs[j]) })
			}
			for k, pr := range reqs {
				if len(pr.msgs) == 0 {
					continue
				}
				dup := false
				for _, m := range pr.msgs {
					if seen[m.id] > 1 {
						dup = true
					}
				}
				if dup {
					// a retried batch: outside this fault-free rule
					prevDone = pr.r.RespFullAt
					s.Count("flush-retried")
					continue
				}
				open := pr.msgs[0].appendAt
				var sized int64
				var last time.Duration
				for _, m := range pr.msgs {
					sized += m.size
					if m.appendAt > last {
						last = m.appendAt
					}
				}
				closeBy := open + bt
				why := "its batch timer"
				if len(pr.msgs) >= batchSize || sized >= batchBytes {
					if last < closeBy {
						closeBy, why = last, "becoming full"
					}
				} else if k+1 < len(reqs) && len(reqs[k+1].msgs) > 0 {
					nx := reqs[k+1].msgs[0]
					if sized+nx.size > batchBytes && nx.appendAt < closeBy {
						closeBy, why = nx.appendAt, "a message that did not fit"
					}
				}
				bound := closeBy
				if prevDone > bound {
					bound, why = prevDone, "the completion of the previous batch"
				}
				if pr.r.At > bound {
					s.Fail("C08", "R5-late-flush", "%s: batch #%d of %s (%d messages, %d bytes, opened at %v) reached the broker at %v, but %s was at %v (previous batch done at %v)", desc, k, key, len(pr.msgs), sized, open, pr.r.At, why, bound, prevDone)
					return
				}
				s.Count("flush-checked")
				if pr.r.At == bound {
					s.Count("flush-exact:" + why)
				}
				switch {
				case pr.r.Resp == nil: // acks=0
					prevDone = pr.r.At + compDelay
				case pr.r.RespFull:
					prevDone = pr.r.RespFullAt + compDelay
				default:
					prevDone = s.Now()
				}
			}
		}
	}
	closing := false
	closed := false
	s.DoneWhen(func() bool {
		if s.Actors() > 0 {
			return false
		}
		if !closing {
			closing = true
			s.Go("closer", func() {
				// silence: the batch timer plus one slow response per possible batch
				s.Sleep(bt + time.Duration(total+1)*(cl.F.SlowMax+compDelay+time.Millisecond) + time.Second)
				check()
				w.Close()
				tr.CloseIdleConnections()
				closed = true
			})
			return false
		}
		return closed
	})
	s.AtEnd(func() {
		if !checked && s.Ended == "done" {
			s.Fail("SIM", "flush-unchecked", "run ended without the flush check")
		}
		n.Shutdown()
	})
}
