package sim

import (
	"fmt"
	"time"

	rc "verif/sim/refcodec"
)

// produceFaultCodes: (code, applied) pairs a real broker can answer.
var produceFaultCodes = []struct {
	Code    int16
	Applied bool
}{
	{ErrNotLeaderForPartition, false},
	{ErrLeaderNotAvailable, false},
	{ErrRequestTimedOut, false},
	{ErrRequestTimedOut, true}, // replication timed out after the local append
	{ErrNotEnoughReplicas, false},
	{ErrNotEnoughReplicasAfterApp, true},
	{ErrMessageTooLarge, false},
	{ErrTopicAuthorizationFailed, false},
	{ErrCorruptMessage, false},
	{ErrKafkaStorageError, false},
	{ErrUnknownTopicOrPartition, false},
	// codes that only mean something to an idempotent / transactional producer,
	// fencing, quotas and the catch-all: nothing was appended
	{46, false}, // DUPLICATE_SEQUENCE_NUMBER
	{45, false}, // OUT_OF_ORDER_SEQUENCE_NUMBER
	{74, false}, // FENCED_LEADER_EPOCH
	{89, false}, // THROTTLING_QUOTA_EXCEEDED
	{-1, false}, // UNKNOWN_SERVER_ERROR
}

func (c *Cluster) produce(b *Broker, r *Req) rc.Msg {
	ver := r.Hdr.APIVersion
	acks := r.Body.I16("acks")
	var resps []rc.Msg
	for _, td := range r.Body.Arr("topic_data") {
		name := td.Str("name")
		var prs []rc.Msg
		for _, pd := range td.Arr("partition_data") {
			idx := pd.I32("index")
			pb := ProducedBatch{Topic: name, Partition: idx, BaseOffset: -1}
			raw := pd.Bytes("records")
			batches, err := rc.DecodeRecordSet(raw, rc.DecodeOpts{Strict: true})
			if err != nil {
				c.wireFail(r.Conn, r, "C05", "R1-records", "Produce v%d to %s[%d]: record set rejected by the reference decoder: %v", ver, name, idx, err)
				return nil
			}
			pb.Batches = batches
			for _, bt := range batches {
				if ver >= 3 && bt.Magic != 2 {
					c.wireFail(r.Conn, r, "C05", "R1-magic", "Produce v%d to %s[%d] carries magic %d records (v3+ requires record batches v2)", ver, name, idx, bt.Magic)
					return nil
				}
				if ver < 3 && bt.Magic == 2 {
					c.wireFail(r.Conn, r, "C05", "R1-magic", "Produce v%d to %s[%d] carries magic 2 batches (needs v3+)", ver, name, idx)
					return nil
				}
			}
			p := c.Part(name, idx)
			code := ErrNone
			apply := true
			switch {
			case p == nil:
				code, apply = ErrUnknownTopicOrPartition, false
			case p.Leader != b.ID:
				code, apply = ErrNotLeaderForPartition, false
			case acks != 0 && acks != 1 && acks != -1:
				code, apply = ErrInvalidRequiredAcks, false
			}
			if code == ErrNone && r.Fault == "error-code" {
				fc := produceFaultCodes[c.S.T.Intn("fault", len(produceFaultCodes))]
				code, apply = fc.Code, fc.Applied
				r.Note = fmt.Sprintf("error-code %d applied=%v", code, apply)
			}
			if code == ErrNone && c.ProduceErr != nil {
				if fc, ap := c.ProduceErr(r, name, idx); fc != ErrNone {
					code, apply = fc, ap
				}
			}
			if apply && p != nil {
				pb.BaseOffset = p.LEO
				pb.Applied = true
				r.Applied = true
				c.appendBatches(p, batches, r.Idx)
			}
			pb.Err = code
			r.Produced = append(r.Produced, pb)
			base := pb.BaseOffset
			if code != ErrNone {
				base = -1
			}
			prs = append(prs, rc.Msg{"index": idx, "error_code": code, "base_offset": base, "log_append_time_ms": int64(-1), "log_start_offset": logStart(p)})
		}
		resps = append(resps, rc.Msg{"name": name, "partition_responses": prs})
	}
	if acks == 0 {
		return nil
	}
	return rc.Msg{"responses": resps, "throttle_time_ms": int32(0)}
}

func logStart(p *Partition) int64 {
	if p == nil {
		return -1
	}
	return p.LogStart
}

// appendBatches appends produced batches to the log, assigning offsets.
func (c *Cluster) appendBatches(p *Partition, batches []rc.Batch, reqIdx int) {
	for _, bt := range batches {
		nb := bt
		nb.Records = append([]rc.Record(nil), bt.Records...)
		base := p.LEO
		for i := range nb.Records {
			nb.Records[i].Offset = base + int64(i)
		}
		n := int64(len(nb.Records))
		if nb.Magic == 2 {
			nb.BaseOffset = base
			nb.LastOffsetDelta = int32(n - 1)
		} else if n > 0 {
			nb.BaseOffset = base + n - 1
		}
		sb := &StoredBatch{Batch: nb, ReqIdx: reqIdx}
		p.Batches = append(p.Batches, sb)
		p.AllBatches = append(p.AllBatches, sb)
		p.LEO += n
	}
	ws := p.waiters
	p.waiters = nil
	for _, w := range ws {
		w()
	}
}

// AppendPhysical appends a prepared physical batch (log layout generator)
// that covers `span` offsets starting at the log end (records may be missing:
// compaction).
func (c *Cluster) AppendPhysical(p *Partition, b rc.Batch, span int) {
	sb := &StoredBatch{Batch: b, ReqIdx: -1}
	p.Batches = append(p.Batches, sb)
	p.AllBatches = append(p.AllBatches, sb)
	p.LEO += int64(span)
	ws := p.waiters
	p.waiters = nil
	for _, w := range ws {
		w()
	}
}

// ---------------------------------------------------------------------------
// Fetch

// encodeFor returns the wire bytes of a stored batch for a given fetch
// version (down-converting v2 batches for fetch versions below 4).
func (sb *StoredBatch) encodeFor(fetchVersion int16) []byte {
	magic := sb.Magic
	if fetchVersion < 4 && magic == 2 {
		magic = 1
	}
	if fetchVersion < 2 && magic == 1 {
		magic = 0
	}
	if sb.enc == nil {
		sb.enc = map[int8][]byte{}
	}
	if e, ok := sb.enc[magic]; ok {
		return e
	}
	b := sb.Batch
	if magic != sb.Magic {
		b.Magic = magic
		if magic < 2 {
			b.RelativeInner = magic == 1
			if len(b.Records) > 0 {
				b.BaseOffset = b.Records[len(b.Records)-1].Offset
			}
			if b.Codec == 4 { // zstd needs v2
				b.Codec = 1
			}
		}
		if magic < 2 {
			// down-conversion drops headers (and timestamps for magic 0)
			rs := append([]rc.Record(nil), b.Records...)
			for i := range rs {
				rs[i].Headers = nil
				if magic == 0 {
					rs[i].Timestamp = -1
				}
			}
			b.Records = rs
		}
	}
	if magic < 2 && (len(b.Records) == 0 || b.Control) {
		sb.enc[magic] = nil // an empty v2 batch / a control batch has no v0/v1 representation
		return nil
	}
	e, _, err := rc.EncodeBatch(b, rc.EncodeOpts{})
	if err != nil {
		panic(fmt.Sprintf("simkafka: encode stored batch: %v", err))
	}
	sb.enc[magic] = e
	return e
}

type fetchPart struct {
	topic string
	part  int32
	off   int64
	max   int32
}

func (c *Cluster) fetch(b *Broker, r *Req, done func(rc.Msg)) {
	ver := r.Hdr.APIVersion
	minBytes := int(r.Body.I32("min_bytes"))
	maxWait := time.Duration(r.Body.I32("max_wait_ms")) * time.Millisecond
	var parts []fetchPart
	for _, t := range r.Body.Arr("topics") {
		for _, p := range t.Arr("partitions") {
			parts = append(parts, fetchPart{t.Str("topic"), p.I32("partition"), p.I64("fetch_offset"), p.I32("partition_max_bytes")})
		}
	}
	answered := false
	var timer *Event
	build := func(final bool) (rc.Msg, int, bool) {
		total := 0
		anyErr := false
		var topics []rc.Msg
		var cur rc.Msg
		budget := int(r.Body.I32("max_bytes"))
		if ver < 3 || budget <= 0 {
			budget = 1 << 30
		}
		first := true
		for _, fp := range parts {
			if cur == nil || cur.Str("topic") != fp.topic {
				cur = rc.Msg{"topic": fp.topic, "partitions": []rc.Msg{}}
				topics = append(topics, cur)
			}
			p := c.Part(fp.topic, fp.part)
			pm := rc.Msg{"partition_index": fp.part, "error_code": ErrNone, "high_watermark": int64(-1), "last_stable_offset": int64(-1),
				"log_start_offset": int64(-1), "aborted_transactions": nil, "preferred_read_replica": int32(-1), "records": []byte{}}
			switch {
			case p == nil:
				pm["error_code"] = ErrUnknownTopicOrPartition
				anyErr = true
			case p.Leader != b.ID:
				pm["error_code"] = ErrNotLeaderForPartition
				anyErr = true
			case r.Fault == "error-code":
				codes := []int16{ErrNotLeaderForPartition, ErrLeaderNotAvailable, ErrRequestTimedOut, ErrKafkaStorageError, ErrUnknownTopicOrPartition}
				pm["error_code"] = codes[c.S.T.Intn("fault", len(codes))]
				anyErr = true
			case fp.off < p.LogStart || fp.off > p.LEO:
				pm["error_code"] = ErrOffsetOutOfRange
				pm["high_watermark"] = p.LEO
				pm["last_stable_offset"] = p.LEO
				pm["log_start_offset"] = p.LogStart
				anyErr = true
			default:
				pm["high_watermark"] = p.LEO
				pm["last_stable_offset"] = p.LEO
				pm["log_start_offset"] = p.LogStart
				if ver >= 4 && r.Body.I8("isolation_level") == 1 {
					// read_committed: the transactions aborted within the range
					// the fetch may cover (the client is expected to filter)
					ab := []rc.Msg{}
					for _, a := range p.Aborted {
						if a.Last >= fp.off {
							ab = append(ab, rc.Msg{"producer_id": a.ProducerID, "first_offset": a.First})
						}
					}
					pm["aborted_transactions"] = ab
					if len(ab) > 0 {
						c.S.Count("fetch-with-aborted-transactions-index")
					}
				}
				var recs []byte
				limit := int(fp.max)
				if limit > budget {
					limit = budget
				}
				for _, sb := range p.Batches {
					if sb.LastOffset() < fp.off {
						continue
					}
					e := sb.encodeFor(ver)
					if e == nil {
						continue
					}
					if len(recs)+len(e) > limit {
						if len(recs) == 0 && (ver >= 3 && first) {
							// KIP-74: the first batch of the first non-empty partition is returned whole
							recs = append(recs, e...)
						} else if len(recs) == 0 && ver < 3 {
							// old protocol: partial message
							if limit > 0 {
								recs = append(recs, e[:min(limit, len(e))]...)
							}
						} else if c.TruncateAtMaxBytes && limit > len(recs) {
							recs = append(recs, e[:limit-len(recs)]...)
						}
						break
					}
					recs = append(recs, e...)
				}
				if c.ForceRecordSetLimit > 0 && len(recs) > c.ForceRecordSetLimit {
					// a broker that cuts the record set wherever the limit falls,
					// even inside the first header (old brokers given a small
					// limit; kafka-go's Conn never asks for one that small)
					recs = recs[:c.ForceRecordSetLimit]
				}
				if len(recs) > 0 {
					first = false
				}
				budget -= len(recs)
				if budget < 0 {
					budget = 0
				}
				total += len(recs)
				if recs == nil {
					recs = []byte{}
				}
				pm["records"] = recs
			}
			cur["partitions"] = append(cur["partitions"].([]rc.Msg), pm)
		}
		if topics == nil {
			topics = []rc.Msg{}
		}
		return rc.Msg{"throttle_time_ms": int32(0), "error_code": ErrNone, "session_id": int32(0), "responses": topics}, total, anyErr
	}
	var try func(final bool)
	try = func(final bool) {
		if answered {
			return
		}
		body, total, anyErr := build(final)
		if final || anyErr || total >= minBytes || (total > 0 && minBytes <= 1) || maxWait <= 0 {
			answered = true
			if timer != nil {
				c.S.Cancel(timer)
			}
			r.Applied = true
			done(body)
			return
		}
		// long poll: wake on append to any of the partitions
		for _, fp := range parts {
			if p := c.Part(fp.topic, fp.part); p != nil {
				p.waiters = append(p.waiters, func() { try(false) })
			}
		}
	}
	if maxWait > 0 {
		timer = c.S.After(maxWait, fmt.Sprintf("c%d:fetch-wait", r.Conn.ID), func() { try(true) })
	}
	try(false)
}

// ---------------------------------------------------------------------------
// ListOffsets

// OffsetForTime implements the broker's timestamp lookup: -1 latest, -2
// earliest, otherwise the first offset whose timestamp is >= ts (or -1).
func (p *Partition) OffsetForTime(ts int64) (offset int64, timestamp int64) {
	switch ts {
	case -1:
		return p.LEO, -1
	case -2:
		return p.LogStart, -1
	}
	for _, b := range p.Batches {
		for _, rec := range b.Records {
			if rec.Offset >= p.LogStart && rec.Timestamp >= ts {
				return rec.Offset, rec.Timestamp
			}
		}
	}
	return -1, -1
}

func (c *Cluster) listOffsets(b *Broker, r *Req) rc.Msg {
	ver := r.Hdr.APIVersion
	var topics []rc.Msg
	for _, t := range r.Body.Arr("topics") {
		name := t.Str("name")
		var parts []rc.Msg
		for _, pq := range t.Arr("partitions") {
			idx := pq.I32("partition_index")
			ts := pq.I64("timestamp")
			pm := rc.Msg{"partition_index": idx, "error_code": ErrNone, "timestamp": int64(-1), "offset": int64(-1), "leader_epoch": int32(-1), "old_style_offsets": []any{}}
			p := c.Part(name, idx)
			code := ErrNone
			switch {
			case p == nil:
				code = ErrUnknownTopicOrPartition
			case p.Leader != b.ID:
				code = ErrNotLeaderForPartition
			case r.Fault == "error-code":
				codes := []int16{ErrNotLeaderForPartition, ErrLeaderNotAvailable, ErrRequestTimedOut, ErrUnknownTopicOrPartition}
				code = codes[c.S.T.Intn("fault", len(codes))]
			}
			if c.ListOffsetsErr != nil && code == ErrNone {
				code = c.ListOffsetsErr(name, idx, ts)
			}
			if code != ErrNone {
				pm["error_code"] = code
			} else {
				off, tsOut := p.OffsetForTime(ts)
				if ts == -1 && ver >= 2 && r.Body.I8("isolation_level") == 1 && p.OpenTxn > 0 {
					// read_committed: "latest" is the last stable offset, below the
					// records of transactions that are still open
					off = p.LEO - p.OpenTxn
				}
				pm["offset"] = off
				pm["timestamp"] = tsOut
				pm["leader_epoch"] = p.Epoch
				if ver == 0 {
					pm["old_style_offsets"] = []any{off}
				}
			}
			parts = append(parts, pm)
		}
		topics = append(topics, rc.Msg{"name": name, "partitions": parts})
	}
	r.Applied = true
	return rc.Msg{"throttle_time_ms": int32(0), "topics": topics}
}
