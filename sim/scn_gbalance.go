package sim

import (
	"fmt"
	"sort"
	"strings"

	kafka "github.com/segmentio/kafka-go"
)

func init() { Scenarios["gbalance"] = gbalanceScenario }

// gbalanceScenario (C14): the three group balancers called directly with
// generated groups. The one nondeterministic input of these functions — the
// iteration order of the Go maps they range over — is owned by the simulator
// (stream "maporder" through the build overlay), so a failing iteration order
// is found by the seeded search and replays.
func gbalanceScenario(s *Sim, params map[string]string) {
	t := s.T
	s.Pol.MapShuffle = true
	ngroups := 12
	for g := 0; g < ngroups && !s.Failed(); g++ {
		oneGroup(s, t)
	}
	s.DoneWhen(func() bool { return true })
}

func oneGroup(s *Sim, t *Tape) {
	small := t.Intn("work", 2) == 0
	nm := t.Range("work", 1, 12)
	nt := t.Range("work", 1, 4)
	maxp := 40
	if small {
		nm, nt, maxp = t.Range("work", 1, 4), t.Range("work", 1, 2), 6
	}
	racks := []string{"", "a", "b", "c"}[:t.Range("work", 1, 4)]
	var topics []string
	var parts []kafka.Partition
	leaderRack := map[string]map[int]string{}
	for i := 0; i < nt; i++ {
		name := fmt.Sprintf("t%d", i)
		topics = append(topics, name)
		np := t.Range("work", 0, maxp)
		leaderRack[name] = map[int]string{}
		for p := 0; p < np; p++ {
			rk := racks[t.Intn("work", len(racks))]
			leaderRack[name][p] = rk
			parts = append(parts, kafka.Partition{Topic: name, ID: p, Leader: kafka.Broker{ID: 1 + t.Intn("work", 5), Rack: rk}})
		}
	}
	// listing order of partitions: sorted, or shuffled between topics (each topic's own order kept or not)
	if t.Intn("work", 3) == 0 {
		for i := len(parts) - 1; i > 0; i-- {
			j := t.Intn("work", i+1)
			parts[i], parts[j] = parts[j], parts[i]
		}
	}
	// an existing topic nobody subscribes to, and a subscription to a topic without partitions
	var members []kafka.GroupMember
	memberRack := map[string]string{}
	for i := 0; i < nm; i++ {
		id := fmt.Sprintf("m%02d", i)
		if t.Intn("work", 4) == 0 {
			id = fmt.Sprintf("%c-%d", 'z'-byte(i), i) // ids whose sort order differs from creation order
		}
		var sub []string
		switch t.Intn("work", 4) {
		case 0: // a subset
			for _, tn := range topics {
				if t.Intn("work", 2) == 0 {
					sub = append(sub, tn)
				}
			}
			if len(sub) == 0 {
				sub = []string{topics[t.Intn("work", len(topics))]}
			}
		default:
			sub = append(sub, topics...)
		}
		if t.Intn("work", 10) == 0 {
			sub = append(sub, "ghost") // subscribed, but the topic has no partitions
		}
		rk := racks[t.Intn("work", len(racks))]
		memberRack[id] = rk
		members = append(members, kafka.GroupMember{ID: id, Topics: sub, UserData: []byte(rk)})
	}
	for i := len(members) - 1; i > 0; i-- {
		j := t.Intn("work", i+1)
		members[i], members[j] = members[j], members[i]
	}
	var bal kafka.GroupBalancer
	switch t.Intn("work", 3) {
	case 0:
		bal = kafka.RangeGroupBalancer{}
	case 1:
		bal = kafka.RoundRobinGroupBalancer{}
	default:
		bal = kafka.RackAffinityGroupBalancer{Rack: "a"}
	}
	name := bal.ProtocolName()
	desc := func() string {
		var sb strings.Builder
		fmt.Fprintf(&sb, "%s; members", name)
		for _, m := range members {
			fmt.Fprintf(&sb, " %s(rack %q)%v", m.ID, string(m.UserData), m.Topics)
		}
		sb.WriteString("; partitions")
		for _, p := range parts {
			fmt.Fprintf(&sb, " %s/%d@%q", p.Topic, p.ID, p.Leader.Rack)
		}
		return sb.String()
	}
	copyMembers := func() []kafka.GroupMember {
		out := make([]kafka.GroupMember, len(members))
		for i, m := range members {
			out[i] = kafka.GroupMember{ID: m.ID, Topics: append([]string(nil), m.Topics...), UserData: append([]byte(nil), m.UserData...)}
		}
		return out
	}
	var asg kafka.GroupMemberAssignments
	func() {
		defer func() {
			if r := recover(); r != nil {
				s.Fail("C14", "R0-panic", "AssignGroups panicked: %v — %s", r, desc())
			}
		}()
		asg = bal.AssignGroups(copyMembers(), append([]kafka.Partition(nil), parts...))
	}()
	s.Count("groups")
	s.Count("ops")
	if s.Failed() {
		return
	}

	subscribers := map[string][]string{}
	subscribed := map[string]map[string]bool{}
	known := map[string]bool{}
	for _, m := range members {
		known[m.ID] = true
		subscribed[m.ID] = map[string]bool{}
		for _, tn := range m.Topics {
			subscribers[tn] = append(subscribers[tn], m.ID)
			subscribed[m.ID][tn] = true
		}
	}
	listed := map[string][]int{} // topic -> partition ids in listing order
	for _, p := range parts {
		listed[p.Topic] = append(listed[p.Topic], p.ID)
	}
	// R1
	owner := map[string]map[int]string{}
	for _, mid := range SortedKeys(asg) {
		if !known[mid] {
			s.Fail("C14", "R1-unknown-member", "assignment for %q which is not a member — %s", mid, desc())
			return
		}
		for _, tn := range SortedKeys(asg[mid]) {
			ps := asg[mid][tn]
			if len(ps) > 0 && !subscribed[mid][tn] {
				s.Fail("C14", "R1-not-subscribed", "member %s got partitions %v of topic %s it does not subscribe to — %s", mid, ps, tn, desc())
				return
			}
			if owner[tn] == nil {
				owner[tn] = map[int]string{}
			}
			for _, p := range ps {
				if _, exists := leaderRack[tn][p]; !exists {
					s.Fail("C14", "R1-no-such-partition", "member %s got %s[%d] which does not exist — %s", mid, tn, p, desc())
					return
				}
				if o, dup := owner[tn][p]; dup {
					s.Fail("C14", "R1-double", "%s[%d] assigned to both %s and %s — %s", tn, p, o, mid, desc())
					return
				}
				owner[tn][p] = mid
			}
		}
	}
	for _, tn := range SortedKeys(subscribers) {
		for _, p := range listed[tn] {
			if owner[tn][p] == "" {
				s.Fail("C14", "R1-unassigned", "%s[%d] is assigned to nobody although %v subscribe — %s", tn, p, subscribers[tn], desc())
				return
			}
		}
		// R2
		min, max := 1<<30, 0
		for _, mid := range subscribers[tn] {
			l := len(asg[mid][tn])
			if l < min {
				min = l
			}
			if l > max {
				max = l
			}
		}
		if max-min > 1 {
			s.Fail("C14", "R2-uneven", "topic %s: subscriber loads range from %d to %d — %s", tn, min, max, desc())
			return
		}
	}

	switch name {
	case "range", "roundrobin":
		// R3a: only the set of members matters
		perm := copyMembers()
		for i := len(perm) - 1; i > 0; i-- {
			j := t.Intn("work", i+1)
			perm[i], perm[j] = perm[j], perm[i]
		}
		again := bal.AssignGroups(perm, append([]kafka.Partition(nil), parts...))
		if a, b := canonAssign(asg), canonAssign(again); a != b {
			s.Fail("C14", "R3-order-dependent", "%s gives a different assignment when the same members are listed in another order: %s versus %s — %s", name, a, b, desc())
			return
		}
		// R3b: shape
		for _, tn := range SortedKeys(subscribers) {
			pos := map[int]int{}
			for i, p := range listed[tn] {
				pos[p] = i
			}
			k := len(subscribers[tn])
			for _, mid := range subscribers[tn] {
				var idx []int
				for _, p := range asg[mid][tn] {
					idx = append(idx, pos[p])
				}
				sort.Ints(idx)
				for i := 1; i < len(idx); i++ {
					step := idx[i] - idx[i-1]
					if name == "range" && step != 1 {
						s.Fail("C14", "R3-range-not-contiguous", "member %s holds positions %v of topic %s's listed partitions — %s", mid, idx, tn, desc())
						return
					}
					if name == "roundrobin" && step != k {
						s.Fail("C14", "R3-roundrobin-stride", "member %s holds positions %v of topic %s's listed partitions, %d subscribers — %s", mid, idx, tn, k, desc())
						return
					}
				}
			}
		}
	case "rack-affinity":
		for _, tn := range SortedKeys(subscribers) {
			np, nmem := len(listed[tn]), len(subscribers[tn])
			if np == 0 {
				continue
			}
			floor := np / nmem
			led := map[string]int{}
			for _, p := range listed[tn] {
				led[leaderRack[tn][p]]++
			}
			inRack := map[string]int{}
			for _, mid := range subscribers[tn] {
				inRack[memberRack[mid]]++
			}
			local := map[string]int{}
			for _, p := range listed[tn] {
				if rk := leaderRack[tn][p]; memberRack[owner[tn][p]] == rk {
					local[rk]++
				}
			}
			for _, rk := range SortedKeys(led) {
				want := led[rk]
				if c := inRack[rk] * floor; c < want {
					want = c
				}
				if local[rk] < want {
					s.Fail("C14", "R4-rack-affinity", "topic %s rack %q: %d partitions led there, %d subscribers there, %d partitions per member: only %d partitions stay in the rack, at least %d required — %s", tn, rk, led[rk], inRack[rk], floor, local[rk], want, desc())
					return
				}
			}
		}
	}
}

func canonAssign(a kafka.GroupMemberAssignments) string {
	var sb strings.Builder
	for _, mid := range SortedKeys(a) {
		for _, tn := range SortedKeys(a[mid]) {
			ps := append([]int(nil), a[mid][tn]...)
			if len(ps) == 0 {
				continue
			}
			sort.Ints(ps)
			fmt.Fprintf(&sb, "%s:%s%v ", mid, tn, ps)
		}
	}
	return sb.String()
}
