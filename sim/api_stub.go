package sim

import rc "verif/sim/refcodec"

type Group struct{}
type SASLConfig struct{}

func (c *Cluster) saslRawToken(b *Broker, cn *Conn, st *connState, tok []byte) {}
func (c *Cluster) findCoordinator(b *Broker, r *Req) rc.Msg                { panic("todo") }
func (c *Cluster) joinGroup(b *Broker, cn *Conn, r *Req, done func(rc.Msg)) { panic("todo") }
func (c *Cluster) syncGroup(b *Broker, cn *Conn, r *Req, done func(rc.Msg)) { panic("todo") }
func (c *Cluster) heartbeat(b *Broker, r *Req) rc.Msg                      { panic("todo") }
func (c *Cluster) leaveGroup(b *Broker, r *Req) rc.Msg                     { panic("todo") }
func (c *Cluster) offsetCommit(b *Broker, r *Req) rc.Msg                   { panic("todo") }
func (c *Cluster) offsetFetch(b *Broker, r *Req) rc.Msg                    { panic("todo") }
func (c *Cluster) saslHandshake(b *Broker, cn *Conn, st *connState, r *Req) rc.Msg    { panic("todo") }
func (c *Cluster) saslAuthenticate(b *Broker, cn *Conn, st *connState, r *Req) rc.Msg { panic("todo") }
func (c *Cluster) createTopics(b *Broker, r *Req) rc.Msg                   { panic("todo") }
func (c *Cluster) deleteTopics(b *Broker, r *Req) rc.Msg                   { panic("todo") }
func (c *Cluster) initProducerID(b *Broker, r *Req) rc.Msg                 { panic("todo") }
func (c *Cluster) describeGroups(b *Broker, r *Req) rc.Msg                 { panic("todo") }
func (c *Cluster) listGroups(b *Broker, r *Req) rc.Msg                     { panic("todo") }
