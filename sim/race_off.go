//go:build !race

package sim

import "time"

// RaceBuild reports whether the binary was built with the race detector.
const RaceBuild = false

var ioSync uint64

func raceAcquire(p *uint64)      {}
func raceReleaseMerge(p *uint64) {}

func quietTimer(d time.Duration) *time.Timer { return time.NewTimer(d) }
