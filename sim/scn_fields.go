package sim

import (
	"bytes"
	"context"
	"fmt"
	"math"
	"reflect"
	"sort"
	"strconv"
	"strings"
	"time"

	"github.com/segmentio/kafka-go/protocol"
	"github.com/segmentio/kafka-go/protocol/apiversions"
	rc "verif/sim/refcodec"
)

func init() { Scenarios["fields"] = fieldsScenario }

// fieldsScenario (C04): the value of every request field as the broker model's
// independent strict decoder sees it, and the value of every response field as
// the library hands it back, for every API that both kafka-go and the
// reference codec implement, at the version negotiated against randomised
// broker version ranges.
//
// A protocol.Conn over the simulated network first negotiates versions the way
// Transport does (ApiVersions, ApiKey.SelectVersion), then sends a request
// whose fields were filled with generated values (boundary integers, empty /
// long / non-ASCII strings, nil / empty / non-empty blobs and arrays, nested
// arrays). The broker model journals the strictly decoded request (framing,
// header, version range, canonical body: always-on monitor) and answers with
// a generated response for that version, to which unknown tagged fields are
// added in flexible versions. Go field <-> Kafka field correspondence is by
// *name* (normalised, plus a hand-checked alias table), never by position, so
// two same-typed fields in the wrong order, a wrong min/max version, a wrong
// nullable/compact flag or tag number all show up as a value mismatch or a
// strict-decode failure. A second exchange on the same connection checks that
// exactly one frame was consumed.

// fieldAliases: kafka-go Go field path -> Kafka field name, for fields that
// kafka-go merely named differently (each checked against the Kafka message
// definition; same table as refcodec/cross_shape_test.go).
var fieldAliases = rc.NameAliases

func normFieldName(s string) string { return strings.ToLower(strings.ReplaceAll(s, "_", "")) }

type kgoVer struct {
	min, max int
	nullable bool
}

func kgoFieldAt(f reflect.StructField, ver int16) (kgoVer, bool) {
	tagStr, ok := f.Tag.Lookup("kafka")
	if !ok || tagStr == "-" || f.PkgPath != "" {
		return kgoVer{}, false
	}
	for _, part := range strings.Split(tagStr, "|") {
		t := kgoVer{min: -1, max: -1}
		for _, o := range strings.Split(part, ",") {
			switch {
			case strings.HasPrefix(o, "min=v"):
				t.min, _ = strconv.Atoi(o[5:])
			case strings.HasPrefix(o, "max=v"):
				t.max, _ = strconv.Atoi(o[5:])
			case o == "nullable":
				t.nullable = true
			}
		}
		if t.min <= int(ver) && int(ver) <= t.max {
			return t, true
		}
	}
	return kgoVer{}, false
}

var recordSetT = reflect.TypeOf(protocol.RecordSet{})

type mapErr struct{ msg string }

func (e *mapErr) Error() string { return e.msg }

// goToMsg converts a kafka-go message struct into the reference codec's value
// model, field by field, by name.
func goToMsg(v reflect.Value, fields []rc.Field, ver int16, path string) (rc.Msg, error) {
	out := rc.Msg{}
	t := v.Type()
	for i := 0; i < t.NumField(); i++ {
		sf := t.Field(i)
		if sf.Name == "_" || sf.Type.Size() == 0 {
			continue
		}
		if _, ok := kgoFieldAt(sf, ver); !ok {
			continue
		}
		p := path + "." + sf.Name
		want := normFieldName(sf.Name)
		if a, ok := fieldAliases[p]; ok {
			want = normFieldName(a)
		}
		var rf *rc.Field
		for j := range fields {
			if fields[j].Present(ver) && normFieldName(fields[j].Name) == want {
				rf = &fields[j]
			}
		}
		if rf == nil && sf.Type.Kind() == reflect.Struct && sf.Type != recordSetT {
			// kafka-go groups fields into a nested struct that Kafka keeps flat
			// (DescribeAcls request Filter): same bytes in non-flexible versions
			inner, err := goToMsg(v.Field(i), fields, ver, p)
			if err != nil {
				return nil, err
			}
			for k, x := range inner {
				out[k] = x
			}
			continue
		}
		if rf == nil {
			return nil, &mapErr{fmt.Sprintf("%s (version %d): no Kafka field of that name in the reference schema", p, ver)}
		}
		val, err := goToValue(v.Field(i), rf, ver, p)
		if err != nil {
			return nil, err
		}
		out[rf.Name] = val
	}
	return out, nil
}

func goToValue(v reflect.Value, f *rc.Field, ver int16, p string) (any, error) {
	if v.Type() == recordSetT {
		return "records", nil // content is C05's subject
	}
	switch f.Kind {
	case rc.KBool:
		if v.Kind() != reflect.Bool {
			return nil, &mapErr{p + ": kind differs (bool)"}
		}
		return v.Bool(), nil
	case rc.KInt8, rc.KInt16, rc.KUint16, rc.KInt32, rc.KInt64:
		switch v.Kind() {
		case reflect.Int8, reflect.Int16, reflect.Int32, reflect.Int64, reflect.Int:
			return v.Int(), nil
		case reflect.Uint8, reflect.Uint16, reflect.Uint32, reflect.Uint64:
			return int64(v.Uint()), nil
		}
		return nil, &mapErr{p + ": kind differs (integer)"}
	case rc.KFloat64:
		return v.Float(), nil
	case rc.KString:
		if v.Kind() != reflect.String {
			return nil, &mapErr{p + ": kind differs (string)"}
		}
		return v.String(), nil
	case rc.KBytes, rc.KRecords:
		if v.Kind() == reflect.Slice && v.Type().Elem().Kind() == reflect.Uint8 {
			if v.IsNil() {
				return []byte(nil), nil
			}
			return append([]byte{}, v.Bytes()...), nil
		}
		return nil, &mapErr{p + ": kind differs (bytes)"}
	case rc.KStruct:
		if v.Kind() != reflect.Struct {
			return nil, &mapErr{p + ": kind differs (struct)"}
		}
		return goToMsg(v, f.Fields, ver, p)
	case rc.KArray:
		if v.Kind() != reflect.Slice {
			return nil, &mapErr{p + ": kind differs (array)"}
		}
		out := make([]any, v.Len())
		for i := 0; i < v.Len(); i++ {
			e := v.Index(i)
			el := f.Elem
			if el.Kind == rc.KStruct && e.Kind() != reflect.Struct {
				// kafka-go flattens a struct with a single field
				var only *rc.Field
				n := 0
				for j := range el.Fields {
					if el.Fields[j].Versions.Has(ver) {
						only = &el.Fields[j]
						n++
					}
				}
				if n != 1 {
					return nil, &mapErr{p + ": scalar element for a multi-field struct"}
				}
				x, err := goToValue(e, only, ver, p)
				if err != nil {
					return nil, err
				}
				out[i] = rc.Msg{only.Name: x}
				continue
			}
			x, err := goToValue(e, el, ver, p)
			if err != nil {
				return nil, err
			}
			out[i] = x
		}
		return out, nil
	}
	return nil, &mapErr{p + ": unsupported kind " + f.Kind.String()}
}

// sameValue compares the library-side value with the reference-side value of
// one field; null and empty are the same thing for kafka-go (Go zero values).
func sameValue(lib, ref any) (bool, string) {
	isEmpty := func(x any) bool {
		switch y := x.(type) {
		case nil:
			return true
		case string:
			return y == ""
		case []byte:
			return len(y) == 0
		case []any:
			return len(y) == 0
		case []rc.Msg:
			return len(y) == 0
		}
		return false
	}
	if isEmpty(lib) && isEmpty(ref) {
		return true, ""
	}
	if lib == "records" {
		return true, ""
	}
	switch l := lib.(type) {
	case int64:
		var r int64
		switch y := ref.(type) {
		case int8:
			r = int64(y)
		case int16:
			r = int64(y)
		case uint16:
			r = int64(y)
		case int32:
			r = int64(y)
		case int64:
			r = y
		default:
			return false, fmt.Sprintf("%v versus %T %v", l, ref, ref)
		}
		if l != r {
			return false, fmt.Sprintf("%d versus %d", l, r)
		}
		return true, ""
	case bool:
		if r, ok := ref.(bool); !ok || r != l {
			return false, fmt.Sprintf("%v versus %v", l, ref)
		}
		return true, ""
	case float64:
		if r, ok := ref.(float64); !ok || (r != l && !(math.IsNaN(r) && math.IsNaN(l))) {
			return false, fmt.Sprintf("%v versus %v", l, ref)
		}
		return true, ""
	case string:
		if r, ok := ref.(string); !ok || r != l {
			return false, fmt.Sprintf("%q versus %q", truncS(l), truncS(fmt.Sprint(ref)))
		}
		return true, ""
	case []byte:
		if r, ok := ref.([]byte); !ok || !bytes.Equal(r, l) {
			return false, fmt.Sprintf("%d bytes versus %v", len(l), truncS(fmt.Sprint(ref)))
		}
		return true, ""
	case rc.Msg:
		r, ok := ref.(rc.Msg)
		if !ok {
			return false, fmt.Sprintf("struct versus %T", ref)
		}
		return sameMsg(l, r)
	case []any:
		var rs []any
		switch y := ref.(type) {
		case []any:
			rs = y
		case []rc.Msg:
			for _, m := range y {
				rs = append(rs, m)
			}
		default:
			return false, fmt.Sprintf("array versus %T", ref)
		}
		if len(rs) != len(l) {
			return false, fmt.Sprintf("%d elements versus %d", len(l), len(rs))
		}
		for i := range l {
			if ok, why := sameValue(l[i], rs[i]); !ok {
				return false, fmt.Sprintf("[%d]: %s", i, why)
			}
		}
		return true, ""
	}
	return false, fmt.Sprintf("%T versus %T", lib, ref)
}

func sameMsg(lib, ref rc.Msg) (bool, string) {
	keys := make([]string, 0, len(lib))
	for k := range lib {
		keys = append(keys, k)
	}
	sort.Strings(keys)
	for _, k := range keys {
		rv, present := ref[k]
		if !present {
			if ok, _ := sameValue(lib[k], nil); ok {
				continue
			}
			return false, k + ": absent on the other side"
		}
		if ok, why := sameValue(lib[k], rv); !ok {
			return false, k + ": " + why
		}
	}
	return true, ""
}

func truncS(s string) string {
	if len(s) > 40 {
		return s[:40] + fmt.Sprintf("...(%d)", len(s))
	}
	return s
}

// ---- generators

var fieldInts = []int64{0, 1, -1, 2, 127, -128, 255, 256, 32767, -32768, 65535, 65536, math.MaxInt32, math.MinInt32, math.MaxInt64, math.MinInt64, 1600000000000}

func genFieldInt(t *Tape, lo, hi int64) int64 {
	for tries := 0; tries < 6; tries++ {
		v := fieldInts[t.Intn("work", len(fieldInts))]
		if v >= lo && v <= hi {
			return v
		}
	}
	return int64(t.Intn("work", 100))
}

func genFieldString(t *Tape) string {
	switch t.Intn("work", 12) {
	case 0:
		return ""
	case 1:
		return "a"
	case 2:
		return strings.Repeat("b", 126+t.Intn("work", 4)) // compact-length boundary
	case 3:
		return "topic-é-世界"
	case 4:
		return strings.Repeat("x", Pick(t, "work", 300, 16383, 16384, 32767))
	}
	return fmt.Sprintf("s%d", t.Intn("work", 100000))
}

func genFieldBytes(t *Tape) []byte {
	switch t.Intn("work", 5) {
	case 0:
		return nil
	case 1:
		return []byte{}
	case 2:
		return bytes.Repeat([]byte{0xff, 0x00}, 64+t.Intn("work", 3))
	}
	return []byte(fmt.Sprintf("b%d", t.Intn("work", 100000)))
}

func validRecords(ver int16, forFetch bool) []byte {
	magic := int8(2)
	if forFetch && ver < 4 {
		magic = 1
	}
	b := rc.Batch{Magic: magic, BaseOffset: 0, ProducerID: -1, ProducerEpoch: -1, BaseSequence: -1, FirstTimestamp: 1600000000000, MaxTimestamp: 1600000000000,
		Records: []rc.Record{{Offset: 0, Timestamp: 1600000000000, Key: []byte("k"), Value: []byte("v")}}}
	e, _, err := rc.EncodeBatch(b, rc.EncodeOpts{})
	if err != nil {
		panic(err)
	}
	return e
}

// fillGo fills a kafka-go message with generated values; fields that do not
// exist in version ver stay zero.
func fillGo(t *Tape, v reflect.Value, ver int16, depth int) {
	if v.Type() == recordSetT {
		rsv := int8(2)
		if ver < 3 {
			rsv = 1
		}
		v.Set(reflect.ValueOf(protocol.RecordSet{Version: rsv, Records: protocol.NewRecordReader(protocol.Record{Time: time.UnixMilli(1600000000000), Key: protocol.NewBytes([]byte("k")), Value: protocol.NewBytes([]byte("v"))})}))
		return
	}
	switch v.Kind() {
	case reflect.Bool:
		v.SetBool(t.Intn("work", 2) == 0)
	case reflect.Int8:
		v.SetInt(genFieldInt(t, -128, 127))
	case reflect.Int16:
		v.SetInt(genFieldInt(t, -32768, 32767))
	case reflect.Int32:
		v.SetInt(genFieldInt(t, math.MinInt32, math.MaxInt32))
	case reflect.Int64:
		v.SetInt(genFieldInt(t, math.MinInt64, math.MaxInt64))
	case reflect.Float64:
		v.SetFloat(float64(genFieldInt(t, -1000, 1000)) / 4)
	case reflect.String:
		v.SetString(genFieldString(t))
	case reflect.Slice:
		if v.Type().Elem().Kind() == reflect.Uint8 {
			v.SetBytes(genFieldBytes(t))
			return
		}
		n := t.Intn("work", 4)
		if depth > 2 && n > 2 {
			n = 2
		}
		if n == 0 {
			if t.Intn("work", 2) == 0 {
				v.Set(reflect.MakeSlice(v.Type(), 0, 0))
			}
			return
		}
		s := reflect.MakeSlice(v.Type(), n, n)
		for i := 0; i < n; i++ {
			fillGo(t, s.Index(i), ver, depth+1)
		}
		v.Set(s)
	case reflect.Struct:
		tt := v.Type()
		for i := 0; i < tt.NumField(); i++ {
			sf := tt.Field(i)
			if sf.Name == "_" || sf.Type.Size() == 0 {
				continue
			}
			if _, ok := kgoFieldAt(sf, ver); !ok {
				continue
			}
			fillGo(t, v.Field(i), ver, depth+1)
		}
	}
}

// genRefMsg generates a value for every field of a reference schema present
// in version ver.
func genRefMsg(t *Tape, fields []rc.Field, ver int16, apiKey int16, depth int) rc.Msg {
	m := rc.Msg{}
	for i := range fields {
		f := &fields[i]
		if !f.Present(ver) {
			continue
		}
		m[f.Name] = genRefValue(t, f, ver, apiKey, depth)
	}
	return m
}

func genRefValue(t *Tape, f *rc.Field, ver int16, apiKey int16, depth int) any {
	nullable := f.Nullable.Has(ver)
	switch f.Kind {
	case rc.KBool:
		return t.Intn("work", 2) == 0
	case rc.KInt8:
		return int8(genFieldInt(t, -128, 127))
	case rc.KInt16:
		return int16(genFieldInt(t, -32768, 32767))
	case rc.KUint16:
		return uint16(genFieldInt(t, 0, 65535))
	case rc.KInt32:
		return int32(genFieldInt(t, math.MinInt32, math.MaxInt32))
	case rc.KInt64:
		return genFieldInt(t, math.MinInt64, math.MaxInt64)
	case rc.KFloat64:
		return float64(genFieldInt(t, -1000, 1000)) / 4
	case rc.KUUID:
		var u [16]byte
		for i := range u {
			u[i] = byte(t.Intn("work", 256))
		}
		return u
	case rc.KString:
		if nullable && t.Intn("work", 5) == 0 {
			return nil
		}
		return genFieldString(t)
	case rc.KBytes:
		b := genFieldBytes(t)
		if b == nil && !nullable {
			return []byte{}
		}
		if b == nil {
			return nil
		}
		return b
	case rc.KRecords:
		if nullable && t.Intn("work", 4) == 0 {
			return nil
		}
		return validRecords(ver, apiKey == 1)
	case rc.KStruct:
		return genRefMsg(t, f.Fields, ver, apiKey, depth+1)
	case rc.KArray:
		n := t.Intn("work", 4)
		if depth > 2 && n > 2 {
			n = 2
		}
		if n == 0 && nullable && t.Intn("work", 2) == 0 {
			return nil
		}
		if f.Elem.Kind == rc.KStruct {
			out := make([]rc.Msg, n)
			for i := range out {
				out[i] = genRefMsg(t, f.Elem.Fields, ver, apiKey, depth+1)
			}
			return out
		}
		out := make([]any, n)
		for i := range out {
			out[i] = genRefValue(t, f.Elem, ver, apiKey, depth+1)
		}
		return out
	}
	panic("genRefValue: kind " + f.Kind.String())
}

// marshalHistory: Unmarshal(Marshal(v)) before and after a failed Unmarshal.
func marshalHistory(s *Sim, t *Tape, what string, ver int16, v any, fresh func() any) {
	defer func() {
		if r := recover(); r != nil {
			s.Count("marshal-not-supported")
		}
	}()
	enc, err := protocol.Marshal(ver, reflect.ValueOf(v).Elem().Interface())
	if err != nil || len(enc) < 2 {
		s.Count("marshal-not-supported")
		return
	}
	a := fresh()
	errA := protocol.Unmarshal(enc, ver, a)
	failed := 0
	for i := 0; i < 3; i++ {
		if protocol.Unmarshal(enc[:t.Intn("work", len(enc))], ver, fresh()) != nil {
			failed++
		}
	}
	c := fresh()
	errC := protocol.Unmarshal(enc, ver, c)
	s.Count("marshal-history-checked")
	if failed > 0 {
		s.Count("marshal-after-failed-decode")
	}
	if fmt.Sprint(errA) != fmt.Sprint(errC) || (errA == nil && !reflect.DeepEqual(a, c)) {
		s.Fail("C04", "R5-unmarshal-history", "%s: protocol.Unmarshal of the same %d bytes gave (%v) before and (%v) after %d failed decodes of truncated copies; values equal: %v", what, len(enc), errA, errC, failed, reflect.DeepEqual(a, c))
	}
	if errA == nil {
		// and the decoded value encodes to the same bytes
		enc2, err := protocol.Marshal(ver, reflect.ValueOf(a).Elem().Interface())
		if err != nil || !bytes.Equal(enc, enc2) {
			s.Fail("C04", "R5-marshal-roundtrip", "%s: Marshal(Unmarshal(Marshal(v))) differs from Marshal(v) (%d vs %d bytes, error %v)", what, len(enc), len(enc2), err)
		}
	}
}

func fieldsScenario(s *Sim, params map[string]string) {
	t := s.T
	n := NewNet(s)
	n.MinLatency = time.Duration(t.Range("cfg", 0, 5)) * 100 * time.Microsecond
	n.MaxLatency = n.MinLatency
	cl := NewCluster(s, n)
	cl.ExpectClientID = "sim-fields"
	b := cl.AddBroker(1, "")
	pairs := fieldAPIs()
	pair := pairs[t.Intn("cfg", len(pairs))]
	if v, ok := params["api"]; ok {
		for _, p := range pairs {
			if p.req().ApiKey().String() == v {
				pair = p
			}
		}
	}
	key := int16(pair.req().ApiKey())
	api := rc.Lookup(key)
	if api == nil {
		s.Fail("SIM", "fields-api", "api %d not in the reference codec", key)
		return
	}
	libMin, libMax := protocol.ApiKey(key).MinVersion(), protocol.ApiKey(key).MaxVersion()
	// broker range: overlaps the library's and the reference codec's
	lo, hi := libMin, libMax
	if api.MinVersion > lo {
		lo = api.MinVersion
	}
	if api.MaxVersion < hi {
		hi = api.MaxVersion
	}
	if lo > hi {
		s.Count("no-common-version")
		s.DoneWhen(func() bool { return true })
		return
	}
	bmax := lo + int16(t.Intn("cfg", int(hi-lo)+1))
	bmin := int16(0)
	if t.Intn("cfg", 3) == 0 {
		bmin = lo + int16(t.Intn("cfg", int(bmax-lo)+1))
	}
	b.Versions[key] = [2]int16{bmin, bmax}
	if key == 36 {
		b.Versions[17] = [2]int16{0, 1}
	}
	cl.LibRange = func(k int16) (int16, int16) {
		return protocol.ApiKey(k).MinVersion(), protocol.ApiKey(k).MaxVersion()
	}

	var seen *Req
	var sent rc.Msg
	var sentVer int16
	unknownTags := map[uint32][]byte{}
	cl.Hook = func(b *Broker, r *Req) bool {
		if r.Conn.Owner != "fields" || r.Hdr.APIKey != key || seen != nil {
			return false // (the ApiVersions exchanges around the exchange under test are answered normally)
		}
		seen = r
		sentVer = r.Hdr.APIVersion
		sent = genRefMsg(t, api.Response, sentVer, key, 0)
		if key == 18 {
			// the connection needs truthful version ranges
			sent = cl.apiVersions(b, r)
		}
		st, _ := r.Conn.State.(*connState)
		b.respond(r.Conn, st, r, sent)
		return true
	}
	cl.MutateFrame = func(r *Req, frame []byte) []byte {
		if r != seen || !api.Flexible(r.Hdr.APIVersion) || key == 18 {
			return frame
		}
		// unknown tagged fields at the top level of the body
		for i, k := 0, 1+t.Intn("work", 2); i < k; i++ {
			unknownTags[uint32(1000+t.Intn("work", 50000))] = genFieldBytes(t)
		}
		opts := &rc.ResponseOpts{UnknownTags: unknownTags}
		if t.Intn("work", 2) == 0 {
			// ... and in every nested structure, where more fields follow
			opts.NestedUnknownTags = map[uint32][]byte{uint32(2000 + t.Intn("work", 60000)): genFieldBytes(t)}
			if t.Intn("work", 2) == 0 {
				opts.NestedUnknownTags[uint32(100+t.Intn("work", 1000))] = bytes.Repeat([]byte{0x7f}, Pick(t, "work", 0, 1, 127, 128, 129, 300))
			}
		}
		f2, _, err := rc.EncodeResponse(r.Hdr.APIKey, r.Hdr.APIVersion, r.Hdr.CorrelationID, r.Resp, opts)
		if err != nil {
			s.Fail("SIM", "fields-encode", "re-encoding with unknown tags: %v", err)
			return frame
		}
		s.Count("unknown-tagged-fields")
		return f2
	}

	s.Go("fields", func() {
		ctx, cancel := context.WithTimeout(context.Background(), 5*time.Second)
		nc, err := n.DialOwner(ctx, "tcp", b.Addr(), "fields")
		cancel()
		if err != nil {
			s.Fail("SIM", "fields-dial", "%v", err)
			return
		}
		defer nc.Close()
		nc.SetDeadline(time.Now().Add(10 * time.Second))
		pc := protocol.NewConn(nc, "sim-fields")
		// the exported protocol.RoundTrip / ReadResponse also accept a plain
		// io.ReadWriter (no buffering, no Discard method): a third of the runs
		// go that way, the others through protocol.Conn
		bare := t.Intn("cfg", 3) == 0
		corr := int32(0)
		roundTrip := func(m protocol.Message, version int16) (protocol.Message, error) {
			if !bare {
				return pc.RoundTrip(m)
			}
			if p, _ := m.(protocol.PreparedMessage); p != nil {
				p.Prepare(version)
			}
			corr++
			return protocol.RoundTrip(nc, version, corr, "sim-fields", m)
		}
		negotiate := func() (map[protocol.ApiKey]int16, error) {
			r, err := roundTrip(new(apiversions.Request), 0)
			if err != nil {
				return nil, err
			}
			res := r.(*apiversions.Response)
			ver := make(map[protocol.ApiKey]int16, len(res.ApiKeys))
			for _, k := range res.ApiKeys {
				ak := protocol.ApiKey(k.ApiKey)
				ver[ak] = ak.SelectVersion(k.MinVersion, k.MaxVersion)
			}
			return ver, nil
		}
		var vers map[protocol.ApiKey]int16
		if key != 18 {
			vers, err = negotiate()
			if err != nil {
				s.Fail("C04", "R4-apiversions", "ApiVersions exchange failed: %v", err)
				return
			}
			pc.SetVersions(vers)
		}
		ver := vers[protocol.ApiKey(key)]
		if key == 18 {
			ver = 0
		}
		if key != 18 && (ver < bmin || ver > bmax || ver < libMin || ver > libMax) {
			if bmin > libMax || bmax < libMin {
				s.Count("no-common-version")
				return
			}
			s.Fail("C04", "R2-version-selection", "%s: broker supports v%d..v%d, library v%d..v%d, selected v%d", api.Name, bmin, bmax, libMin, libMax, ver)
			return
		}
		req := pair.req()
		fillGo(t, reflect.ValueOf(req).Elem(), ver, 0)
		fixupRequest(req)
		what := fmt.Sprintf("%s v%d", api.Name, ver)
		res, err := roundTrip(req, ver)
		s.Count("ops")
		if seen == nil {
			if !s.Failed() {
				s.Fail("C04", "R3-request-not-decodable", "%s: the request never reached the broker model's handler (error %v)", what, err)
			}
			return
		}
		// request direction
		libReq, merr := goToMsg(reflect.ValueOf(req).Elem(), api.Request, ver, api.Name+".req")
		if merr != nil {
			s.Fail("SIM", "fields-mapping", "%v", merr)
			return
		}
		if ok, why := sameMsg(libReq, seen.Body); !ok {
			s.Fail("C04", "R3-request-field", "%s request: the broker's decoder sees a different value than the caller set — %s", what, why)
			return
		}
		s.Count("request-fields-checked")
		if err != nil {
			s.Fail("C04", "R4-response-decode", "%s: well-formed response (%d bytes, %d unknown tagged fields) failed to decode: %v", what, seen.RespLen, len(unknownTags), err)
			return
		}
		libRes, merr := goToMsg(reflect.ValueOf(res).Elem(), api.Response, ver, api.Name+".res")
		if merr != nil {
			s.Fail("SIM", "fields-mapping", "%v", merr)
			return
		}
		if ok, why := sameMsg(libRes, sent); !ok {
			s.Fail("C04", "R4-response-field", "%s response: the library returns a different value than the broker encoded — %s", what, why)
			return
		}
		s.Count("response-fields-checked")
		// exactly one frame consumed: the connection is still aligned
		if _, err := negotiate(); err != nil {
			s.Fail("C04", "R4-frame-consumption", "%s: the exchange after a response with %d unknown tagged fields failed: %v", what, len(unknownTags), err)
		}
		// protocol.Marshal / Unmarshal (behind kafka.Marshal, Version.Unmarshal
		// and the group metadata of Client.JoinGroup / SyncGroup) use pooled
		// coders: decoding the same bytes gives the same value whether or not
		// the previous decode on this goroutine failed
		if key != 0 && key != 1 {
			marshalHistory(s, t, what, ver, req, func() any { return pair.req() })
			marshalHistory(s, t, what+" (response)", ver, res, func() any { return reflect.New(reflect.TypeOf(res).Elem()).Interface() })
		}
	})
	s.DoneWhen(func() bool { return s.Actors() == 0 })
	s.AtEnd(func() { n.Shutdown() })
}
