package sim

import (
	"context"
	"errors"
	"fmt"
	"io"
	"net"
	"os"
	"sync"
	"syscall"
	"time"

	"github.com/segmentio/kafka-go/zsimrt"
)

// Addr is a simulated TCP address.
type Addr struct{ S string }

func (a Addr) Network() string { return "tcp" }
func (a Addr) String() string  { return a.S }

// Handler is the server side of a listening address; all its methods are
// called from the driver goroutine (never concurrently).
type Handler interface {
	// OnData is called (as a simulator event) some latency after the client
	// wrote bytes; c.ClientBytes() holds everything not yet consumed.
	OnData(c *Conn)
	// OnClientClose is called after the client closed its end.
	OnClientClose(c *Conn)
}

// Net is the simulated network.
type Net struct {
	S         *Sim
	mu        sync.Mutex
	listeners map[string]Handler
	conns     []*Conn
	nextID    int
	// dial behaviour per address: "" ok, "refuse", "blackhole"
	DialFault map[string]string
	// latency of one direction, drawn per message from the net stream
	MinLatency, MaxLatency time.Duration
	// Blackhole: connections of these owners are cut off from the network
	// (writes vanish, nothing is delivered, dials never complete) until healed
	Blackhole map[string]bool
	// Dialed counts connection attempts per address
	Dialed map[string]int
}

func NewNet(s *Sim) *Net {
	return &Net{S: s, listeners: map[string]Handler{}, DialFault: map[string]string{}, Blackhole: map[string]bool{}, Dialed: map[string]int{}}
}

func (n *Net) Listen(addr string, h Handler) {
	n.mu.Lock()
	n.listeners[addr] = h
	n.mu.Unlock()
}

func (n *Net) Unlisten(addr string) {
	n.mu.Lock()
	delete(n.listeners, addr)
	n.mu.Unlock()
}

func (n *Net) latency() time.Duration {
	if n.MaxLatency <= n.MinLatency {
		return n.MinLatency
	}
	span := int((n.MaxLatency - n.MinLatency) / (100 * time.Microsecond))
	return n.MinLatency + time.Duration(n.S.T.Intn("net", span+1))*100*time.Microsecond
}

// Conns returns all connections ever dialled.
func (n *Net) Conns() []*Conn {
	n.mu.Lock()
	defer n.mu.Unlock()
	return append([]*Conn(nil), n.conns...)
}

// Shutdown resets every open connection (end of run).
func (n *Net) Shutdown() {
	for _, c := range n.Conns() {
		c.ServerReset()
	}
}

type timeoutError struct{}

func (timeoutError) Error() string   { return "i/o timeout" }
func (timeoutError) Timeout() bool   { return true }
func (timeoutError) Temporary() bool { return true }
func (timeoutError) Is(err error) bool {
	return err == os.ErrDeadlineExceeded || err == context.DeadlineExceeded
}

func opErr(op string, addr net.Addr, err error) error {
	return &net.OpError{Op: op, Net: "tcp", Addr: addr, Err: err}
}

// Dial is the DialFunc handed to kafka.Transport.Dial and kafka.Dialer.DialFunc.
func (n *Net) Dial(ctx context.Context, network, address string) (net.Conn, error) {
	return n.DialOwner(ctx, network, address, "")
}

// Dialer returns a dial function that tags connections with an owner label.
func (n *Net) Dialer(owner string) func(context.Context, string, string) (net.Conn, error) {
	return func(ctx context.Context, network, address string) (net.Conn, error) {
		return n.DialOwner(ctx, network, address, owner)
	}
}

func (n *Net) DialOwner(ctx context.Context, network, address, owner string) (net.Conn, error) {
	tok := zsimrt.Pre("net-dial")
	n.mu.Lock()
	fault := n.DialFault[address]
	h := n.listeners[address]
	n.Dialed[address]++
	n.mu.Unlock()
	n.S.Count("dial")
	n.mu.Lock()
	if n.Blackhole[owner] {
		fault = "blackhole"
	}
	n.mu.Unlock()
	if fault == "blackhole" {
		n.S.Count("fault:dial-blackhole")
		<-ctx.Done()
		zsimrt.Post(tok, "net-dial")
		return nil, opErr("dial", Addr{address}, timeoutError{})
	}
	// connection establishment takes one round trip
	lat := 2 * n.latency()
	if lat > 0 {
		tm := quietTimer(lat)
		select {
		case <-tm.C:
		case <-ctx.Done():
			tm.Stop()
			zsimrt.Post(tok, "net-dial")
			return nil, opErr("dial", Addr{address}, ctx.Err())
		}
		zsimrt.Post(tok, "net-dial")
	}
	// the listener may have gone away (or been replaced) while the SYN was under way
	n.mu.Lock()
	if n.listeners[address] != h {
		h = nil
	}
	n.mu.Unlock()
	if h == nil || fault == "refuse" {
		n.S.Count("fault:dial-refused")
		return nil, opErr("dial", Addr{address}, os.NewSyscallError("connect", syscall.ECONNREFUSED))
	}
	n.mu.Lock()
	n.nextID++
	c := &Conn{N: n, ID: n.nextID, Owner: owner, H: h, local: Addr{fmt.Sprintf("10.0.0.1:%d", 40000+n.nextID)}, remote: Addr{address}, OpenedAt: n.S.Now(), OpenStep: n.S.StepNow()}
	n.conns = append(n.conns, c)
	n.mu.Unlock()
	return c, nil
}

// Conn is the client end of a simulated TCP connection (implements net.Conn).
// The server end is driven by the Handler from the driver goroutine.
type Conn struct {
	N      *Net
	ID     int
	Owner  string
	H      Handler
	local  Addr
	remote Addr

	mu        sync.Mutex
	in        []byte // server -> client, delivered but not yet read
	inEOF     bool   // orderly close by the server after `in`
	inRST     bool   // reset by the server
	out       []byte // client -> server, written but not yet consumed by the server
	closed    bool   // closed by the client
	rdl, wdl  time.Time
	rwait     chan struct{}
	srvNotice bool // an OnData event is already scheduled

	// bookkeeping for oracles
	OpenedAt    time.Duration
	OpenStep    int
	ClosedAt    time.Duration
	ClosedStep  int
	BytesIn     int // delivered to the client
	BytesOut    int // written by the client
	WritesAfter int // client writes after the server reset/closed the connection
	State       any // owned by the Handler (per-connection broker state)
	StallWrites bool
}

func (c *Conn) LocalAddr() net.Addr  { return c.local }
func (c *Conn) RemoteAddr() net.Addr { return c.remote }

// ClosedByClientOnly: the client closed the connection (when), and the server
// side never reset or closed it.
func (c *Conn) ClosedByClientOnly() (time.Duration, bool) {
	c.mu.Lock()
	defer c.mu.Unlock()
	return c.ClosedAt, c.closed && !c.inEOF && !c.inRST
}

// SetWriteStall: while on, the peer does not read and its socket buffer is
// full: writes block until their deadline (or until the stall ends).
func (c *Conn) SetWriteStall(on bool) {
	c.mu.Lock()
	c.StallWrites = on
	c.wakeReaders()
	c.mu.Unlock()
}

func (c *Conn) wakeReaders() {
	if c.rwait != nil {
		close(c.rwait)
		c.rwait = nil
	}
}

func (c *Conn) Read(b []byte) (int, error) {
	tok := zsimrt.Pre("net-read")
	for {
		c.mu.Lock()
		if c.closed {
			c.mu.Unlock()
			return 0, opErr("read", c.remote, net.ErrClosed)
		}
		if len(c.in) > 0 {
			n := copy(b, c.in)
			c.in = c.in[n:]
			c.mu.Unlock()
			raceAcquire(&ioSync)
			return n, nil
		}
		if c.inRST {
			c.mu.Unlock()
			return 0, opErr("read", c.remote, os.NewSyscallError("read", syscall.ECONNRESET))
		}
		if c.inEOF {
			c.mu.Unlock()
			return 0, io.EOF
		}
		var tm *time.Timer
		var tc <-chan time.Time
		if !c.rdl.IsZero() {
			d := time.Until(c.rdl)
			if d <= 0 {
				c.mu.Unlock()
				return 0, opErr("read", c.remote, timeoutError{})
			}
			tm = quietTimer(d)
			tc = tm.C
		}
		if c.rwait == nil {
			c.rwait = make(chan struct{})
		}
		w := c.rwait
		c.mu.Unlock()
		if len(b) == 0 {
			return 0, nil
		}
		select {
		case <-w:
			if tm != nil {
				tm.Stop()
			}
		case <-tc:
		}
		zsimrt.Post(tok, "net-read-wake")
		tok = zsimrt.Epoch()
	}
}

func (c *Conn) Write(b []byte) (int, error) {
	tok := zsimrt.Pre("net-write")
	c.mu.Lock()
	if c.closed {
		c.mu.Unlock()
		return 0, opErr("write", c.remote, net.ErrClosed)
	}
	if c.inRST {
		c.WritesAfter++
		c.mu.Unlock()
		return 0, opErr("write", c.remote, os.NewSyscallError("write", syscall.EPIPE))
	}
	if !c.wdl.IsZero() && time.Until(c.wdl) <= 0 {
		c.mu.Unlock()
		return 0, opErr("write", c.remote, timeoutError{})
	}
	if c.StallWrites {
		// full socket buffer: block until the write deadline / close
		for {
			var tc <-chan time.Time
			if !c.wdl.IsZero() {
				tc = quietTimer(time.Until(c.wdl)).C
			}
			if c.rwait == nil {
				c.rwait = make(chan struct{})
			}
			w := c.rwait
			c.mu.Unlock()
			select {
			case <-w:
			case <-tc:
			}
			zsimrt.Post(tok, "net-write-wake")
			tok = zsimrt.Epoch()
			c.mu.Lock()
			if c.closed {
				c.mu.Unlock()
				return 0, opErr("write", c.remote, net.ErrClosed)
			}
			if c.inRST {
				c.mu.Unlock()
				return 0, opErr("write", c.remote, os.NewSyscallError("write", syscall.EPIPE))
			}
			if !c.wdl.IsZero() && time.Until(c.wdl) <= 0 {
				c.mu.Unlock()
				return 0, opErr("write", c.remote, timeoutError{})
			}
			if !c.StallWrites {
				break
			}
		}
	}
	if c.inEOF {
		c.WritesAfter++
	}
	c.N.mu.Lock()
	bh := c.N.Blackhole[c.Owner]
	c.N.mu.Unlock()
	if bh {
		c.BytesOut += len(b)
		c.mu.Unlock()
		return len(b), nil
	}
	raceReleaseMerge(&ioSync)
	c.out = append(c.out, b...)
	c.BytesOut += len(b)
	need := !c.srvNotice
	c.srvNotice = true
	c.mu.Unlock()
	if need {
		c.N.S.After(c.N.latency(), fmt.Sprintf("c%d:data", c.ID), func() {
			c.mu.Lock()
			c.srvNotice = false
			dead := c.inRST
			c.mu.Unlock()
			if !dead {
				c.H.OnData(c)
			}
		})
	}
	return len(b), nil
}

func (c *Conn) Close() error {
	c.mu.Lock()
	if c.closed {
		c.mu.Unlock()
		return opErr("close", c.remote, net.ErrClosed)
	}
	c.closed = true
	c.ClosedAt = c.N.S.Now()
	c.ClosedStep = c.N.S.StepNow()
	c.wakeReaders()
	c.mu.Unlock()
	c.N.S.After(c.N.latency(), fmt.Sprintf("c%d:client-close", c.ID), func() { c.H.OnClientClose(c) })
	return nil
}

func (c *Conn) SetDeadline(t time.Time) error {
	c.mu.Lock()
	c.rdl, c.wdl = t, t
	c.wakeReaders()
	c.mu.Unlock()
	return nil
}

func (c *Conn) SetReadDeadline(t time.Time) error {
	c.mu.Lock()
	c.rdl = t
	c.wakeReaders()
	c.mu.Unlock()
	return nil
}

func (c *Conn) SetWriteDeadline(t time.Time) error {
	c.mu.Lock()
	c.wdl = t
	c.wakeReaders()
	c.mu.Unlock()
	return nil
}

// ---- server side (driver goroutine only) ----

// ClientBytes returns the bytes written by the client and not yet consumed.
func (c *Conn) ClientBytes() []byte {
	c.mu.Lock()
	defer c.mu.Unlock()
	return c.out
}

// Consume drops the first n client bytes.
func (c *Conn) Consume(n int) {
	c.mu.Lock()
	c.out = c.out[n:]
	c.mu.Unlock()
}

// Deliver makes b readable by the client now.
func (c *Conn) Deliver(b []byte) {
	c.N.mu.Lock()
	bh := c.N.Blackhole[c.Owner]
	c.N.mu.Unlock()
	c.mu.Lock()
	if !c.inRST && !c.inEOF && !bh {
		c.in = append(c.in, b...)
		c.BytesIn += len(b)
		c.wakeReaders()
	}
	c.mu.Unlock()
}

// ServerClose closes the server's end in an orderly way (client reads EOF
// after the delivered bytes).
func (c *Conn) ServerClose() {
	c.mu.Lock()
	if !c.inRST {
		c.inEOF = true
	}
	c.wakeReaders()
	c.mu.Unlock()
}

// ServerResetAfterData resets the connection but lets the client read the
// bytes already delivered first (exactly-k-bytes-then-RST).
func (c *Conn) ServerResetAfterData() {
	c.mu.Lock()
	c.inRST = true
	c.wakeReaders()
	c.mu.Unlock()
}

// ServerReset resets the connection: undelivered bytes are lost.
func (c *Conn) ServerReset() {
	c.mu.Lock()
	c.inRST = true
	c.in = nil
	c.wakeReaders()
	c.mu.Unlock()
}

func (c *Conn) ClientClosed() bool { c.mu.Lock(); defer c.mu.Unlock(); return c.closed }
func (c *Conn) ServerDead() bool   { c.mu.Lock(); defer c.mu.Unlock(); return c.inRST || c.inEOF }
func (c *Conn) Pending() int       { c.mu.Lock(); defer c.mu.Unlock(); return len(c.in) }

var _ net.Conn = (*Conn)(nil)
var _ = errors.New
