package sim

import (
	"context"
	"errors"
	"fmt"
	"io"
	"time"

	kafka "github.com/segmentio/kafka-go"
	rc "verif/sim/refcodec"
)

func init() { Scenarios["crosstalk"] = crosstalkScenario }

// sharedReady: the shared Conn of the current crosstalk run has been dialled
var sharedReady bool

// crosstalkScenario: many goroutines share one Conn / one Transport and issue
// requests whose correct answers are pairwise distinct; every call must get
// its own answer or an error (C06). The cluster state is static during the
// run, so the expected answer of every call is known in advance.
func crosstalkScenario(s *Sim, params map[string]string) {
	sharedReady = false
	t := s.T
	n := NewNet(s)
	n.MinLatency = time.Duration(t.Range("cfg", 1, 10)) * 100 * time.Microsecond
	n.MaxLatency = n.MinLatency + time.Duration(t.Range("cfg", 0, 50))*100*time.Microsecond
	cl := NewCluster(s, n)
	nb := t.Range("cfg", 1, 3)
	for i := 1; i <= nb; i++ {
		b := cl.AddBroker(int32(i), "")
		b.Versions[1] = [2]int16{0, Pick(t, "cfg", int16(11), 10, 5, 2)}
		b.Versions[2] = [2]int16{0, Pick(t, "cfg", int16(5), 3, 1)}
		b.Versions[3] = [2]int16{0, Pick(t, "cfg", int16(8), 6, 1)}
		b.Versions[9] = [2]int16{0, Pick(t, "cfg", int16(5), 3, 1)}
	}
	// topics x0..x5 with distinct partition counts; every record's value embeds topic/partition/offset
	ntop := 6
	const base = int64(1600000000000)
	for i := 0; i < ntop; i++ {
		name := fmt.Sprintf("x%d", i)
		top := cl.AddTopic(name, i+1, func(int) int32 { return int32(1 + t.Intn("cfg", nb)) })
		for _, p := range top.Parts {
			nrec := 3 + int(p.ID) + i
			start := int64(10*i) + int64(p.ID)
			p.LogStart, p.LEO = start, start
			for k := 0; k < nrec; k++ {
				off := p.LEO
				b := rc.Batch{Magic: 2, BaseOffset: off, ProducerID: -1, ProducerEpoch: -1, BaseSequence: -1,
					FirstTimestamp: base + 10*off, MaxTimestamp: base + 10*off,
					Records: []rc.Record{{Offset: off, Timestamp: base + 10*off, Value: []byte(fmt.Sprintf("%s/%d/%d|", name, p.ID, off))}}}
				if cl.Brokers[0].Versions[1][1] < 4 {
					b.Magic = 1
				}
				cl.AppendPhysical(p, b, 1)
			}
		}
	}
	// groups with distinct committed offsets
	for gi := 0; gi < 6; gi++ {
		g := cl.group(fmt.Sprintf("grp%d", gi))
		g.Offsets["x5"] = map[int32]int64{0: int64(100 + gi), 1: int64(200 + gi)}
	}

	fmode := t.Intn("cfg", 6)
	if v, ok := params["faults"]; ok {
		fmt.Sscan(v, &fmode)
	}
	apis := map[int16]bool{1: true, 2: true, 3: true, 9: true, 10: true}
	switch fmode {
	case 0:
	case 1:
		cl.F = FaultCfg{Slow: Pick(t, "cfg", 100, 300), SlowMin: 10 * time.Millisecond, SlowMax: 800 * time.Millisecond, APIs: apis}
	case 2:
		cl.F = FaultCfg{Slow: 100, CutInResponse: 60, CutAfterApply: 40, CutBeforeApply: 40, SlowMin: 10 * time.Millisecond, SlowMax: 800 * time.Millisecond, APIs: apis}
	case 4:
		cl.F = FaultCfg{StaleResponse: Pick(t, "cfg", 100, 300), Slow: 50, SlowMin: 10 * time.Millisecond, SlowMax: 300 * time.Millisecond, APIs: apis}
	case 5:
		// the network stalls in the middle of responses, for longer than some
		// of the deadlines in use
		cl.F = FaultCfg{Split: Pick(t, "cfg", 150, 400), SplitMin: 5 * time.Millisecond, SplitMax: Pick(t, "cfg", 100*time.Millisecond, 3*time.Second), Slow: 50, SlowMin: 10 * time.Millisecond, SlowMax: 300 * time.Millisecond, APIs: apis}
	case 3:
		cl.F = FaultCfg{Slow: 150, Stall: 30, CutInResponse: 50, ErrorCode: 50, SlowMin: 10 * time.Millisecond, SlowMax: 2 * time.Second, StallReset: 3 * time.Second, APIs: apis}
	}

	bad := func(what string, a ...any) { s.Fail("C06", "R1-wrong-answer", what, a...) }
	mode := t.Intn("cfg", 2)
	if v, ok := params["mode"]; ok {
		fmt.Sscan(v, &mode)
	}
	nact := t.Range("cfg", 2, 8)
	nops := t.Range("cfg", 3, 12)

	if mode == 0 {
		// a replayed frame nobody waits for is outside what a broker does on a
		// multiplexed connection (every waiter would skip it forever); the
		// stale-response fault is only meaningful for the Transport's
		// one-exchange-at-a-time connections
		cl.F.StaleResponse = 0
		// the connection multiplexes by correlation id: answers may come in
		// any order
		cl.OutOfOrder = t.Intn("cfg", 3) == 0
		if t.Intn("apiv", 4) == 0 {
			// the connection's first (implicit) ApiVersions request is refused
			// with UNSUPPORTED_VERSION, the list of versions still following
			refused := false
			cl.Mutate = func(r *Req, body rc.Msg) rc.Msg {
				// (on the shared connection itself, not on the ones DialLeader
				// uses to find the leader)
				if r.Hdr.APIKey == 18 && r.Conn.Owner == "shared-conn" && !refused && sharedReady {
					refused = true
					body["error_code"] = int16(35)
					s.Count("fault:apiversions-refused")
				}
				return body
			}
		}
		if t.Intn("cfg", 2) == 0 {
			// goroutines may lose the CPU between any two steps of an exchange
			s.EnableStalls(Pick(t, "cfg", 20, 100), 3*time.Millisecond)
		}
		// (a) one kafka.Conn shared by all actors, bound to a partition
		ti := t.Intn("cfg", ntop)
		tname := fmt.Sprintf("x%d", ti)
		part := t.Intn("cfg", ti+1)
		p := cl.Part(tname, int32(part))
		d := &kafka.Dialer{DialFunc: n.Dialer("shared-conn"), ClientID: "xt", Timeout: 3 * time.Second}
		var conn *kafka.Conn
		ready := false
		defer func() { _ = ready }()
		s.Go("dial", func() {
			ctx, cancel := context.WithTimeout(context.Background(), 10*time.Second)
			defer cancel()
			c, err := d.DialLeader(ctx, "tcp", cl.Broker(p.Leader).Addr(), tname, part)
			if err != nil {
				return
			}
			conn = c
			ready = true
			sharedReady = true
		})
		for a := 0; a < nact; a++ {
			a := a
			s.Go(fmt.Sprintf("c%d", a), func() {
				for !ready {
					if s.Now() > 15*time.Second {
						return
					}
					s.Sleep(5 * time.Millisecond)
				}
				for i := 0; i < nops; i++ {
					switch t.Intn("work", 7) {
					case 6:
						// a fetch whose response is abandoned part-way: after a
						// short-buffer read, after one message, or unread; what is
						// left of it must never reach the other calls
						b := conn.ReadBatch(1, 1<<20)
						switch t.Intn("work", 3) {
						case 0:
							buf := make([]byte, 2)
							nn, err := b.Read(buf)
							if err == nil || (errors.Is(err, io.ErrShortBuffer) && (nn != 2 || string(buf) != tname[:2])) {
								bad("Batch.Read into a 2-byte buffer on %s[%d] returned n=%d %q err=%v (every value is longer and starts with the topic name)", tname, part, nn, buf[:nn], err)
							}
						case 1:
							m, err := b.ReadMessage()
							if err == nil && string(m.Value) != fmt.Sprintf("%s/%d/%d|", tname, part, m.Offset) {
								bad("Batch.ReadMessage on %s[%d] returned offset %d value %q", tname, part, m.Offset, trunc(m.Value))
							}
						}
						b.Close()
						s.Count("ops")
						s.Count("abandoned-batch")
					case 0, 1:
						// ReadOffset(t): the answer is an injective function of t
						k := t.Intn("work", int(p.LEO-p.LogStart))
						off := p.LogStart + int64(k)
						got, err := conn.ReadOffset(time.UnixMilli(base + 10*off))
						if err == nil && got != off {
							bad("Conn.ReadOffset(time of offset %d) on %s[%d] returned %d", off, tname, part, got)
						}
						s.Count("ops")
					case 2:
						// metadata of another topic: partition count identifies the topic
						oi := t.Intn("work", ntop)
						ps, err := conn.ReadPartitions(fmt.Sprintf("x%d", oi))
						if err == nil {
							if len(ps) != oi+1 {
								bad("Conn.ReadPartitions(x%d) returned %d partitions, topic has %d", oi, len(ps), oi+1)
							}
							for _, pp := range ps {
								if pp.Topic != fmt.Sprintf("x%d", oi) {
									bad("Conn.ReadPartitions(x%d) returned a partition of topic %s", oi, pp.Topic)
								}
							}
						}
						s.Count("ops")
					case 3:
						first, last, err := conn.ReadOffsets()
						if err == nil && (first != p.LogStart || last != p.LEO) {
							bad("Conn.ReadOffsets on %s[%d] returned (%d,%d), log is [%d,%d)", tname, part, first, last, p.LogStart, p.LEO)
						}
						s.Count("ops")
					case 4:
						bs, err := conn.Brokers()
						if err == nil && len(bs) != nb {
							bad("Conn.Brokers returned %d brokers, cluster has %d", len(bs), nb)
						}
						s.Count("ops")
					case 5:
						// short deadlines racing with the others' I/O
						conn.SetDeadline(time.Now().Add(time.Duration(t.Range("work", 0, 30)) * time.Millisecond))
						if t.Intn("work", 2) == 0 {
							s.Sleep(time.Duration(t.Range("work", 0, 40)) * time.Millisecond)
							conn.SetDeadline(time.Time{})
						}
					}
					if s.Failed() {
						return
					}
					s.Pause("op")
				}
			})
		}
		closed := false
		closing := false
		s.DoneWhen(func() bool {
			if s.Actors() > 0 {
				return false
			}
			if !closing {
				closing = true
				s.Go("closer", func() {
					if conn != nil {
						conn.Close()
					}
					closed = true
				})
				return false
			}
			return closed
		})
		s.AtEnd(func() { checkCorrelationIDs(s, cl); n.Shutdown() })
		return
	}

	// (b) one Transport / Client shared by all actors
	tr := &kafka.Transport{Dial: n.Dialer("shared-transport"), ClientID: "xt", MetadataTTL: Pick(t, "cfg", 6*time.Second, 300*time.Millisecond),
		DialTimeout: 3 * time.Second, IdleTimeout: Pick(t, "cfg", 30*time.Second, 200*time.Millisecond)}
	client := &kafka.Client{Addr: kafka.TCP(cl.Brokers[0].Addr()), Transport: tr, Timeout: Pick(t, "cfg", 10*time.Second, time.Second)}
	for a := 0; a < nact; a++ {
		a := a
		s.Go(fmt.Sprintf("t%d", a), func() {
			for i := 0; i < nops; i++ {
				ctx := context.Background()
				var cancel context.CancelFunc = func() {}
				switch t.Intn("work", 4) {
				case 0:
					ctx, cancel = context.WithTimeout(ctx, time.Duration(t.Range("work", 0, 300))*time.Millisecond)
				case 1:
					var c2 context.CancelFunc
					ctx, c2 = context.WithCancel(ctx)
					d := time.Duration(t.Range("work", 0, 50)) * time.Millisecond
					ev := s.After(d, "cancel", func() { c2() })
					cancel = func() { s.Cancel(ev); c2() }
				}
				oi := t.Intn("work", ntop)
				tname := fmt.Sprintf("x%d", oi)
				part := t.Intn("work", oi+1)
				p := cl.Part(tname, int32(part))
				switch t.Intn("work", 4) {
				case 0:
					res, err := client.ListOffsets(ctx, &kafka.ListOffsetsRequest{Topics: map[string][]kafka.OffsetRequest{tname: {kafka.FirstOffsetOf(part), kafka.LastOffsetOf(part)}}})
					if err == nil {
						for _, po := range res.Topics[tname] {
							if po.Error == nil && po.Partition == part && (po.FirstOffset != p.LogStart || po.LastOffset != p.LEO) {
								bad("Client.ListOffsets(%s[%d]) returned first=%d last=%d, log is [%d,%d)", tname, part, po.FirstOffset, po.LastOffset, p.LogStart, p.LEO)
							}
							if po.Partition != part {
								bad("Client.ListOffsets(%s[%d]) returned an entry for partition %d", tname, part, po.Partition)
							}
						}
						for tn := range res.Topics {
							if tn != tname {
								bad("Client.ListOffsets(%s) returned topic %s", tname, tn)
							}
						}
					}
				case 1:
					res, err := client.Metadata(ctx, &kafka.MetadataRequest{Topics: []string{tname}})
					if err == nil {
						for _, tp := range res.Topics {
							if tp.Name == tname && tp.Error == nil && len(tp.Partitions) != oi+1 {
								bad("Client.Metadata(%s) returned %d partitions, topic has %d", tname, len(tp.Partitions), oi+1)
							}
							if tp.Name != tname {
								bad("Client.Metadata(%s) returned topic %s", tname, tp.Name)
							}
						}
					}
				case 2:
					gi := t.Intn("work", 6)
					res, err := client.OffsetFetch(ctx, &kafka.OffsetFetchRequest{GroupID: fmt.Sprintf("grp%d", gi), Topics: map[string][]int{"x5": {0, 1}}})
					if err == nil && res.Error == nil {
						for _, po := range res.Topics["x5"] {
							want := int64(100 + gi)
							if po.Partition == 1 {
								want = int64(200 + gi)
							}
							if po.Error == nil && po.CommittedOffset != want {
								bad("Client.OffsetFetch(grp%d) x5[%d] returned %d, committed is %d", gi, po.Partition, po.CommittedOffset, want)
							}
						}
					}
				case 3:
					k := t.Intn("work", int(p.LEO-p.LogStart))
					off := p.LogStart + int64(k)
					res, err := client.Fetch(ctx, &kafka.FetchRequest{Topic: tname, Partition: part, Offset: off, MinBytes: 1, MaxBytes: 1 << 20, MaxWait: 100 * time.Millisecond})
					if err == nil && res.Error == nil {
						if res.Topic != tname || res.Partition != part {
							bad("Client.Fetch(%s[%d]@%d) returned a response for %s[%d]", tname, part, off, res.Topic, res.Partition)
						}
						if res.HighWatermark != p.LEO {
							bad("Client.Fetch(%s[%d]@%d) returned high watermark %d, log end is %d", tname, part, off, res.HighWatermark, p.LEO)
						}
						exp := off
						for {
							rec, rerr := res.Records.ReadRecord()
							if rerr != nil {
								if !errors.Is(rerr, io.EOF) {
									s.Count("fetch-record-error")
								}
								break
							}
							var v []byte
							if rec.Value != nil {
								v, _ = io.ReadAll(rec.Value)
								rec.Value.Close()
							}
							if rec.Key != nil {
								rec.Key.Close()
							}
							want := fmt.Sprintf("%s/%d/%d|", tname, part, rec.Offset)
							if string(v) != want {
								bad("Client.Fetch(%s[%d]@%d) returned a record at offset %d with value %q, stored value is %q", tname, part, off, rec.Offset, trunc(v), want)
							}
							if rec.Offset < p.LogStart || rec.Offset >= p.LEO {
								bad("Client.Fetch(%s[%d]@%d) returned offset %d outside the log", tname, part, off, rec.Offset)
							}
							if rec.Offset >= off {
								if rec.Offset != exp {
									bad("Client.Fetch(%s[%d]@%d): records not consecutive (%d, expected %d)", tname, part, off, rec.Offset, exp)
								}
								exp = rec.Offset + 1
							}
						}
						if c, ok := res.Records.(io.Closer); ok {
							c.Close()
						}
					}
				}
				cancel()
				s.Count("ops")
				if s.Failed() {
					return
				}
				s.Pause("op")
			}
		})
	}
	closed := false
	closing := false
	s.DoneWhen(func() bool {
		if s.Actors() > 0 {
			return false
		}
		if !closing {
			closing = true
			s.Go("closer", func() {
				tr.CloseIdleConnections()
				closed = true
			})
			return false
		}
		return closed
	})
	s.AtEnd(func() { checkCorrelationIDs(s, cl); n.Shutdown() })
}

// checkCorrelationIDs: C06.R3 — correlation ids are unique per connection.
func checkCorrelationIDs(s *Sim, cl *Cluster) {
	seen := map[[2]int]bool{}
	for _, r := range cl.Journal {
		if r.API == nil {
			continue
		}
		k := [2]int{r.Conn.ID, int(r.Hdr.CorrelationID)}
		if seen[k] {
			s.Fail("C06", "R3-correlation-id-reused", "connection c%d carried two requests with correlation id %d", r.Conn.ID, r.Hdr.CorrelationID)
		}
		seen[k] = true
	}
}
