package sim

import (
	"fmt"
	"os"
	"path/filepath"
	"strings"
)

// RaceReport is one "WARNING: DATA RACE" block of the Go race detector.
type RaceReport struct {
	Accesses [2]RaceAccess
	Text     string
}

// RaceAccess is one of the two conflicting accesses.
type RaceAccess struct {
	Kind  string   // "Read", "Write", "Previous read", ...
	Top   string   // function of the innermost frame
	Lib   string   // innermost frame inside github.com/segmentio/kafka-go ("" if none)
	Stack []string // function names, innermost first
}

const libPrefix = "github.com/segmentio/kafka-go"

// ParseRaceLog splits race detector output into reports.
func ParseRaceLog(text string) []RaceReport {
	var out []RaceReport
	for _, blk := range strings.Split(text, "==================") {
		if !strings.Contains(blk, "WARNING: DATA RACE") {
			continue
		}
		rep := RaceReport{Text: strings.TrimSpace(blk)}
		ai := -1
		lines := strings.Split(blk, "\n")
		for i := 0; i < len(lines); i++ {
			ln := lines[i]
			trim := strings.TrimSpace(ln)
			if trim == "" {
				if ai >= 1 {
					// after the second access block: the rest is goroutine creation info
					break
				}
				continue
			}
			if !strings.HasPrefix(ln, " ") && strings.Contains(trim, " at 0x") && strings.Contains(trim, " by ") {
				ai++
				if ai > 1 {
					break
				}
				rep.Accesses[ai].Kind = trim[:strings.Index(trim, " at 0x")]
				continue
			}
			if ai < 0 || ai > 1 {
				continue
			}
			if strings.HasPrefix(ln, "  ") && !strings.HasPrefix(ln, "      ") {
				fn := trim
				if j := strings.LastIndex(fn, "("); j > 0 && strings.HasSuffix(fn, ")") {
					fn = fn[:j]
				}
				a := &rep.Accesses[ai]
				a.Stack = append(a.Stack, fn)
				if a.Top == "" {
					a.Top = fn
				}
				if a.Lib == "" && strings.HasPrefix(fn, libPrefix) && !strings.HasPrefix(fn, libPrefix+"/zsimrt") {
					a.Lib = fn
				}
			}
		}
		if ai >= 1 {
			out = append(out, rep)
		}
	}
	return out
}

// InLibrary reports whether the conflicting memory is accessed by library
// code (or by code the library called: standard library, codecs) on at least
// one side, as opposed to a race purely inside the harness.
func (r RaceReport) InLibrary() bool {
	for _, a := range r.Accesses {
		// the nearest frame that is either harness or library decides who performed the access
		for _, fn := range a.Stack {
			if strings.HasPrefix(fn, libPrefix) && !strings.HasPrefix(fn, libPrefix+"/zsimrt") {
				return true
			}
			if strings.HasPrefix(fn, "verif/") || strings.HasPrefix(fn, libPrefix+"/zsimrt") {
				break
			}
		}
	}
	return false
}

// Signature identifies the pair of access sites.
func (r RaceReport) Signature() string {
	site := func(a RaceAccess) string {
		if a.Lib != "" && a.Lib != a.Top {
			return a.Top + " <- " + a.Lib
		}
		return a.Top
	}
	a, b := site(r.Accesses[0]), site(r.Accesses[1])
	if b < a {
		a, b = b, a
	}
	return a + "  ||  " + b
}

// raceLogTail reads what the race detector appended to its log files since
// the previous call.
type raceLogTail struct {
	prefix string
	seen   map[string]int64
}

func newRaceLogTail(prefix string) *raceLogTail {
	return &raceLogTail{prefix: prefix, seen: map[string]int64{}}
}

func (t *raceLogTail) Next() string {
	if t == nil || t.prefix == "" {
		return ""
	}
	files, _ := filepath.Glob(t.prefix + "*")
	var sb strings.Builder
	for _, f := range files {
		b, err := os.ReadFile(f)
		if err != nil {
			continue
		}
		if int64(len(b)) > t.seen[f] {
			sb.Write(b[t.seen[f]:])
			t.seen[f] = int64(len(b))
		}
	}
	return sb.String()
}

func raceViolations(text string) (viol []Violation, harness []string) {
	seen := map[string]bool{}
	for _, r := range ParseRaceLog(text) {
		sig := r.Signature()
		if seen[sig] {
			continue
		}
		seen[sig] = true
		if !r.InLibrary() {
			harness = append(harness, sig)
			continue
		}
		txt := r.Text
		if len(txt) > 6000 {
			txt = txt[:6000] + "\n..."
		}
		viol = append(viol, Violation{Property: "C10", Rule: "data-race", Msg: fmt.Sprintf("%s / %s: %s\n%s", r.Accesses[0].Kind, r.Accesses[1].Kind, sig, txt)})
	}
	return
}
