package sim

import (
	"fmt"
	"sort"
	"time"

	rc "verif/sim/refcodec"
)

// Group coordinator model: the classic Kafka consumer-group protocol (Empty /
// PreparingRebalance / CompletingRebalance / Stable) with join and sync
// barriers and session time-outs on the simulated clock.

type GroupState int

const (
	GEmpty GroupState = iota
	GPreparing
	GCompleting
	GStable
)

func (s GroupState) String() string {
	return [...]string{"Empty", "PreparingRebalance", "CompletingRebalance", "Stable"}[s]
}

type GProto struct {
	Name string
	Meta []byte
}

type Member struct {
	ID               string
	ClientID         string
	SessionTimeout   time.Duration
	RebalanceTimeout time.Duration
	joinAt           time.Duration
	joinFault        string
	Protocols        []GProto
	Assignment       []byte
	joinDone         func(rc.Msg) // held JoinGroup response
	joinVer          int16
	syncDone         func(rc.Msg) // held SyncGroup response
	syncVer          int16
	session          *Event
	Conn             *Conn
	JoinedGen        int32
}

// Commit is one OffsetCommit partition entry as seen by the coordinator.
type Commit struct {
	ReqIdx     int
	Step       int
	At         time.Duration
	Group      string
	Member     string
	Generation int32
	Topic      string
	Partition  int32
	Offset     int64
	Code       int16 // 0 = accepted
}

// GenRecord records one completed generation (for oracles).
type GenRecord struct {
	Generation  int32
	Step        int
	At          time.Duration
	Leader      string
	Protocol    string
	Members     []string
	Assignments map[string][]byte // filled at leader sync
	SyncStep    int
	EndedStep   int // step at which the group left Stable for this generation (0 = still live)
	EndedAt     time.Duration
}

type Group struct {
	ID           string
	State        GroupState
	Generation   int32
	Members      map[string]*Member
	order        []string
	Leader       string
	Protocol     string
	ProtoType    string
	Coordinator  int32
	Offsets      map[string]map[int32]int64
	rebalance    *Event
	nextMember   int
	InitialDelay time.Duration
	Commits      []Commit
	Gens         []*GenRecord
	Left         []string // member ids that sent LeaveGroup
	Evicted      []string // member ids removed by session expiry / fault
	Heartbeats   []HB
	// AnsweredGone: successful JoinGroup responses whose connection the client
	// had already closed (the server never did) when the join completed
	AnsweredGone []AnsweredGone
	LongestHold  time.Duration // longest time a successful join was held
}

// AnsweredGone describes a join the client walked away from.
type AnsweredGone struct {
	Member, ClientID    string
	ReqAt, ClosedAt, At time.Duration
	Rebalance           time.Duration
}

// HB is one heartbeat as seen by the coordinator.
type HB struct {
	Step       int
	At         time.Duration
	Member     string
	Generation int32
	Code       int16
}

func (c *Cluster) group(id string) *Group {
	g := c.Groups[id]
	if g == nil {
		// coordinator placement: stable function of the group id
		h := 0
		for _, ch := range id {
			h = h*31 + int(ch)
		}
		if h < 0 {
			h = -h
		}
		var up []*Broker
		for _, b := range c.Brokers {
			if b.Up {
				up = append(up, b)
			}
		}
		if len(up) == 0 {
			up = c.Brokers
		}
		g = &Group{ID: id, Members: map[string]*Member{}, Offsets: map[string]map[int32]int64{}, Coordinator: up[h%len(up)].ID, InitialDelay: c.GroupInitialDelay}
		c.Groups[id] = g
	}
	return g
}

func (g *Group) sortedMembers() []*Member {
	var ms []*Member
	for _, id := range g.order {
		if m := g.Members[id]; m != nil {
			ms = append(ms, m)
		}
	}
	return ms
}

func (g *Group) curGen() *GenRecord {
	if len(g.Gens) == 0 {
		return nil
	}
	return g.Gens[len(g.Gens)-1]
}

// MoveCoordinator moves the group to another broker (fault).
func (c *Cluster) MoveCoordinator(g *Group, to int32) {
	if g.Coordinator == to {
		return
	}
	g.Coordinator = to
	c.S.Count("fault:coordinator-move")
	// the new coordinator loads the group from the offsets topic: membership
	// survives (members will get NotCoordinator from the old broker and
	// rediscover), held responses on the old coordinator are answered with
	// NotCoordinator
	for _, m := range g.sortedMembers() {
		if m.joinDone != nil {
			d := m.joinDone
			m.joinDone = nil
			d(joinErr(ErrNotCoordinator, ""))
		}
		if m.syncDone != nil {
			d := m.syncDone
			m.syncDone = nil
			d(rc.Msg{"throttle_time_ms": int32(0), "error_code": ErrNotCoordinator, "assignment": []byte{}})
		}
	}
}

func joinErr(code int16, memberID string) rc.Msg {
	return rc.Msg{"throttle_time_ms": int32(0), "error_code": code, "generation_id": int32(-1), "protocol_name": "", "leader": "", "member_id": memberID, "members": []rc.Msg{}}
}

func (c *Cluster) findCoordinator(b *Broker, r *Req) rc.Msg {
	key := r.Body.Str("key")
	g := c.group(key)
	if r.Body.I8("key_type") == 1 {
		// transactional ids are a namespace of their own, with coordinators
		// of their own
		g = c.group("txn:" + key)
	}
	r.Applied = true
	if r.Fault == "error-code" {
		code := []int16{ErrCoordinatorNotAvailable, ErrCoordinatorLoadInProgress}[c.S.T.Intn("fault", 2)]
		return rc.Msg{"throttle_time_ms": int32(0), "error_code": code, "error_message": nil, "node_id": int32(-1), "host": "", "port": int32(-1)}
	}
	co := c.Broker(g.Coordinator)
	if co == nil || !co.Up {
		return rc.Msg{"throttle_time_ms": int32(0), "error_code": ErrCoordinatorNotAvailable, "error_message": nil, "node_id": int32(-1), "host": "", "port": int32(-1)}
	}
	return rc.Msg{"throttle_time_ms": int32(0), "error_code": ErrNone, "error_message": nil, "node_id": co.ID, "host": co.Host, "port": co.Port}
}

func (c *Cluster) resetSession(g *Group, m *Member) {
	if m.session != nil {
		c.S.Cancel(m.session)
	}
	id := m.ID
	m.session = c.S.After(m.SessionTimeout, "session-expiry:"+id, func() {
		if g.Members[id] == m && m.joinDone != nil {
			// a member whose JoinGroup is being held is not expected to
			// heartbeat: the coordinator keeps it until the join completes
			// (GroupCoordinator.shouldKeepMemberAlive)
			c.resetSession(g, m)
			return
		}
		if g.Members[id] == m {
			c.S.Count("session-expired")
			c.removeMember(g, m, "expired")
		}
	})
}

// removeMember evicts a member and triggers / advances a rebalance.
func (c *Cluster) removeMember(g *Group, m *Member, why string) {
	if g.Members[m.ID] != m {
		return
	}
	delete(g.Members, m.ID)
	if m.session != nil {
		c.S.Cancel(m.session)
	}
	if why != "left" {
		g.Evicted = append(g.Evicted, m.ID)
	}
	if m.joinDone != nil {
		d := m.joinDone
		m.joinDone = nil
		d(joinErr(ErrUnknownMemberID, ""))
	}
	if m.syncDone != nil {
		d := m.syncDone
		m.syncDone = nil
		d(rc.Msg{"throttle_time_ms": int32(0), "error_code": ErrUnknownMemberID, "assignment": []byte{}})
	}
	switch g.State {
	case GStable, GCompleting:
		c.prepareRebalance(g)
	case GPreparing:
		c.maybeCompleteJoin(g, false)
	}
}

func (c *Cluster) endGeneration(g *Group) {
	if gr := g.curGen(); gr != nil && gr.EndedStep == 0 {
		gr.EndedStep = c.S.Step
		gr.EndedAt = c.S.Now()
	}
}

func (c *Cluster) prepareRebalance(g *Group) {
	// followers waiting for the leader's sync are told to rejoin
	for _, m := range g.sortedMembers() {
		if m.syncDone != nil {
			d := m.syncDone
			m.syncDone = nil
			d(rc.Msg{"throttle_time_ms": int32(0), "error_code": ErrRebalanceInProgress, "assignment": []byte{}})
		}
	}
	c.endGeneration(g)
	wasEmpty := g.State == GEmpty
	g.State = GPreparing
	c.S.Count("rebalance")
	if g.rebalance != nil {
		c.S.Cancel(g.rebalance)
	}
	timeout := time.Duration(0)
	for _, m := range g.sortedMembers() {
		if m.RebalanceTimeout > timeout {
			timeout = m.RebalanceTimeout
		}
	}
	if wasEmpty {
		timeout = g.InitialDelay
	}
	gid := g.ID
	g.rebalance = c.S.After(timeout, "rebalance-timeout:"+gid, func() {
		g.rebalance = nil
		if g.State == GPreparing {
			c.maybeCompleteJoin(g, true)
		}
	})
	c.maybeCompleteJoin(g, false)
}

// maybeCompleteJoin completes the join barrier when every known member has
// (re)joined, or when the rebalance timeout expired (members that did not
// rejoin are removed).
func (c *Cluster) maybeCompleteJoin(g *Group, timedOut bool) {
	if g.State != GPreparing {
		return
	}
	all := true
	for _, m := range g.sortedMembers() {
		if m.joinDone == nil {
			all = false
		}
	}
	if !all && !timedOut {
		return
	}
	if all && g.rebalance != nil && g.InitialDelay > 0 && g.Generation == 0 && !timedOut {
		return // initial rebalance delay: wait for the timer
	}
	if g.rebalance != nil {
		c.S.Cancel(g.rebalance)
		g.rebalance = nil
	}
	for _, m := range g.sortedMembers() {
		if m.joinDone == nil {
			delete(g.Members, m.ID)
			if m.session != nil {
				c.S.Cancel(m.session)
			}
			g.Evicted = append(g.Evicted, m.ID)
		}
	}
	ms := g.sortedMembers()
	g.order = g.order[:0]
	for _, m := range ms {
		g.order = append(g.order, m.ID)
	}
	if len(ms) == 0 {
		g.State = GEmpty
		g.Generation++
		g.Leader = ""
		return
	}
	g.Generation++
	// protocol: first protocol of the first member that all members support
	g.Protocol = ""
	for _, p := range ms[0].Protocols {
		ok := true
		for _, m := range ms[1:] {
			has := false
			for _, q := range m.Protocols {
				if q.Name == p.Name {
					has = true
				}
			}
			if !has {
				ok = false
			}
		}
		if ok {
			g.Protocol = p.Name
			break
		}
	}
	if g.Members[g.Leader] == nil {
		g.Leader = ms[0].ID
	}
	g.State = GCompleting
	gr := &GenRecord{Generation: g.Generation, Step: c.S.Step, At: c.S.Now(), Leader: g.Leader, Protocol: g.Protocol}
	var members []rc.Msg
	for _, m := range ms {
		gr.Members = append(gr.Members, m.ID)
		var meta []byte
		for _, p := range m.Protocols {
			if p.Name == g.Protocol {
				meta = p.Meta
			}
		}
		members = append(members, rc.Msg{"member_id": m.ID, "group_instance_id": nil, "metadata": meta})
	}
	g.Gens = append(g.Gens, gr)
	for _, m := range ms {
		d := m.joinDone
		m.joinDone = nil
		if h := c.S.Now() - m.joinAt; h > g.LongestHold {
			g.LongestHold = h
		}
		if m.Conn != nil && m.joinFault == "" {
			if at, ok := m.Conn.ClosedByClientOnly(); ok {
				g.AnsweredGone = append(g.AnsweredGone, AnsweredGone{Member: m.ID, ClientID: m.ClientID, ReqAt: m.joinAt, ClosedAt: at, At: c.S.Now(), Rebalance: m.RebalanceTimeout})
			}
		}
		m.JoinedGen = g.Generation
		m.Assignment = nil
		c.resetSession(g, m)
		resp := rc.Msg{"throttle_time_ms": int32(0), "error_code": ErrNone, "generation_id": g.Generation, "protocol_type": g.ProtoType,
			"protocol_name": g.Protocol, "leader": g.Leader, "member_id": m.ID, "members": []rc.Msg{}}
		if m.ID == g.Leader {
			resp["members"] = members
		}
		d(resp)
	}
}

func (c *Cluster) groupGate(b *Broker, g *Group, r *Req) int16 {
	if g.Coordinator != b.ID {
		return ErrNotCoordinator
	}
	if r.Fault == "error-code" {
		switch c.S.T.Intn("fault", 3) {
		case 0:
			return ErrCoordinatorLoadInProgress
		case 1:
			return ErrCoordinatorNotAvailable
		default:
			// coordinator fail-over: the group moves to another broker
			if len(c.Brokers) > 1 {
				for _, nb := range c.Brokers {
					if nb.ID != b.ID && nb.Up {
						c.MoveCoordinator(g, nb.ID)
						return ErrNotCoordinator
					}
				}
			}
			return ErrCoordinatorNotAvailable
		}
	}
	return ErrNone
}

func (c *Cluster) joinGroup(b *Broker, cn *Conn, r *Req, done func(rc.Msg)) {
	body := r.Body
	g := c.group(body.Str("group_id"))
	r.Applied = true
	if code := c.groupGate(b, g, r); code != ErrNone {
		done(joinErr(code, body.Str("member_id")))
		return
	}
	mid := body.Str("member_id")
	var protos []GProto
	for _, p := range body.Arr("protocols") {
		protos = append(protos, GProto{p.Str("name"), p.Bytes("metadata")})
	}
	if len(protos) == 0 {
		done(joinErr(ErrInconsistentGroupProtocol, mid))
		return
	}
	st := time.Duration(body.I32("session_timeout_ms")) * time.Millisecond
	if st < c.MinSession || (c.MaxSession > 0 && st > c.MaxSession) {
		done(joinErr(ErrInvalidSessionTimeout, mid))
		return
	}
	rt := time.Duration(body.I32("rebalance_timeout_ms")) * time.Millisecond
	if r.Hdr.APIVersion == 0 || rt <= 0 {
		rt = st
	}
	var m *Member
	if mid == "" {
		if r.Hdr.APIVersion >= 4 {
			// KIP-394: the first join gets a member id and must be repeated
			g.nextMember++
			id := fmt.Sprintf("%s-m%d", clientIDOf(r), g.nextMember)
			done(joinErr(ErrMemberIDRequired, id))
			return
		}
		g.nextMember++
		m = &Member{ID: fmt.Sprintf("%s-m%d", clientIDOf(r), g.nextMember), ClientID: clientIDOf(r)}
	} else {
		m = g.Members[mid]
		if m == nil {
			if r.Hdr.APIVersion >= 4 && len(mid) > 0 {
				// pending member id issued by MemberIDRequired
				m = &Member{ID: mid, ClientID: clientIDOf(r)}
			} else {
				done(joinErr(ErrUnknownMemberID, mid))
				return
			}
		}
	}
	// protocol compatibility with the existing members
	if len(g.Members) > 0 && (g.Members[m.ID] == nil || len(g.Members) > 1) {
		common := false
		for _, p := range protos {
			ok := true
			for _, om := range g.sortedMembers() {
				if om.ID == m.ID {
					continue
				}
				has := false
				for _, q := range om.Protocols {
					if q.Name == p.Name {
						has = true
					}
				}
				if !has {
					ok = false
				}
			}
			if ok {
				common = true
			}
		}
		if !common || (g.ProtoType != "" && g.ProtoType != body.Str("protocol_type")) {
			done(joinErr(ErrInconsistentGroupProtocol, mid))
			return
		}
	}
	g.ProtoType = body.Str("protocol_type")
	m.Protocols = protos
	m.SessionTimeout, m.RebalanceTimeout = st, rt
	m.Conn = cn
	if m.joinDone != nil {
		// a retried join on a new connection supersedes the held one
		m.joinDone = nil
	}
	m.joinDone = done
	m.joinAt, m.joinFault = c.S.Now(), r.Fault
	m.joinVer = r.Hdr.APIVersion
	if g.Members[m.ID] == nil {
		g.Members[m.ID] = m
		g.order = append(g.order, m.ID)
	}
	c.resetSession(g, m)
	switch g.State {
	case GEmpty, GStable, GCompleting:
		// a known member rejoining a stable group with unchanged metadata would
		// just get the current generation; we always rebalance (new member,
		// changed metadata and leader rejoin all do in Kafka; an unchanged
		// follower rejoin is indistinguishable for the client)
		c.prepareRebalance(g)
	case GPreparing:
		c.maybeCompleteJoin(g, false)
	}
}

func clientIDOf(r *Req) string {
	if r.Hdr.ClientID != nil {
		return *r.Hdr.ClientID
	}
	return "client"
}

func (c *Cluster) syncGroup(b *Broker, cn *Conn, r *Req, done func(rc.Msg)) {
	body := r.Body
	g := c.group(body.Str("group_id"))
	r.Applied = true
	fail := func(code int16) {
		done(rc.Msg{"throttle_time_ms": int32(0), "error_code": code, "assignment": []byte{}})
	}
	if code := c.groupGate(b, g, r); code != ErrNone {
		fail(code)
		return
	}
	m := g.Members[body.Str("member_id")]
	switch {
	case m == nil:
		fail(ErrUnknownMemberID)
		return
	case body.I32("generation_id") != g.Generation:
		fail(ErrIllegalGeneration)
		return
	}
	c.resetSession(g, m)
	switch g.State {
	case GEmpty:
		fail(ErrUnknownMemberID)
	case GPreparing:
		fail(ErrRebalanceInProgress)
	case GCompleting:
		m.syncDone = done
		m.syncVer = r.Hdr.APIVersion
		if m.ID == g.Leader {
			gr := g.curGen()
			gr.Assignments = map[string][]byte{}
			gr.SyncStep = c.S.Step
			for _, a := range body.Arr("assignments") {
				if am := g.Members[a.Str("member_id")]; am != nil {
					am.Assignment = a.Bytes("assignment")
					gr.Assignments[am.ID] = am.Assignment
				}
			}
			g.State = GStable
			if c.OnStable != nil {
				c.OnStable(g, gr)
			}
			for _, om := range g.sortedMembers() {
				if om.syncDone != nil {
					d := om.syncDone
					om.syncDone = nil
					as := om.Assignment
					if as == nil {
						as = []byte{}
					}
					c.resetSession(g, om)
					d(rc.Msg{"throttle_time_ms": int32(0), "error_code": ErrNone, "protocol_type": g.ProtoType, "protocol_name": g.Protocol, "assignment": as})
				}
			}
		}
	case GStable:
		as := m.Assignment
		if as == nil {
			as = []byte{}
		}
		done(rc.Msg{"throttle_time_ms": int32(0), "error_code": ErrNone, "protocol_type": g.ProtoType, "protocol_name": g.Protocol, "assignment": as})
	}
}

func (c *Cluster) heartbeat(b *Broker, r *Req) rc.Msg {
	body := r.Body
	g := c.group(body.Str("group_id"))
	r.Applied = true
	code := c.groupGate(b, g, r)
	mid := body.Str("member_id")
	if code == ErrNone {
		m := g.Members[mid]
		switch {
		case m == nil:
			code = ErrUnknownMemberID
		case body.I32("generation_id") != g.Generation:
			code = ErrIllegalGeneration
		default:
			switch g.State {
			case GEmpty:
				code = ErrUnknownMemberID
			case GPreparing:
				c.resetSession(g, m)
				code = ErrRebalanceInProgress
			default:
				c.resetSession(g, m)
			}
		}
	}
	g.Heartbeats = append(g.Heartbeats, HB{Step: r.Step, At: r.At, Member: mid, Generation: body.I32("generation_id"), Code: code})
	return rc.Msg{"throttle_time_ms": int32(0), "error_code": code}
}

func (c *Cluster) leaveGroup(b *Broker, r *Req) rc.Msg {
	body := r.Body
	g := c.group(body.Str("group_id"))
	r.Applied = true
	code := ErrNone
	if g.Coordinator != b.ID {
		code = ErrNotCoordinator
	}
	var ids []string
	if r.Hdr.APIVersion >= 3 {
		for _, m := range body.Arr("members") {
			ids = append(ids, m.Str("member_id"))
		}
	} else {
		ids = []string{body.Str("member_id")}
	}
	var mres []rc.Msg
	for _, id := range ids {
		mc := code
		if mc == ErrNone {
			if m := g.Members[id]; m != nil {
				g.Left = append(g.Left, id)
				c.removeMember(g, m, "left")
			} else {
				mc = ErrUnknownMemberID
			}
		}
		mres = append(mres, rc.Msg{"member_id": id, "group_instance_id": nil, "error_code": mc})
		if r.Hdr.APIVersion < 3 {
			code = mc
		}
	}
	return rc.Msg{"throttle_time_ms": int32(0), "error_code": code, "members": mres}
}

func (c *Cluster) offsetCommit(b *Broker, r *Req) rc.Msg {
	body := r.Body
	g := c.group(body.Str("group_id"))
	r.Applied = true
	code := c.groupGate(b, g, r)
	gen := body.I32("generation_id")
	mid := body.Str("member_id")
	if r.Hdr.APIVersion == 0 {
		gen, mid = -1, ""
	}
	if code == ErrNone && !(gen < 0 && mid == "") {
		m := g.Members[mid]
		switch {
		case m == nil:
			code = ErrUnknownMemberID
		case gen != g.Generation:
			code = ErrIllegalGeneration
		case g.State == GCompleting:
			code = ErrRebalanceInProgress
		default:
			c.resetSession(g, m)
		}
	}
	var topics []rc.Msg
	for _, t := range body.Arr("topics") {
		name := t.Str("name")
		var parts []rc.Msg
		for _, p := range t.Arr("partitions") {
			idx := p.I32("partition_index")
			off := p.I64("committed_offset")
			pc := code
			if pc == ErrNone && c.CommitErr != nil {
				pc = c.CommitErr(g, name, idx)
			}
			if pc == ErrNone {
				if g.Offsets[name] == nil {
					g.Offsets[name] = map[int32]int64{}
				}
				g.Offsets[name][idx] = off
			}
			g.Commits = append(g.Commits, Commit{ReqIdx: r.Idx, Step: c.S.Step, At: c.S.Now(), Group: g.ID, Member: mid, Generation: gen, Topic: name, Partition: idx, Offset: off, Code: pc})
			parts = append(parts, rc.Msg{"partition_index": idx, "error_code": pc})
		}
		topics = append(topics, rc.Msg{"name": name, "partitions": parts})
	}
	return rc.Msg{"throttle_time_ms": int32(0), "topics": topics}
}

func (c *Cluster) offsetFetch(b *Broker, r *Req) rc.Msg {
	body := r.Body
	g := c.group(body.Str("group_id"))
	r.Applied = true
	code := c.groupGate(b, g, r)
	var topics []rc.Msg
	emit := func(name string, idxs []int32) {
		var parts []rc.Msg
		for _, idx := range idxs {
			off := int64(-1)
			if code == ErrNone {
				if o, ok := g.Offsets[name][idx]; ok {
					off = o
				}
			}
			pc := code
			if r.Hdr.APIVersion >= 2 {
				pc = ErrNone // group-level errors are reported at the top level from v2
			}
			parts = append(parts, rc.Msg{"partition_index": idx, "committed_offset": off, "committed_leader_epoch": int32(-1), "metadata": "", "error_code": pc})
			if c.OnOffsetFetch != nil && code == ErrNone {
				c.OnOffsetFetch(g, r, name, idx, off)
			}
		}
		topics = append(topics, rc.Msg{"name": name, "partitions": parts})
	}
	if body.IsNull("topics") && r.Hdr.APIVersion >= 2 {
		var names []string
		for n := range g.Offsets {
			names = append(names, n)
		}
		sort.Strings(names)
		for _, n := range names {
			var idxs []int32
			for i := range g.Offsets[n] {
				idxs = append(idxs, i)
			}
			sort.Slice(idxs, func(a, b int) bool { return idxs[a] < idxs[b] })
			emit(n, idxs)
		}
	} else {
		for _, t := range body.Arr("topics") {
			var idxs []int32
			for _, x := range t.Prims("partition_indexes") {
				idxs = append(idxs, x.(int32))
			}
			emit(t.Str("name"), idxs)
		}
	}
	if topics == nil {
		topics = []rc.Msg{}
	}
	return rc.Msg{"throttle_time_ms": int32(0), "topics": topics, "error_code": code}
}

func (c *Cluster) describeGroups(b *Broker, r *Req) rc.Msg {
	var gs []rc.Msg
	for _, x := range r.Body.Prims("groups") {
		id := x.(string)
		g := c.Groups[id]
		if g == nil {
			gs = append(gs, rc.Msg{"error_code": ErrNone, "group_id": id, "group_state": "Dead", "protocol_type": "", "protocol_data": "", "members": []rc.Msg{}})
			continue
		}
		if g.Coordinator != b.ID {
			gs = append(gs, rc.Msg{"error_code": ErrNotCoordinator, "group_id": id, "group_state": "", "protocol_type": "", "protocol_data": "", "members": []rc.Msg{}})
			continue
		}
		var ms []rc.Msg
		for _, m := range g.sortedMembers() {
			var meta []byte
			for _, p := range m.Protocols {
				if p.Name == g.Protocol {
					meta = p.Meta
				}
			}
			as := m.Assignment
			if as == nil {
				as = []byte{}
			}
			if meta == nil {
				meta = []byte{}
			}
			ms = append(ms, rc.Msg{"member_id": m.ID, "group_instance_id": nil, "client_id": m.ClientID, "client_host": "/10.0.0.1", "member_metadata": meta, "member_assignment": as})
		}
		if ms == nil {
			ms = []rc.Msg{}
		}
		gs = append(gs, rc.Msg{"error_code": ErrNone, "group_id": id, "group_state": g.State.String(), "protocol_type": g.ProtoType, "protocol_data": g.Protocol, "members": ms})
	}
	r.Applied = true
	return rc.Msg{"throttle_time_ms": int32(0), "groups": gs}
}

func (c *Cluster) listGroups(b *Broker, r *Req) rc.Msg {
	var ids []string
	for id, g := range c.Groups {
		if g.Coordinator == b.ID {
			ids = append(ids, id)
		}
	}
	sort.Strings(ids)
	gs := []rc.Msg{}
	for _, id := range ids {
		gs = append(gs, rc.Msg{"group_id": id, "protocol_type": c.Groups[id].ProtoType, "group_state": c.Groups[id].State.String()})
	}
	r.Applied = true
	return rc.Msg{"throttle_time_ms": int32(0), "error_code": ErrNone, "groups": gs}
}
