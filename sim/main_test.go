// The library draws from the global math/rand source (randomBalancer, backoff
// jitter); RunOne re-seeds it per run, which only has an effect with the
// pre-1.24 semantics of rand.Seed.
//
//go:debug randseednop=0
package sim

import (
	"bufio"
	"encoding/json"
	"flag"
	"fmt"
	"os"
	"runtime"
	"strings"
	"testing"
	"time"
)

var (
	fScenario = flag.String("sim.scenario", "", "scenario name")
	fSeed     = flag.Uint64("sim.seed", 1, "VERIF_SEED")
	fFrom     = flag.Uint64("sim.from", 0, "first run index")
	fStride   = flag.Uint64("sim.stride", 1, "run index stride (number of workers)")
	fCount    = flag.Uint64("sim.count", 0, "max number of runs (0 = until budget)")
	fBudget   = flag.Duration("sim.budget", 10*time.Second, "wall-clock budget")
	fOut      = flag.String("sim.out", "", "output file (JSON lines)")
	fReplay   = flag.String("sim.replay", "", "replay file")
	fTrace    = flag.Bool("sim.trace", false, "keep full trace")
	fParams   = flag.String("sim.params", "", "k=v,k=v scenario parameters")
	fMaxStep  = flag.Int("sim.maxstep", 0, "step budget per run")
	fDump     = flag.String("sim.dump", "", "write full event logs of every run to this file")
	fParallel = flag.Bool("sim.parallel", false, "do not pin to one P (race flavour)")
	fStopOnV  = flag.Bool("sim.stop", true, "stop at first violation")
)

// RunLine is one line of worker output.
type RunLine struct {
	Run        uint64              `json:"run"`
	Digest     string              `json:"digest"`
	Sig        string              `json:"sig"`
	Steps      int                 `json:"steps"`
	SimMs      int64               `json:"sim_ms"`
	WallUs     int64               `json:"wall_us"`
	Ended      string              `json:"ended"`
	Stats      map[string]int      `json:"stats,omitempty"`
	Overlap    bool                `json:"overlap,omitempty"`
	Preempts   int                 `json:"preempts,omitempty"`
	Violations []Violation         `json:"violations,omitempty"`
	Leak       string              `json:"leak,omitempty"`
	Panic      string              `json:"panic,omitempty"`
	Tape       map[string][]uint32 `json:"tape,omitempty"`
	Trace      []string            `json:"trace,omitempty"`
	Notes      map[string]any      `json:"notes,omitempty"`
}

func parseParams(s string) map[string]string {
	m := map[string]string{}
	for _, kv := range strings.Split(s, ",") {
		if kv == "" {
			continue
		}
		k, v, _ := strings.Cut(kv, "=")
		m[k] = v
	}
	return m
}

func toLine(r RunResult, full bool) RunLine {
	l := RunLine{Run: r.Run, Digest: fmt.Sprintf("%016x", r.Digest), Sig: fmt.Sprintf("%016x", r.Sig), Steps: r.Steps,
		SimMs: r.SimTime.Milliseconds(), WallUs: r.Wall.Microseconds(), Ended: r.Ended, Stats: r.Stats, Overlap: r.Overlap,
		Preempts: r.Preempts, Violations: r.Violations, Leak: r.Leak, Panic: r.Panic, Notes: r.Notes}
	if full {
		l.Tape = r.Tape
		l.Trace = r.Trace
	}
	return l
}

func TestSim(t *testing.T) {
	if *fScenario == "" {
		t.Skip("no -sim.scenario")
	}
	sc, ok := Scenarios[*fScenario]
	if !ok {
		fmt.Fprintf(os.Stderr, "unknown scenario %q\n", *fScenario)
		os.Exit(2)
	}
	// one P: goroutine ids (the stable sort key of the parked set) are handed
	// out from per-P caches, so they are only reproducible with a single P
	if !*fParallel {
		runtime.GOMAXPROCS(1)
	}
	StartWatchdog(60 * time.Second)
	params := parseParams(*fParams)
	var out *bufio.Writer
	if *fOut != "" {
		f, err := os.Create(*fOut)
		if err != nil {
			fmt.Fprintln(os.Stderr, err)
			os.Exit(2)
		}
		defer f.Close()
		out = bufio.NewWriter(f)
		defer out.Flush()
	}
	var dump *bufio.Writer
	if *fDump != "" {
		f, err := os.Create(*fDump)
		if err != nil {
			fmt.Fprintln(os.Stderr, err)
			os.Exit(2)
		}
		defer f.Close()
		dump = bufio.NewWriter(f)
		defer dump.Flush()
	}
	emit := func(l RunLine) {
		b, _ := json.Marshal(l)
		if out != nil {
			out.Write(b)
			out.WriteByte('\n')
			out.Flush()
		} else {
			fmt.Println(string(b))
		}
	}

	if *fReplay != "" {
		b, err := os.ReadFile(*fReplay)
		if err != nil {
			fmt.Fprintln(os.Stderr, err)
			os.Exit(2)
		}
		var rf ReplayFile
		if err := json.Unmarshal(b, &rf); err != nil {
			fmt.Fprintln(os.Stderr, err)
			os.Exit(2)
		}
		for k, v := range rf.Params {
			if _, ok := params[k]; !ok {
				params[k] = v
			}
		}
		tape := NewReplayTape(rf.Seed, rf.Run, rf.Tape)
		if rf.Tape == nil {
			tape = NewTape(rf.Seed, rf.Run) // replay by seed
		}
		keep := 400
		if os.Getenv("VERIF_FULLTRACE") != "" {
			keep = 0
		}
		if dump != nil {
			keep = 0 // the whole trace goes to the dump file
		}
		r := RunOne(t, tape, sc, RunOpts{Free: *fParallel, Trace: true, TraceKeep: keep, MaxStep: *fMaxStep, Params: params})
		addRaces(&r)
		if dump != nil {
			for _, l := range r.Trace {
				dump.WriteString(l)
				dump.WriteByte('\n')
			}
			r.Trace = nil
		}
		emit(toLine(r, true))
		return
	}

	deadline := time.Now().Add(*fBudget)
	var n uint64
	for run := *fFrom; ; run += *fStride {
		if *fCount > 0 && n >= *fCount {
			break
		}
		if *fCount == 0 && time.Now().After(deadline) {
			break
		}
		n++
		if *fOut != "" {
			os.WriteFile(*fOut+".cur", []byte(fmt.Sprint(run)), 0o644)
		}
		tape := NewTape(*fSeed, run)
		r := RunOne(t, tape, sc, RunOpts{Free: *fParallel, Trace: *fTrace || dump != nil, TraceKeep: traceKeep(dump != nil || *fTrace), MaxStep: *fMaxStep, Params: params})
		addRaces(&r)
		bad := len(r.Violations) > 0 || r.Panic != ""
		if dump != nil {
			fmt.Fprintf(dump, "== run %d digest %016x steps %d ended %s\n", r.Run, r.Digest, r.Steps, r.Ended)
			for _, l := range r.Trace {
				dump.WriteString(l)
				dump.WriteByte('\n')
			}
		}
		emit(toLine(r, bad || *fTrace))
		if bad && *fStopOnV {
			break
		}
	}
	if *fParallel {
		// the testing package marks the test failed when the race detector
		// reported anything; the reports are in the result lines
		if out != nil {
			out.Flush()
		}
		os.Exit(0)
	}
}

// race flavour: the reports the detector wrote during the run become
// violations of C10 (races purely inside the harness are machinery trouble)
var raceTail *raceLogTail

func addRaces(r *RunResult) {
	if !*fParallel {
		return
	}
	if raceTail == nil {
		raceTail = newRaceLogTail(os.Getenv("VERIF_RACELOG"))
	}
	viol, harness := raceViolations(raceTail.Next())
	r.Violations = append(r.Violations, viol...)
	for _, h := range harness {
		r.Violations = append(r.Violations, Violation{Property: "SIM", Rule: "harness-race", Msg: h})
	}
}

func traceKeep(all bool) int {
	if all {
		return 0
	}
	return 200
}
