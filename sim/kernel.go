package sim

import (
	"container/heap"
	"context"
	"fmt"
	"hash/fnv"
	"math/rand"
	"os"
	"runtime"
	"runtime/debug"
	"sort"
	"strings"
	"sync"
	"sync/atomic"
	"testing"
	"testing/synctest"
	"time"

	"github.com/segmentio/kafka-go/zsimrt"
)

// Violation is one oracle failure.
type Violation struct {
	Property string
	Rule     string
	Msg      string
	Step     int
}

// Event is a timed simulator event (network delivery, fault, broker action).
type Event struct {
	At   time.Duration
	Seq  uint64
	Name string
	Run  func()
	idx  int
}

type eventHeap []*Event

func (h eventHeap) Len() int { return len(h) }
func (h eventHeap) Less(i, j int) bool {
	if h[i].At != h[j].At {
		return h[i].At < h[j].At
	}
	return h[i].Seq < h[j].Seq
}
func (h eventHeap) Swap(i, j int) { h[i], h[j] = h[j], h[i]; h[i].idx = i; h[j].idx = j }
func (h *eventHeap) Push(x any)   { e := x.(*Event); e.idx = len(*h); *h = append(*h, e) }
func (h *eventHeap) Pop() any     { o := *h; n := len(o); e := o[n-1]; *h = o[:n-1]; return e }
func (h eventHeap) peek() *Event  { return h[0] }

// Policy is the scheduling policy of a run (drawn from the cfg stream).
type Policy struct {
	YieldNum, YieldDen int // probability that an optional scheduling point parks
	StickyNum          int // out of 100: probability to continue the goroutine that ran last when it is parked
	MapShuffle         bool
}

// Sim is one simulated run.
type Sim struct {
	// Coalesce (race flavour): events due within this much simulated time of
	// the one being fired are fired with it
	Coalesce time.Duration
	stallDen int
	stallMax time.Duration
	T        *Tape
	Pol      Policy
	start    time.Time
	wake     chan struct{}
	q        eventHeap
	qmu      sync.Mutex
	seq      uint64
	Step     int
	MaxStep  int
	MaxTime  time.Duration

	digest    uint64 // running FNV of the event log
	sig       uint64 // schedule signature (kinds only)
	traceOn   bool
	trace     []string
	traceKeep int

	lastG   int64
	onStep  []func()
	doneFn  func() bool
	atEnd   []func()
	viol    []Violation
	Stats   map[string]int
	Ended   string
	actors  int32
	preempt int

	// observations
	Overlap bool

	// Free: the race flavour. Goroutines are not serialised (the race detector
	// has to see what the library's own synchronisation orders and nothing
	// else); the driver only runs timed events and waits for quiescence.
	Free  bool
	hmu   sync.Mutex   // guards viol and Stats against free-running goroutines
	stepA atomic.Int64 // mirror of Step for readers outside the driver
}

// StepNow is the driver step as seen from any goroutine.
func (s *Sim) StepNow() int { return int(s.stepA.Load()) }

var curSim atomic.Pointer[Sim]

// progress counter watched by the out-of-bubble wall-clock watchdog
var progress atomic.Uint64
var watchdogInfo atomic.Value // string

func (s *Sim) Now() time.Duration { return time.Since(s.start) }

// After schedules f to run in the driver at Now()+d.
func (s *Sim) After(d time.Duration, name string, f func()) *Event {
	if d < 0 {
		d = 0
	}
	s.qmu.Lock()
	defer s.qmu.Unlock()
	s.seq++
	e := &Event{At: s.Now() + d, Seq: s.seq, Name: name, Run: f}
	heap.Push(&s.q, e)
	if s.Free {
		// the driver may be asleep until a later instant: have it look again
		s.notify()
	}
	return e
}

// Cancel removes a scheduled event.
func (s *Sim) Cancel(e *Event) {
	s.qmu.Lock()
	defer s.qmu.Unlock()
	if e != nil && e.idx >= 0 && e.idx < len(s.q) && s.q[e.idx] == e {
		heap.Remove(&s.q, e.idx)
		e.idx = -1
	}
}

// Fail records a violation; the run stops at the next driver step.
func (s *Sim) Fail(prop, rule, format string, a ...any) {
	s.hmu.Lock()
	defer s.hmu.Unlock()
	for _, v := range s.viol {
		if v.Property == prop && v.Rule == rule {
			return // one report per rule and run is enough
		}
	}
	s.viol = append(s.viol, Violation{Property: prop, Rule: rule, Msg: fmt.Sprintf(format, a...), Step: s.StepNow()})
}

func (s *Sim) Failed() bool { s.hmu.Lock(); defer s.hmu.Unlock(); return len(s.viol) > 0 }

func (s *Sim) Count(k string) { s.hmu.Lock(); s.Stats[k]++; s.hmu.Unlock() }

func (s *Sim) OnStep(f func())        { s.onStep = append(s.onStep, f) }
func (s *Sim) DoneWhen(f func() bool) { s.doneFn = f }
func (s *Sim) AtEnd(f func())         { s.atEnd = append(s.atEnd, f) }
func (s *Sim) Tracef(f string, a ...any) {
	if s.traceOn {
		s.addTrace(fmt.Sprintf("    | "+f, a...))
	}
}

func (s *Sim) addTrace(l string) {
	s.trace = append(s.trace, l)
	if s.traceKeep > 0 && len(s.trace) > 2*s.traceKeep {
		s.trace = append(s.trace[:0], s.trace[len(s.trace)-s.traceKeep:]...)
	}
}

// Go starts an actor goroutine; it parks before running f.
func (s *Sim) Go(name string, f func()) {
	atomic.AddInt32(&s.actors, 1)
	ticket := zsimrt.Spawn()
	go func() {
		defer func() {
			atomic.AddInt32(&s.actors, -1)
			if s.Free {
				s.notify() // the driver may be asleep: the run may be over
			}
		}()
		zsimrt.EnterSeq("actor:"+name, ticket)
		f()
	}()
}

// Actors returns the number of actor goroutines still running.
func (s *Sim) Actors() int { return int(atomic.LoadInt32(&s.actors)) }

// Pause is a mandatory scheduling point for actors (between operations).
func (s *Sim) Pause(site string) { zsimrt.Park(site) }

// WaitDone blocks until ctx is done; like every wait of harness code that runs
// on a goroutine of the simulation it is bracketed by scheduling points, so
// that the goroutine parks after waking and the driver decides when it goes on
// (several goroutines woken at one instant would otherwise run in the order of
// the runtime's run queue).
func (s *Sim) WaitDone(ctx context.Context) {
	zsimrt.Recv("harness:ctx", ctx.Done())
}

// WaitDoneOrTimeout blocks until ctx is done (true) or d has passed (false).
func (s *Sim) WaitDoneOrTimeout(ctx context.Context, d time.Duration) bool {
	tm := time.NewTimer(d)
	defer tm.Stop()
	tok := zsimrt.Pre("harness:ctx-or-timer")
	select {
	case <-ctx.Done():
		zsimrt.Post(tok, "harness:ctx-or-timer")
		return true
	case <-tm.C:
		zsimrt.Post(tok, "harness:ctx-or-timer")
		return false
	}
}

// Sleep lets an actor sleep in simulated time.
func (s *Sim) Sleep(d time.Duration) { zsimrt.Sleep(d) }

func (s *Sim) logEvent(kind, key string) {
	h := fnv.New64a()
	var b [8]byte
	put := func(v uint64) {
		for i := 0; i < 8; i++ {
			b[i] = byte(v >> (8 * i))
		}
		h.Write(b[:])
	}
	put(s.digest)
	put(uint64(s.Step))
	put(uint64(s.Now()))
	h.Write([]byte(kind))
	h.Write([]byte(key))
	s.digest = h.Sum64()

	h2 := fnv.New64a()
	put2 := func(v uint64) {
		for i := 0; i < 8; i++ {
			b[i] = byte(v >> (8 * i))
		}
		h2.Write(b[:])
	}
	put2(s.sig)
	h2.Write([]byte(kind))
	h2.Write([]byte(siteOnly(key)))
	s.sig = h2.Sum64()

	if s.traceOn {
		s.addTrace(fmt.Sprintf("%6d %12v %-5s %s", s.Step, s.Now(), kind, key))
	}
}

func siteOnly(k string) string {
	if i := strings.IndexByte(k, ' '); i >= 0 {
		return k[i+1:]
	}
	return k
}

func (s *Sim) shouldYield(site string) bool {
	if s.Pol.YieldNum <= 0 {
		return false
	}
	if s.Pol.YieldNum >= s.Pol.YieldDen {
		return true
	}
	if s.T.Chance("preempt", s.Pol.YieldNum, s.Pol.YieldDen) {
		s.preempt++
		return true
	}
	return false
}

// EnableStalls lets goroutines lose the CPU for up to max of simulated time
// at one in den of the scheduling points where they yield (a slow or
// descheduled thread). Off unless a scenario asks for it: oracles that hold
// the library to exact instants do not.
func (s *Sim) EnableStalls(den int, max time.Duration) { s.stallDen, s.stallMax = den, max }

func (s *Sim) stall(site string) time.Duration {
	if s.stallDen <= 0 || s.Free {
		return 0
	}
	if s.T.Intn("stall", s.stallDen) != 0 {
		return 0
	}
	s.Stats["fault:goroutine-descheduled"]++
	return time.Duration(1+s.T.Intn("stall", int(s.stallMax/(10*time.Microsecond)))) * 10 * time.Microsecond
}

func (s *Sim) notify() {
	select {
	case s.wake <- struct{}{}:
	default:
	}
}

func (s *Sim) intn(stream string, n int) int {
	if stream == "maporder" && !s.Pol.MapShuffle {
		return 0
	}
	return s.T.Intn(stream, n)
}

// drive is the seeded scheduler: the bubble's root goroutine.
func (s *Sim) drive() {
	for {
		synctest.Wait()
		progress.Add(1)
		for _, f := range s.onStep {
			f()
		}
		if s.Failed() {
			s.Ended = "violation"
			return
		}
		if s.Step >= s.MaxStep {
			s.Ended = "steps"
			return
		}
		now := s.Now()
		if now >= s.MaxTime {
			s.Ended = "simtime"
			return
		}
		parked := zsimrt.Parked()
		// due events: all events whose time has come are enabled; among
		// events only the earliest (At,Seq) of each instant ordering is
		// offered first-come to keep per-connection FIFO order intact
		var due []*Event
		s.qmu.Lock()
		if len(s.q) > 0 && s.q.peek().At <= now {
			due = append(due, s.q.peek())
		}
		var nextAt time.Duration = -1
		if len(s.q) > 0 {
			nextAt = s.q.peek().At
		}
		s.qmu.Unlock()
		n := len(parked) + len(due)
		if n == 0 {
			if s.doneFn != nil && s.doneFn() {
				s.Ended = "done"
				return
			}
			// nothing enabled: let simulated time advance to the next timer
			// (a library timer, or the next simulator event)
			zsimrt.Tick()
			wait := s.MaxTime - now
			if nextAt >= 0 {
				if d := nextAt - now; d < wait {
					wait = d
				}
			}
			tm := quietTimer(wait)
			select {
			case <-s.wake:
				tm.Stop()
			case <-tm.C:
			}
			continue
		}
		if s.doneFn != nil && len(parked) == 0 && s.doneFn() {
			s.Ended = "done"
			return
		}
		if len(parked) > 1 {
			s.Overlap = true
		}
		// choose
		idx := -1
		if s.Pol.StickyNum > 0 && len(parked) > 0 {
			for i, g := range parked {
				if g.ID == s.lastG {
					if s.T.Chance("sched", s.Pol.StickyNum, 100) {
						idx = i
					}
					break
				}
			}
		}
		if idx < 0 {
			idx = s.T.Intn("sched", n)
		}
		s.Step++
		s.stepA.Store(int64(s.Step))
		if s.traceOn {
			var ids []string
			for _, g := range parked {
				ids = append(ids, fmt.Sprintf("g%d@%s", g.ID, g.Site))
			}
			s.addTrace(fmt.Sprintf("       parked=%v due=%d idx=%d draws=%d", ids, len(due), idx, s.T.Draws))
		}
		if idx < len(parked) {
			g := parked[idx]
			s.lastG = g.ID
			s.logEvent("run", fmt.Sprintf("g%d %s", g.ID, g.Site))
			zsimrt.Release(g)
		} else {
			s.qmu.Lock()
			e := heap.Pop(&s.q).(*Event)
			e.idx = -1
			s.qmu.Unlock()
			s.logEvent("event", e.Name)
			zsimrt.Tick()
			e.Run()
			// Race flavour: events that are due within the run's coalescing
			// window are fired back to back, without waiting for the
			// goroutines woken by the earlier ones to come to rest: their
			// bursts of activity then overlap in real time, as they do on a
			// real network (otherwise two goroutines woken by different
			// events would never run at the same time, and every access
			// would be ordered by whatever lock each burst takes first)
			for s.Free && s.Coalesce > 0 {
				s.qmu.Lock()
				var nx *Event
				if len(s.q) > 0 && s.q.peek().At <= now+s.Coalesce {
					nx = heap.Pop(&s.q).(*Event)
					nx.idx = -1
				}
				s.qmu.Unlock()
				if nx == nil {
					break
				}
				s.Step++
				s.logEvent("event", nx.Name)
				nx.Run()
				s.Count("events-coalesced")
			}
		}
	}
}

// RunResult is what one run produced.
type RunResult struct {
	Seed, Run  uint64
	Violations []Violation
	Steps      int
	SimTime    time.Duration
	Digest     uint64
	Sig        uint64
	Ended      string
	Stats      map[string]int
	Overlap    bool
	Preempts   int
	Trace      []string
	Tape       map[string][]uint32
	Leak       string
	Panic      string
	Wall       time.Duration
	Notes      map[string]any
}

// RunOpts configures one run.
type RunOpts struct {
	Free      bool // race flavour: goroutines run free and in parallel
	Trace     bool
	TraceKeep int
	MaxStep   int
	MaxTime   time.Duration
	Params    map[string]string
}

// ScenarioFunc sets up a scenario inside the bubble: it creates the cluster,
// the clients and the actors, and registers oracles. It must not block.
type ScenarioFunc func(s *Sim, params map[string]string)

// RunOne executes one run in its own synctest bubble.
func RunOne(t *testing.T, tape *Tape, sc ScenarioFunc, o RunOpts) (res RunResult) {
	res.Seed, res.Run = tape.Seed, tape.Run
	wall := time.Now()
	if o.MaxStep == 0 {
		o.MaxStep = 200000
	}
	if o.MaxTime == 0 {
		o.MaxTime = 10 * time.Minute
	}
	s := &Sim{T: tape, MaxStep: o.MaxStep, MaxTime: o.MaxTime, Stats: map[string]int{}, traceOn: o.Trace, traceKeep: o.TraceKeep}
	rand.Seed(int64(tape.Seed*1000003 + tape.Run)) //nolint:staticcheck // global source must be per-run deterministic
	watchdogInfo.Store(fmt.Sprintf("seed=%d run=%d", tape.Seed, tape.Run))
	zsimrt.RunStart() // process-wide caches of the library start empty
	runtime.GC()
	runtime.GC() // empties sync.Pools: pooled objects may hold channels of the previous bubble
	old := debug.SetGCPercent(-1)
	defer debug.SetGCPercent(old)

	func() {
		defer func() {
			if r := recover(); r != nil {
				msg := fmt.Sprint(r)
				if strings.Contains(msg, "deadlock: main bubble goroutine has exited but blocked goroutines remain") {
					res.Leak = msg
				} else {
					res.Panic = msg + "\n" + string(debug.Stack())
				}
			}
		}()
		// synctest.Test ends the calling goroutine (t.FailNow) when the bubble's
		// test is marked failed, which the testing package does by itself when
		// the race detector reported something during the run: give it a
		// goroutine of its own to end
		bubble := func(f func(t *testing.T)) {
			done := make(chan struct{})
			var pv any
			go func() {
				defer close(done)
				defer func() { pv = recover() }()
				synctest.Test(t, f)
			}()
			<-done
			if pv != nil {
				panic(pv)
			}
		}
		bubble(func(t *testing.T) {
			s.start = time.Now()
			s.wake = make(chan struct{}, 1)
			curSim.Store(s)
			// scheduling policy
			s.Pol = drawPolicy(tape, o.Params)
			s.Free = o.Free
			if !s.Free {
				zsimrt.Start(zsimrt.Hooks{ShouldYield: s.shouldYield, Stall: s.stall, Notify: s.notify, Intn: s.intn})
				// which ready case a select takes is part of the schedule
				zsimrt.SetSelectSeed(uint64(tape.Intn("sched", 1<<30))<<20 | 1)
				defer zsimrt.SetSelectSeed(0)
			}
			func() {
				defer func() {
					if r := recover(); r != nil {
						res.Panic = fmt.Sprint(r) + "\n" + string(debug.Stack())
						s.Ended = "panic"
					}
				}()
				sc(s, o.Params)
				s.drive()
				if !s.Failed() && s.Ended != "panic" {
					for _, f := range s.atEnd {
						f()
					}
				}
			}()
			res.SimTime = s.Now()
			zsimrt.Drain()
			curSim.Store(nil)
		})
	}()
	res.Violations = s.viol
	res.Steps = s.Step
	res.Digest = s.digest
	res.Sig = s.sig
	res.Ended = s.Ended
	res.Stats = s.Stats
	res.Overlap = s.Overlap
	res.Preempts = s.preempt
	res.Trace = s.trace
	res.Tape = tape.Recorded()
	res.Wall = time.Since(wall)
	return res
}

func drawPolicy(t *Tape, params map[string]string) Policy {
	p := Policy{YieldDen: 100}
	switch t.Intn("cfg", 6) {
	case 0:
		p.YieldNum = 0 // run-to-block
	case 1, 2:
		p.YieldNum = 100 // park-always
	case 3:
		p.YieldNum = 3
	case 4:
		p.YieldNum = 15
	case 5:
		p.YieldNum = 50
	}
	p.StickyNum = Pick(t, "cfg", 0, 0, 50, 80, 95)
	p.MapShuffle = t.Intn("cfg", 2) == 1
	if v, ok := params["yield"]; ok {
		fmt.Sscan(v, &p.YieldNum)
	}
	return p
}

// StartWatchdog starts the wall-clock watchdog (outside any bubble): if the
// driver makes no progress for the given real time the process exits with
// code 2 after dumping all goroutines (machinery trouble, never a violation).
func StartWatchdog(limit time.Duration) {
	go func() {
		last := progress.Load()
		lastChange := time.Now()
		for {
			time.Sleep(500 * time.Millisecond)
			cur := progress.Load()
			if cur != last {
				last, lastChange = cur, time.Now()
				continue
			}
			if time.Since(lastChange) > limit {
				info, _ := watchdogInfo.Load().(string)
				buf := make([]byte, 1<<20)
				n := runtime.Stack(buf, true)
				fmt.Fprintf(os.Stderr, "WATCHDOG: no driver progress for %v (%s)\n%s\n", limit, info, buf[:n])
				os.Exit(2)
			}
		}
	}()
}

// BubbleGoroutines returns the stacks of goroutines of the current bubble
// other than the caller, parsed from runtime.Stack.
func BubbleGoroutines() []string {
	buf := make([]byte, 8<<20)
	n := runtime.Stack(buf, true)
	gs := strings.Split(string(buf[:n]), "\n\n")
	// the current bubble is the one the calling goroutine (first entry) is in;
	// goroutines leaked by earlier runs live in other bubbles
	bubble := ""
	if len(gs) > 0 {
		h := strings.SplitN(gs[0], "\n", 2)[0]
		if i := strings.Index(h, "synctest bubble "); i >= 0 {
			bubble = strings.TrimRight(h[i:], "]:")
		}
	}
	var out []string
	for _, g := range gs {
		h := strings.SplitN(g, "\n", 2)[0]
		if bubble != "" && strings.Contains(h, bubble+"]") {
			out = append(out, g)
		}
	}
	sort.Strings(out)
	return out
}

// StuckReport condenses the stacks of the bubble's goroutines to their
// kafka-go / harness frames (for liveness violation messages).
func StuckReport(max int) string {
	var out []string
	for _, g := range BubbleGoroutines() {
		lines := strings.Split(g, "\n")
		var frames []string
		for _, l := range lines[1:] {
			if strings.HasPrefix(l, "github.com/segmentio/kafka-go") || strings.HasPrefix(l, "verif/sim.") {
				f := l
				if i := strings.Index(f, "("); i > 0 && !strings.HasPrefix(f[i:], "(*") {
					f = f[:i]
				}
				f = strings.TrimPrefix(f, "github.com/segmentio/kafka-go")
				if i := strings.LastIndex(f, "("); i > 0 && strings.HasSuffix(f, ")") {
					f = f[:i]
				}
				frames = append(frames, f)
				if len(frames) >= 4 {
					break
				}
			}
		}
		if len(frames) > 0 {
			out = append(out, strings.Join(frames, " < "))
		}
	}
	sort.Strings(out)
	if len(out) > max {
		out = out[:max]
	}
	return strings.Join(out, " || ")
}

// libraryGoroutines lists bubble goroutines that have a kafka-go frame
// (condensed), excluding the caller; "" if none.
func libraryGoroutines() string {
	var out []string
	for _, g := range BubbleGoroutines() {
		if !strings.Contains(g, "github.com/segmentio/kafka-go.") && !strings.Contains(g, "github.com/segmentio/kafka-go/protocol") {
			continue
		}
		if strings.Contains(g, "verif/sim.libraryGoroutines") {
			continue
		}
		var frames []string
		for _, l := range strings.Split(g, "\n")[1:] {
			if strings.HasPrefix(l, "github.com/segmentio/kafka-go") {
				f := strings.TrimPrefix(l, "github.com/segmentio/kafka-go")
				if i := strings.LastIndex(f, "("); i > 0 {
					f = f[:i]
				}
				frames = append(frames, f)
				if len(frames) >= 3 {
					break
				}
			}
		}
		out = append(out, strings.Join(frames, " < "))
	}
	sort.Strings(out)
	return strings.Join(out, " || ")
}
