package sim

import (
	"bytes"
	"context"
	"errors"
	"fmt"
	"io"
	"strings"
	"time"

	kafka "github.com/segmentio/kafka-go"
	rc "verif/sim/refcodec"
)

func init() { Scenarios["reader"] = readerScenario }

// LayoutOpts drives the physical log layout generator.
type LayoutOpts struct {
	Magics      []int8 // allowed formats
	Codecs      []int8
	Holes       bool // compaction holes inside batches
	EmptyBatch  bool // retained empty v2 batches
	MissingTail bool // batches whose last offsets were compacted away
	AbsInner    bool // v0/v1 compressed wrappers with absolute inner offsets
	Headers     bool
	Stream      string
	// LogAppend: some format-1/2 batches carry the LogAppendTime timestamp-type
	// attribute (all their records then share one timestamp, so that readers
	// that honour the flag and readers that ignore it agree)
	LogAppend bool
	// FarFuture: some batches carry timestamps around and beyond the largest
	// millisecond count whose nanoseconds fit an int64 (year 2262), up to the
	// largest int64
	FarFuture bool
	// BigZstd: some zstd batches hold one value of 140-200 KiB and are
	// compressed by a streaming encoder set up for a 16 or 32 MiB window, which
	// the frame header then announces (producers at high compression levels)
	BigZstd bool
	// Txns: some format-2 batches belong to a transaction and are followed by
	// its commit or abort marker (a control batch); aborted ones are listed in
	// the aborted-transactions index of read_committed fetch responses
	Txns bool
}

// genBatch builds one physical batch holding `n` consecutive offsets starting
// at `base`, then applies compaction according to the options.
func genBatch(t *Tape, o LayoutOpts, base int64, n int, ts *int64, tag string) rc.Batch {
	st := o.Stream
	magic := o.Magics[t.Intn(st, len(o.Magics))]
	codec := o.Codecs[t.Intn(st, len(o.Codecs))]
	if magic < 2 && codec == 4 {
		codec = 1
	}
	b := rc.Batch{Magic: magic, Codec: codec, BaseOffset: base, LastOffsetDelta: int32(n - 1), ProducerID: -1, ProducerEpoch: -1, BaseSequence: -1, PartitionLeaderEpoch: 0}
	keys := [][]byte{nil, {}, []byte("k"), []byte("key-longer")}
	bigAt := -1
	if o.BigZstd && codec == 4 && magic == 2 && t.Intn("bigz", 3) == 0 {
		b.ZstdWindow = Pick(t, "bigz", 1<<24, 1<<25)
		bigAt = t.Intn("bigz", n)
	}
	far := int64(-1)
	if o.FarFuture && t.Intn(st, 5) == 0 {
		far = []int64{9223372036854 - 2, 9223372036854775807 - int64(n), 1 << 53}[t.Intn(st, 3)]
	}
	for i := 0; i < n; i++ {
		off := base + int64(i)
		*ts += int64(t.Intn(st, 3))
		pad := Pick(t, st, 0, 0, 3, 30, 200)
		if i == bigAt {
			pad = 140000 + t.Intn("bigz", 60000)
		}
		val := append([]byte(fmt.Sprintf("%s%d|", tag, off)), bytes.Repeat([]byte{'v'}, pad)...)
		r := rc.Record{Offset: off, Timestamp: *ts, Key: keys[t.Intn(st, len(keys))], Value: val}
		if far >= 0 {
			r.Timestamp = far + int64(i)
		}
		if magic == 0 {
			r.Timestamp = -1
		}
		if magic == 2 && o.Headers && t.Intn(st, 3) == 0 {
			r.Headers = []rc.Header{{Key: "h1", Value: []byte("x")}, {Key: "h2", Value: nil}}[:t.Range(st, 1, 2)]
		}
		b.Records = append(b.Records, r)
	}
	if o.LogAppend && magic >= 1 && t.Intn(st, 5) == 0 {
		b.LogAppendTime = true
		for i := range b.Records {
			b.Records[i].Timestamp = b.Records[0].Timestamp
		}
	}
	if magic == 2 {
		b.FirstTimestamp = b.Records[0].Timestamp
		b.MaxTimestamp = b.Records[n-1].Timestamp
	}
	if magic < 2 && codec != 0 {
		b.RelativeInner = magic == 1 && !(o.AbsInner && t.Intn(st, 2) == 0)
		if magic == 0 {
			b.RelativeInner = false
		}
		b.BaseOffset = base + int64(n-1)
		b.MaxTimestamp = b.Records[n-1].Timestamp
	}
	// compaction
	compactable := magic == 2 || (magic == 1 && codec != 0)
	if compactable && n > 1 {
		switch {
		case o.EmptyBatch && magic == 2 && t.Intn(st, 8) == 0:
			b.Records = nil
			b.Codec = 0 // the log cleaner writes a header-only batch (no compression attribute, no payload)
		case o.Holes && t.Intn(st, 3) == 0:
			var keep []rc.Record
			for i, r := range b.Records {
				last := i == n-1
				if last && !(o.MissingTail && magic == 2) {
					keep = append(keep, r) // the last offset survives unless tails may go missing
					continue
				}
				if t.Intn(st, 2) == 0 {
					keep = append(keep, r)
				}
			}
			if len(keep) == 0 && magic != 2 {
				keep = b.Records[n-1:]
			}
			b.Records = keep
		}
	}
	if len(b.Records) == 0 {
		b.Codec = 0 // header-only batch
	}
	return b
}

// genLog fills a partition with a generated physical layout.
func genLog(t *Tape, c *Cluster, p *Partition, o LayoutOpts, start int64, nBatches int, tag string) {
	p.LogStart = start
	p.LEO = start
	ts := int64(1600000000000)
	for i := 0; i < nBatches; i++ {
		n := t.Range(o.Stream, 1, 6)
		b := genBatch(t, o, p.LEO, n, &ts, tag)
		txn := o.Txns && b.Magic == 2 && len(b.Records) > 0 && t.Intn("txn", 3) == 0
		if txn {
			b.Transactional, b.ProducerID, b.ProducerEpoch, b.BaseSequence = true, int64(4000+i), 0, 0
		}
		c.AppendPhysical(p, b, n)
		if txn {
			abort := t.Intn("txn", 2) == 0
			kind := byte(1)
			if abort {
				kind = 0
				p.Aborted = append(p.Aborted, AbortedTxn{ProducerID: b.ProducerID, First: b.BaseOffset, Last: p.LEO})
			}
			off := p.LEO
			c.AppendPhysical(p, rc.Batch{Magic: 2, Control: true, Transactional: true, BaseOffset: off, ProducerID: b.ProducerID, ProducerEpoch: 0, BaseSequence: -1,
				FirstTimestamp: ts, MaxTimestamp: ts, Records: []rc.Record{{Offset: off, Timestamp: ts, Key: []byte{0, 0, 0, kind}, Value: []byte{0, 0, 0, 0, 0, 0}}}}, 1)
		}
	}
}

type readerState struct {
	s           *Sim
	cl          *Cluster
	p           *Partition
	r           *kafka.Reader
	pos         int64 // next expected offset (absolute); -1 = relative start pending
	lo          int64 // for a pending relative start: LEO/LogStart when the position was set
	relKind     int64 // kafka.FirstOffset / kafka.LastOffset while pending
	delivered   int
	removed     map[int64]time.Duration // offsets removed by retention -> when
	faultsUntil time.Duration
	timing      bool
	// concurrent SetOffset (seeker mode): the position is then one of up to
	// two values until the next delivery tells which
	alt                int64 // alternative position, -2 = none
	inFetch            bool
	seeked             bool    // a SetOffset overlapped the FetchMessage call in progress
	cands              []int64 // positions the call in progress may still be served from
	seekInFlight       bool
	pendingTarget      int64
	fetchRetDuringSeek bool
	lastDelivered      int64
}

// storedAtOrAfter returns the stored record with the smallest offset >= off
// among records ever stored (retention-removed ones included, flagged).
func (st *readerState) storedAtOrAfter(off int64) (rec *rc.Record, ok bool) {
	for _, b := range st.p.AllBatches {
		if b.Control {
			continue
		}
		for i := range b.Records {
			if b.Records[i].Offset >= off {
				return &b.Records[i], true
			}
		}
	}
	return nil, false
}

// storedAny is storedAtOrAfter with the records of control batches
// (transaction markers) included. kafka-go hands those to the application as
// ordinary messages; the Java client filters them. The property says nothing
// about transactional logs, so a marker may be delivered (as stored) or skipped.
func (st *readerState) storedAny(off int64) (rec *rc.Record, control, ok bool) {
	for _, b := range st.p.AllBatches {
		for i := range b.Records {
			if b.Records[i].Offset >= off {
				return &b.Records[i], b.Control, true
			}
		}
	}
	return nil, false, false
}

func (st *readerState) beginFetch() {
	st.inFetch, st.seeked, st.cands = true, false, nil
	if st.seekInFlight {
		// invoked while a SetOffset has not returned yet: not a "later call"
		st.seeked = true
		st.cands = append(st.cands, st.pos)
		if st.alt != -2 {
			st.cands = append(st.cands, st.alt)
		}
	}
}

func (st *readerState) endFetch() { st.inFetch, st.seeked, st.cands = false, false, nil }

// matchFrom checks m against the reader being positioned at `pos` (-1: the
// pending relative start); it returns the rule and text of the first
// discrepancy, or "" when m is exactly what a reader at that position delivers.
func (st *readerState) matchFrom(pos int64, m kafka.Message) (rule, msg string) {
	if m.Topic != st.p.Topic || m.Partition != int(st.p.ID) {
		return "R1-topic-partition", fmt.Sprintf("delivered message carries %s[%d], reader bound to %s[%d]", m.Topic, m.Partition, st.p.Topic, st.p.ID)
	}
	from := pos
	if pos < 0 {
		// relative start: resolved against the log when the fetcher asked
		switch st.relKind {
		case kafka.LastOffset:
			if m.Offset < st.lo {
				return "R2-last-offset", fmt.Sprintf("reader positioned at LastOffset (log end was %d when positioned) delivered offset %d", st.lo, m.Offset)
			}
			from = m.Offset // any resolution point between then and now is legitimate
			// but it must be a stored record and the first one at/after some log end in [lo, now]
		case kafka.FirstOffset:
			from = st.lo
		}
	}
	if pos >= 0 && m.Offset < from {
		return "R1-rewind", fmt.Sprintf("delivered offset %d is below the reader's position %d (already delivered or skipped); fetch before the rewind: %s", m.Offset, from, st.rewindDiag())
	}
	// walk stored records from `from`: every skipped record must have been removed by retention
	off := from
	for {
		rec, control, ok := st.storedAny(off)
		if !ok {
			return "R1-fabricated", fmt.Sprintf("delivered offset %d but no stored record at or after position %d", m.Offset, off)
		}
		if control && rec.Offset < m.Offset {
			off = rec.Offset + 1 // a transaction marker may be skipped
			continue
		}
		if control && rec.Offset == m.Offset {
			st.s.Count("transaction-marker-delivered-as-message")
		}
		if rec.Offset > m.Offset {
			return "R1-fabricated", fmt.Sprintf("delivered offset %d (value %q) is not a stored record (next stored record at or after position %d is %d); %s; record with that value: %s; layout: %s", m.Offset, trunc(m.Value), off, rec.Offset, st.batchDiag(rec.Offset), st.valueDiag(m.Value), st.layoutDiag(m.Offset))
		}
		if rec.Offset == m.Offset {
			// field equality
			if !bytes.Equal(rec.Value, m.Value) || !bytes.Equal(rec.Key, m.Key) {
				return "R1-content", fmt.Sprintf("offset %d: delivered key/value %q/%q, stored %q/%q", m.Offset, trunc(m.Key), trunc(m.Value), trunc(rec.Key), trunc(rec.Value))
			}
			if len(rec.Headers) != len(m.Headers) {
				return "R1-headers", fmt.Sprintf("offset %d: delivered %d headers, stored %d", m.Offset, len(m.Headers), len(rec.Headers))
			}
			for i := range rec.Headers {
				if rec.Headers[i].Key != m.Headers[i].Key || !bytes.Equal(rec.Headers[i].Value, m.Headers[i].Value) {
					return "R1-headers", fmt.Sprintf("offset %d: header %d differs", m.Offset, i)
				}
			}
			if rec.Timestamp >= 0 && m.Time.UnixMilli() != rec.Timestamp {
				return "R1-timestamp", fmt.Sprintf("offset %d: delivered time %d ms, stored %d ms", m.Offset, m.Time.UnixMilli(), rec.Timestamp)
			}
			return "", ""
		}
		// rec.Offset < m.Offset: skipped
		if _, gone := st.removed[rec.Offset]; !gone {
			return "R1-skipped", fmt.Sprintf("delivered offset %d while stored record %d (at or after position %d) was never delivered", m.Offset, rec.Offset, from)
		}
		off = rec.Offset + 1
	}
}

// checkDelivered checks a message returned by FetchMessage and advances the
// model's position. A call that overlapped a SetOffset from another goroutine
// may have been served from the position before it or from its target; calls
// made after SetOffset returned are served from its target.
func (st *readerState) checkDelivered(m kafka.Message, callInvoke int) {
	if len(m.Value) > 100000 {
		st.s.Count("delivered-from-large-window-zstd-batch")
	}
	defer func() {
		st.delivered++
		st.lastDelivered = m.Offset
	}()
	if !st.seeked && !st.seekInFlight {
		rule, msg := st.matchFrom(st.pos, m)
		if rule != "" && st.alt != -2 {
			// the earlier ambiguity resolves the other way
			if r2, _ := st.matchFrom(st.alt, m); r2 == "" {
				rule = ""
				st.s.Count("seek-ambiguity-resolved")
			}
		}
		if rule != "" {
			st.fail(rule, "%s", msg)
			return
		}
		st.pos, st.alt = m.Offset+1, -2
		return
	}
	// overlapped by one or more SetOffset calls
	target := st.pos
	old := append([]int64(nil), st.cands...)
	if st.seekInFlight {
		// not yet returned: the current model position is still an old one
		old = append(old, st.pos)
		if st.alt != -2 {
			old = append(old, st.alt)
		}
		target = st.pendingTarget
		st.fetchRetDuringSeek = true
	}
	matchedOld := false
	for _, c := range old {
		if r, _ := st.matchFrom(c, m); r == "" {
			matchedOld = true
		}
	}
	ruleNew, msgNew := st.matchFrom(target, m)
	st.s.Count("fetch-overlapped-by-setoffset")
	switch {
	case matchedOld && ruleNew == "":
		st.pos, st.alt = m.Offset+1, target
	case matchedOld:
		st.pos, st.alt = target, -2 // a delivery from before the SetOffset does not move the new position
		st.s.Count("stale-delivery-after-setoffset")
	case ruleNew == "":
		st.pos, st.alt = m.Offset+1, -2
	default:
		st.fail(ruleNew, "FetchMessage overlapped by SetOffset(%d) from another goroutine (positions before it: %v) matches neither: %s", target, old, msgNew)
	}
}

func readerScenario(s *Sim, params map[string]string) {
	t := s.T
	n := NewNet(s)
	// latency is never zero here: a Reader whose MaxWait is below the library's
	// RTT allowance polls with max_wait 0, which at zero latency is an endless
	// loop within one simulated instant
	n.MinLatency = time.Duration(t.Range("cfg", 2, 20)) * 100 * time.Microsecond
	n.MaxLatency = n.MinLatency + time.Duration(t.Range("cfg", 0, 5))*time.Millisecond
	cl := NewCluster(s, n)
	cl.ExpectClientID = "sim-reader"
	nb := t.Range("cfg", 1, 3)
	fetchCeil := Pick(t, "cfg", int16(11), 10, 5, 4, 3, 2)
	for i := 1; i <= nb; i++ {
		b := cl.AddBroker(int32(i), "")
		b.Versions[1] = [2]int16{0, fetchCeil}
		b.Versions[3] = [2]int16{0, Pick(t, "cfg", int16(8), 6, 5, 1)}
		b.Versions[0] = [2]int16{0, Pick(t, "cfg", int16(8), 7, 3, 2)}
	}
	nparts := t.Range("cfg", 1, 3)
	top := cl.AddTopic("rt", nparts, func(int) int32 { return int32(1 + t.Intn("cfg", nb)) })
	part := t.Intn("cfg", nparts)
	p := top.Parts[part]

	lo := LayoutOpts{Stream: "layout", Headers: true}
	switch t.Intn("cfg", 5) {
	case 0:
		lo.Magics = []int8{2}
	case 1:
		lo.Magics = []int8{1}
	case 2:
		lo.Magics = []int8{0}
	case 3:
		lo.Magics = []int8{0, 1}
	case 4:
		lo.Magics = []int8{0, 1, 2}
	}
	if fetchCeil < 5 { // Conn negotiates among v2, v5, v10 only: below 5 it speaks v2
		// brokers down-convert for old fetch versions; keep the stored formats old too in most runs
		// (down-conversion is broker behaviour; it would also drop headers)
		lo.Magics = [][]int8{{0, 1}, {1}, {0}}[t.Intn("cfg", 3)]
	}
	lo.Codecs = [][]int8{{0}, {0, 1, 2, 3, 4}, {1}, {2}, {3}, {4}, {0, 2}}[t.Intn("cfg", 7)]
	lo.Holes = t.Intn("cfg", 3) == 0
	lo.EmptyBatch = lo.Holes && t.Intn("cfg", 2) == 0
	lo.MissingTail = lo.Holes && t.Intn("cfg", 2) == 0
	lo.AbsInner = t.Intn("cfg", 4) == 0
	lo.FarFuture = t.Intn("farfuture", 3) == 0
	lo.LogAppend = t.Intn("farfuture", 3) == 0
	lo.BigZstd = t.Intn("bigz", 3) == 0
	lo.Txns = t.Intn("txn", 3) == 0
	if v := params["layout"]; v == "plain" {
		lo.Holes, lo.EmptyBatch, lo.MissingTail, lo.AbsInner = false, false, false, false
	}
	start := int64(Pick(t, "cfg", 0, 0, 7, 100))
	genLog(t, cl, p, lo, start, t.Range("cfg", 0, 12), "r")
	cl.TruncateAtMaxBytes = t.Intn("cfg", 2) == 0

	st := &readerState{s: s, cl: cl, p: p, removed: map[int64]time.Duration{}, alt: -2, lastDelivered: -1}
	// seeker mode: SetOffset is called from a second goroutine while the
	// consumer may be blocked in FetchMessage
	seeker := t.Intn("cfg", 4) == 0
	if v, ok := params["seeker"]; ok {
		seeker = v == "1"
	}
	fmode := t.Intn("cfg", 5)
	if v, ok := params["faults"]; ok {
		fmt.Sscan(v, &fmode)
	}
	apis := map[int16]bool{1: true, 2: true, 3: true}
	switch fmode {
	case 0, 1:
	case 2:
		cl.F = FaultCfg{ErrorCode: Pick(t, "cfg", 50, 200), APIs: apis}
	case 3:
		cl.F = FaultCfg{CutInResponse: Pick(t, "cfg", 50, 200), CutBeforeApply: Pick(t, "cfg", 0, 50), CutAfterApply: Pick(t, "cfg", 0, 50), APIs: apis}
		st.timing = true
	case 4:
		cl.F = FaultCfg{CutInResponse: 60, CutBeforeApply: 30, ErrorCode: 80, Slow: 40, Stall: 10, SlowMin: 50 * time.Millisecond, SlowMax: time.Second, APIs: apis}
		st.timing = true
	}
	cl.F.Until = time.Duration(t.Range("cfg", 2, 8)) * time.Second
	st.faultsUntil = cl.F.Until

	maxBytes := Pick(t, "cfg", 1<<20, 1<<20, 4000, 600, 150)
	if fetchCeil < 5 && maxBytes < 4000 {
		// fetch v2 has no KIP-74 guarantee: a batch larger than the partition
		// limit can never be consumed (by any client), so keep the limit above
		// the largest batch this scenario generates
		maxBytes = 4000
	}
	minBytes := Pick(t, "cfg", 1, 1, 10, 500)
	if minBytes > maxBytes {
		minBytes = maxBytes
	}
	cfg := kafka.ReaderConfig{
		Brokers:          []string{cl.Brokers[0].Addr()},
		Topic:            "rt",
		Partition:        part,
		Dialer:           &kafka.Dialer{DialFunc: n.Dialer("reader"), ClientID: "sim-reader", Timeout: 3 * time.Second},
		MinBytes:         minBytes,
		MaxBytes:         maxBytes,
		IsolationLevel:   Pick(t, "txn", kafka.ReadUncommitted, kafka.ReadCommitted),
		MaxWait:          Pick(t, "cfg", 100*time.Millisecond, 500*time.Millisecond, 2*time.Second, 10*time.Second),
		QueueCapacity:    Pick(t, "cfg", 1, 2, 100),
		ReadBatchTimeout: Pick(t, "cfg", 10*time.Second, time.Second),
		ReadBackoffMin:   10 * time.Millisecond,
		ReadBackoffMax:   Pick(t, "cfg", 50*time.Millisecond, time.Second),
		MaxAttempts:      Pick(t, "cfg", 1, 3),
	}
	r := kafka.NewReader(cfg)
	st.r = r
	// initial position
	setPos := func(o int64) {
		switch o {
		case kafka.FirstOffset:
			if st.pos < 0 && st.relKind == kafka.FirstOffset {
				return
			}
			st.pos, st.relKind, st.lo = -1, kafka.FirstOffset, p.LogStart
		case kafka.LastOffset:
			if st.pos < 0 && st.relKind == kafka.LastOffset {
				// SetOffset(LastOffset) while already positioned at LastOffset and
				// nothing delivered since: the running fetcher keeps its earlier
				// resolution, which is a legitimate reading of "the last offset"
				return
			}
			st.pos, st.relKind, st.lo = -1, kafka.LastOffset, p.LEO
		default:
			st.pos = o
			if o < p.LogStart {
				// positions below the log start are moved to the log start by the reader
			}
		}
	}
	beyondOK := t.Intn("cfg", 2) == 0
	pickOffset := func() int64 {
		switch t.Intn("work", 6) {
		case 0:
			return kafka.FirstOffset
		case 1:
			return kafka.LastOffset
		case 2:
			// a position the partition has not reached yet: the reader waits
			// for it and resumes exactly there
			if beyondOK {
				return p.LEO + int64(t.Range("work", 1, 4))
			}
			fallthrough
		default:
			if p.LEO == p.LogStart {
				return p.LogStart
			}
			return p.LogStart + int64(t.Intn("work", int(p.LEO-p.LogStart)+1))
		}
	}
	// NewReader without group starts at FirstOffset
	setPos(kafka.FirstOffset)
	if t.Intn("cfg", 2) == 0 || seeker {
		o := pickOffset()
		if seeker && o < 0 {
			o = p.LogStart // (absolute positions only in seeker mode)
		}
		if err := r.SetOffset(o); err != nil {
			s.Fail("C02", "R2-setoffset-error", "SetOffset(%d): %v", o, err)
		}
		setPos(o)
	}

	// background producer and retention
	ts := int64(1600000100000)
	nAppend := t.Range("cfg", 0, 10)
	for i := 0; i < nAppend; i++ {
		at := time.Duration(t.Range("layout", 1, 6000)) * time.Millisecond
		s.After(at, "append", func() {
			k := t.Range("layout", 1, 4)
			b := genBatch(t, LayoutOpts{Magics: lo.Magics, Codecs: lo.Codecs, Stream: "layout", Headers: true, BigZstd: lo.BigZstd}, p.LEO, k, &ts, "r")
			cl.AppendPhysical(p, b, k)
			s.Count("append")
		})
	}
	if t.Intn("cfg", 4) == 0 {
		at := time.Duration(t.Range("layout", 1, 4000)) * time.Millisecond
		s.After(at, "retention", func() {
			if len(p.Batches) < 2 {
				return
			}
			k := 1 + t.Intn("layout", len(p.Batches)-1)
			for _, b := range p.Batches[:k] {
				for _, rec := range b.Records {
					st.removed[rec.Offset] = s.Now()
				}
			}
			p.LogStart = p.Batches[k].FirstOffset()
			p.Batches = p.Batches[k:]
			s.Count("fault:retention")
		})
	}
	moves := 0
	if fmode >= 2 && nb > 1 {
		moves = t.Range("cfg", 0, 2)
	}
	for i := 0; i < moves; i++ {
		at := time.Duration(t.Range("fault", 1, 3000)) * time.Millisecond
		s.After(at, "leader-move", func() {
			to := int32(1 + t.Intn("fault", nb))
			if to != p.Leader {
				cl.MoveLeader(p, to)
			}
		})
	}

	seekersLeft := 0
	if seeker {
		seekersLeft = 1
		nseek := t.Range("work", 1, 6)
		s.Go("seeker", func() {
			defer func() { seekersLeft = 0 }()
			for i := 0; i < nseek && !s.Failed(); i++ {
				s.Sleep(time.Duration(t.Range("work", 0, 1500)) * time.Millisecond)
				o := pickOffset()
				if o < 0 || t.Intn("work", 2) == 0 {
					// "resume right after the record I just got"
					o = st.lastDelivered + 1
					if o < p.LogStart {
						o = p.LogStart
					}
				}
				st.seekInFlight, st.pendingTarget, st.fetchRetDuringSeek = true, o, false
				if st.inFetch {
					st.seeked = true
					st.cands = append(st.cands, st.pos)
					if st.alt != -2 {
						st.cands = append(st.cands, st.alt)
					}
				}
				err := r.SetOffset(o)
				st.seekInFlight = false
				if err != nil {
					s.Fail("C02", "R2-setoffset-error", "SetOffset(%d): %v", o, err)
					return
				}
				if !st.fetchRetDuringSeek {
					st.pos, st.alt = o, -2
				}
				s.Tracef("seeker SetOffset(%d) -> pos=%d alt=%d (in fetch: %v)", o, st.pos, st.alt, st.inFetch)
				s.Count("setoffset")
				s.Count("setoffset-concurrent")
			}
		})
	}
	nops := t.Range("work", 3, 40)
	drained := false
	s.Go("consumer", func() {
		for i := 0; i < nops; i++ {
			op := t.Intn("work", 10)
			if seeker && op == 0 {
				op = 2 // SetOffset is the other goroutine's business
			}
			switch op {
			case 0:
				o := pickOffset()
				if err := r.SetOffset(o); err != nil {
					s.Fail("C02", "R2-setoffset-error", "SetOffset(%d): %v", o, err)
					return
				}
				setPos(o)
				s.Tracef("op SetOffset(%d) -> pos=%d lo=%d LEO=%d", o, st.pos, st.lo, p.LEO)
				s.Count("setoffset")
			case 1:
				_ = r.Offset()
				_ = r.Lag()
			default:
				ctx, cancel := context.WithTimeout(context.Background(), time.Duration(t.Range("work", 50, 3000))*time.Millisecond)
				inv := s.Step
				st.beginFetch()
				m, err := r.FetchMessage(ctx)
				cancel()
				s.Tracef("op FetchMessage -> off=%d err=%v (pos=%d alt=%d seeked=%v)", m.Offset, err, st.pos, st.alt, st.seeked)
				if err == nil {
					st.checkDelivered(m, inv)
					s.Count("ops")
				} else {
					s.Count("fetch-error")
				}
				st.endFetch()
			}
			if s.Failed() {
				return
			}
			s.Pause("op")
		}
		// drain phase: after the faults stopped everything stored must arrive
		for {
			if wait := st.faultsUntil + 9*time.Second - s.Now(); wait > 0 && fmode >= 2 {
				s.Sleep(wait)
			}
			tail := st.pos
			if st.pos < 0 {
				tail = st.lo
			}
			if st.alt > tail {
				tail = st.alt // (the weaker of the two claims while the position is ambiguous)
			}
			if seekersLeft > 0 {
				s.Sleep(100 * time.Millisecond)
				continue
			}
			rec, more := st.storedAtOrAfter(tail)
			if st.pos < 0 && st.relKind == kafka.LastOffset {
				// the position is resolved when the fetcher (re)connects; nothing
				// stored so far is owed to the application
				more = false
			}
			if more {
				if _, gone := st.removed[rec.Offset]; gone {
					// skip over retention-removed prefix
					more = false
					for o := rec.Offset; o < p.LEO; o++ {
						if r2, ok := st.storedAtOrAfter(o); ok {
							if _, g := st.removed[r2.Offset]; !g {
								more = true
								break
							}
							o = r2.Offset
						}
					}
				}
			}
			if !more && s.Now() > 7*time.Second {
				drained = true
				return
			}
			ctx, cancel := context.WithTimeout(context.Background(), 30*time.Second)
			inv := s.Step
			st.beginFetch()
			m, err := r.FetchMessage(ctx)
			ctxErr := ctx.Err()
			cancel()
			s.Tracef("drain FetchMessage -> off=%d err=%v (pos=%d alt=%d seeked=%v)", m.Offset, err, st.pos, st.alt, st.seeked)
			if err == nil {
				st.checkDelivered(m, inv)
				s.Count("ops")
			}
			st.endFetch()
			if err == nil {
			} else if ctxErr != nil {
				if more {
					s.Fail("C02", "R3-stuck", "no message within 30 simulated seconds although records at or after offset %d are stored (log end %d), faults stopped at %v, now %v; %s%s", tail, p.LEO, st.faultsUntil, s.Now(), st.lastFetchDiag(), st.stuckCause())
				}
				if !more {
					drained = true
				}
				return
			} else {
				s.Count("fetch-error")
				if errors.Is(err, io.EOF) {
					return
				}
			}
			if s.Failed() {
				return
			}
		}
	})
	closing, closed := false, false
	s.DoneWhen(func() bool {
		if s.Actors() > 0 {
			return false
		}
		if !closing {
			closing = true
			s.Go("closer", func() {
				r.Close()
				closed = true
			})
			return false
		}
		return closed
	})
	s.AtEnd(func() {
		_ = drained
		n.Shutdown()
	})
}

// lastFetchDiag describes the last fetch exchange of the partition (for
// violation messages and known-finding signatures).
func (st *readerState) lastFetchDiag() string { return st.fetchDiag(0) }

// fetchDiag describes the (skip+1)-th last answered fetch of the journal.
func (st *readerState) fetchDiag(skip int) string {
	for i := len(st.cl.Journal) - 1; i >= 0; i-- {
		r := st.cl.Journal[i]
		if r.API == nil || r.Hdr.APIKey != 1 || r.Resp == nil {
			continue
		}
		if skip > 0 {
			skip--
			continue
		}
		for _, t := range r.Resp.Arr("responses") {
			for _, pm := range t.Arr("partitions") {
				var off int64 = -1
				for _, rt := range r.Body.Arr("topics") {
					for _, rp := range rt.Arr("partitions") {
						off = rp.I64("fetch_offset")
					}
				}
				code := pm.I16("error_code")
				desc := fmt.Sprintf("last fetch: v%d offset=%d error_code=%d log_start=%d high_watermark=%d", r.Hdr.APIVersion, off, code, pm.I64("log_start_offset"), pm.I64("high_watermark"))
				if code == ErrOffsetOutOfRange && off < st.p.LogStart {
					desc += " [fetch offset below log start keeps being requested]"
				}
				if bs, err := rc.DecodeRecordSet(pm.Bytes("records"), rc.DecodeOpts{}); err == nil && len(bs) > 0 {
					if len(bs[0].Records) == 0 {
						desc += fmt.Sprintf(" [first batch of the response is an empty retained batch %d..%d]", bs[0].BaseOffset, bs[0].BaseOffset+int64(bs[0].LastOffsetDelta))
					} else {
						last := bs[0].Records[len(bs[0].Records)-1].Offset
						desc += fmt.Sprintf(" [first batch magic %d codec %d offsets %d..%d]", bs[0].Magic, bs[0].Codec, bs[0].Records[0].Offset, last)
						if bs[0].Magic == 2 && last < off && bs[0].BaseOffset+int64(bs[0].LastOffsetDelta) >= off {
							desc += " [every surviving record of the first batch is below the fetch offset: its tail was compacted away]"
							if len(bs) > 1 || len(pm.Bytes("records")) > 61 {
								desc += " [followed by further (possibly truncated) batch data]"
							}
						}
					}
				} else if err != nil {
					desc += " [records undecodable: " + err.Error() + "]"
				} else {
					desc += " [no records]"
				}
				return desc
			}
		}
	}
	return "no fetch request in the journal"
}

// batchDiag describes the stored physical batch that holds offset off.
func (st *readerState) batchDiag(off int64) string {
	for _, b := range st.p.AllBatches {
		for _, r := range b.Records {
			if r.Offset == off {
				var offs []int64
				for _, r2 := range b.Records {
					offs = append(offs, r2.Offset)
				}
				return fmt.Sprintf("stored batch: magic %d codec %d wrapper/base offset %d relative-inner=%v lastOffsetDelta %d record offsets %v", b.Magic, b.Codec, b.BaseOffset, b.RelativeInner, b.LastOffsetDelta, offs)
			}
		}
	}
	return "no stored batch"
}

// valueDiag finds the stored record carrying a given value.
func (st *readerState) valueDiag(v []byte) string {
	for _, b := range st.p.AllBatches {
		for _, r := range b.Records {
			if bytes.Equal(r.Value, v) {
				return fmt.Sprintf("stored at offset %d in a %s", r.Offset, st.batchDiag(r.Offset))
			}
		}
	}
	return "none"
}

// layoutDiag lists the physical batches around an offset.
func (st *readerState) layoutDiag(off int64) string {
	out := ""
	for _, b := range st.p.AllBatches {
		if b.LastOffset() < off-8 || b.FirstOffset() > off+8 {
			continue
		}
		var offs []int64
		for _, r := range b.Records {
			offs = append(offs, r.Offset)
		}
		out += fmt.Sprintf("{magic %d codec %d base %d lod %d rel=%v recs %v} ", b.Magic, b.Codec, b.BaseOffset, b.LastOffsetDelta, b.RelativeInner, offs)
		if b.Magic == 2 && len(b.Records) == 0 && off >= b.BaseOffset && off <= b.BaseOffset+int64(b.LastOffsetDelta) {
			out += "[delivered offset lies inside this empty retained batch] "
		}
	}
	return out
}

// stuckCause ties a reader that keeps requesting an offset below the log
// start to what moved its position there: the fetch before the last backward
// step of the fetch offset (the marker of the recent-responses window is not
// enough: the loop itself fills that window with error responses).
func (st *readerState) stuckCause() string {
	out := st.recentEmptyMarker()
	if strings.Contains(st.lastFetchDiag(), "fetch offset below log start keeps being requested") {
		out += " [how the position got there: " + st.rewindDiag() + "]"
	}
	return out
}

// rewindDiag finds the last place in the journal where the fetch offset of
// this partition went backwards and describes the fetch before it.
func (st *readerState) rewindDiag() string {
	var idx []int
	var offs []int64
	for i, r := range st.cl.Journal {
		if r.API == nil || r.Hdr.APIKey != 1 || r.Resp == nil {
			continue
		}
		for _, rt := range r.Body.Arr("topics") {
			for _, rp := range rt.Arr("partitions") {
				idx = append(idx, i)
				offs = append(offs, rp.I64("fetch_offset"))
			}
		}
	}
	for k := len(offs) - 2; k >= 0; k-- {
		if offs[k+1] < offs[k] {
			// describe fetch k: temporarily view the journal up to it
			save := st.cl.Journal
			st.cl.Journal = save[:idx[k]+1]
			d := st.fetchDiag(0)
			st.cl.Journal = save
			return fmt.Sprintf("fetch offsets went %d -> %d; %s", offs[k], offs[k+1], d)
		}
	}
	return "fetch offsets never went backwards"
}

// fail records a C02 violation, appending the marker that ties it to the
// empty-retained-batch defect when a recent response contained such a batch.
func (st *readerState) fail(rule, format string, a ...any) {
	st.s.Fail("C02", rule, format+"%s", append(a, st.recentEmptyMarker())...)
}

// recentEmptyMarker reports whether one of the last few answered fetch
// responses of the partition contained an empty retained v2 batch.
func (st *readerState) recentEmptyMarker() string {
	seen := 0
	for i := len(st.cl.Journal) - 1; i >= 0 && seen < 60; i-- {
		r := st.cl.Journal[i]
		if r.API == nil || r.Hdr.APIKey != 1 || r.Resp == nil {
			continue
		}
		seen++
		for _, t := range r.Resp.Arr("responses") {
			for _, pm := range t.Arr("partitions") {
				bs, _ := rc.DecodeRecordSet(pm.Bytes("records"), rc.DecodeOpts{})
				for _, b := range bs {
					if b.Magic == 2 && len(b.Records) == 0 {
						return fmt.Sprintf(" [a recent fetch response contained the empty retained batch %d..%d]", b.BaseOffset, b.BaseOffset+int64(b.LastOffsetDelta))
					}
				}
			}
		}
	}
	return ""
}
