//go:build !race

package zsimrt

func raceAcquire[T any](p *T)      {}
func raceRelease[T any](p *T)      {}
func raceReleaseMerge[T any](p *T) {}
