// Package zsimrt is the run-time half of the deterministic-simulation
// instrumentation. It exists only in the build overlay, as
// github.com/segmentio/kafka-go/zsimrt; the instrumenter (tools/instrument)
// rewrites the root package of kafka-go so that
//
//   - sync.Mutex / RWMutex / Once / Cond / WaitGroup become the types below,
//     whose blocking is on channels (durably blocking for testing/synctest) and
//     whose acquisition is a scheduling point;
//   - channel operations, selects, sleeps and goroutine starts are bracketed by
//     Pre/Post/Enter, so that at most ONE instrumented goroutine executes library
//     code at any time and the simulation driver decides which one;
//   - ranges over maps iterate Keys(m), whose order the simulation owns.
//
// When no simulation is active every entry point falls through to plain
// behaviour (no parking), so instrumented code also runs outside a simulation.
package zsimrt

import (
	"fmt"
	"hash"
	"hash/fnv"
	"reflect"
	"runtime"
	"sort"
	"sync"
	"sync/atomic"
	"time"
	_ "unsafe" // go:linkname
)

// G is a goroutine parked at a scheduling point, waiting for the driver.
type G struct {
	ID   int64  // stable identity: the creation ticket (see Spawn), or a dense number above 1<<32 for goroutines without one
	raw  int64  // runtime goroutine id
	seq  int64  // creation ticket (0: none)
	Site string // scheduling point it is parked at
	ch   chan struct{}
}

// Hooks are installed by the simulation driver.
type Hooks struct {
	// ShouldYield decides whether the (single) running goroutine parks at an
	// optional scheduling point.
	ShouldYield func(site string) bool
	// Stall, when set, is asked after a goroutine has yielded at an optional
	// scheduling point: a positive duration deschedules the goroutine for
	// that much simulated time (a thread that lost its CPU).
	Stall func(site string) time.Duration
	// Notify is called (by the parking goroutine) after it has been added to
	// the parked set; it must not block.
	Notify func()
	// Intn draws a value in [0,n) from the named stream of the run's tape.
	Intn func(stream string, n int) int
}

var (
	mu     sync.Mutex // protects everything below and all sim primitive state
	active atomic.Bool
	epoch  atomic.Uint64
	parked []*G
	dense  map[int64]int64
	seqOf  map[int64]int64 // runtime goroutine id -> creation ticket
	seqGen atomic.Int64
	root   int64
	hooks  Hooks

	// counters (diagnostics / coverage)
	NParks  atomic.Uint64
	NYields atomic.Uint64

	// sinceRelease counts optional scheduling points passed by the running
	// goroutine since the driver last ran; past SpinBudget a park is forced,
	// so that a goroutine spinning on lock/unlock (Conn.waitResponse) cannot
	// keep the driver from ever running.
	sinceRelease atomic.Int64
)

// SpinBudget is the number of optional scheduling points a goroutine may pass
// without parking.
const SpinBudget = 256

// Goid returns the current goroutine's id.
func Goid() int64 {
	var buf [48]byte
	n := runtime.Stack(buf[:], false)
	var id int64
	for _, c := range buf[10:n] { // skip "goroutine "
		if c < '0' || c > '9' {
			break
		}
		id = id*10 + int64(c-'0')
	}
	return id
}

var runStart []func()

// OnRunStart registers f to be called at the start of every simulated run
// (used by generated code to empty the library's process-wide caches).
func OnRunStart(f func()) { runStart = append(runStart, f) }

// RunStart calls the registered functions; no library goroutine is running.
func RunStart() {
	for _, f := range runStart {
		f()
	}
}

// Start activates the simulation; the caller becomes the root (driver)
// goroutine. It must be called from inside the synctest bubble.
func Start(h Hooks) {
	mu.Lock()
	hooks = h
	parked = nil
	dense = map[int64]int64{}
	seqOf = map[int64]int64{}
	seqGen.Store(0)
	root = Goid()
	mu.Unlock()
	epoch.Store(1)
	active.Store(true)
}

// Drain deactivates parking: every parked goroutine is released and
// scheduling points no longer park. Used at the end of a run.
func Drain() {
	active.Store(false)
	mu.Lock()
	ps := parked
	parked = nil
	mu.Unlock()
	for _, g := range ps {
		close(g.ch)
	}
}

// Active reports whether a simulation is running.
func Active() bool { return active.Load() }

// Epoch returns the current driver epoch.
func Epoch() uint64 { return epoch.Load() }

// Parked returns the parked goroutines sorted by ID (stable identity), so that
// the driver's choice never depends on the order in which the Go runtime
// happened to run them up to their parking point.
func Parked() []*G {
	mu.Lock()
	ps := make([]*G, len(parked))
	copy(ps, parked)
	// Goroutines are identified by the ticket their creator drew (Spawn) when
	// it executed the go statement / registered the timer callback: creators
	// run one at a time, so tickets are reproducible. Runtime goroutine ids are
	// not: the callbacks of several timers that expire at the same simulated
	// instant are started by the runtime in an order that depends on its timer
	// heap, which real-time timers of the process perturb.
	for _, g := range ps {
		if g.ID == 0 {
			if g.seq != 0 {
				g.ID = g.seq
				continue
			}
			d, ok := dense[g.raw]
			if !ok {
				d = int64(len(dense)+1) + 1<<32
				dense[g.raw] = d
			}
			g.ID = d
		}
	}
	sort.Slice(ps, func(i, j int) bool {
		if ps[i].ID != ps[j].ID {
			return ps[i].ID < ps[j].ID
		}
		return ps[i].raw < ps[j].raw
	})
	mu.Unlock()
	return ps
}

// NParked returns the number of parked goroutines.
func NParked() int {
	mu.Lock()
	n := len(parked)
	mu.Unlock()
	return n
}

// Release lets g continue. Only the driver calls it, at quiescence.
func Release(g *G) {
	mu.Lock()
	for i, p := range parked {
		if p == g {
			parked = append(parked[:i], parked[i+1:]...)
			break
		}
	}
	mu.Unlock()
	epoch.Add(1)
	sinceRelease.Store(0)
	close(g.ch)
}

// Tick is called by the driver whenever it lets simulated time advance or
// delivers an external event; it invalidates the "I did not block" tokens.
func Tick() { epoch.Add(1) }

// Park unconditionally parks the calling goroutine until the driver releases it.
func Park(site string) {
	if !active.Load() {
		return
	}
	g := &G{raw: Goid(), Site: site, ch: make(chan struct{})}
	if g.raw == root {
		return // the driver itself (scenario set-up code) never parks
	}
	mu.Lock()
	if !active.Load() { // drained meanwhile
		mu.Unlock()
		return
	}
	g.seq = seqOf[g.raw]
	parked = append(parked, g)
	n := hooks.Notify
	mu.Unlock()
	NParks.Add(1)
	if n != nil {
		n()
	}
	<-g.ch
}

// Enter is the first statement of a goroutine without a creation ticket.
func Enter(site string) { Park(site) }

//go:linkname runtimeSimSelectSet runtime.simSelectSet
func runtimeSimSelectSet(v uint64)

// SetSelectSeed hands the choice among several ready cases of a select to the
// simulation (0 gives it back to the runtime). The runtime side is a patched
// copy of runtime/select.go in the build overlay.
func SetSelectSeed(v uint64) { runtimeSimSelectSet(v) }

// Spawn draws a creation ticket. It is called by the creator at the point of
// the go statement (or of the registration of a timer callback).
func Spawn() int64 {
	if !active.Load() {
		return 0
	}
	return seqGen.Add(1)
}

// EnterSeq is the first statement of every instrumented goroutine: it binds
// the goroutine to the ticket its creator drew and parks.
func EnterSeq(site string, seq int64) {
	if !active.Load() {
		return
	}
	if seq != 0 {
		mu.Lock()
		seqOf[Goid()] = seq
		mu.Unlock()
	}
	Park(site)
}

// Spawned wraps a timer callback: the ticket is drawn now, by the goroutine
// that registers the callback.
func Spawned(site string, f func()) func() {
	seq := Spawn()
	return func() {
		EnterSeq(site, seq)
		f()
	}
}

// Pre is an optional scheduling point placed before an operation that may
// block. It returns a token for Post.
func Pre(site string) uint64 {
	if !active.Load() {
		return 0
	}
	if sinceRelease.Add(1) > SpinBudget {
		Park(site)
	} else if y := hooks.ShouldYield; y != nil && y(site) {
		NYields.Add(1)
		Park(site)
		if st := hooks.Stall; st != nil {
			if d := st(site); d > 0 {
				tok := epoch.Load()
				time.Sleep(d)
				if epoch.Load() != tok {
					Park(site)
				}
			}
		}
	}
	return epoch.Load()
}

// Post is placed after an operation that may have blocked. If the driver has
// run since Pre (the goroutine blocked and was woken by somebody else's
// action or by the clock) it parks, so that the woken goroutine does not run
// concurrently with the goroutine the driver released.
func Post(tok uint64, site string) {
	if !active.Load() {
		return
	}
	if epoch.Load() != tok {
		Park(site)
	}
}

// Recv is `<-ch` with scheduling points.
func Recv[T any](site string, ch <-chan T) T {
	tok := Pre(site)
	v := <-ch
	Post(tok, site)
	return v
}

// Recv2 is `v, ok := <-ch` with scheduling points.
func Recv2[T any](site string, ch <-chan T) (T, bool) {
	tok := Pre(site)
	v, ok := <-ch
	Post(tok, site)
	return v, ok
}

// Sleep is time.Sleep with scheduling points.
func Sleep(d time.Duration) {
	tok := Pre("sleep")
	time.Sleep(d)
	Post(tok, "sleep")
}

// ---------------------------------------------------------------------------
// Mutex

// Keys returns the keys of m in an order owned by the simulation: sorted, then
// (when a simulation is active and the hook says so) permuted by draws from
// the "maporder" stream.
func Keys[M ~map[K]V, K comparable, V any](m M) []K {
	ks := make([]K, 0, len(m))
	for k := range m {
		ks = append(ks, k)
	}
	if len(ks) < 2 || freeRunning {
		// (race flavour: ordering pointer keys reads what they point to, which
		// would be a race of the harness's own making)
		return ks
	}
	sortKeys(ks)
	if active.Load() {
		if in := hooks.Intn; in != nil {
			// Fisher-Yates driven by the tape; draw 0 everywhere = sorted order.
			for i := 0; i < len(ks)-1; i++ {
				j := i + in("maporder", len(ks)-i)
				ks[i], ks[j] = ks[j], ks[i]
			}
		}
	}
	return ks
}

// fingerprint hashes the plain data (numbers, strings, byte slices, nested
// structs/slices/pointers up to a depth) reachable from v, ignoring anything
// whose representation is an address (channels, funcs, maps, interfaces).
func fingerprint(v reflect.Value, depth int, h hash.Hash64) {
	var b [8]byte
	put := func(x uint64) {
		for i := 0; i < 8; i++ {
			b[i] = byte(x >> (8 * i))
		}
		h.Write(b[:])
	}
	switch v.Kind() {
	case reflect.Bool:
		if v.Bool() {
			put(1)
		} else {
			put(0)
		}
	case reflect.Int, reflect.Int8, reflect.Int16, reflect.Int32, reflect.Int64:
		put(uint64(v.Int()))
	case reflect.Uint, reflect.Uint8, reflect.Uint16, reflect.Uint32, reflect.Uint64, reflect.Uintptr:
		put(v.Uint())
	case reflect.Float32, reflect.Float64:
		put(uint64(v.Float()))
	case reflect.String:
		h.Write([]byte(v.String()))
		put(uint64(v.Len()))
	case reflect.Slice, reflect.Array:
		n := v.Len()
		put(uint64(n))
		if depth <= 0 {
			return
		}
		if n > 64 {
			n = 64
		}
		for i := 0; i < n; i++ {
			fingerprint(v.Index(i), depth-1, h)
		}
	case reflect.Struct:
		if depth <= 0 {
			return
		}
		for i := 0; i < v.NumField(); i++ {
			fingerprint(v.Field(i), depth-1, h)
		}
	case reflect.Pointer:
		if depth <= 0 || v.IsNil() {
			return
		}
		fingerprint(v.Elem(), depth-1, h)
	}
}

func sortKeys[K comparable](ks []K) {
	switch s := any(ks).(type) {
	case []string:
		sort.Strings(s)
	case []int:
		sort.Ints(s)
	case []int32:
		sort.Slice(s, func(i, j int) bool { return s[i] < s[j] })
	case []int64:
		sort.Slice(s, func(i, j int) bool { return s[i] < s[j] })
	default:
		strs := make([]string, len(ks))
		for i, k := range ks {
			rv := reflect.ValueOf(k)
			if rv.Kind() == reflect.Pointer {
				// pointer keys have no stable identity across processes:
				// order them by a fingerprint of the pointee's plain data
				h := fnv.New64a()
				fingerprint(rv, 7, h)
				strs[i] = fmt.Sprintf("%016x", h.Sum64())
			} else {
				strs[i] = fmt.Sprintf("%v", k)
			}
		}
		idx := make([]int, len(ks))
		for i := range idx {
			idx[i] = i
		}
		sort.SliceStable(idx, func(a, b int) bool { return strs[idx[a]] < strs[idx[b]] })
		out := make([]K, len(ks))
		for i, j := range idx {
			out[i] = ks[j]
		}
		copy(ks, out)
	}
}
