//go:build race

package zsimrt

import (
	"runtime"
	"unsafe"
)

// Under the race detector the simulated primitives must contribute exactly the
// happens-before edges of the sync primitives they replace, and nothing else.
// The internal bookkeeping mutex `mu` and the wake-up channels would otherwise
// order unrelated critical sections and hide races, so the detector is told
// about acquire/release on the primitive's own address only.
//
// NOTE: internal synchronisation (mu, channels) still creates edges; E-race
// therefore runs with parking disabled so that the only cross-goroutine
// interactions through zsimrt are contended lock hand-offs, which are real
// edges for sync.Mutex as well.

func raceAcquire[T any](p *T)      { runtime.RaceAcquire(unsafe.Pointer(p)) }
func raceRelease[T any](p *T)      { runtime.RaceRelease(unsafe.Pointer(p)) }
func raceReleaseMerge[T any](p *T) { runtime.RaceReleaseMerge(unsafe.Pointer(p)) }
