//go:build race

package zsimrt

// Free-running sync primitives (race flavour).
//
// Under the race detector the library's goroutines run in parallel and are
// not serialised; the detector must see exactly the happens-before edges of
// the sync primitives the library uses and nothing else. The real sync.Mutex
// cannot be used inside a synctest bubble (a goroutine waiting for it is not
// "durably blocked", so the fake clock would stop whenever a lock is held
// across a network wait). These replacements block on channels, which is
// durable, and synchronise only through the primitive's own channel or
// atomic word:
//
//   - Mutex: a buffered channel of capacity one (send = lock, receive = unlock;
//     the k-th receive happens before the (k+1)-th send completes: the edge of
//     a mutex, on that mutex only);
//   - RWMutex: readers count under a small channel mutex, the first reader
//     takes the writer lock and the last one releases it (readers are ordered
//     among themselves, which the real RWMutex does not do: races between two
//     read-lock holders are not seen);
//   - Once, Cond, WaitGroup: built from the above and channel closes.

import (
	"sync"
	"sync/atomic"
)

type chanMutex struct {
	ch atomic.Pointer[chan struct{}]
}

func (m *chanMutex) c() chan struct{} {
	if p := m.ch.Load(); p != nil {
		return *p
	}
	c := make(chan struct{}, 1)
	if m.ch.CompareAndSwap(nil, &c) {
		return c
	}
	return *m.ch.Load()
}

func (m *chanMutex) lock()   { m.c() <- struct{}{} }
func (m *chanMutex) unlock() { <-m.c() }
func (m *chanMutex) tryLock() bool {
	select {
	case m.c() <- struct{}{}:
		return true
	default:
		return false
	}
}

// Mutex replaces sync.Mutex.
type Mutex struct{ m chanMutex }

func (m *Mutex) Lock()         { m.m.lock() }
func (m *Mutex) Unlock()       { m.m.unlock() }
func (m *Mutex) TryLock() bool { return m.m.tryLock() }

// RWMutex replaces sync.RWMutex.
type RWMutex struct {
	w, r    chanMutex
	readers int
}

func (m *RWMutex) Lock()   { m.w.lock() }
func (m *RWMutex) Unlock() { m.w.unlock() }
func (m *RWMutex) RLock() {
	m.r.lock()
	m.readers++
	if m.readers == 1 {
		m.w.lock()
	}
	m.r.unlock()
}
func (m *RWMutex) RUnlock() {
	m.r.lock()
	m.readers--
	if m.readers == 0 {
		m.w.unlock()
	}
	m.r.unlock()
}
func (m *RWMutex) RLocker() sync.Locker { return (*rlocker)(m) }

type rlocker RWMutex

func (r *rlocker) Lock()   { (*RWMutex)(r).RLock() }
func (r *rlocker) Unlock() { (*RWMutex)(r).RUnlock() }

// Once replaces sync.Once.
type Once struct {
	done atomic.Bool
	m    chanMutex
}

func (o *Once) Do(f func()) {
	if o.done.Load() {
		return
	}
	o.m.lock()
	defer o.m.unlock()
	if !o.done.Load() {
		defer o.done.Store(true)
		f()
	}
}

// Cond replaces sync.Cond.
type Cond struct {
	L       sync.Locker
	m       chanMutex
	waiters []chan struct{}
}

func NewCond(l sync.Locker) *Cond { return &Cond{L: l} }

func (c *Cond) Wait() {
	ch := make(chan struct{})
	c.m.lock()
	c.waiters = append(c.waiters, ch)
	c.m.unlock()
	c.L.Unlock()
	<-ch
	c.L.Lock()
}

func (c *Cond) Signal() {
	c.m.lock()
	if len(c.waiters) > 0 {
		close(c.waiters[0])
		c.waiters = c.waiters[1:]
	}
	c.m.unlock()
}

func (c *Cond) Broadcast() {
	c.m.lock()
	for _, ch := range c.waiters {
		close(ch)
	}
	c.waiters = nil
	c.m.unlock()
}

// WaitGroup replaces sync.WaitGroup.
type WaitGroup struct {
	m       chanMutex
	n       int
	waiters []chan struct{}
}

func (wg *WaitGroup) Add(delta int) {
	wg.m.lock()
	wg.n += delta
	if wg.n < 0 {
		wg.m.unlock()
		panic("sync: negative WaitGroup counter")
	}
	if wg.n == 0 {
		for _, ch := range wg.waiters {
			close(ch)
		}
		wg.waiters = nil
	}
	wg.m.unlock()
}

func (wg *WaitGroup) Done() { wg.Add(-1) }

func (wg *WaitGroup) Wait() {
	wg.m.lock()
	if wg.n == 0 {
		wg.m.unlock()
		return
	}
	ch := make(chan struct{})
	wg.waiters = append(wg.waiters, ch)
	wg.m.unlock()
	<-ch
}

// Go is WaitGroup.Go (Go 1.25+).
func (wg *WaitGroup) Go(f func()) {
	wg.Add(1)
	go func() {
		defer wg.Done()
		f()
	}()
}

const freeRunning = true
