//go:build race

package zsimrt

// Free-running sync primitives (race flavour).
//
// Under the race detector the library's goroutines run in parallel and are
// not serialised; the detector must see exactly the happens-before edges of
// the sync primitives the library uses and nothing else. The real sync.Mutex
// cannot be used inside a synctest bubble (a goroutine waiting for it is not
// "durably blocked", so the fake clock would stop whenever a lock is held
// across a network wait). These replacements block on channels, which is
// durable. Their internal synchronisation (channels, atomics) is hidden from
// the detector with runtime.RaceDisable, and the edges the real primitives
// give are declared explicitly, mirroring the annotations in package sync:
//
//	Mutex     Unlock -> later Lock                      (on the mutex)
//	RWMutex   Unlock -> later RLock and Lock; RUnlock -> later Lock
//	          (readers are NOT ordered among themselves)
//	WaitGroup Done   -> Wait return                     (Add/Done are not ordered among themselves)
//	Once      end of f -> every later Do
//	Cond      Signal/Broadcast -> the Wait it wakes (closing a channel)
//
// Internal bookkeeping is done with atomics only: with synchronisation events
// disabled, plain memory shared between goroutines would be reported.

import (
	"runtime"
	"sync"
	"sync/atomic"
	"unsafe"
)

const freeRunning = true

func raceAcquire[T any](p *T)      { runtime.RaceAcquire(unsafe.Pointer(p)) }
func raceRelease[T any](p *T)      { runtime.RaceRelease(unsafe.Pointer(p)) }
func raceReleaseMerge[T any](p *T) { runtime.RaceReleaseMerge(unsafe.Pointer(p)) }

// chanMutex is a lock whose waiting is a channel send. All of its operations
// run with race synchronisation events disabled.
type chanMutex struct {
	ch atomic.Pointer[chan struct{}]
}

func (m *chanMutex) c() chan struct{} {
	if p := m.ch.Load(); p != nil {
		return *p
	}
	c := make(chan struct{}, 1)
	if m.ch.CompareAndSwap(nil, &c) {
		return c
	}
	return *m.ch.Load()
}

func (m *chanMutex) lock() {
	c := m.c() // (creation of the channel is visible: its creator happens-before its users)
	runtime.RaceDisable()
	c <- struct{}{}
	runtime.RaceEnable()
}

func (m *chanMutex) unlock() {
	c := m.c()
	runtime.RaceDisable()
	<-c
	runtime.RaceEnable()
}

func (m *chanMutex) tryLock() bool {
	c := m.c()
	runtime.RaceDisable()
	defer runtime.RaceEnable()
	select {
	case c <- struct{}{}:
		return true
	default:
		return false
	}
}

// Mutex replaces sync.Mutex.
type Mutex struct {
	m   chanMutex
	sem byte // address the happens-before edges are declared on
}

func (m *Mutex) Lock() {
	m.m.lock()
	raceAcquire(&m.sem)
}

func (m *Mutex) Unlock() {
	raceRelease(&m.sem)
	m.m.unlock()
}

func (m *Mutex) TryLock() bool {
	if !m.m.tryLock() {
		return false
	}
	raceAcquire(&m.sem)
	return true
}

// RWMutex replaces sync.RWMutex (readers preference).
type RWMutex struct {
	w, r       chanMutex
	readers    atomic.Int32
	rsem, wsem byte
}

func (m *RWMutex) Lock() {
	m.w.lock()
	raceAcquire(&m.rsem)
	raceAcquire(&m.wsem)
}

func (m *RWMutex) Unlock() {
	raceRelease(&m.rsem)
	m.w.unlock()
}

func (m *RWMutex) RLock() {
	m.r.lock()
	runtime.RaceDisable()
	first := m.readers.Add(1) == 1
	runtime.RaceEnable()
	if first {
		m.w.lock()
	}
	m.r.unlock()
	raceAcquire(&m.rsem)
}

func (m *RWMutex) RUnlock() {
	raceReleaseMerge(&m.wsem)
	m.r.lock()
	runtime.RaceDisable()
	last := m.readers.Add(-1) == 0
	runtime.RaceEnable()
	if last {
		m.w.unlock()
	}
	m.r.unlock()
}

func (m *RWMutex) RLocker() sync.Locker { return (*rlocker)(m) }

type rlocker RWMutex

func (r *rlocker) Lock()   { (*RWMutex)(r).RLock() }
func (r *rlocker) Unlock() { (*RWMutex)(r).RUnlock() }

// Once replaces sync.Once.
type Once struct {
	done atomic.Bool // Store at the end of f / Load in every Do: the edge of sync.Once
	m    chanMutex
}

func (o *Once) Do(f func()) {
	if o.done.Load() {
		return
	}
	o.m.lock()
	defer o.m.unlock()
	if !o.done.Load() {
		defer o.done.Store(true)
		f()
	}
}

// Cond replaces sync.Cond. Waiters are kept in a lock-free stack of channels.
type Cond struct {
	L    sync.Locker
	head atomic.Pointer[condWaiter]
	m    chanMutex
}

type condWaiter struct {
	ch   chan struct{}
	next atomic.Pointer[condWaiter]
}

func NewCond(l sync.Locker) *Cond { return &Cond{L: l} }

func (c *Cond) Wait() {
	w := &condWaiter{ch: make(chan struct{})}
	c.m.lock()
	// append at the tail: Signal wakes the longest waiter first (the list is
	// linked with visible atomics: a waiter's registration happens-before the
	// Signal that finds it, as with a waiter and a signaller holding L)
	if h := c.head.Load(); h == nil {
		c.head.Store(w)
	} else {
		for h.next.Load() != nil {
			h = h.next.Load()
		}
		h.next.Store(w)
	}
	c.m.unlock()
	c.L.Unlock()
	<-w.ch
	c.L.Lock()
}

func (c *Cond) Signal() {
	c.m.lock()
	h := c.head.Load()
	if h != nil {
		c.head.Store(h.next.Load())
	}
	c.m.unlock()
	if h != nil {
		close(h.ch)
	}
}

func (c *Cond) Broadcast() {
	c.m.lock()
	h := c.head.Load()
	c.head.Store(nil)
	c.m.unlock()
	for ; h != nil; h = h.next.Load() {
		close(h.ch)
	}
}

// WaitGroup replaces sync.WaitGroup.
type WaitGroup struct {
	n    atomic.Int64
	sema atomic.Pointer[chan struct{}]
	sem  byte
}

func (wg *WaitGroup) Add(delta int) {
	if delta < 0 {
		raceReleaseMerge(&wg.sem)
	}
	// the counter is hidden from the detector: Add and Done calls are not
	// ordered among themselves
	runtime.RaceDisable()
	v := wg.n.Add(int64(delta))
	runtime.RaceEnable()
	if v < 0 {
		panic("sync: negative WaitGroup counter")
	}
	if v == 0 {
		// (the waiters' channel is published and taken with visible atomics)
		if old := wg.sema.Swap(nil); old != nil {
			close(*old)
		}
	}
}

func (wg *WaitGroup) Done() { wg.Add(-1) }

func (wg *WaitGroup) counter() int64 {
	runtime.RaceDisable()
	defer runtime.RaceEnable()
	return wg.n.Load()
}

func (wg *WaitGroup) Wait() {
	for wg.counter() != 0 {
		p := wg.sema.Load()
		if p == nil {
			c := make(chan struct{})
			if !wg.sema.CompareAndSwap(nil, &c) {
				continue
			}
			p = &c
		}
		// the counter may have reached zero before the channel was published
		if wg.counter() == 0 {
			break
		}
		<-*p
		break
	}
	raceAcquire(&wg.sem)
}

// Go is WaitGroup.Go (Go 1.25+).
func (wg *WaitGroup) Go(f func()) {
	wg.Add(1)
	go func() {
		defer wg.Done()
		f()
	}()
}
