//go:build !race

package zsimrt

// Simulated sync primitives (serialised flavours): blocking is parking, the
// driver decides who acquires next.

import (
	"sync"
	"sync/atomic"
)

// Mutex replaces sync.Mutex. Waiting is on a channel (durably blocking inside
// a synctest bubble), Lock is a scheduling point, and every waiter that is
// woken parks before it competes for the lock again, so the driver decides who
// gets it.
type Mutex struct {
	locked bool
	wait   chan struct{}
}

func (m *Mutex) Lock() {
	tok := Pre("lock")
	for {
		mu.Lock()
		if !m.locked {
			m.locked = true
			mu.Unlock()
			raceAcquire(m)
			return
		}
		if m.wait == nil {
			m.wait = make(chan struct{})
		}
		w := m.wait
		mu.Unlock()
		<-w
		Post(tok, "lock-wake")
		tok = epoch.Load()
	}
}

func (m *Mutex) TryLock() bool {
	mu.Lock()
	if m.locked {
		mu.Unlock()
		return false
	}
	m.locked = true
	mu.Unlock()
	raceAcquire(m)
	return true
}

func (m *Mutex) Unlock() {
	raceRelease(m)
	mu.Lock()
	if !m.locked {
		mu.Unlock()
		panic("zsimrt: unlock of unlocked mutex")
	}
	m.locked = false
	w := m.wait
	m.wait = nil
	mu.Unlock()
	if w != nil {
		close(w)
	}
	// what a goroutine does right after leaving a critical section (reading
	// a field it should have copied while it held the lock) is only exposed
	// if others can run at this point
	Pre("unlock")
}

// RWMutex replaces sync.RWMutex.
type RWMutex struct {
	writer  bool
	readers int
	wait    chan struct{}
}

func (m *RWMutex) block() chan struct{} {
	if m.wait == nil {
		m.wait = make(chan struct{})
	}
	return m.wait
}

func (m *RWMutex) wake() chan struct{} {
	w := m.wait
	m.wait = nil
	return w
}

func (m *RWMutex) Lock() {
	tok := Pre("lock")
	for {
		mu.Lock()
		if !m.writer && m.readers == 0 {
			m.writer = true
			mu.Unlock()
			raceAcquire(m)
			return
		}
		w := m.block()
		mu.Unlock()
		<-w
		Post(tok, "lock-wake")
		tok = epoch.Load()
	}
}

func (m *RWMutex) Unlock() {
	raceRelease(m)
	mu.Lock()
	if !m.writer {
		mu.Unlock()
		panic("zsimrt: unlock of unlocked rwmutex")
	}
	m.writer = false
	w := m.wake()
	mu.Unlock()
	if w != nil {
		close(w)
	}
	Pre("unlock")
}

func (m *RWMutex) RLock() {
	tok := Pre("rlock")
	for {
		mu.Lock()
		if !m.writer {
			m.readers++
			mu.Unlock()
			raceAcquire(m)
			return
		}
		w := m.block()
		mu.Unlock()
		<-w
		Post(tok, "lock-wake")
		tok = epoch.Load()
	}
}

func (m *RWMutex) RUnlock() {
	raceReleaseMerge(m)
	mu.Lock()
	if m.readers <= 0 {
		mu.Unlock()
		panic("zsimrt: runlock of unlocked rwmutex")
	}
	m.readers--
	var w chan struct{}
	if m.readers == 0 {
		w = m.wake()
	}
	mu.Unlock()
	if w != nil {
		close(w)
	}
	Pre("runlock")
}

func (m *RWMutex) RLocker() sync.Locker { return (*rlocker)(m) }

type rlocker RWMutex

func (r *rlocker) Lock()   { (*RWMutex)(r).RLock() }
func (r *rlocker) Unlock() { (*RWMutex)(r).RUnlock() }

// Once replaces sync.Once.
type Once struct {
	m    Mutex
	done atomic.Bool
}

func (o *Once) Do(f func()) {
	if o.done.Load() {
		return
	}
	o.m.Lock()
	defer o.m.Unlock()
	if !o.done.Load() {
		defer o.done.Store(true)
		f()
	}
}

// Cond replaces sync.Cond.
type Cond struct {
	L  sync.Locker
	ws []chan struct{}
}

func NewCond(l sync.Locker) *Cond { return &Cond{L: l} }

func (c *Cond) Wait() {
	ch := make(chan struct{})
	mu.Lock()
	c.ws = append(c.ws, ch)
	mu.Unlock()
	tok := epoch.Load()
	c.L.Unlock()
	<-ch
	Post(tok, "cond-wake")
	c.L.Lock()
}

func (c *Cond) Signal() {
	mu.Lock()
	var ch chan struct{}
	if len(c.ws) > 0 {
		ch = c.ws[0]
		c.ws = c.ws[1:]
	}
	mu.Unlock()
	if ch != nil {
		raceRelease(c)
		close(ch)
	}
}

func (c *Cond) Broadcast() {
	mu.Lock()
	ws := c.ws
	c.ws = nil
	mu.Unlock()
	for _, ch := range ws {
		close(ch)
	}
}

// WaitGroup replaces sync.WaitGroup.
type WaitGroup struct {
	n    int
	wait chan struct{}
}

func (wg *WaitGroup) Add(delta int) {
	if delta < 0 {
		raceReleaseMerge(wg)
	}
	mu.Lock()
	wg.n += delta
	if wg.n < 0 {
		mu.Unlock()
		panic("zsimrt: negative WaitGroup counter")
	}
	var w chan struct{}
	if wg.n == 0 {
		w = wg.wait
		wg.wait = nil
	}
	mu.Unlock()
	if w != nil {
		close(w)
	}
}

func (wg *WaitGroup) Done() { wg.Add(-1) }

func (wg *WaitGroup) Wait() {
	tok := Pre("wg-wait")
	mu.Lock()
	if wg.n == 0 {
		mu.Unlock()
		raceAcquire(wg)
		return
	}
	if wg.wait == nil {
		wg.wait = make(chan struct{})
	}
	w := wg.wait
	mu.Unlock()
	<-w
	raceAcquire(wg)
	Post(tok, "wg-wake")
}

// ---------------------------------------------------------------------------
// Map order

// (race annotations are meaningless without the race detector)
func raceAcquire[T any](p *T)      {}
func raceRelease[T any](p *T)      {}
func raceReleaseMerge[T any](p *T) {}

const freeRunning = false
