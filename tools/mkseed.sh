#!/bin/bash
# usage: mkseed.sh <PROP> <suffix>
P=$1; S=${2:-}
D=/tmp/seed-$P$S
git -C /repo worktree add --detach -f $D HEAD -q 2>&1 | tail -1
python3 - "$P" "$D" <<'PY'
import sys,json
p,d=sys.argv[1:3]
for l in open('/verif/properties.jsonl'):
    o=json.loads(l)
    if o['id']==p:
        prop="ID: %s\nTitle: %s\nStatement: %s\nQuantifier: %s\nAnchors (where in the code): files %s; mechanisms %s"%(o['id'],o['title'],o['statement'],o['quantifier']['text'],', '.join(o['anchors']['files']),'; '.join(m['name']+' @ '+m['where'] for m in o['anchors']['mechanism']))
t=open('/tmp/seed-prompt.txt').read().replace('@@PROP@@',prop).replace('@@DIR@@',d)
open(d+'.prompt.txt','w').write(t)
PY
echo $D
