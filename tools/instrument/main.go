// Command instrument rewrites the root package of kafka-go (read from -repo,
// never modified) into a build overlay:
//
//   - sync.Mutex/RWMutex/Once/Cond/WaitGroup/NewCond -> zsimrt equivalents
//   - time.Sleep -> zsimrt.Sleep
//   - `<-ch` expressions -> zsimrt.Recv / Recv2 (outside select comm clauses)
//   - send statements and selects bracketed by zsimrt.Pre / zsimrt.Post
//   - `go f(x)` -> arguments evaluated, goroutine body starts with zsimrt.Enter
//   - time.AfterFunc(d, func(){...}) bodies start with zsimrt.Enter
//   - `for k, v := range m` over maps with orderable keys -> range zsimrt.Keys(m)
//   - `for x := range ch` over channels -> explicit Recv2 loop
//
// and adds the package zsimrt (copied from -zsimrt) to the module as
// <module>/zsimrt. Output: <out>/overlay.json plus the rewritten files, and
// <out>/report.json listing what was done and what was skipped.
package main

import (
	"bytes"
	"encoding/json"
	"flag"
	"fmt"
	"go/ast"
	"go/build/constraint"
	"go/importer"
	"go/parser"
	"go/printer"
	"go/token"
	"go/types"
	"os"
	"path/filepath"
	"runtime"
	"sort"
	"strings"
)

const modPath = "github.com/segmentio/kafka-go"

type report struct {
	Files            []string       `json:"instrumented_files"`
	CopiedUnchanged  []string       `json:"copied_unchanged"`
	ResetGlobals     []string       `json:"reset_globals"`
	Counts           map[string]int `json:"counts"`
	SkippedMapRanges []string       `json:"skipped_map_ranges"`
	SkippedSites     []string       `json:"skipped_sites"`
	TypeErrors       int            `json:"type_errors_ignored"`
}

var rep = report{Counts: map[string]int{}}

func die(f string, a ...any) {
	fmt.Fprintf(os.Stderr, "instrument: "+f+"\n", a...)
	os.Exit(2)
}

func main() {
	repo := flag.String("repo", "/repo", "kafka-go source tree")
	zs := flag.String("zsimrt", "/verif/zsimrt", "zsimrt package source")
	out := flag.String("out", "", "output directory")
	plain := flag.Bool("plain", false, "do not rewrite the root package (race flavour: the library runs on its real sync primitives); only map the tree and add zsimrt")
	flag.Parse()
	if *out == "" {
		die("-out required")
	}
	if err := os.MkdirAll(filepath.Join(*out, "root"), 0o755); err != nil {
		die("%v", err)
	}

	fset := token.NewFileSet()
	entries, err := os.ReadDir(*repo)
	if err != nil {
		die("%v", err)
	}
	var files []*ast.File
	var names []string
	for _, e := range entries {
		n := e.Name()
		if e.IsDir() || !strings.HasSuffix(n, ".go") || strings.HasSuffix(n, "_test.go") {
			continue
		}
		src, err := os.ReadFile(filepath.Join(*repo, n))
		if err != nil {
			die("%v", err)
		}
		f, err := parser.ParseFile(fset, filepath.Join(*repo, n), src, parser.ParseComments)
		if err != nil {
			die("parse %s: %v", n, err)
		}
		if hasConstraint(f) {
			rep.CopiedUnchanged = append(rep.CopiedUnchanged, n)
			continue
		}
		files = append(files, f)
		names = append(names, n)
	}

	// lenient type check (only used to classify range statements)
	imp := &lenientImporter{fset: fset, repo: *repo, cache: map[string]*types.Package{}, std: importer.ForCompiler(fset, "source", nil)}
	info := &types.Info{Types: map[ast.Expr]types.TypeAndValue{}}
	conf := types.Config{Importer: imp, Error: func(error) { rep.TypeErrors++ }, FakeImportC: true}
	conf.Check(modPath, fset, files, info) // errors ignored

	overlay := map[string]string{}
	// process-wide caches of the root package (package-level atomic.Value
	// variables, e.g. the Writer's partition list cache) are emptied at the
	// start of every run, so that a run never depends on the runs before it
	if pkgName, globals := atomicValueGlobals(files); len(globals) > 0 {
		var b bytes.Buffer
		fmt.Fprintf(&b, "package %s\n\nimport (\n\t\"sync/atomic\"\n\n\tzsimrt \"%s/zsimrt\"\n)\n\nfunc init() {\n\tzsimrt.OnRunStart(func() {\n", pkgName, modPath)
		for _, g := range globals {
			fmt.Fprintf(&b, "\t\t%s = atomic.Value{}\n", g)
		}
		b.WriteString("\t})\n}\n")
		dst := filepath.Join(*out, "root", "zsim_globals.go")
		if err := os.WriteFile(dst, b.Bytes(), 0o644); err != nil {
			die("%v", err)
		}
		overlay[filepath.Join("/repo", "zsim_globals.go")] = dst
		rep.ResetGlobals = globals
	}
	if *plain {
		if filepath.Clean(*repo) != "/repo" {
			for _, n := range names {
				overlay[filepath.Join("/repo", n)] = filepath.Join(*repo, n)
			}
			for _, n := range rep.CopiedUnchanged {
				overlay[filepath.Join("/repo", n)] = filepath.Join(*repo, n)
			}
		}
		files = nil
	}
	for i, f := range files {
		r := &rewriter{fset: fset, info: info, file: f, name: names[i]}
		r.run()
		f.Comments = nil
		var buf bytes.Buffer
		if err := (&printer.Config{Mode: printer.UseSpaces | printer.TabIndent, Tabwidth: 8}).Fprint(&buf, fset, f); err != nil {
			die("print %s: %v", names[i], err)
		}
		// sanity: must re-parse
		if _, err := parser.ParseFile(token.NewFileSet(), names[i], buf.Bytes(), 0); err != nil {
			die("instrumented %s does not parse: %v", names[i], err)
		}
		dst := filepath.Join(*out, "root", names[i])
		if err := os.WriteFile(dst, buf.Bytes(), 0o644); err != nil {
			die("%v", err)
		}
		overlay[filepath.Join("/repo", names[i])] = dst
		rep.Files = append(rep.Files, names[i])
	}

	// a tree other than /repo (scratch copy with a patch applied): its
	// sub-packages replace /repo's through the overlay as well
	if filepath.Clean(*repo) != "/repo" {
		for _, n := range rep.CopiedUnchanged {
			overlay[filepath.Join("/repo", n)] = filepath.Join(*repo, n)
		}
		filepath.Walk(*repo, func(path string, fi os.FileInfo, err error) error {
			if err != nil {
				return nil
			}
			rel, _ := filepath.Rel(*repo, path)
			if fi.IsDir() {
				if rel == ".git" || rel == "examples" || rel == "zsimrt" {
					return filepath.SkipDir
				}
				return nil
			}
			if !strings.HasSuffix(rel, ".go") || strings.HasSuffix(rel, "_test.go") || !strings.Contains(rel, "/") {
				return nil
			}
			overlay[filepath.Join("/repo", rel)] = path
			return nil
		})
	}

	// add zsimrt package
	zents, err := os.ReadDir(*zs)
	if err != nil {
		die("%v", err)
	}
	for _, e := range zents {
		if strings.HasSuffix(e.Name(), ".go") {
			overlay[filepath.Join("/repo", "zsimrt", e.Name())] = filepath.Join(*zs, e.Name())
		}
	}

	// the runtime picks among several ready cases of a select at random; the
	// simulation owns that choice too (zsimrt.SetSelectSeed): one patched file
	// of package runtime goes into the overlay
	if err := patchRuntimeSelect(*out, overlay); err != nil {
		die("runtime select patch: %v", err)
	}

	ob, _ := json.MarshalIndent(map[string]any{"Replace": overlay}, "", " ")
	if err := os.WriteFile(filepath.Join(*out, "overlay.json"), ob, 0o644); err != nil {
		die("%v", err)
	}
	sort.Strings(rep.SkippedMapRanges)
	rb, _ := json.MarshalIndent(rep, "", " ")
	os.WriteFile(filepath.Join(*out, "report.json"), rb, 0o644)
}

const selectPatch = `

// --- added by /verif/tools/instrument -------------------------------------
// simSelectState is 0 outside simulated runs (the runtime's own randomness is
// used); inside a run it is a splitmix64 state seeded by the simulation, so
// that the poll order of every select is a function of the run's seed and of
// the (serialised, hence reproducible) sequence of selects executed so far.
var simSelectState uint64

//go:linkname simSelectSet
func simSelectSet(v uint64) { simSelectState = v }

func selectrandn(n uint32) uint32 {
	if simSelectState == 0 {
		return cheaprandn(n)
	}
	simSelectState += 0x9e3779b97f4a7c15
	z := simSelectState
	z = (z ^ (z >> 30)) * 0xbf58476d1ce4e5b9
	z = (z ^ (z >> 27)) * 0x94d049bb133111eb
	z ^= z >> 31
	return uint32(((z >> 32) * uint64(n)) >> 32)
}
`

// atomicValueGlobals lists the package-level variables declared as
// `var x atomic.Value` (no initialiser) in the given files.
func atomicValueGlobals(files []*ast.File) (pkg string, names []string) {
	for _, f := range files {
		pkg = f.Name.Name
		for _, d := range f.Decls {
			gd, ok := d.(*ast.GenDecl)
			if !ok || gd.Tok != token.VAR {
				continue
			}
			for _, sp := range gd.Specs {
				vs := sp.(*ast.ValueSpec)
				se, ok := vs.Type.(*ast.SelectorExpr)
				if !ok || len(vs.Values) != 0 {
					continue
				}
				if x, ok := se.X.(*ast.Ident); ok && x.Name == "atomic" && se.Sel.Name == "Value" {
					for _, n := range vs.Names {
						names = append(names, n.Name)
					}
				}
			}
		}
	}
	sort.Strings(names)
	return
}

func patchRuntimeSelect(out string, overlay map[string]string) error {
	goroot := runtime.GOROOT()
	if v := os.Getenv("GOROOT"); v != "" {
		goroot = v
	}
	src := filepath.Join(goroot, "src", "runtime", "select.go")
	b, err := os.ReadFile(src)
	if err != nil {
		return err
	}
	const call = "j := cheaprandn(uint32(norder + 1))"
	if bytes.Count(b, []byte(call)) != 1 {
		return fmt.Errorf("%s: expected exactly one %q", src, call)
	}
	b = bytes.Replace(b, []byte(call), []byte("j := selectrandn(uint32(norder + 1))"), 1)
	b = append(b, []byte(selectPatch)...)
	dst := filepath.Join(out, "runtime_select.go")
	if err := os.WriteFile(dst, b, 0o644); err != nil {
		return err
	}
	overlay[src] = dst
	return nil
}

func hasConstraint(f *ast.File) bool {
	for _, cg := range f.Comments {
		if cg.Pos() >= f.Package {
			break
		}
		for _, c := range cg.List {
			if constraint.IsGoBuild(c.Text) || constraint.IsPlusBuild(c.Text) {
				return true
			}
		}
	}
	return false
}

// ---------------------------------------------------------------------------

type lenientImporter struct {
	fset  *token.FileSet
	repo  string
	cache map[string]*types.Package
	std   types.Importer
}

func (l *lenientImporter) Import(path string) (*types.Package, error) {
	if p, ok := l.cache[path]; ok {
		return p, nil
	}
	if strings.HasPrefix(path, modPath+"/") {
		dir := filepath.Join(l.repo, strings.TrimPrefix(path, modPath+"/"))
		pkgs, err := parser.ParseDir(l.fset, dir, func(fi os.FileInfo) bool { return !strings.HasSuffix(fi.Name(), "_test.go") }, 0)
		if err == nil {
			for name, p := range pkgs {
				if strings.HasSuffix(name, "_test") {
					continue
				}
				var fs []*ast.File
				var ns []string
				for n := range p.Files {
					ns = append(ns, n)
				}
				sort.Strings(ns)
				for _, n := range ns {
					if !hasConstraint(p.Files[n]) || strings.Contains(n, "reflect.go") {
						fs = append(fs, p.Files[n])
					}
				}
				conf := types.Config{Importer: l, Error: func(error) {}, FakeImportC: true}
				tp, _ := conf.Check(path, l.fset, fs, nil)
				if tp != nil {
					l.cache[path] = tp
					return tp, nil
				}
			}
		}
	}
	if !strings.Contains(strings.SplitN(path, "/", 2)[0], ".") { // std
		if p, err := l.std.Import(path); err == nil {
			l.cache[path] = p
			return p, nil
		}
	}
	// unknown third-party package: fake, everything inside it is invalid-typed
	name := path[strings.LastIndex(path, "/")+1:]
	p := types.NewPackage(path, name)
	p.MarkComplete()
	l.cache[path] = p
	return p, nil
}

// ---------------------------------------------------------------------------

type rewriter struct {
	fset     *token.FileSet
	info     *types.Info
	file     *ast.File
	name     string
	funcName string
	seq      int
	ord      map[string]int
	usesZ    bool
	syncName string
	timeName string
}

func (r *rewriter) importName(path string) string {
	for _, im := range r.file.Imports {
		if strings.Trim(im.Path.Value, `"`) == path {
			if im.Name != nil {
				return im.Name.Name
			}
			return path[strings.LastIndex(path, "/")+1:]
		}
	}
	return ""
}

func (r *rewriter) site(kind string) *ast.BasicLit {
	if r.ord == nil {
		r.ord = map[string]int{}
	}
	k := r.funcName + ":" + kind
	r.ord[k]++
	s := fmt.Sprintf("%s:%s:%s#%d", strings.TrimSuffix(r.name, ".go"), r.funcName, kind, r.ord[k])
	rep.Counts[kind]++
	return &ast.BasicLit{Kind: token.STRING, Value: fmt.Sprintf("%q", s)}
}

func (r *rewriter) tmp(prefix string) *ast.Ident {
	r.seq++
	return ast.NewIdent(fmt.Sprintf("_z%s%d", prefix, r.seq))
}

func z(name string) ast.Expr {
	return &ast.SelectorExpr{X: ast.NewIdent("zsimrt"), Sel: ast.NewIdent(name)}
}

func call(fun ast.Expr, args ...ast.Expr) *ast.CallExpr {
	return &ast.CallExpr{Fun: fun, Args: args}
}

func (r *rewriter) run() {
	r.syncName = r.importName("sync")
	r.timeName = r.importName("time")

	for _, d := range r.file.Decls {
		switch d := d.(type) {
		case *ast.FuncDecl:
			r.funcName = d.Name.Name
			if d.Recv != nil && len(d.Recv.List) == 1 {
				r.funcName = recvName(d.Recv.List[0].Type) + "." + d.Name.Name
			}
			r.fieldList(d.Type.Params)
			r.fieldList(d.Type.Results)
			r.fieldList(d.Recv)
			if d.Body != nil {
				r.block(d.Body)
			}
		case *ast.GenDecl:
			r.funcName = "decl"
			for _, s := range d.Specs {
				switch s := s.(type) {
				case *ast.TypeSpec:
					s.Type = r.expr(s.Type)
				case *ast.ValueSpec:
					if s.Type != nil {
						s.Type = r.expr(s.Type)
					}
					for i := range s.Values {
						s.Values[i] = r.expr(s.Values[i])
					}
				}
			}
		}
	}

	if r.usesZ {
		addImport(r.file, modPath+"/zsimrt")
	}
	// keep possibly-now-unused imports alive
	if r.syncName != "" {
		r.file.Decls = append(r.file.Decls, keepAlive(r.syncName, "Locker"))
	}
	if r.timeName != "" {
		r.file.Decls = append(r.file.Decls, keepAlive(r.timeName, "Duration"))
	}
}

func keepAlive(pkg, typ string) ast.Decl {
	return &ast.GenDecl{Tok: token.VAR, Specs: []ast.Spec{&ast.ValueSpec{
		Names: []*ast.Ident{ast.NewIdent("_")},
		Type:  &ast.SelectorExpr{X: ast.NewIdent(pkg), Sel: ast.NewIdent(typ)},
	}}}
}

func addImport(f *ast.File, path string) {
	spec := &ast.ImportSpec{Path: &ast.BasicLit{Kind: token.STRING, Value: fmt.Sprintf("%q", path)}}
	for _, d := range f.Decls {
		if g, ok := d.(*ast.GenDecl); ok && g.Tok == token.IMPORT {
			g.Specs = append(g.Specs, spec)
			if !g.Lparen.IsValid() {
				g.Lparen = g.Pos()
				g.Rparen = g.End()
			}
			f.Imports = append(f.Imports, spec)
			return
		}
	}
	f.Decls = append([]ast.Decl{&ast.GenDecl{Tok: token.IMPORT, Specs: []ast.Spec{spec}}}, f.Decls...)
	f.Imports = append(f.Imports, spec)
}

func recvName(e ast.Expr) string {
	switch e := e.(type) {
	case *ast.StarExpr:
		return recvName(e.X)
	case *ast.Ident:
		return e.Name
	case *ast.IndexExpr:
		return recvName(e.X)
	}
	return "?"
}

func (r *rewriter) fieldList(fl *ast.FieldList) {
	if fl == nil {
		return
	}
	for _, f := range fl.List {
		f.Type = r.expr(f.Type)
	}
}

// expr rewrites an expression tree and returns the replacement.
func (r *rewriter) expr(e ast.Expr) ast.Expr {
	switch e := e.(type) {
	case nil:
		return nil
	case *ast.SelectorExpr:
		if id, ok := e.X.(*ast.Ident); ok && id.Obj == nil {
			if r.syncName != "" && id.Name == r.syncName {
				switch e.Sel.Name {
				case "Mutex", "RWMutex", "Once", "Cond", "WaitGroup", "NewCond":
					r.usesZ = true
					rep.Counts["sync."+e.Sel.Name]++
					return z(e.Sel.Name)
				}
			}
			if r.timeName != "" && id.Name == r.timeName && e.Sel.Name == "Sleep" {
				r.usesZ = true
				rep.Counts["time.Sleep"]++
				return z("Sleep")
			}
		}
		e.X = r.expr(e.X)
		return e
	case *ast.UnaryExpr:
		e.X = r.expr(e.X)
		if e.Op == token.ARROW {
			r.usesZ = true
			return call(z("Recv"), r.site("recv"), e.X)
		}
		return e
	case *ast.CallExpr:
		e.Fun = r.expr(e.Fun)
		for i := range e.Args {
			e.Args[i] = r.expr(e.Args[i])
		}
		// time.AfterFunc(d, func(){...})
		if sel, ok := e.Fun.(*ast.SelectorExpr); ok && sel.Sel.Name == "AfterFunc" && len(e.Args) == 2 {
			if id, ok := sel.X.(*ast.Ident); ok && id.Name == r.timeName {
				if fl, ok := e.Args[1].(*ast.FuncLit); ok {
					r.usesZ = true
					// the creation ticket is drawn when the callback is registered
					e.Args[1] = call(z("Spawned"), r.site("afterfunc"), fl)
				} else {
					rep.SkippedSites = append(rep.SkippedSites, r.pos(e)+": AfterFunc with non-literal func")
				}
			}
		}
		return e
	case *ast.FuncLit:
		r.fieldList(e.Type.Params)
		r.fieldList(e.Type.Results)
		r.block(e.Body)
		return e
	case *ast.ParenExpr:
		e.X = r.expr(e.X)
		return e
	case *ast.StarExpr:
		e.X = r.expr(e.X)
		return e
	case *ast.BinaryExpr:
		e.X = r.expr(e.X)
		e.Y = r.expr(e.Y)
		return e
	case *ast.IndexExpr:
		e.X = r.expr(e.X)
		e.Index = r.expr(e.Index)
		return e
	case *ast.IndexListExpr:
		e.X = r.expr(e.X)
		for i := range e.Indices {
			e.Indices[i] = r.expr(e.Indices[i])
		}
		return e
	case *ast.SliceExpr:
		e.X = r.expr(e.X)
		e.Low = r.expr(e.Low)
		e.High = r.expr(e.High)
		e.Max = r.expr(e.Max)
		return e
	case *ast.TypeAssertExpr:
		e.X = r.expr(e.X)
		e.Type = r.expr(e.Type)
		return e
	case *ast.KeyValueExpr:
		e.Key = r.expr(e.Key)
		e.Value = r.expr(e.Value)
		return e
	case *ast.CompositeLit:
		e.Type = r.expr(e.Type)
		for i := range e.Elts {
			e.Elts[i] = r.expr(e.Elts[i])
		}
		return e
	case *ast.ArrayType:
		e.Elt = r.expr(e.Elt)
		return e
	case *ast.MapType:
		e.Key = r.expr(e.Key)
		e.Value = r.expr(e.Value)
		return e
	case *ast.ChanType:
		e.Value = r.expr(e.Value)
		return e
	case *ast.StructType:
		r.fieldList(e.Fields)
		return e
	case *ast.FuncType:
		r.fieldList(e.Params)
		r.fieldList(e.Results)
		return e
	case *ast.InterfaceType:
		r.fieldList(e.Methods)
		return e
	case *ast.Ellipsis:
		e.Elt = r.expr(e.Elt)
		return e
	}
	return e
}

func (r *rewriter) pos(n ast.Node) string {
	p := r.fset.Position(n.Pos())
	return fmt.Sprintf("%s:%d", filepath.Base(p.Filename), p.Line)
}

func (r *rewriter) block(b *ast.BlockStmt) {
	if b == nil {
		return
	}
	b.List = r.stmts(b.List)
}

func (r *rewriter) stmts(list []ast.Stmt) []ast.Stmt {
	var out []ast.Stmt
	for _, s := range list {
		pre, s2 := r.stmt(s)
		out = append(out, pre...)
		out = append(out, s2)
	}
	return out
}

// simple rewrites a statement in a position where no statement can be
// inserted before it (if/for/switch init and post clauses).
func (r *rewriter) simple(s ast.Stmt) ast.Stmt {
	if s == nil {
		return nil
	}
	pre, s2 := r.stmt(s)
	if len(pre) > 0 {
		die("%s: statement in init/post position needs pre-statements", r.pos(s))
	}
	return s2
}

// stmt rewrites one statement that lives in a statement list; it returns
// statements to insert before it, and its replacement.
func (r *rewriter) stmt(s ast.Stmt) ([]ast.Stmt, ast.Stmt) {
	switch s := s.(type) {
	case *ast.LabeledStmt:
		pre, inner := r.stmt(s.Stmt)
		s.Stmt = inner
		return pre, s
	case *ast.ExprStmt:
		s.X = r.expr(s.X)
		return nil, s
	case *ast.AssignStmt:
		// v, ok := <-ch
		if len(s.Lhs) == 2 && len(s.Rhs) == 1 {
			if u, ok := s.Rhs[0].(*ast.UnaryExpr); ok && u.Op == token.ARROW {
				u.X = r.expr(u.X)
				for i := range s.Lhs {
					s.Lhs[i] = r.expr(s.Lhs[i])
				}
				r.usesZ = true
				s.Rhs[0] = call(z("Recv2"), r.site("recv"), u.X)
				return nil, s
			}
		}
		for i := range s.Lhs {
			s.Lhs[i] = r.expr(s.Lhs[i])
		}
		for i := range s.Rhs {
			s.Rhs[i] = r.expr(s.Rhs[i])
		}
		return nil, s
	case *ast.SendStmt:
		s.Chan = r.expr(s.Chan)
		s.Value = r.expr(s.Value)
		r.usesZ = true
		site := r.site("send")
		t := r.tmp("t")
		return nil, &ast.BlockStmt{List: []ast.Stmt{
			&ast.AssignStmt{Lhs: []ast.Expr{t}, Tok: token.DEFINE, Rhs: []ast.Expr{call(z("Pre"), site)}},
			s,
			&ast.ExprStmt{X: call(z("Post"), t, site)},
		}}
	case *ast.GoStmt:
		return nil, r.goStmt(s)
	case *ast.DeferStmt:
		s.Call = r.expr(s.Call).(*ast.CallExpr)
		return nil, s
	case *ast.ReturnStmt:
		for i := range s.Results {
			s.Results[i] = r.expr(s.Results[i])
		}
		return nil, s
	case *ast.IncDecStmt:
		s.X = r.expr(s.X)
		return nil, s
	case *ast.DeclStmt:
		if g, ok := s.Decl.(*ast.GenDecl); ok {
			for _, sp := range g.Specs {
				switch sp := sp.(type) {
				case *ast.ValueSpec:
					if sp.Type != nil {
						sp.Type = r.expr(sp.Type)
					}
					for i := range sp.Values {
						sp.Values[i] = r.expr(sp.Values[i])
					}
				case *ast.TypeSpec:
					sp.Type = r.expr(sp.Type)
				}
			}
		}
		return nil, s
	case *ast.BlockStmt:
		r.block(s)
		return nil, s
	case *ast.IfStmt:
		s.Init = r.simple(s.Init)
		s.Cond = r.expr(s.Cond)
		r.block(s.Body)
		if s.Else != nil {
			_, e := r.stmt(s.Else)
			s.Else = e
		}
		return nil, s
	case *ast.SwitchStmt:
		s.Init = r.simple(s.Init)
		s.Tag = r.expr(s.Tag)
		for _, c := range s.Body.List {
			cc := c.(*ast.CaseClause)
			for i := range cc.List {
				cc.List[i] = r.expr(cc.List[i])
			}
			cc.Body = r.stmts(cc.Body)
		}
		return nil, s
	case *ast.TypeSwitchStmt:
		s.Init = r.simple(s.Init)
		s.Assign = r.simple(s.Assign)
		for _, c := range s.Body.List {
			cc := c.(*ast.CaseClause)
			cc.Body = r.stmts(cc.Body)
		}
		return nil, s
	case *ast.SelectStmt:
		r.usesZ = true
		site := r.site("select")
		t := r.tmp("t")
		for _, c := range s.Body.List {
			cc := c.(*ast.CommClause)
			// the comm itself stays syntactic; rewrite only sub-expressions that are not the comm op
			switch comm := cc.Comm.(type) {
			case *ast.SendStmt:
				comm.Chan = r.expr(comm.Chan)
				comm.Value = r.expr(comm.Value)
			case *ast.ExprStmt:
				if u, ok := comm.X.(*ast.UnaryExpr); ok && u.Op == token.ARROW {
					u.X = r.expr(u.X)
				}
			case *ast.AssignStmt:
				if u, ok := comm.Rhs[0].(*ast.UnaryExpr); ok && u.Op == token.ARROW {
					u.X = r.expr(u.X)
				}
			}
			body := r.stmts(cc.Body)
			cc.Body = append([]ast.Stmt{&ast.ExprStmt{X: call(z("Post"), t, site)}}, body...)
		}
		pre := &ast.AssignStmt{Lhs: []ast.Expr{t}, Tok: token.DEFINE, Rhs: []ast.Expr{call(z("Pre"), site)}}
		return []ast.Stmt{pre}, s
	case *ast.ForStmt:
		s.Init = r.simple(s.Init)
		s.Cond = r.expr(s.Cond)
		s.Post = r.simple(s.Post)
		r.block(s.Body)
		return nil, s
	case *ast.RangeStmt:
		return r.rangeStmt(s)
	}
	return nil, s
}

func isSimpleArg(e ast.Expr) bool {
	switch e := e.(type) {
	case *ast.BasicLit:
		return true
	case *ast.Ident:
		return e.Name == "nil" || e.Name == "true" || e.Name == "false"
	}
	return false
}

func (r *rewriter) goStmt(s *ast.GoStmt) ast.Stmt {
	r.usesZ = true
	site := r.site("go")
	c := s.Call
	var pre []ast.Stmt
	// function value
	if fl, ok := c.Fun.(*ast.FuncLit); ok {
		r.expr(fl)
	} else {
		c.Fun = r.expr(c.Fun)
		f := r.tmp("f")
		pre = append(pre, &ast.AssignStmt{Lhs: []ast.Expr{f}, Tok: token.DEFINE, Rhs: []ast.Expr{c.Fun}})
		c.Fun = f
	}
	for i, a := range c.Args {
		a = r.expr(a)
		c.Args[i] = a
		if isSimpleArg(a) {
			continue
		}
		t := r.tmp("a")
		pre = append(pre, &ast.AssignStmt{Lhs: []ast.Expr{t}, Tok: token.DEFINE, Rhs: []ast.Expr{a}})
		c.Args[i] = t
	}
	ticket := r.tmp("s")
	pre = append(pre, &ast.AssignStmt{Lhs: []ast.Expr{ticket}, Tok: token.DEFINE, Rhs: []ast.Expr{call(z("Spawn"))}})
	lit := &ast.FuncLit{
		Type: &ast.FuncType{Params: &ast.FieldList{}},
		Body: &ast.BlockStmt{List: []ast.Stmt{
			&ast.ExprStmt{X: call(z("EnterSeq"), site, ticket)},
			&ast.ExprStmt{X: c},
		}},
	}
	s.Call = &ast.CallExpr{Fun: lit}
	return &ast.BlockStmt{List: append(pre, s)}
}

func orderable(t types.Type) bool {
	switch u := t.Underlying().(type) {
	case *types.Basic:
		return u.Info()&(types.IsInteger|types.IsString|types.IsBoolean) != 0
	case *types.Struct:
		for i := 0; i < u.NumFields(); i++ {
			if !orderable(u.Field(i).Type()) {
				return false
			}
		}
		return true
	case *types.Array:
		return orderable(u.Elem())
	case *types.Pointer:
		// ordered by a fingerprint of the pointee's plain data (zsimrt.Keys)
		_, ok := u.Elem().Underlying().(*types.Struct)
		return ok
	}
	return false
}

func (r *rewriter) rangeStmt(s *ast.RangeStmt) ([]ast.Stmt, ast.Stmt) {
	var xt types.Type
	if tv, ok := r.info.Types[s.X]; ok && tv.Type != nil {
		xt = tv.Type
	}
	s.X = r.expr(s.X)
	if s.Key != nil {
		s.Key = r.expr(s.Key)
	}
	if s.Value != nil {
		s.Value = r.expr(s.Value)
	}
	r.block(s.Body)
	if xt == nil {
		rep.SkippedMapRanges = append(rep.SkippedMapRanges, r.pos(s)+": type unknown")
		return nil, s
	}
	if b, ok := xt.Underlying().(*types.Basic); ok && b.Kind() == types.Invalid {
		rep.SkippedMapRanges = append(rep.SkippedMapRanges, r.pos(s)+": type unknown")
		return nil, s
	}
	switch u := xt.Underlying().(type) {
	case *types.Chan:
		// for x := range ch { body }  =>  for { x, ok := Recv2(ch); if !ok { break }; body }
		r.usesZ = true
		site := r.site("recv")
		okv := r.tmp("ok")
		var lhs ast.Expr = ast.NewIdent("_")
		tok := token.DEFINE
		if s.Key != nil {
			lhs = s.Key
			tok = s.Tok
		}
		if tok == token.ILLEGAL {
			tok = token.DEFINE
		}
		var recv ast.Stmt
		if tok == token.DEFINE {
			recv = &ast.AssignStmt{Lhs: []ast.Expr{lhs, okv}, Tok: token.DEFINE, Rhs: []ast.Expr{call(z("Recv2"), site, s.X)}}
		} else {
			recv = &ast.BlockStmt{List: []ast.Stmt{}} // never used in this code base
			die("%s: range over channel with '=' not supported", r.pos(s))
		}
		brk := &ast.IfStmt{Cond: &ast.UnaryExpr{Op: token.NOT, X: okv}, Body: &ast.BlockStmt{List: []ast.Stmt{&ast.BranchStmt{Tok: token.BREAK}}}}
		body := append([]ast.Stmt{recv, brk}, s.Body.List...)
		rep.Counts["range-chan"]++
		return nil, &ast.ForStmt{Body: &ast.BlockStmt{List: body}}
	case *types.Map:
		if !orderable(u.Key()) {
			rep.SkippedMapRanges = append(rep.SkippedMapRanges, r.pos(s)+": key type "+u.Key().String()+" not orderable")
			return nil, s
		}
		if s.Tok != token.DEFINE && s.Key != nil {
			rep.SkippedMapRanges = append(rep.SkippedMapRanges, r.pos(s)+": range with '='")
			return nil, s
		}
		r.usesZ = true
		rep.Counts["range-map"]++
		key := s.Key
		if key == nil || isBlank(key) {
			key = r.tmp("k")
		}
		var pre []ast.Stmt
		m := s.X
		// evaluate the map expression once, as range does
		if _, isIdent := m.(*ast.Ident); !isIdent {
			mv := r.tmp("m")
			pre = append(pre, &ast.AssignStmt{Lhs: []ast.Expr{mv}, Tok: token.DEFINE, Rhs: []ast.Expr{m}})
			m = mv
		}
		okv := r.tmp("ok")
		var val ast.Expr = ast.NewIdent("_")
		if s.Value != nil && !isBlank(s.Value) {
			val = s.Value
		}
		get := &ast.AssignStmt{Lhs: []ast.Expr{val, okv}, Tok: token.DEFINE, Rhs: []ast.Expr{&ast.IndexExpr{X: m, Index: key}}}
		cont := &ast.IfStmt{Cond: &ast.UnaryExpr{Op: token.NOT, X: okv}, Body: &ast.BlockStmt{List: []ast.Stmt{&ast.BranchStmt{Tok: token.CONTINUE}}}}
		body := append([]ast.Stmt{get, cont}, s.Body.List...)
		loop := &ast.RangeStmt{Key: ast.NewIdent("_"), Value: key, Tok: token.DEFINE, X: call(z("Keys"), m), Body: &ast.BlockStmt{List: body}}
		if len(pre) > 0 {
			// keep scoping tight; labels on range-over-map loops with pre statements are not used in this code base
			return pre, loop
		}
		return nil, loop
	}
	return nil, s
}

func isBlank(e ast.Expr) bool {
	id, ok := e.(*ast.Ident)
	return ok && id.Name == "_"
}
