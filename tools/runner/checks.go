package main

import "time"

// checks maps a property to the scenarios that decide it.
var checks = map[string]checkSpec{
	"C01": {
		Scenarios: []scnSpec{{Name: "writer", Share: 1}},
		Quick:     40 * time.Second, Thorough: 12 * time.Minute, Level: "exploration",
		Rule: "Seeded runs of the real Writer+Transport against the simulated cluster: swarm configuration (brokers, partitions, produce/metadata version ceilings, batch knobs, acks, compression, balancer, sync/async), 1-4 concurrent submitters, seeded goroutine interleaving, and fault plans (error codes, lost acknowledgements, cuts inside responses, slow/stalled brokers, leader moves).",
	},
	"C02": {
		Scenarios: []scnSpec{{Name: "reader", Share: 1}},
		Quick:     45 * time.Second, Thorough: 12 * time.Minute, Level: "exploration",
		Rule: "Seeded runs of a partition-bound Reader against a simulated partition whose physical layout is generated (formats 0/1/2, every codec, v1 wrappers with relative/absolute inner offsets, compaction holes, missing tails, retained empty batches, responses cut at the byte limit), with appends, retention, SetOffset in all modes, leader moves and network/broker faults; every delivered message is compared with the stored log and the expected position. In a quarter of the runs SetOffset is called from a second goroutine while FetchMessage may be waiting: a call overlapped by SetOffset may be served from the earlier position or from the target, every later call must be served from the target.",
	},
	"C03": {
		Scenarios: []scnSpec{{Name: "group", Share: 1}},
		Quick:     50 * time.Second, Thorough: 15 * time.Minute, Level: "exploration",
		Rule: "Seeded histories of 1-4 group Readers (FetchMessage+CommitMessages and ReadMessage users, sync and interval commits) against the simulated coordinator: members joining late, closing, crashing (black-holed until evicted), coordinator moves, error codes / cuts / slow answers on every group API, appends during reading; commits, hand-overs and resume points are checked against the coordinator's journal (R1-R5) and every leader assignment against the C14 invariants. Brokers list the partitions of a topic in ascending, descending, rotated or odd-before-even order.",
	},
	"C15": {
		Scenarios: []scnSpec{{Name: "cgroup", Share: 1}},
		Quick:     40 * time.Second, Thorough: 12 * time.Minute, Level: "exploration",
		Rule: "The exported ConsumerGroup API driven directly by 1-3 members: Next loops, 0-4 functions per generation (prompt, lingering, self-exiting, late-started), Close at a seeded instant, coordinator answers drawn from success / error codes / cuts / slow / stalls on every group API, evictions, partition additions with the watcher; oracles R1-R6 over function lifetimes and the coordinator journal (exact simulated instants in fault-free timing).",
	},
	"C09": {
		Scenarios: []scnSpec{{Name: "writer", Params: "close=race", Share: 0.35}, {Name: "group", Params: "lifecycle=1", Share: 0.3}, {Name: "cgroup", Share: 0.2}, {Name: "ctxend", Share: 0.15}},
		Quick:     70 * time.Second, Thorough: 15 * time.Minute, Level: "exploration",
		Rule: "Close placed by the seeded scheduler anywhere inside concurrent WriteMessages calls (Writer), during joins, syncs, rebalances, fetches and commits with healthy, slow, erroring or silent coordinators (Reader, ConsumerGroup); bounded return of Close, completions before Close returns, io.ErrClosedPipe / io.EOF after Close, context errors at the instant the context ends, no request after Close, LeaveGroup, and a goroutine/connection census after the network time-outs. Scenario ctxend blocks Client round trips, FetchMessage/ReadMessage, synchronous CommitMessages and WriteMessages on something that cannot end before the context does (an API the broker never answers, a destination swallowing connection attempts, a partition without new data; every client time-out 30 s) and ends the context by deadline or by cancel from another goroutine: the call must return at that very simulated instant with an error wrapping the context's error.",
	},
	"C06": {
		Scenarios: []scnSpec{{Name: "crosstalk", Share: 1}},
		Quick:     40 * time.Second, Thorough: 12 * time.Minute, Level: "exploration",
		Rule: "2-8 goroutines share one Conn (ReadOffset with injective answers, ReadPartitions of distinct topics, ReadOffsets, Brokers, SetDeadline racing with I/O) or one Transport/Client (ListOffsets, Metadata, OffsetFetch, Fetch of pairwise distinct targets) with contexts cancelled or expiring mid-flight, slow / silent brokers, cuts and error codes; every call must return its own (precomputed) answer or an error, and correlation ids must be unique per connection. Conn mode also abandons fetch responses part-way (short-buffer Batch.Read, one message, unread) while the others' calls are in flight.",
	},
	"C11": {
		Scenarios: []scnSpec{{Name: "connerr", Share: 0.6, CountKey: "connerr"}, {Name: "stallclose", Share: 0.4, CountKey: "stallclose"}},
		Quick:     30 * time.Second, Thorough: 10 * time.Minute, Level: "fault_enumeration",
		Rule: "Exhaustive enumeration (thorough tier; the quick tier walks a seed-dependent subset of the same bijection) of 13 Conn operations (incl. Batch.Read into a too-short buffer, the documented non-fatal local error, and a slowly acknowledged WriteMessages during which another goroutine sets a short read deadline) x 3 negotiated-version configurations (produce v2/v3/v7, fetch v2/v5/v10, metadata v1/v6) x 11 faults (8 Kafka error codes placed in the operation's error field, response cut mid-way, garbage size prefix, wrong correlation id) x 2 error-field positions x 13 follow-up operations = 11154 cases (cases whose fault does not apply to the api/version run fault-free and the follow-up must still find the connection aligned); after a broker error code the follow-up must behave as on a fresh connection, after a framing/transport error it must fail, and no operation may return a value other than the model's.",
	},
	"C17": {
		Scenarios: []scnSpec{{Name: "cutresp", Share: 1, CountKey: "cutresp"}},
		Quick:     45 * time.Second, Thorough: 15 * time.Minute, Level: "fault_enumeration",
		Rule: "For every response kind of the corpus (Conn: ApiVersions, Metadata v1/v6, ListOffsets, Produce v2/v3/v7, CreateTopics, DeleteTopics, Fetch v2/v5/v10 with magic 0/1/2 and gzip/snappy/zstd payloads; Transport: Fetch, Metadata, ListOffsets, Produce, OffsetFetch, OffsetCommit, FindCoordinator, JoinGroup, SyncGroup, Heartbeat, LeaveGroup, CreateTopics, DeleteTopics, InitProducerID, ApiVersions, DescribeGroups, ListGroups at the low and high ends of their negotiable versions incl. flexible ones) the response is delivered up to byte k and the connection then ends with EOF or RST, for every k in [0, 2048] (positions beyond the response length deliver it whole: the complete-value check); each case in two variants: plain, and (Conn) with a second goroutine's call pending on the connection / (Transport) on a connection that has already served an exchange and comes from the idle pool; a success after a cut is only accepted when the same request was re-issued on another connection, and a successful Produce must be in the log. The run index walks a bijection of that space, so the thorough tier covers every (kind, k, mode, variant) once.",
	},
	"C20": {
		Scenarios: []scnSpec{{Name: "lenfuzz", Share: 0.55, CountKey: "lenfuzz", MemLimitKB: 8 << 20}, {Name: "sizecut", Share: 0.4, CountKey: "sizecut", MemLimitKB: 8 << 20}, {Name: "saslraw", Share: 0.05, CountKey: "saslraw", MemLimitKB: 8 << 20}},
		Quick:     25 * time.Second, Thorough: 10 * time.Minute, Level: "fault_enumeration",
		Rule:   "For every Transport/Client response kind of the corpus, every length or count field of the encoded response (frame size, fixed and compact string/bytes/array lengths, tagged-field counts and sizes, record-set size, batch length / message size and, left with their wrong checksum, the lengths inside record batches) is overwritten with each value of {-2^31, -2, -1, 0, 1, 2^16, 2^31-1, (varints:) 2^32, 2^63-1, true-1, true+1, rest-of-frame+1} (lenfuzz); every response is also announced as 1 MiB / 64 MiB / 2^31-1 bytes and delivered up to byte k for every k, after which the broker closes or stalls (sizecut); and the raw SASL token that follows a version-0 handshake gets each hostile length with 0/3/40 bytes behind it (saslraw). The call must return (no panic, no process death), within its deadline, and allocate no more than 64 x bytes received + 1 MiB (+ a fixed decompressor allowance).",
		Assume: []string{"allocation is measured with runtime.MemStats.TotalAlloc around the call in a single-goroutine-at-a-time simulation"},
	},
	"C12": {
		Scenarios: []scnSpec{{Name: "routing", Share: 1}},
		Quick:     40 * time.Second, Thorough: 12 * time.Minute, Level: "exploration",
		Rule: "2-5 brokers with heterogeneous advertised version tables ([min,max] per api and broker), topics, partitions and groups spread over them; 1-4 goroutines issue every routed kind of Client call (produce, fetch, multi-leader list-offsets, group requests, create-topics, transactional InitProducerID, filtered metadata) while leaders, coordinators and the controller move; every request in the brokers' journal must have gone to the broker designated by a metadata snapshot (or FindCoordinator answer) delivered within MetadataTTL + RTT before its arrival, at the highest version common to the library's declared range and the range that broker advertised.",
	},
	"C19": {
		Scenarios: []scnSpec{{Name: "queries", Share: 0.75}, {Name: "routing", Share: 0.25}},
		Quick:     35 * time.Second, Thorough: 10 * time.Minute, Level: "exploration",
		Rule: "Random static cluster states (1-4 brokers, topics/partitions spread over leaders, log start offsets from 0 to beyond 2^33, record timestamps, committed offsets per group) queried through Conn (ReadOffsets, ReadOffset(time), Seek in every whence mode with and without SeekDontCheck, ReadPartitions) and Client (ListOffsets spanning many topics/partitions/leaders with mixed first/last/time requests, OffsetFetch, ConsumerOffsets, OffsetCommit, Metadata) by 1-3 goroutines, with per-partition error codes and an unreachable leader for a subset; every returned value is compared with the model and an injected failure must appear on its partition only. ListOffsets asks 1-3 look-ups of distinct kinds per partition; failures can be confined to one kind of look-up, and the partition's entry must then carry the error. A quarter of the budget goes to the routing scenario (a cluster that changes: leader moves and elections, broker restarts, metadata requests that are never answered): once the cluster has been left alone for three MetadataTTLs plus two seconds, Client.Metadata reports its current leaders (R4-metadata-stale).",
	},
	"C18": {
		Scenarios: []scnSpec{{Name: "sasl", Share: 0.9}, {Name: "saslraw", Share: 0.1, CountKey: "saslraw"}},
		Quick:     30 * time.Second, Thorough: 8 * time.Minute, Level: "exploration",
		Rule: "PLAIN, SCRAM-SHA-256 and SCRAM-SHA-512 with user names and passwords that need escaping or SASLprep, handshake v0 (raw tokens) and v1 (SaslAuthenticate frames), through Dialer->Conn and through a Transport shared by several goroutines; healthy exchanges and every failure placement (wrong password, unknown user, mechanism not enabled, error code in SaslAuthenticate, malformed server-first / server-final message, connection closed after the handshake or mid-exchange). The broker model reports any non-authentication request that arrives before its hand-written reference server (RFC 4616 / RFC 5802) accepted the exchange; dialling must succeed exactly when that server accepted, and a failed connection must be closed.",
	},
	"C13": {
		Scenarios: []scnSpec{{Name: "balancers", Share: 0.8}, {Name: "writer", Params: "faults=0", Share: 0.2}},
		Quick:     30 * time.Second, Thorough: 5 * time.Minute, Level: "exploration",
		Rule: "Concurrent part (simulated): 1-6 goroutines call Balance on one RoundRobin (ChunkSize 0..5, fixed and varying partition counts) or LeastBytes under the seeded scheduler, which owns the interleaving of the balancers' mutexes; the recorded invoke/return history (event sequence numbers) is checked for linearizability against a sequential model with porcupine, followed by an exact quiescent continuation of the round-robin cycle; Hash / ReferenceHash with a caller-supplied hasher that yields inside Write are shared by 2-5 goroutines. Hash part (seeded input generation, not simulation): keys of every length mod 4, high-bit bytes, nil versus empty, partition counts 1..1000 against independent re-implementations of Sarama's FNV-1a partitioners, librdkafka's CRC32 partitioner and Java's murmur2 toPositive % n. Monitor: every Balance call a Writer makes in the writer scenario is compared with the same references and must return an offered partition. Writer part: topics of up to 300 partitions (the partition-list cache grows in steps of 128; process-wide caches are emptied at the start of each run); the list offered to the balancer must be 0..n-1 for the topic's n partitions.",
	},
	"C14": {
		Scenarios: []scnSpec{{Name: "gbalance", Share: 0.7}, {Name: "cgroup", Share: 0.15}, {Name: "group", Share: 0.15}},
		Quick:     30 * time.Second, Thorough: 5 * time.Minute, Level: "exploration",
		Rule: "Range, RoundRobin and RackAffinity group balancers called directly with generated groups (1-12 members, 1-4 topics, 0-40 partitions, partial subscriptions, subscriptions to topics without partitions, racks on members and partition leaders, shuffled member and partition listings; half the groups small: <=4 members, <=6 partitions, <=2 topics). The iteration order of every Go map the balancers range over is drawn from the simulator's maporder stream (build overlay), so a failing order is found by the seeded search and replays. Oracle: exactly-one-owner who subscribes, nothing else assigned, per-topic loads within one, order independence and run/stride shape for Range/RoundRobin, per-rack locality bound for RackAffinity; a panic is a violation. The monitor in the cgroup and group scenarios checks the same rules on every assignment a group leader distributes through SyncGroup.",
	},
	"C16": {
		Scenarios: []scnSpec{{Name: "codecs", Share: 1}},
		Quick:     40 * time.Second, Thorough: 10 * time.Minute, Level: "exploration",
		Rule: "1-4 goroutines share one codec value (gzip at two levels, snappy framed/unframed/faster/best, lz4, zstd at two levels) and each runs a generated history of streams through the pooled readers and writers: clean round trips with generated Write partitions and Read buffer sizes biased to the 32 KiB / 64 KiB boundaries, the ReadFrom / WriteTo fast paths, streams written by reference encoders (stdlib gzip incl. multi-member, golang/snappy raw blocks, eapache xerial, hand-framed multi-block xerial, pierrec lz4 and klauspost zstd with other options), sinks that fail permanently or once at a generated byte, sources that are truncated or fail at a generated byte (also returning data and error together), streams abandoned mid-way with and without Close. The scheduler switches goroutines inside the simulated Read/Write calls so pooled objects migrate between goroutines in seed-decided order; pools are emptied before each run so that one run is one self-contained history. Oracle: payload equality, acceptance by the reference decoder of the format used directly, prefix-only output and reported errors under faults. The snappy reader (kafka-go's own WriteTo) is also consumed by a few Read calls followed by WriteTo.",
	},
	"C05": {
		Scenarios: []scnSpec{{Name: "records", Share: 0.6}, {Name: "writer", Params: "faults=0", Share: 0.2}, {Name: "writer", Params: "faults=2", Share: 0.2}},
		Quick:     40 * time.Second, Thorough: 10 * time.Minute, Level: "exploration",
		Rule: "Consume: partitions pre-loaded with generated physical layouts (uncompressed format 0, formats 1 and 2 with every codec, v1 wrappers with dense and gapped relative inner offsets, compaction holes, headers, control batches, fetch versions 2..11 with down-conversion) are fetched concurrently through Client.Fetch and Conn.ReadBatch; the oracle is the independent decoder run over the very bytes the broker model sent: same records, offsets, null-vs-empty keys/values, headers, millisecond timestamps; control batches hidden by Client.Fetch; key/value bytes of records held back while other responses are decoded must still be intact when finally read; a fault flips one byte inside the checksummed part of one batch and no record of that batch may surface. Produce: Conn.WriteMessages / WriteCompressedMessages, Client.Produce and (writer scenario, fault-free and with broker error codes that make the Writer retry) Writer with nil/empty keys and values, headers and sub-millisecond timestamps; every request is strictly decoded by the broker model (lengths, CRC, counts, offset deltas) and the decoded records are compared with what was submitted. One produce call in six carries 600-2500 records (several 64 KiB pages, size/checksum placeholders patched across page boundaries).",
	},
	"C04": {
		Scenarios: []scnSpec{{Name: "fields", Share: 0.45}, {Name: "fields", Flavour: "unsafe", Share: 0.2}, {Name: "connerr", Share: 0.1}, {Name: "queries", Share: 0.1}, {Name: "records", Share: 0.15}},
		Quick:     40 * time.Second, Thorough: 10 * time.Minute, Level: "exploration",
		Rule: "fields: for every API that both kafka-go and the reference codec implement, a protocol.Conn over the simulated network negotiates versions against randomised broker ranges (ApiVersions + SelectVersion, as Transport does) and sends a request filled with generated values (boundary integers, empty/long/non-ASCII strings, nil/empty/non-empty blobs and arrays, nested arrays); the broker model strictly decodes it (size prefix, header, version within the advertised range, client id, canonical body) and the decoded values are compared by Kafka field *name* with the values the caller set; it answers with a generated response for that version plus unknown top-level tagged fields in flexible versions, which the library must decode to exactly those values and consume as exactly one frame (a further exchange on the connection must succeed); run against the default build of the protocol package and against its `unsafe` build (-tags unsafe). The same always-on monitor decodes every request of every other scenario (Conn's hand-written codec in connerr/queries, Transport in all others); records adds the produce paths of Conn and Client with compression, several producers at a time on connections of their own (pooled scratch buffers under contention) and requests larger than the write buffer. protocol.Unmarshal(Marshal(v)) is compared before and after failed decodes on the same goroutine (R5).",
	},
	"C10": {
		Scenarios: []scnSpec{{Name: "racemix", Flavour: "race", Share: 1}},
		Quick:     90 * time.Second, Thorough: 20 * time.Minute, Level: "exploration",
		Rule: "race flavour: generated concurrent client programs over the exported methods of Writer (WriteMessages from several goroutines, Stats, Close at a generated instant, every built-in balancer, multi-topic), Reader with and without a consumer group (FetchMessage/ReadMessage, CommitMessages, SetOffset/SetOffsetAt, Offset, Lag, ReadLag, Stats, Config, Close, a second member joining), Conn (ReadBatch/ReadMessage, WriteMessages, deadline setters, Offset/ReadOffsets/ReadPartitions, Close racing with I/O), Batch (Read/ReadMessage, accessors, Close), Client/Transport (six request kinds from several goroutines, CloseIdleConnections), the balancers and the codecs, run against the simulated cluster (seeded faults, fake clock) with the goroutines free-running on 4 Ps under the Go race detector. The build overlay replaces the library's sync primitives by channel-based ones that block durably inside the bubble and synchronise only through the primitive's own channel (a mutex's edge on that mutex and nothing else); simulated connections give the detector the Write-release / Read-acquire edge internal/poll gives real sockets. Any report with a library frame on either access is a violation, de-duplicated by the pair of access sites; a report purely inside the harness is machinery trouble (exit 2).",
	},
	"C07": {
		Scenarios: []scnSpec{{Name: "writer", Params: "focus=order", Share: 0.7}, {Name: "writer", Params: "close=race", Share: 0.3}},
		Quick:     35 * time.Second, Thorough: 10 * time.Minute, Level: "exploration",
		Rule: "Writer scenario biased to ordering hazards: small batches, several calls per submitter, lost acknowledgements and retriable errors so that a batch is retried while later batches are queued. A share of the runs races Writer.Close (at seeded instants, also exactly when batch timers are due, with goroutines that lose the CPU for up to 2 ms between steps) against Async and synchronous submitters: what was accepted is still appended in submission order.",
	},
	"C08": {
		Scenarios: []scnSpec{{Name: "writer", Params: "focus=limits", Share: 0.6}, {Name: "flush", Share: 0.4}},
		Quick:     35 * time.Second, Thorough: 10 * time.Minute, Level: "exploration",
		Rule: "Writer scenario biased to size boundaries (message sizes at, just below and above BatchBytes; BatchSize 1..n; rejected calls) plus the fault-free zero-latency flush-timing scenario in which flush instants are compared exactly on the simulated clock.",
	},
}
