// Command runner is the entry point behind bin/check: it instruments and
// builds the simulation binary from /repo's current working tree, fans seeded
// runs out over worker processes, aggregates evidence, minimises and replays
// violations, and applies the known-findings file.
//
//	runner check <PROP> <quick|thorough>
//	runner replay <file>
//	runner determinism <scenario> [params]
//
// Exit codes: 0 property held on everything explored (KNOWN-FINDING lines are
// allowed), 1 violation (VIOLATION lines printed), 2 machinery trouble.
package main

import (
	"bufio"
	"crypto/sha1"
	"encoding/json"
	"fmt"
	"os"
	"os/exec"
	"path/filepath"
	"regexp"
	"sort"
	"strconv"
	"strings"
	"sync"
	"sync/atomic"
	"time"
)

const verif = "/verif"

type Violation struct {
	Property string
	Rule     string
	Msg      string
	Step     int
}

type RunLine struct {
	Run        uint64              `json:"run"`
	Digest     string              `json:"digest"`
	Sig        string              `json:"sig"`
	Steps      int                 `json:"steps"`
	SimMs      int64               `json:"sim_ms"`
	WallUs     int64               `json:"wall_us"`
	Ended      string              `json:"ended"`
	Stats      map[string]int      `json:"stats,omitempty"`
	Overlap    bool                `json:"overlap,omitempty"`
	Preempts   int                 `json:"preempts,omitempty"`
	Violations []Violation         `json:"violations,omitempty"`
	Leak       string              `json:"leak,omitempty"`
	Panic      string              `json:"panic,omitempty"`
	Tape       map[string][]uint32 `json:"tape,omitempty"`
	Trace      []string            `json:"trace,omitempty"`
	Notes      map[string]any      `json:"notes,omitempty"`
}

type ReplayFile struct {
	Property  string              `json:"property"`
	Scenario  string              `json:"scenario"`
	Rule      string              `json:"rule"`
	Message   string              `json:"message"`
	Seed      uint64              `json:"seed"`
	Run       uint64              `json:"run"`
	Params    map[string]string   `json:"params,omitempty"`
	Tape      map[string][]uint32 `json:"tape"`
	Step      int                 `json:"step"`
	Digest    string              `json:"trace_digest"`
	Minimised bool                `json:"minimised"`
	Trace     []string            `json:"trace_tail,omitempty"`
	TapeLen   map[string]int      `json:"tape_lengths,omitempty"`
	Flavour   string              `json:"flavour,omitempty"`
	RaceSig   string              `json:"race_signature,omitempty"`
}

type Finding struct {
	Property string `json:"property"`
	Status   string `json:"status"` // finding | fixed
	Rule     string `json:"rule"`
	Match    string `json:"match"` // regexp on the violation message
	What     string `json:"what"`
	Commit   string `json:"commit,omitempty"`
}

func die(code int, f string, a ...any) {
	fmt.Fprintf(os.Stderr, "runner: "+f+"\n", a...)
	os.Exit(code)
}

func env() []string {
	e := os.Environ()
	e = append(e, "GOFLAGS=-mod=mod", "GOPROXY=off", "GOSUMDB=off", "GOTOOLCHAIN=local")
	return e
}

// build instruments /repo's working tree and builds the simulation binary.
func build(dir, flavour string) string {
	repo := os.Getenv("VERIF_REPO")
	if repo == "" {
		repo = "/repo"
	}
	run := func(name string, args ...string) {
		cmd := exec.Command(name, args...)
		cmd.Dir = verif
		cmd.Env = env()
		out, err := cmd.CombinedOutput()
		if err != nil {
			die(2, "build step %s %v failed: %v\n%s", name, args, err, out)
		}
	}
	inst := filepath.Join(dir, "instrument")
	run("go1.26.8", "build", "-o", inst, "./tools/instrument")
	ov := filepath.Join(dir, "ov-"+flavour)
	os.RemoveAll(ov)
	iargs := []string{"-repo", repo, "-zsimrt", filepath.Join(verif, "zsimrt"), "-out", ov}
	run(inst, iargs...)
	bin := filepath.Join(dir, "sim-"+flavour+".test")
	args := []string{"test", "-c", "-vet=off", "-overlay", filepath.Join(ov, "overlay.json")}
	switch flavour {
	case "race":
		args = append(args, "-race")
	case "unsafe":
		args = append(args, "-tags", "unsafe")
	}
	args = append(args, "-o", bin, "./sim")
	run("go1.26.8", args...)
	return bin
}

type scnSpec struct {
	Name       string
	Params     string
	Flavour    string  // plain | race | unsafe
	Share      float64 // share of the budget
	Count      uint64  // fixed number of runs (enumerations); 0 = budget driven
	CountKey   string  // ask the simulation binary for the size of the enumerated space (TestCounts)
	MemLimitKB int     // ulimit -v for the worker processes (0 = none)
}

type checkSpec struct {
	Scenarios []scnSpec
	Quick     time.Duration
	Thorough  time.Duration
	Level     string
	Rule      string
	Assume    []string
}

var stubTable = map[string]string{
	"kafka-go root package (Writer, Reader, ConsumerGroup, Conn, Batch, Dialer, Transport, Client, balancers)": "real code, instrumented through a build overlay (sync primitives -> zsimrt, scheduling points around channel ops/selects/go, owned map order)",
	"protocol, compress, sasl sub-packages": "real code, un-instrumented",
	"clock, timers, deadlines":              "fake (testing/synctest bubble, Go 1.26.8)",
	"TCP":                                   "stub (simnet, in-memory, seeded latency/faults)",
	"brokers, controller, group coordinator, SASL server": "model (simkafka) speaking an independent wire codec (refcodec)",
}

func workerCount() int {
	n := 16
	if v := os.Getenv("VERIF_WORKERS"); v != "" {
		if x, err := strconv.Atoi(v); err == nil && x > 0 {
			n = x
		}
	}
	return n
}

func seed() uint64 {
	if v := os.Getenv("VERIF_SEED"); v != "" {
		if x, err := strconv.ParseUint(v, 10, 64); err == nil {
			return x
		}
	}
	return 1
}

// runWorkers runs a scenario on N worker processes for a wall budget.
func runWorkers(bin string, sc scnSpec, sd uint64, budget time.Duration, tmp string) ([]RunLine, error) {
	n := workerCount()
	if sc.Flavour == "race" && os.Getenv("VERIF_WORKERS") == "" {
		n = 6 // each race worker runs its goroutines on 4 Ps
	}
	var wg sync.WaitGroup
	lines := make([][]RunLine, n)
	errs := make([]error, n)
	for w := 0; w < n; w++ {
		wg.Add(1)
		go func(w int) {
			defer wg.Done()
			deadline := time.Now().Add(budget)
			from := uint64(w)
			var left uint64
			if sc.Count > 0 {
				left = sc.Count / uint64(n)
				if uint64(w) < sc.Count%uint64(n) {
					left++
				}
				if left == 0 {
					return
				}
			}
			for attempt := 0; ; attempt++ {
				out := filepath.Join(tmp, fmt.Sprintf("%s-%d-%d.jsonl", sc.Name, w, attempt))
				rem := time.Until(deadline)
				if sc.Count == 0 && rem <= 0 {
					return
				}
				args := []string{"-test.run", "^TestSim$", "-test.timeout", "0", "-sim.scenario=" + sc.Name, fmt.Sprintf("-sim.seed=%d", sd),
					fmt.Sprintf("-sim.from=%d", from), fmt.Sprintf("-sim.stride=%d", n), "-sim.budget=" + rem.String(), "-sim.out=" + out, "-sim.params=" + sc.Params, "-sim.stop=false"}
				if sc.Count > 0 {
					args = append(args, fmt.Sprintf("-sim.count=%d", left))
				}
				chunked := false
				if sc.Flavour == "race" {
					args = append(args, "-sim.parallel")
					if sc.Count == 0 {
						// a fresh process every few hundred runs: the detector's
						// own bookkeeping (stack depot, shadow memory) does not
						// age well over tens of thousands of bubbles
						args = append(args, fmt.Sprintf("-sim.count=%d", raceRunsPerProcess))
						chunked = true
					}
				}
				cmd := exec.Command(bin, args...)
				if sc.MemLimitKB > 0 {
					// a decoder that tries to allocate what a hostile length asks for
					// must die in its own process, attributed to the case in flight
					sh := fmt.Sprintf("ulimit -v %d; exec \"$0\" \"$@\"", sc.MemLimitKB)
					cmd = exec.Command("sh", append([]string{"-c", sh, bin}, args...)...)
				}
				cmd.Env = append(os.Environ(), "GODEBUG=asyncpreemptoff=1")
				if sc.Flavour == "race" {
					lp := filepath.Join(tmp, fmt.Sprintf("race-%d-%d", w, attempt))
					cmd.Env = append(os.Environ(), "GOMAXPROCS=4", "VERIF_RACELOG="+lp, "GORACE=halt_on_error=0 exitcode=0 history_size=3 log_path="+lp)
				}
				ob, err := cmd.CombinedOutput()
				ls, rerr := readLines(out)
				lines[w] = append(lines[w], ls...)
				if err == nil {
					if rerr != nil {
						errs[w] = rerr
						return
					}
					if chunked && len(ls) >= raceRunsPerProcess && time.Until(deadline) > 0 {
						from = ls[len(ls)-1].Run + uint64(n)
						continue
					}
					return
				}
				if sc.Flavour == "race" && detectorCrash(string(ob)) {
					// the race detector's own runtime crashed (a SIGSEGV on the
					// system stack inside the sanitizer): machinery, not the
					// code under test. The run in flight is skipped and counted;
					// more than a few of these fail the check (exit 2).
					cur, _ := os.ReadFile(out + ".cur")
					run, _ := strconv.ParseUint(strings.TrimSpace(string(cur)), 10, 64)
					if k := detectorCrashes.Add(1); k > 6+int64(budget/(90*time.Second)) {
						errs[w] = fmt.Errorf("worker %d: the race detector's runtime crashed %d times", w, k)
						return
					}
					fmt.Fprintf(os.Stderr, "runner: NOTE the race detector's runtime crashed in %s seed=%d run=%d (worker %d restarted, run skipped)\n", sc.Name, sd, run, w)
					from = run + uint64(n)
					continue
				}
				// A worker that died inside library code (panic / fatal error with a
				// kafka-go frame on the crashing stack) is a finding about the code
				// under test, not machinery trouble: record it and carry on with the
				// next run index in a fresh process.
				crash := libraryCrash(string(ob))
				if crash == "" {
					o := string(ob)
					if len(o) > 6000 {
						o = o[:2500] + "\n...\n" + tail(o, 2500)
					}
					errs[w] = fmt.Errorf("worker %d: %v\n%s", w, err, o)
					return
				}
				cur, _ := os.ReadFile(out + ".cur")
				run, _ := strconv.ParseUint(strings.TrimSpace(string(cur)), 10, 64)
				lines[w] = append(lines[w], RunLine{Run: run, Ended: "crash", Violations: []Violation{{Property: "CRASH", Rule: "process-crash", Msg: crash}}})
				if sc.Count > 0 {
					done := uint64(len(ls)) + 1
					if done >= left {
						return
					}
					left -= done
				}
				from = run + uint64(n)
				if attempt > 200 {
					return
				}
			}
		}(w)
	}
	wg.Wait()
	var all []RunLine
	for _, l := range lines {
		all = append(all, l...)
	}
	for _, e := range errs {
		if e != nil {
			return all, e
		}
	}
	sort.Slice(all, func(i, j int) bool { return all[i].Run < all[j].Run })
	return all, nil
}

const raceRunsPerProcess = 200

var detectorCrashes atomic.Int64

// detectorCrash recognises a crash of the sanitizer runtime itself: a
// synchronous signal taken on a system stack (goroutine 0) with no Go frames.
func detectorCrash(out string) bool {
	i := strings.Index(out, "SIGSEGV: segmentation violation")
	if i < 0 {
		return false
	}
	rest := out[i:]
	j := strings.Index(rest, "\ngoroutine ")
	if j < 0 {
		return false
	}
	hdr := rest[j+1:]
	if k := strings.IndexByte(hdr, '\n'); k >= 0 {
		// the crashing goroutine is goroutine 0 and its block has no frames
		blockEnd := strings.Index(hdr, "\n\n")
		return strings.HasPrefix(hdr, "goroutine 0 ") && (blockEnd < 0 || blockEnd <= k+1)
	}
	return false
}

// libraryCrash recognises a Go panic / fatal error whose crashing goroutine
// has a kafka-go frame and returns a one-line description.
func libraryCrash(out string) string {
	if i := strings.Index(out, "WATCHDOG: no driver progress"); i >= 0 {
		// the driver could not run for a minute of real time: some goroutine
		// of the bubble kept running without reaching a scheduling point. If
		// that goroutine is executing library code it is a busy loop in the
		// code under test; anything else is machinery trouble.
		for _, blk := range strings.Split(out[i:], "\n\n") {
			h := firstLine(blk)
			if strings.HasPrefix(blk, "goroutine ") && strings.Contains(h, "synctest bubble") && (strings.Contains(h, "[running") || strings.Contains(h, "[runnable")) {
				for _, ln := range strings.Split(blk, "\n") {
					if strings.HasPrefix(ln, "github.com/segmentio/kafka-go") && !strings.Contains(ln, "/zsimrt.") {
						return "livelock: a library goroutine kept running for 60s of real time without blocking, at " + strings.TrimSpace(ln)
					}
				}
			}
		}
		return ""
	}
	i := strings.Index(out, "\npanic: ")
	if i < 0 {
		i = strings.Index(out, "\nfatal error: ")
	}
	if i < 0 {
		if strings.HasPrefix(out, "panic: ") || strings.HasPrefix(out, "fatal error: ") {
			i = 0
		} else {
			return ""
		}
	} else {
		i++
	}
	rest := out[i:]
	head := firstLine(rest)
	// the crashing goroutine: the first goroutine block that is running (a
	// fatal error prints the runtime's system stack first)
	crashing := ""
	for _, blk := range strings.Split(rest, "\n\n") {
		if strings.HasPrefix(blk, "goroutine ") && strings.Contains(firstLine(blk), "[running") {
			crashing = blk
			break
		}
	}
	if crashing == "" {
		blocks := strings.SplitN(rest, "\n\n", 3)
		if len(blocks) < 2 {
			return ""
		}
		crashing = blocks[1]
	}
	if !strings.Contains(crashing, "github.com/segmentio/kafka-go") {
		return ""
	}
	if strings.Contains(head, "WATCHDOG") {
		return ""
	}
	site := ""
	for _, ln := range strings.Split(crashing, "\n") {
		if strings.HasPrefix(ln, "github.com/segmentio/kafka-go") {
			site = strings.TrimSpace(ln)
			break
		}
	}
	return head + " at " + site
}

func tail(s string, n int) string {
	if len(s) > n {
		return s[len(s)-n:]
	}
	return s
}

func readLines(path string) ([]RunLine, error) {
	f, err := os.Open(path)
	if err != nil {
		return nil, err
	}
	defer f.Close()
	var out []RunLine
	sc := bufio.NewScanner(f)
	sc.Buffer(make([]byte, 1<<20), 256<<20)
	for sc.Scan() {
		var l RunLine
		if err := json.Unmarshal(sc.Bytes(), &l); err != nil {
			return out, fmt.Errorf("%s: %v", path, err)
		}
		out = append(out, l)
	}
	return out, sc.Err()
}

// replayOnce runs one tape in a fresh process.
func replayOnce(bin string, rf *ReplayFile, tmp string, trace bool) (*RunLine, error) {
	f, err := os.CreateTemp(tmp, "replay-*.json")
	if err != nil {
		return nil, err
	}
	b, _ := json.Marshal(rf)
	f.Write(b)
	f.Close()
	defer os.Remove(f.Name())
	out := f.Name() + ".out"
	defer os.Remove(out)
	var params []string
	for k, v := range rf.Params {
		params = append(params, k+"="+v)
	}
	sort.Strings(params)
	cmd := exec.Command(bin, "-test.run", "^TestSim$", "-test.timeout", "0", "-sim.scenario="+rf.Scenario, "-sim.replay="+f.Name(), "-sim.out="+out, "-sim.params="+strings.Join(params, ","))
	cmd.Env = append(os.Environ(), "GODEBUG=asyncpreemptoff=1")
	if rf.Flavour == "race" {
		lp := f.Name() + ".race"
		cmd.Args = append(cmd.Args, "-sim.parallel")
		cmd.Env = append(os.Environ(), "GOMAXPROCS=4", "VERIF_RACELOG="+lp, "GORACE=halt_on_error=0 exitcode=0 history_size=3 log_path="+lp)
	}
	ob, err := cmd.CombinedOutput()
	ls, _ := readLines(out)
	if len(ls) == 0 {
		return nil, fmt.Errorf("replay produced no result: %v\n%s", err, tail(string(ob), 2000))
	}
	return &ls[0], nil
}

// raceSig extracts the access-site pair from a data-race violation message.
func raceSig(msg string) string {
	l := firstLine(msg)
	if i := strings.Index(l, ": "); i >= 0 {
		l = l[i+2:]
	}
	return l
}

func hasRule(l *RunLine, prop, rule string) *Violation {
	for i := range l.Violations {
		if l.Violations[i].Property == prop && l.Violations[i].Rule == rule {
			return &l.Violations[i]
		}
	}
	return nil
}

func cloneTape(t map[string][]uint32) map[string][]uint32 {
	m := map[string][]uint32{}
	for k, v := range t {
		m[k] = append([]uint32(nil), v...)
	}
	return m
}

// minimise shrinks the tape towards the all-zero ("plain") tape while the same
// rule keeps firing. Streams are processed in an order that removes faults
// first, then workload, then scheduling noise.
func minimise(bin string, rf *ReplayFile, tmp string, budget time.Duration, maxCand int) *ReplayFile {
	deadline := time.Now().Add(budget)
	cands := 0
	best := *rf
	best.Tape = cloneTape(rf.Tape)
	try := func(t map[string][]uint32) bool {
		if time.Now().After(deadline) || cands >= maxCand {
			return false
		}
		cands++
		c := best
		c.Tape = t
		l, err := replayOnce(bin, &c, tmp, false)
		if err != nil || l == nil {
			return false
		}
		if v := hasRule(l, rf.Property, rf.Rule); v != nil {
			best.Tape = t
			best.Message = v.Msg
			best.Step = v.Step
			best.Digest = l.Digest
			return true
		}
		return false
	}
	order := []string{"fault", "preempt", "maporder", "lock", "sched", "net", "work", "cfg"}
	known := map[string]bool{}
	for _, o := range order {
		known[o] = true
	}
	var rest []string
	for k := range best.Tape {
		if !known[k] {
			rest = append(rest, k)
		}
	}
	sort.Strings(rest)
	order = append(order, rest...)
	for _, name := range order {
		if name == "cfg" {
			continue // the configuration is part of the case; shrinking it changes the scenario shape
		}
		vals := best.Tape[name]
		if len(vals) == 0 {
			continue
		}
		// 1. whole stream plain
		t := cloneTape(best.Tape)
		t[name] = nil
		if try(t) {
			continue
		}
		// 2. truncate the tail (binary search on the kept prefix)
		lo, hi := 0, len(vals)
		for lo < hi && time.Now().Before(deadline) && cands < maxCand {
			mid := (lo + hi) / 2
			t := cloneTape(best.Tape)
			t[name] = append([]uint32(nil), best.Tape[name][:mid]...)
			if try(t) {
				hi = mid
			} else {
				lo = mid + 1
			}
		}
		// 3. zero chunks
		for chunk := (len(best.Tape[name]) + 1) / 2; chunk >= 1 && time.Now().Before(deadline) && cands < maxCand; chunk /= 2 {
			for i := 0; i < len(best.Tape[name]); i += chunk {
				cur := best.Tape[name]
				allZero := true
				for j := i; j < i+chunk && j < len(cur); j++ {
					if cur[j] != 0 {
						allZero = false
					}
				}
				if allZero {
					continue
				}
				t := cloneTape(best.Tape)
				for j := i; j < i+chunk && j < len(t[name]); j++ {
					t[name][j] = 0
				}
				try(t)
			}
			if chunk == 1 {
				break
			}
		}
	}
	best.Minimised = true
	return &best
}

func loadFindings() []Finding {
	b, err := os.ReadFile(filepath.Join(verif, "known_findings.json"))
	if err != nil {
		return nil
	}
	var f struct {
		Findings []Finding `json:"findings"`
	}
	if err := json.Unmarshal(b, &f); err != nil {
		die(2, "known_findings.json: %v", err)
	}
	return f.Findings
}

func matchFinding(fs []Finding, v Violation) *Finding {
	for i := range fs {
		f := &fs[i]
		if f.Status != "finding" || f.Property != v.Property || f.Rule != v.Rule {
			continue
		}
		if f.Match == "" {
			continue
		}
		if ok, _ := regexp.MatchString(f.Match, v.Msg); ok {
			return f
		}
	}
	return nil
}

type agg struct {
	evals      int
	nontrivial map[string]bool
	digests    map[string]bool
	stats      map[string]int
	ended      map[string]int
	simMs      int64
	steps      int64
	wallUs     int64
	preHist    map[string]int
	leaks      int
}

func newAgg() *agg {
	return &agg{nontrivial: map[string]bool{}, digests: map[string]bool{}, stats: map[string]int{}, ended: map[string]int{}, preHist: map[string]int{}}
}

func (a *agg) add(l RunLine) {
	a.evals++
	a.simMs += l.SimMs
	a.steps += int64(l.Steps)
	a.wallUs += l.WallUs
	a.ended[l.Ended]++
	a.digests[l.Digest] = true
	faults := false
	for k, v := range l.Stats {
		a.stats[k] += v
		if strings.HasPrefix(k, "fault:") && v > 0 {
			faults = true
		}
	}
	progressed := l.Steps > 0 && (l.Ended == "done" || l.Stats["ops"] > 0)
	if progressed && (faults || l.Preempts > 0 || l.Overlap || l.Stats["nontrivial"] > 0) {
		a.nontrivial[l.Sig] = true
	}
	switch {
	case l.Preempts == 0:
		a.preHist["0"]++
	case l.Preempts <= 3:
		a.preHist["1-3"]++
	case l.Preempts <= 20:
		a.preHist["4-20"]++
	default:
		a.preHist[">20"]++
	}
	if l.Leak != "" {
		a.leaks++
	}
}

func main() {
	if len(os.Args) < 2 {
		die(2, "usage: runner check <PROP> <tier> | replay <file> | determinism <scenario>")
	}
	switch os.Args[1] {
	case "check":
		if len(os.Args) < 4 {
			die(2, "usage: runner check <PROP> <quick|thorough>")
		}
		os.Exit(cmdCheck(os.Args[2], os.Args[3]))
	case "replay":
		os.Exit(cmdReplay(os.Args[2]))
	case "determinism":
		params := ""
		if len(os.Args) > 3 {
			params = os.Args[3]
		}
		os.Exit(cmdDeterminism(os.Args[2], params))
	default:
		die(2, "unknown command %s", os.Args[1])
	}
}

func mktemp() string {
	base := os.Getenv("TMPDIR")
	if base == "" {
		base = "/tmp"
	}
	d, err := os.MkdirTemp(base, "verif-")
	if err != nil {
		die(2, "%v", err)
	}
	return d
}

func cmdCheck(prop, tier string) int {
	spec, ok := checks[prop]
	if !ok {
		die(2, "no check registered for %s", prop)
	}
	if tier != "quick" && tier != "thorough" {
		die(2, "tier must be quick or thorough")
	}
	start := time.Now()
	tmp := mktemp()
	defer os.RemoveAll(tmp)
	sd := seed()
	budget := spec.Quick
	if tier == "thorough" {
		budget = spec.Thorough
	}
	if v := os.Getenv("VERIF_BUDGET"); v != "" {
		if d, err := time.ParseDuration(v); err == nil {
			budget = d
		}
	}
	bins := map[string]string{}
	findings := loadFindings()
	total := newAgg()
	perScn := map[string]any{}
	type found struct {
		v   Violation
		l   RunLine
		sc  scnSpec
		bin string
	}
	var viols []found
	var samples []any
	exhaustive := true
	for _, sc := range spec.Scenarios {
		fl := sc.Flavour
		if fl == "" {
			fl = "plain"
		}
		if bins[fl] == "" {
			bins[fl] = build(tmp, fl)
		}
		b := time.Duration(float64(budget) * sc.Share)
		if sc.CountKey != "" {
			sc.Count = askCount(bins[fl], sc.CountKey)
		}
		scq := sc
		if tier == "quick" && sc.Count > 20000 {
			// quick tier of a large enumeration: budget-bounded seeded subset
			scq.Count = 0
		}
		if scq.Count == 0 {
			exhaustive = false
		}
		lines, err := runWorkers(bins[fl], scq, sd, b, tmp)
		if err != nil {
			fmt.Fprintf(os.Stderr, "runner: %v\n", err)
			return 2
		}
		a := newAgg()
		for _, l := range lines {
			a.add(l)
			total.add(l)
			if l.Panic != "" {
				viols = append(viols, found{Violation{Property: "HARNESS", Rule: "panic", Msg: firstLine(l.Panic)}, l, sc, bins[fl]})
			}
			for _, v := range l.Violations {
				if v.Property == "CRASH" {
					v.Property = prop
				}
				viols = append(viols, found{v, l, sc, bins[fl]})
			}
		}
		perScn[sc.Name+"{"+sc.Params+"}"] = map[string]any{"runs": a.evals, "distinct_schedule_signatures_nontrivial": len(a.nontrivial), "distinct_trace_digests": len(a.digests),
			"ended": a.ended, "stats": a.stats, "sim_seconds": a.simMs / 1000, "steps": a.steps}
		// samples: re-run the first two runs with a trace
		for i := 0; i < 2 && i < len(lines); i++ {
			rf := &ReplayFile{Scenario: sc.Name, Seed: sd, Run: lines[i].Run, Params: parseParams(sc.Params)}
			if l, err := sampleRun(bins[fl], rf, tmp); err == nil {
				tr := l.Trace
				if len(tr) > 40 {
					tr = tr[:40]
				}
				samples = append(samples, map[string]any{"scenario": sc.Name, "params": sc.Params, "seed": sd, "run": lines[i].Run, "steps": l.Steps, "ended": l.Ended, "stats": l.Stats, "first_events": tr, "notes": l.Notes})
			}
		}
	}

	// violations: dedupe per (property, rule), minimise, replay, report
	exit := 0
	seen := map[string]bool{}
	reported := 0
	knownPrinted := map[string]bool{}
	os.MkdirAll(filepath.Join(verif, "replays"), 0o755)
	for _, f := range viols {
		if f.v.Property == "HARNESS" {
			fmt.Fprintf(os.Stderr, "runner: harness panic in %s seed=%d run=%d: %s\n", f.sc.Name, sd, f.l.Run, f.l.Panic)
			return 2
		}
		if kf := matchFinding(findings, f.v); kf != nil {
			key := kf.Property + kf.Rule + kf.Match
			if !knownPrinted[key] {
				knownPrinted[key] = true
				fmt.Printf("KNOWN-FINDING: property=%s %s\n", kf.Property, kf.What)
			}
			continue
		}
		if f.v.Property == "SIM" && f.v.Rule == "harness-race" {
			fmt.Fprintf(os.Stderr, "runner: data race inside the harness (scenario %s seed=%d run=%d): %s\n", f.sc.Name, sd, f.l.Run, f.v.Msg)
			return 2
		}
		key := f.v.Property + "/" + f.v.Rule
		if f.v.Rule == "data-race" {
			key += "/" + raceSig(f.v.Msg)
		}
		if seen[key] {
			continue
		}
		seen[key] = true
		rf := &ReplayFile{Property: f.v.Property, Scenario: f.sc.Name, Rule: f.v.Rule, Message: f.v.Msg, Seed: sd, Run: f.l.Run,
			Params: parseParams(f.sc.Params), Tape: f.l.Tape, Step: f.v.Step, Digest: f.l.Digest, Flavour: f.sc.Flavour}
		if f.sc.Flavour != "race" && len(f.l.Tape) > 0 {
			mb := 45 * time.Second
			if tier == "quick" {
				mb = 20 * time.Second
			}
			rf = minimise(f.bin, rf, tmp, mb, 300)
			// confirm in a fresh process, with trace
			if l, err := replayOnce(f.bin, rf, tmp, true); err == nil && l != nil {
				if v := hasRule(l, rf.Property, rf.Rule); v != nil {
					rf.Message, rf.Step, rf.Digest = v.Msg, v.Step, l.Digest
					rf.Trace = l.Trace
				} else {
					fmt.Fprintf(os.Stderr, "runner: warning: minimised tape for %s did not replay; keeping the original tape\n", key)
					rf.Tape = f.l.Tape
					rf.Minimised = false
				}
			}
		}
		// the minimised, replayed case may turn out to be a listed finding
		if kf := matchFinding(findings, Violation{Property: rf.Property, Rule: rf.Rule, Msg: rf.Message}); kf != nil {
			key := kf.Property + kf.Rule + kf.Match
			if !knownPrinted[key] {
				knownPrinted[key] = true
				fmt.Printf("KNOWN-FINDING: property=%s %s\n", kf.Property, kf.What)
			}
			continue
		}
		rf.TapeLen = map[string]int{}
		for k, v := range rf.Tape {
			nz := 0
			for _, x := range v {
				if x != 0 {
					nz++
				}
			}
			rf.TapeLen[k] = nz
		}
		if f.sc.Flavour == "race" {
			rf.Tape = nil // replay is by seed: the program and the fault plan are the same, the overlap is up to the real scheduler
			rf.RaceSig = raceSig(f.v.Msg)
		}
		h := sha1.Sum([]byte(fmt.Sprintf("%s|%s|%d|%d|%v|%s", rf.Property, rf.Rule, rf.Seed, rf.Run, rf.Tape, rf.RaceSig)))
		path := filepath.Join(verif, "replays", fmt.Sprintf("%s-%s-%x.json", rf.Property, sanitize(rf.Rule), h[:5]))
		b, _ := json.MarshalIndent(rf, "", " ")
		os.WriteFile(path, b, 0o644)
		// a scenario shared between checks reports under the property its
		// oracle was written for; the line names the property being checked and
		// says which oracle fired
		if rf.Property != prop {
			fmt.Printf("VIOLATION property=%s replay=%s\n", prop, path)
			fmt.Printf("  (oracle of %s) rule=%s scenario=%s seed=%d run=%d step=%d: %s\n", rf.Property, rf.Rule, rf.Scenario, rf.Seed, rf.Run, rf.Step, rf.Message)
		} else {
			fmt.Printf("VIOLATION property=%s replay=%s\n", rf.Property, path)
			fmt.Printf("  rule=%s scenario=%s seed=%d run=%d step=%d: %s\n", rf.Rule, rf.Scenario, rf.Seed, rf.Run, rf.Step, rf.Message)
		}
		reported++
		exit = 1
	}

	wall := time.Since(start).Seconds()
	faults := map[string]int{}
	probes := map[string]int{}
	for k, v := range total.stats {
		if strings.HasPrefix(k, "fault:") {
			faults[strings.TrimPrefix(k, "fault:")] = v
		} else {
			probes[k] = v
		}
	}
	runWall := float64(total.wallUs) / 1e6
	ev := map[string]any{
		"property_id": prop,
		"tier":        tier,
		"seed":        sd,
		"level":       spec.Level,
		"wall_s":      wall,
		"violations":  reported,
		"assumptions": append([]string{
			"testing/synctest (Go 1.26.8) fake clock and quiescence detection are correct",
			"the overlay instrumentation (zsimrt) preserves the semantics of sync.Mutex/RWMutex/Once/Cond/WaitGroup and channel operations",
			"simkafka models broker behaviour faithfully for the APIs exercised; refcodec follows the Kafka protocol definition",
		}, spec.Assume...),
		"coverage": map[string]any{
			"evaluations":            total.evals,
			"distinct_nontrivial":    len(total.nontrivial),
			"rule":                   spec.Rule + " A run is non-trivial when it completed its workload (or at least one operation) and at least one fault fired, a pre-emption happened or two goroutines were runnable at once; distinct = distinct schedule signatures (hash of the sequence of (event kind, scheduling site / network event) of the run).",
			"samples":                samples,
			"exhaustive":             exhaustive,
			"distinct_trace_digests": len(total.digests),
			"runs_per_hour":          int(float64(total.evals) / wall * 3600),
			"simulated_seconds":      total.simMs / 1000,
			"driver_steps":           total.steps,
			"cpu_seconds_in_runs":    runWall,
			"faults_fired":           faults,
			"probes":                 probes,
			"run_endings":            total.ended,
			"preemptions_per_run":    total.preHist,
			"per_scenario":           perScn,
			"workers":                workerCount(),
			"real_vs_stub":           stubTable,
			"goroutine_leak_reports": total.leaks,
			// race flavour only: crashes of the sanitizer runtime itself (worker restarted, run skipped)
			"race_detector_runtime_crashes": detectorCrashes.Load(),
		},
	}
	os.MkdirAll(filepath.Join(verif, "evidence"), 0o755)
	eb, _ := json.MarshalIndent(ev, "", " ")
	if err := os.WriteFile(filepath.Join(verif, "evidence", prop+".json"), eb, 0o644); err != nil {
		die(2, "%v", err)
	}
	fmt.Printf("%s %s: %d runs, %d distinct non-trivial schedules, %d violations, %.1fs\n", prop, tier, total.evals, len(total.nontrivial), reported, wall)
	return exit
}

// askCount asks the simulation binary how large an enumerated case space is.
func askCount(bin, key string) uint64 {
	out, err := exec.Command(bin, "-test.run", "^TestCounts$").CombinedOutput()
	if err != nil {
		die(2, "TestCounts: %v\n%s", err, out)
	}
	m := regexp.MustCompile(key + `=(\d+)`).FindSubmatch(out)
	if m == nil {
		die(2, "TestCounts: no %s in %s", key, out)
	}
	n, _ := strconv.ParseUint(string(m[1]), 10, 64)
	return n
}

func firstLine(s string) string {
	if i := strings.IndexByte(s, '\n'); i >= 0 {
		return s[:i]
	}
	return s
}

func sanitize(s string) string {
	return regexp.MustCompile(`[^A-Za-z0-9_.-]`).ReplaceAllString(s, "_")
}

func parseParams(s string) map[string]string {
	m := map[string]string{}
	for _, kv := range strings.Split(s, ",") {
		if kv == "" {
			continue
		}
		k, v, _ := strings.Cut(kv, "=")
		m[k] = v
	}
	return m
}

// sampleRun re-runs one (seed, run) with tracing to obtain a written-out sample.
func sampleRun(bin string, rf *ReplayFile, tmp string) (*RunLine, error) {
	out := filepath.Join(tmp, "sample.jsonl")
	defer os.Remove(out)
	var params []string
	for k, v := range rf.Params {
		params = append(params, k+"="+v)
	}
	sort.Strings(params)
	cmd := exec.Command(bin, "-test.run", "^TestSim$", "-test.timeout", "0", "-sim.scenario="+rf.Scenario, fmt.Sprintf("-sim.seed=%d", rf.Seed),
		fmt.Sprintf("-sim.from=%d", rf.Run), "-sim.count=1", "-sim.trace", "-sim.out="+out, "-sim.params="+strings.Join(params, ","))
	cmd.Env = append(os.Environ(), "GODEBUG=asyncpreemptoff=1")
	if ob, err := cmd.CombinedOutput(); err != nil {
		return nil, fmt.Errorf("%v: %s", err, tail(string(ob), 500))
	}
	ls, err := readLines(out)
	if err != nil || len(ls) == 0 {
		return nil, fmt.Errorf("no sample")
	}
	// tracing was requested via -sim.trace but traces are only emitted for bad runs; re-read notes only
	return &ls[0], nil
}

func cmdReplay(path string) int {
	b, err := os.ReadFile(path)
	if err != nil {
		die(2, "%v", err)
	}
	var rf ReplayFile
	if err := json.Unmarshal(b, &rf); err != nil {
		die(2, "%v", err)
	}
	tmp := mktemp()
	defer os.RemoveAll(tmp)
	fl := rf.Flavour
	if fl == "" {
		fl = "plain"
	}
	bin := build(tmp, fl)
	if fl == "race" {
		// same seed = same program and fault plan; whether the two accesses
		// overlap is decided by the real scheduler: up to 20 attempts, and only
		// the same pair of access sites counts as a reproduction
		for attempt := 1; attempt <= 20; attempt++ {
			l, err := replayOnce(bin, &rf, tmp, false)
			if err != nil {
				die(2, "%v", err)
			}
			for _, v := range l.Violations {
				if v.Property == rf.Property && v.Rule == rf.Rule && raceSig(v.Msg) == rf.RaceSig {
					fmt.Printf("VIOLATION property=%s replay=%s\n  rule=%s attempt=%d: %s\n", rf.Property, path, v.Rule, attempt, v.Msg)
					return 1
				}
			}
		}
		fmt.Printf("replay of %s did not reproduce the race %s in 20 attempts\n", path, rf.RaceSig)
		return 0
	}
	l, err := replayOnce(bin, &rf, tmp, true)
	if err != nil {
		die(2, "%v", err)
	}
	for _, t := range l.Trace {
		fmt.Println(t)
	}
	if v := hasRule(l, rf.Property, rf.Rule); v != nil {
		same := l.Digest == rf.Digest && v.Step == rf.Step
		fmt.Printf("VIOLATION property=%s replay=%s\n  rule=%s step=%d digest=%s identical_trace=%v: %s\n", rf.Property, path, v.Rule, v.Step, l.Digest, same, v.Msg)
		return 1
	}
	fmt.Printf("replay of %s did not reproduce %s/%s (ended %s after %d steps)\n", path, rf.Property, rf.Rule, l.Ended, l.Steps)
	return 0
}

// cmdDeterminism: same seeds in many processes, different GOMAXPROCS; digests must agree.
func cmdDeterminism(scn, params string) int {
	tmp := mktemp()
	defer os.RemoveAll(tmp)
	bin := build(tmp, "plain")
	const procs = 30
	count := 40
	if v := os.Getenv("VERIF_DET_COUNT"); v != "" {
		count, _ = strconv.Atoi(v)
	}
	outs := make([]string, procs)
	var wg sync.WaitGroup
	sem := make(chan struct{}, 16)
	for i := 0; i < procs; i++ {
		wg.Add(1)
		go func(i int) {
			defer wg.Done()
			sem <- struct{}{}
			defer func() { <-sem }()
			out := filepath.Join(tmp, fmt.Sprintf("det-%d.jsonl", i))
			cmd := exec.Command(bin, "-test.run", "^TestSim$", "-test.timeout", "0", "-sim.scenario="+scn, fmt.Sprintf("-sim.seed=%d", seed()),
				fmt.Sprintf("-sim.count=%d", count), "-sim.out="+out, "-sim.params="+params, "-sim.stop=false")
			gmp := []string{"1", "4", "16"}[i%3]
			cmd.Env = append(os.Environ(), "GOMAXPROCS="+gmp)
			cmd.CombinedOutput()
			ls, _ := readLines(out)
			var sb strings.Builder
			for _, l := range ls {
				fmt.Fprintf(&sb, "%d:%s:%d\n", l.Run, l.Digest, l.Steps)
			}
			outs[i] = sb.String()
		}(i)
	}
	wg.Wait()
	bad := 0
	for i := 1; i < procs; i++ {
		if outs[i] != outs[0] {
			bad++
			a, b := strings.Split(outs[0], "\n"), strings.Split(outs[i], "\n")
			for j := range a {
				if j >= len(b) || a[j] != b[j] {
					fmt.Printf("process %d diverges at run line %d: %q vs %q\n", i, j, a[j], safeIdx(b, j))
					break
				}
			}
		}
	}
	fmt.Printf("determinism %s: %d processes x %d runs, %d diverging processes\n", scn, procs, count, bad)
	if bad > 0 {
		return 2
	}
	return 0
}

func safeIdx(s []string, i int) string {
	if i < len(s) {
		return s[i]
	}
	return "<missing>"
}
